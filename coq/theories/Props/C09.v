(* C09 -- The on-disk transaction log is one contiguous, self-verifying chain.
   ONLY statements.  [Chain s]: consecutive files link (min = previous max + 1, pre-checksum =
   previous post-checksum) and the last file ends at the current position.  File integrity
   ("every file passes its own check") and file naming (temporary files are not counted) are
   properties of the bytes on disk: the harness decodes and verifies every file after every
   step and lists the directory with the same name filter (correspondence), they are not part
   of the model. *)
From Coq Require Import NArith List Bool.
Require Import LF.Gen.ConstsGen LF.Model.PageDB LF.Proofs.XorLib LF.Proofs.ChecksumProofs LF.Proofs.CaptureProofs LF.Proofs.ChainProofs LF.Proofs.HistoryProofs LF.Proofs.SqlCheckpointProofs LF.Proofs.ComposeProofs LF.Proofs.ChainHistoryProofs LF.Proofs.ImportHistoryProofs.
Import ListNotations.
Local Open Scope N_scope.

(* every history of local commits (both modes), drops, replicated applies, snapshots, checkpoints,
   restarts and retention sweeps keeps the chain, provided each operation completes and sweeps see
   ages that do not decrease with the TXID *)
Theorem C09_chain_invariant : forall lock ops s,
  all_ok (init lock) ops -> run_ops (init lock) ops = Some s -> Chain s.
Proof. exact chain_invariant. Qed.

Theorem C09_chain_step : forall s o s', Chain s -> ok_op s o -> step s o = (Done, s') -> Chain s'.
Proof. exact chain_step. Qed.

(* a received snapshot replaces the whole chain *)
Theorem C09_snapshot_replaces_chain : forall s f s',
  is_snapshot f = true -> op_receive s f = (Done, s') -> ltxdir s' = [f].
Proof. exact snapshot_replaces_chain. Qed.

(* retention: never the newest file; with a backup service never a file at or above the
   high-water mark; for EVERY age assignment (no monotonicity needed for these two) *)
Theorem C09_retention_keeps_newest : forall old backup hwm d z,
  d <> [] -> last (retention d old backup hwm) z = last d z.
Proof. exact retention_keeps_newest. Qed.
Theorem C09_retention_respects_hwm : forall old hwm f d,
  In f d -> hwm <= l_max f -> In f (retention d old true hwm).
Proof. exact retention_respects_hwm. Qed.
Theorem C09_retention_only_removes : forall old backup hwm f d,
  In f (retention d old backup hwm) -> In f d.
Proof. exact retention_subset. Qed.

(* Non-vacuity: three commits, a sweep that removes the two oldest files, a drop *)
Example C09_nonvacuous :
  let p n h := mkPg (fl h) (if n =? 1 then 1 else 0) false in
  run_ops (init 2097153) [OWrite 1 (p 1 1); OCommitJournal 1; OWrite 1 (p 1 2); OCommitJournal 1;
                          OWrite 1 (p 1 3); OCommitJournal 1; ORetention [true; true; true] false 0; ODrop] <> None /\
  match run_ops (init 2097153) [OWrite 1 (p 1 1); OCommitJournal 1; OWrite 1 (p 1 2); OCommitJournal 1;
                          OWrite 1 (p 1 3); OCommitJournal 1; ORetention [true; true; true] false 0; ODrop] with
  | Some s => map l_max (ltxdir s) = [3; 4] | None => False end.
Proof. vm_compute. split; [discriminate|reflexivity]. Qed.

(* ---- over the histories of C04_history ----
   [run_gsteps] is the history language of Props/C04.v: rollback-journal transactions with spills, rollbacks and failed
   finalisations, the switch to WAL mode, WAL commits, LiteFS's and SQLite's checkpoints, the way back, restarts, files
   from the stream and forwarded files (applied or refused), drops, imports.  After EVERY such history from an empty node
   the kept files link and the last one ends at the node's position - with no premise at all on the steps. *)
Theorem C09_history_chain : forall lock gs s' v',
  run_gsteps (init lock) (fun _ => 0) gs = Some (s', v') -> Chain s'.
Proof. exact g_history_chain. Qed.

(* ... and with retention sweeps (any ages, with or without a backup service, any high-water mark) at any point between
   two steps, provided each sweep sees ages that do not decrease with the transaction id ([ok_op]: what it may remove
   is a prefix of the directory) *)
Theorem C09_history_chain_with_sweeps : forall lock cs s',
  ok_csteps (init lock) cs -> run_csteps (init lock) cs = Some s' -> Chain s'.
Proof. exact c_history_chain. Qed.

(* one step of such a history from ANY state that has a chain (a restored, snapshotted or restarted node) *)
Theorem C09_history_step : forall s c s', Chain s -> cok s c -> crun s c = Some s' -> Chain s'.
Proof. exact c_chain_step. Qed.

(* a file that is not applied is either refused - nothing changes, the log included - or fatal; never a failure that
   leaves the file in the log *)
Theorem C09_refused_file_changes_nothing : forall s f ok s',
  (op_receive s f = (Failed, s') -> s' = s) /\ (op_forward s f ok = (Failed, s') -> s' = s).
Proof. intros s f ok s'. split; [exact (receive_failed_same s f s')|exact (forward_failed_same s f ok s')]. Qed.

(* the log verifies the database: after every (well-formed) history of those steps the newest file ends at the node's
   position and its post-apply checksum is the from-scratch checksum of the logical database (the database file in
   rollback-journal mode, the file overlaid with the log's committed frames [v'] in WAL mode: Props/C04.v) - the number a
   replica checks the file against is the checksum of the database itself *)
Theorem C09_history_newest_file_verifies_database : forall lock gs s' v' f rest,
  1 <= lock -> wf_gsteps (init lock) gs -> run_gsteps (init lock) (fun _ => 0) gs = Some (s', v') ->
  rev (ltxdir s') = f :: rest ->
  l_max f = txid s' /\
  (wal_mode s' = false -> txid s' <> 0 -> l_post f = scratch (fun p => if p =? lock then 0 else file_h s' p) (pageN s')) /\
  (wal_mode s' = true -> l_post f = scratch (fun p => if p =? lock then 0 else v' p) (pageN s')).
Proof. exact g_history_newest_file. Qed.

(* Non-vacuity of the above: the fifteen steps of Props/C04.v's example history; the newest file is 10-10 and carries the
   checksum of the imported two-page database *)
Example C09_history_newest_file_nonvacuous :
  let gs := import_example_history ++ [GImport import_example_image 2] in
  wf_gsteps (init 2097153) gs /\
  match run_gsteps (init 2097153) (fun _ => 0) gs with
  | Some (s', _) => match rev (ltxdir s') with
                    | f :: _ => (wal_mode s', l_max f, l_post f =? fl (N.lxor (fl 41) (fl 42)), txid s') = (false, 10, true, 10)
                    | [] => False
                    end
  | None => False
  end.
Proof. exact full_history_example_log. Qed.

(* Non-vacuity: two rollback-journal transactions; a sweep that removes the first file; the switch to WAL mode; a WAL
   commit; a sweep under a backup service that has confirmed up to 4; a restart; a stray file from the stream (refused); a
   drop; a sweep (the tombstone's file, the newest, stays); an import.  The side condition of every sweep holds and the
   log ends as [5-5; 6-6] at position 6. *)
Example C09_history_nonvacuous :
  ok_csteps (init 2097153) chain_example /\
  match run_csteps (init 2097153) chain_example with
  | Some s => (txid s, map l_min (ltxdir s), map l_max (ltxdir s)) = (6, [5; 6], [5; 6])
  | None => False
  end.
Proof. exact chain_history_example. Qed.
