(* C11 -- LiteFS's internal writers and SQLite connections exclude each other.  ONLY statements.
   Model/Locks.v: the twelve locks of a database as twelve instances of the GENERATED RWMutex
   model (Gen/RWMutexGen.v), owners = guard ids, unboundedly many; DB.TryLocks / TryRLocks /
   Unlock / CanLock / CanRLock and TryAcquireWriteLock as functions on that table.
   [TInv t]: every lock satisfies the RWMutex invariant of C12 (holds in every reachable table,
   C11_reachable_inv).  A "conflicting read or write lock" of an application connection is, by
   SQLite's protocol, one of PENDING/RESERVED/SHARED (rollback mode) or WRITE/CKPT/RECOVER/READ0-4
   (WAL mode); beginning to read or write means acquiring SHARED resp. a READ lock. *)
From Coq Require Import NArith List Bool.
Require Import LF.Gen.LockScriptsGen LF.Base.RWBase LF.Gen.RWMutexGen LF.Gen.ConstsGen LF.Model.RWMutex LF.Proofs.RWMutexProofs LF.Model.Locks LF.Proofs.LocksProofs.
Import ListNotations.
Local Open Scope nat_scope.

(* a granted internal write lock: exclusive on every conflicting lock, all other owners unlocked there,
   other owners' guards untouched *)
Theorem C11_internal_write_excludes : forall t g wal t',
  TInv t -> (forall l, gst (t l) g = Unlocked) ->
  try_acquire_write t g wal = Some (true, t') ->
  TInv t' /\ (forall l h, h <> g -> gst (t' l) h = gst (t l) h) /\
  (wal = false -> excl_held t' g LReserved /\ excl_held t' g LPending /\ excl_held t' g LShared) /\
  (wal = true -> excl_held t' g LWrite /\ excl_held t' g LCkpt /\ excl_held t' g LRecover /\
                 excl_held t' g LRead0 /\ excl_held t' g LRead1 /\ excl_held t' g LRead2 /\ excl_held t' g LRead3 /\ excl_held t' g LRead4 /\
                 gst (t' LShared) g = Shared /\ gst (t' LDMS) g = Shared).
Proof. exact internal_write_excludes. Qed.

(* until it is released every attempt of another owner on such a lock is refused and changes nothing:
   no application can begin reading or writing *)
Theorem C11_held_blocks_others : forall t l g h,
  TInv t -> gst (t l) g = Exclusive -> h <> g ->
  (exists t', t_trylock t l h = Some (false, t') /\ forall l' k, gst (t' l') k = gst (t l') k) /\
  (exists t', t_tryrlock t l h = Some (false, t') /\ forall l' k, gst (t' l') k = gst (t l') k).
Proof. exact held_blocks_others. Qed.

(* a refused attempt releases everything it took and touches nobody else; the attempt never gets stuck *)
Theorem C11_all_or_nothing : forall t g wal t',
  TInv t -> try_acquire_write t g wal = Some (false, t') ->
  TInv t' /\ (forall l h, h <> g -> gst (t' l) h = gst (t l) h) /\ (forall l, gst (t' l) g = Unlocked).
Proof. exact internal_write_all_or_nothing. Qed.
Theorem C11_internal_write_total : forall t g wal, TInv t -> exists b t', try_acquire_write t g wal = Some (b, t').
Proof. exact internal_write_total. Qed.

(* a checkpoint lock is never granted to one connection while another holds the WAL write lock *)
Theorem C11_ckpt_gating : forall ls t g t', TInv t -> try_locks t g ls = Some (true, t') -> In LCkpt ls ->
  forall h, h <> g -> gst (t LWrite) h = Unlocked.
Proof. exact ckpt_gating. Qed.

(* WAL writes are refused unless some owner holds WRITE exclusively *)
Theorem C11_wal_write_allowed_iff : forall t, TInv t -> (wal_write_allowed t = true <-> exists g, gst (t LWrite) g = Exclusive).
Proof. exact wal_write_allowed_iff. Qed.

(* byte ranges map to exactly the lock bytes they contain; the HALT byte is never among them *)
Theorem C11_parse_db_range : forall a b l,
  In l (parse_db_range a b) <-> (In l [LPending; LReserved; LShared] /\ (a <= lock_byte l /\ lock_byte l <= b)%N).
Proof. exact parse_db_range_correct. Qed.
Theorem C11_parse_shm_range : forall a b l,
  In l (parse_shm_range a b) <-> (In l [LWrite; LCkpt; LRecover; LRead0; LRead1; LRead2; LRead3; LRead4; LDMS] /\ (a <= lock_byte l /\ lock_byte l <= b)%N).
Proof. exact parse_shm_range_correct. Qed.
Theorem C11_halt_never_parsed : forall l, lock_byte l <> c_LockTypeHalt.
Proof. exact halt_never_parsed. Qed.

(* the modelled script is the one generated from db.go *)
Theorem C11_write_script_is_generated : forall wal,
  write_script wal = acts_of (gen_write_common ++ (if wal then gen_write_wal else gen_write_rollback)).
Proof. exact write_script_is_generated. Qed.

(* flushing a database-file handle releases PENDING / RESERVED / SHARED of that owner and nothing else *)
Theorem C11_unlock_database_keeps_shm : forall t g t', TInv t -> unlock_all t g db_locks = Some t' ->
  (forall l, In l shm_locks -> gst (t' l) g = gst (t l) g) /\ (forall l h, h <> g -> gst (t' l) h = gst (t l) h).
Proof. exact unlock_database_keeps_shm. Qed.

(* the invariant holds in every table reachable through the API *)
Theorem C11_reachable_inv : forall t o c t', TInv t -> lstep t o = Some (c, t') -> TInv t'.
Proof. exact lstep_inv. Qed.
Theorem C11_init_inv : TInv tinit.
Proof. exact tinit_inv. Qed.

(* Non-vacuity: a reader blocks the internal writer (rollback mode); after it leaves the writer gets in and
   blocks a new reader; in WAL mode CKPT is refused to owner 2 while owner 1 holds WRITE *)
Example C11_nonvacuous :
  lrun tinit [OTryRLocks 1 [0]; OTryRLocks 1 [1]; OUnlockL 1 [0]; OAcquireWrite 100 false; OUnlockL 1 [1];
              OAcquireWrite 101 false; OTryRLocks 2 [0]; OReleaseAll 101; OTryLocks 1 [3]; OTryLocks 2 [4]; OTryLocks 1 [4]]
  = [1; 1; 2; 0; 2; 1; 0; 2; 1; 0; 1].
Proof. vm_compute. reflexivity. Qed.

(* Where the exclusion does NOT carry over (known finding, C11:halted-mode-switch): the guard set LiteFS takes for a
   WAL-mode database holds the database file's SHARED lock only shared (C11_internal_write_excludes, wal = true).  That
   keeps WAL-mode connections out - they need a READ lock - but not a rollback-journal connection, which needs PENDING
   and SHARED only.  A halt lock keeps its guard set for its whole life; if the holder switches the journal mode and the
   switch is forwarded, local connections of the new mode get in while forwarded transactions are applied.  Witness: *)
Example C11_wal_guard_admits_rollback_reader_refuted :
  match try_acquire_write tinit 100 true with
  | Some (true, t1) =>
    match t_tryrlock t1 LPending 8 with
    | Some (true, t2) => match t_tryrlock t2 LShared 8 with Some (b, _) => b | None => false end
    | _ => false
    end
  | _ => false
  end = true.
Proof. vm_compute. reflexivity. Qed.
