(* C03 -- WAL-mode commits are captured exactly when the write lock is released.
   ONLY statements.  Model/PageDB.v: [op_commit_wal s frames commit] is CommitWAL for the
   complete committed transaction [frames] (write order, repeated pages allowed) found at the
   current WAL offset; whether such a transaction exists in the bytes of the WAL (salts,
   cumulative checksums, commit frame) is decided by the byte-level model of C17
   (Props/C17.v, buildTxFrameOffsets). *)
From Coq Require Import NArith List Bool.
Require Import LF.Gen.ConstsGen LF.Model.PageDB LF.Proofs.XorLib LF.Proofs.ChecksumProofs LF.Proofs.CaptureProofs LF.Proofs.HistoryProofs LF.Proofs.WalHistoryProofs LF.Proofs.WalCheckpointProofs LF.Proofs.SqlCheckpointProofs LF.Proofs.WalLogHistoryProofs.
Import ListNotations.
Local Open Scope N_scope.

(* one new file, TXID + 1, pre-checksum = previous checksum, size from the commit frame; the file
   holds exactly the LAST frame of every page the transaction wrote, the lock page skipped, and
   nothing else: no frame of another (rolled-back, earlier-generation) transaction can appear *)
Theorem C03_wal_commit_exact : forall s frames commit s',
  op_commit_wal s frames commit = (Done, s') ->
  exists f, ltxdir s' = ltxdir s ++ [f] /\
    l_min f = txid s + 1 /\ l_max f = txid s + 1 /\ l_pre f = chk s /\ l_post f = chk s' /\ l_commit f = commit /\
    txid s' = txid s + 1 /\ pageN s' = commit /\ dbfile s' = dbfile s /\
    (forall p q, In (p, q) (l_pages f) <-> (p <> lockpg s /\ p <= commit /\ last_frame p frames = Some q)).
Proof. exact wal_commit_exact. Qed.

(* and the checksum it reports is the from-scratch one (shared with C04) *)
Theorem C03_wal_commit_checksum : forall s frames commit s',
  CacheOK s -> LockZero s -> (forall p, pageN s < p -> dbc s p = 0) ->
  op_commit_wal s frames commit = (Done, s') ->
  chk s' = scratch (eff s commit (tx_new s frames commit)) commit /\
  txid s' = txid s + 1 /\ pageN s' = commit /\ CacheOK s' /\ (forall p, dbc s' p = dbc s p).
Proof. exact commit_wal_checksum. Qed.

(* Non-vacuity: a 257-page WAL database shrunk to 256 pages by a transaction that writes page 1
   twice and page 5 once: the file holds the last version of page 1 and page 5 only *)
Example C03_nonvacuous :
  let pages := map (fun p => OWrite p (mkPg (fl (p * 7919)) (if p =? 1 then 257 else 0) (p =? 1))) (seqN 1 257) in
  let s := snd (run_group (init 2097153) (pages ++ [OCommitJournal 257; OWalHeader])) in
  let '(o, s') := op_commit_wal s [(1, mkPg (fl 5) 256 true); (5, mkPg (fl 6) 0 false); (1, mkPg (fl 7) 256 true)] 256 in
  (o, txid s', pageN s', map (fun f => map (fun kv => (fst kv, pg_h (snd kv))) (l_pages f)) (skipn 1 (ltxdir s')))
  = (Done, 2, 256, [[(1, fl 7); (5, fl 6)]]).
Proof. vm_compute. reflexivity. Qed.

(* ... and a transaction that spilled page 8 and then shrank an 8-page database to 6 pages: the page is in the log but
   not in the database the transaction leaves, and not in the file (p <= commit in C03_wal_commit_exact) *)
Example C03_spill_then_shrink :
  let pages := map (fun p => OWrite p (mkPg (fl (p * 7919)) (if p =? 1 then 8 else 0) (p =? 1))) (seqN 1 8) in
  let s := snd (run_group (init 2097153) (pages ++ [OCommitJournal 8; OWalHeader])) in
  let '(o, s') := op_commit_wal s [(8, mkPg (fl 18) 0 false); (2, mkPg (fl 12) 0 false); (1, mkPg (fl 11) 6 true)] 6 in
  (o, txid s', pageN s', map (fun f => map (fun kv => (fst kv, pg_h (snd kv))) (l_pages f)) (skipn 1 (ltxdir s')))
  = (Done, 2, 6, [[(1, fl 11); (2, fl 12)]]).
Proof. vm_compute. reflexivity. Qed.

(* "Exactly once, in order", along histories, in WAL mode too.  [hs]: any rollback-journal history from an empty node; the
   transaction that switches to WAL mode; [os]: WAL commits, LiteFS checkpoints, pages copied by SQLite, SQLite's complete
   checkpoint with the restart of the log, in any order ([wf_wops2] as in C04_wal_full_history).  For EVERY such history the
   log holds exactly one file per committed transaction - rollback-journal or WAL -, the k-th numbered k; a checkpoint of
   any kind publishes nothing.  (Chained: C09's chain invariant; the right pages: C03_wal_commit_exact; replaying them
   reproduces the logical database: C01_follower_identical_wal.) *)
Theorem C03_history_once_in_order : forall lock hs zf acts c os s1 s2 s' v',
  1 <= lock -> wf_hist (init lock) hs -> run_hsteps (init lock) hs = Some s1 ->
  wf_tx_any s1 zf acts -> run_group s1 (hops s1 (HTx zf acts c)) = (0, s2) -> wal_mode s2 = true ->
  wf_wops2 s2 os -> run_wops2 s2 (file_h s2) os = Some (s', v') ->
  map (fun f => (l_min f, l_max f)) (ltxdir s') = map (fun t => (t, t)) (seqN 1 (N.to_nat (txid s'))) /\
  length (ltxdir s') = N.to_nat (txid s').
Proof. exact wal_log_once_in_order. Qed.
Print Assumptions C03_history_once_in_order.

(* Non-vacuity: five transactions (two under a rollback journal, three in the log), three checkpoints of three kinds *)
Example C03_history_nonvacuous :
  let pg h := mkPg (fl h) 0 false in
  let pw h := mkPg (fl h) 0 true in
  let hs := [HTx [] [AWrite 1 (pg 11); AWrite 2 (pg 12)] 2] in
  let sw := [AWrite 1 (pw 13)] in
  let os := [W2Commit [(2, pw 22); (3, pw 33); (2, pw 23)] 3; W2BackfillOld 2 (pw 22); W2Backfill 2; W2Commit [(1, pw 14)] 2; W2SqlRestart;
             W2Commit [(3, pw 35); (1, pw 15)] 3; W2Checkpoint] in
  exists s1 s2,
    wf_hist (init 2097153) hs /\ run_hsteps (init 2097153) hs = Some s1 /\
    wf_tx_any s1 [] sw /\ run_group s1 (hops s1 (HTx [] sw 2)) = (0, s2) /\ wal_mode s2 = true /\
    wf_wops2 s2 os /\
    match run_wops2 s2 (file_h s2) os with
    | Some (s', v') => (txid s', map (fun f => (l_min f, l_max f)) (ltxdir s'), map (fun f => map fst (l_pages f)) (ltxdir s'))
                       = (5, [(1, 1); (2, 2); (3, 3); (4, 4); (5, 5)], [[1; 2]; [1]; [2; 3]; [1]; [1; 3]])
    | None => False
    end.
Proof. exact wal_log_example. Qed.

(* ---- capture, read off the log, over the histories of C04_history (Props/C04.v) ----
   After EVERY (well-formed) history of those steps - in either journal mode - the newest transaction file has the
   database's size and position, and every page it names is the logical database's version of that page ([lpage]: the
   log's last committed frame for the page, else the database file's page): what was captured at the last write-lock
   release is exactly what SQLite committed, nothing of an earlier or aborted generation. *)
Require Import LF.Proofs.ComposeProofs LF.Proofs.FollowWalProofs LF.Proofs.RestartHistoryProofs LF.Proofs.PrimaryRestartProofs.
Theorem C03_history_newest_file_is_logical_database : forall lock gs s v f rest,
  1 <= lock -> wf_gsteps (init lock) gs -> run_gsteps (init lock) (fun _ => 0) gs = Some (s, v) ->
  rev (ltxdir s) = f :: rest ->
  l_commit f = pageN s /\ l_max f = txid s /\ l_post f = chk s /\
  forall p q, In (p, q) (l_pages f) -> 1 <= p <= l_commit f -> lpage s p = q.
Proof. exact g_history_last_agree. Qed.
Print Assumptions C03_history_newest_file_is_logical_database.

(* Non-vacuity: create, restart, switch to WAL mode, a WAL transaction that rewrites page 2 twice and grows the database:
   the newest file 3-3 holds the last version of each page *)
Example C03_history_newest_file_nonvacuous :
  let pw h n := mkPg (fl h) n true in
  wf_gsteps (init 2097153) restart_example_history /\
  match run_gsteps (init 2097153) (fun _ => 0) restart_example_history with
  | Some (s, _) => match rev (ltxdir s) with
                   | f :: _ => (l_min f, l_max f, l_commit f, l_pages f, map (lpage s) [1; 2; 3], pageN s)
                               = (3, 3, 3, [(1, pw 14 3); (2, pw 23 0); (3, pw 33 0)], [pw 14 3; pw 23 0; pw 33 0], 3)
                   | [] => False
                   end
  | None => False
  end.
Proof. exact last_agree_example. Qed.
