(* C03 -- WAL-mode commits are captured exactly when the write lock is released.
   ONLY statements.  Model/PageDB.v: [op_commit_wal s frames commit] is CommitWAL for the
   complete committed transaction [frames] (write order, repeated pages allowed) found at the
   current WAL offset; whether such a transaction exists in the bytes of the WAL (salts,
   cumulative checksums, commit frame) is decided by the byte-level model of C17
   (Props/C17.v, buildTxFrameOffsets). *)
From Coq Require Import NArith List Bool.
Require Import LF.Gen.ConstsGen LF.Model.PageDB LF.Proofs.XorLib LF.Proofs.ChecksumProofs LF.Proofs.CaptureProofs.
Import ListNotations.
Local Open Scope N_scope.

(* one new file, TXID + 1, pre-checksum = previous checksum, size from the commit frame; the file
   holds exactly the LAST frame of every page the transaction wrote, the lock page skipped, and
   nothing else: no frame of another (rolled-back, earlier-generation) transaction can appear *)
Theorem C03_wal_commit_exact : forall s frames commit s',
  op_commit_wal s frames commit = (Done, s') ->
  exists f, ltxdir s' = ltxdir s ++ [f] /\
    l_min f = txid s + 1 /\ l_max f = txid s + 1 /\ l_pre f = chk s /\ l_post f = chk s' /\ l_commit f = commit /\
    txid s' = txid s + 1 /\ pageN s' = commit /\ dbfile s' = dbfile s /\
    (forall p q, In (p, q) (l_pages f) <-> (p <> lockpg s /\ p <= commit /\ last_frame p frames = Some q)).
Proof. exact wal_commit_exact. Qed.

(* and the checksum it reports is the from-scratch one (shared with C04) *)
Theorem C03_wal_commit_checksum : forall s frames commit s',
  CacheOK s -> LockZero s -> (forall p, pageN s < p -> dbc s p = 0) ->
  op_commit_wal s frames commit = (Done, s') ->
  chk s' = scratch (eff s commit (tx_new s frames commit)) commit /\
  txid s' = txid s + 1 /\ pageN s' = commit /\ CacheOK s' /\ (forall p, dbc s' p = dbc s p).
Proof. exact commit_wal_checksum. Qed.

(* Non-vacuity: a 257-page WAL database shrunk to 256 pages by a transaction that writes page 1
   twice and page 5 once: the file holds the last version of page 1 and page 5 only *)
Example C03_nonvacuous :
  let pages := map (fun p => OWrite p (mkPg (fl (p * 7919)) (if p =? 1 then 257 else 0) (p =? 1))) (seqN 1 257) in
  let s := snd (run_group (init 2097153) (pages ++ [OCommitJournal 257; OWalHeader])) in
  let '(o, s') := op_commit_wal s [(1, mkPg (fl 5) 256 true); (5, mkPg (fl 6) 0 false); (1, mkPg (fl 7) 256 true)] 256 in
  (o, txid s', pageN s', map (fun f => map (fun kv => (fst kv, pg_h (snd kv))) (l_pages f)) (skipn 1 (ltxdir s')))
  = (Done, 2, 256, [[(1, fl 7); (5, fl 6)]]).
Proof. vm_compute. reflexivity. Qed.

(* ... and a transaction that spilled page 8 and then shrank an 8-page database to 6 pages: the page is in the log but
   not in the database the transaction leaves, and not in the file (p <= commit in C03_wal_commit_exact) *)
Example C03_spill_then_shrink :
  let pages := map (fun p => OWrite p (mkPg (fl (p * 7919)) (if p =? 1 then 8 else 0) (p =? 1))) (seqN 1 8) in
  let s := snd (run_group (init 2097153) (pages ++ [OCommitJournal 8; OWalHeader])) in
  let '(o, s') := op_commit_wal s [(8, mkPg (fl 18) 0 false); (2, mkPg (fl 12) 0 false); (1, mkPg (fl 11) 6 true)] 6 in
  (o, txid s', pageN s', map (fun f => map (fun kv => (fst kv, pg_h (snd kv))) (l_pages f)) (skipn 1 (ltxdir s')))
  = (Done, 2, 6, [[(1, fl 11); (2, fl 12)]]).
Proof. vm_compute. reflexivity. Qed.
