(* C12 -- Each advisory lock obeys reader/writer semantics with upgrade and
   downgrade.  ONLY statements; every proof is `exact <lemma>`.
   The model (tryLock, tryRLock, unlock, canLock, canRLock, state) is
   GENERATED from /repo/rwmutex.go on every run (Gen/RWMutexGen.v); the
   number of owners (guards) is unbounded. *)
From Coq Require Import ZArith Bool Arith List.
Require Import LF.Base.RWBase LF.Gen.RWMutexGen LF.Model.RWMutex LF.Proofs.RWMutexProofs.
Import ListNotations.

(* Every history of try-exclusive / try-shared / unlock / can-lock / can-rlock /
   state queries by any number of owners, from the initial state: no translated
   assert or panic fires, every returned value is the one POSIX rules between
   distinct owners prescribe, and the guards' states are the spec's holder map. *)
Theorem C12_refines_posix : forall ops,
  exists rs w, run init_world ops = Some (rs, w) /\ spec_trace (fun _ => Unlocked) ops rs (gst w).
Proof. exact histories_refine. Qed.

(* At each instant: nobody, one or more shared holders, or exactly one exclusive holder. *)
Theorem C12_trichotomy : forall w, reachable w ->
  (forall h, gst w h = Unlocked) \/
  ((exists h, gst w h = Shared) /\ (forall h, gst w h <> Exclusive)) \/
  (exists g, gst w g = Exclusive /\ forall h, h <> g -> gst w h = Unlocked).
Proof. exact (fun w H => inv_trichotomy w (reachable_inv w H)). Qed.

(* A failed attempt changes nothing (neither any guard nor the mutex record). *)
Theorem C12_failed_attempt_is_noop : forall w g o w',
  reachable w -> (o = OTryLock \/ o = OTryRLock) -> step w g o = Some (RBool false, w') -> w' = w.
Proof. exact failed_try_keeps_mutex. Qed.

(* Releasing an unheld lock is a no-op. *)
Theorem C12_unlock_unheld_is_noop : forall w g,
  reachable w -> gst w g = Unlocked -> step w g OUnlock = Some (RUnit, w).
Proof. exact unlock_unheld_noop. Qed.

(* The try operations succeed exactly when the spec allows them. *)
Theorem C12_trylock_iff_allowed : forall w g, reachable w ->
  (try_succeeds tryLock g w <-> others_unlocked (gst w) g).
Proof. exact (fun w g H => tryLock_succeeds_iff w g (reachable_inv w H)). Qed.
Theorem C12_tryrlock_iff_allowed : forall w g, reachable w ->
  (try_succeeds tryRLock g w <-> others_not_excl (gst w) g).
Proof. exact (fun w g H => tryRLock_succeeds_iff w g (reachable_inv w H)). Qed.

(* Blocking variants: with an arbitrary sequence of wake-ups (ticker ticks, each
   seeing an arbitrary reachable world, or ctx.Done) Lock(ctx)/RLock(ctx) return
   at the first wake-up at which the lock is available or the context ended,
   whichever comes first; no earlier tick could have succeeded. *)
Theorem C12_lock_ctx_first : forall g w0 evs,
  reachable w0 -> (forall w, In (Tick w) evs -> reachable w) ->
  match lock_ctx tryLock g w0 evs with
  | Acquired w' 0 => tryLock g w0 = Ret true w'
  | Acquired w' (S k) => ~ try_succeeds tryLock g w0 /\
        exists pre w post, evs = pre ++ Tick w :: post /\ k = length pre /\ tryLock g w = Ret true w' /\
        (forall e, In e pre -> exists v, e = Tick v /\ ~ try_succeeds tryLock g v)
  | CtxErr k => ~ try_succeeds tryLock g w0 /\
        exists pre post, evs = pre ++ Done :: post /\ k = length pre /\
        (forall e, In e pre -> exists v, e = Tick v /\ ~ try_succeeds tryLock g v)
  | Blocked => ~ try_succeeds tryLock g w0 /\ forall e, In e evs -> exists v, e = Tick v /\ ~ try_succeeds tryLock g v
  | LPanic => False
  end.
Proof.
  exact (fun g w0 evs H0 He => lock_ctx_first tryLock g w0 evs (reachable_inv w0 H0)
           (fun w Hw => reachable_inv w (He w Hw)) (fun w HI => tryLock_total w g HI)).
Qed.
Theorem C12_rlock_ctx_first : forall g w0 evs,
  reachable w0 -> (forall w, In (Tick w) evs -> reachable w) ->
  match lock_ctx tryRLock g w0 evs with
  | Acquired w' 0 => tryRLock g w0 = Ret true w'
  | Acquired w' (S k) => ~ try_succeeds tryRLock g w0 /\
        exists pre w post, evs = pre ++ Tick w :: post /\ k = length pre /\ tryRLock g w = Ret true w' /\
        (forall e, In e pre -> exists v, e = Tick v /\ ~ try_succeeds tryRLock g v)
  | CtxErr k => ~ try_succeeds tryRLock g w0 /\
        exists pre post, evs = pre ++ Done :: post /\ k = length pre /\
        (forall e, In e pre -> exists v, e = Tick v /\ ~ try_succeeds tryRLock g v)
  | Blocked => ~ try_succeeds tryRLock g w0 /\ forall e, In e evs -> exists v, e = Tick v /\ ~ try_succeeds tryRLock g v
  | LPanic => False
  end.
Proof.
  exact (fun g w0 evs H0 He => lock_ctx_first tryRLock g w0 evs (reachable_inv w0 H0)
           (fun w Hw => reachable_inv w (He w Hw)) (fun w HI => tryRLock_total w g HI)).
Qed.

(* Per-run obligation on the generated artefact: the exported wrappers bracket
   the translated workers with the mutex exactly as the translator expects. *)
Theorem C12_wrappers_as_expected : wrappers_as_expected = true.
Proof. vm_compute. reflexivity. Qed.

(* Non-vacuity: four owners; upgrade, blocked upgrade, downgrade, release. *)
Example C12_nonvacuous :
  run_codes [(0,1);(1,1);(0,0);(1,2);(0,0);(2,1);(0,1);(2,1);(3,0);(0,3);(2,3);(0,6)]
  = [1;1;0;2;1;0;1;1;0;10+0+1;10+0+1;20+1].
Proof. vm_compute. reflexivity. Qed.

(* One request can name several locks (a POSIX byte range: SQLite locks READ1..READ4 in one fcntl call).  It is granted
   or refused as a whole: after a refusal every owner's state on every one of the twelve locks is what it was before the
   request (Model/Locks.v try_locks / try_rlocks over the generated RWMutex; db.go TryLocks / TryRLocks, restoreGuards). *)
Require Import LF.Model.Locks LF.Proofs.LocksProofs.
Theorem C12_range_request_refused_changes_nothing : forall ls t g t',
  TInv t -> NoDup ls -> try_locks t g ls = Some (false, t') -> forall l h, gst (t' l) h = gst (t l) h.
Proof. exact try_locks_refused_changes_nothing. Qed.
Theorem C12_shared_range_request_refused_changes_nothing : forall ls t g t',
  TInv t -> NoDup ls -> try_rlocks t g ls = Some (false, t') -> forall l h, gst (t' l) h = gst (t l) h.
Proof. exact try_rlocks_refused_changes_nothing. Qed.
(* Non-vacuity: owner 2 holds READ3 shared, owner 1 holds READ1 shared and asks for READ1..READ4 exclusively: refused,
   and READ1 is shared by owner 1 again (it had been upgraded on the way), READ2 unlocked *)
Example C12_range_nonvacuous :
  match t_tryrlock tinit LRead3 2 with
  | Some (_, t1) =>
    match t_tryrlock t1 LRead1 1 with
    | Some (_, t2) =>
      match try_locks t2 1 [LRead1; LRead2; LRead3; LRead4] with
      | Some (b, t3) => (b, map (fun l => (gst (t3 l) 1, gst (t3 l) 2)) [LRead1; LRead2; LRead3; LRead4])
      | None => (true, [])
      end
    | None => (true, [])
    end
  | None => (true, [])
  end = (false, [(Shared, Unlocked); (Unlocked, Unlocked); (Unlocked, Shared); (Unlocked, Unlocked)]).
Proof. vm_compute. reflexivity. Qed.

(* a granted shared request leaves the requester with every lock of the range shared - also the ones it held exclusively
   (they are downgraded) - and nothing else of its own changed *)
Theorem C12_shared_range_request_granted : forall ls t g t',
  TInv t -> NoDup ls -> try_rlocks t g ls = Some (true, t') ->
  forall l, gst (t' l) g = if in_dec lk_eq_dec l ls then Shared else gst (t l) g.
Proof. exact try_rlocks_granted. Qed.

(* "a failed attempt changes nothing" under concurrency: the other owners keep going - any guard operations, before
   every step of the request and of its rollback ([sched], all by owners other than the requester).  A refused shared
   request over a range leaves the requester holding exactly what it held before, whatever the others did.
   [try_rlocks_il true] is DB.TryRLocks after the repair: a lock the requester holds exclusively is downgraded only once
   every other lock of the range has been granted, so that the rollback never has to upgrade. *)
Theorem C12_shared_range_refused_keeps_own_locks_under_interference : forall ls t g sched t',
  TInv t -> NoDup ls -> others_only g sched ->
  try_rlocks_il true t g ls sched [] = Some (false, t') ->
  TInv t' /\ forall l, gst (t' l) g = gst (t l) g.
Proof. exact shared_range_refused_keeps_own_locks. Qed.
(* ... which is FALSE of the order before the repair ([try_rlocks_il false]: every lock in turn, an exclusive one
   downgraded on the way and upgraded back by the rollback).  Owner 0 holds READ1 exclusively, owner 1 READ2; owner 0
   asks for READ1..READ2 shared; owner 2 takes READ1 shared between the two steps: the request is refused and owner 0 is
   left with READ1 shared.  With the repaired order the same schedule leaves it exclusive. *)
Example C12_downgrade_first_refuted :
  match run_prims tinit [PX 0 LRead1; PX 1 LRead2] with
  | Some t =>
    let sched := [[]; [PR 2 LRead1]] in
    (match try_rlocks_il false t 0 [LRead1; LRead2] sched [] with Some (b, t') => Some (b, gst (t LRead1) 0, gst (t' LRead1) 0) | None => None end,
     match try_rlocks_il true t 0 [LRead1; LRead2] sched [] with Some (b, t') => Some (b, gst (t LRead1) 0, gst (t' LRead1) 0) | None => None end)
  | None => (None, None)
  end = (Some (false, Exclusive, Shared), Some (false, Exclusive, Exclusive)).
Proof. vm_compute. reflexivity. Qed.
