(* C17 -- Journal rollback and WAL scanning follow SQLite's validity rules on any bytes.
   ONLY statements.  Model/WalJournal.v is a byte-level model (files = lists of bytes) of
   WALReader, buildTxFrameOffsets and JournalReader (after the repairs F2/F3/F18 recorded in
   KNOWN_FINDINGS.txt).  [valid_prefix] is the file-format rule written as an inductive predicate
   over the split of the bytes into frames, not as a reader. *)
From Coq Require Import NArith ZArith List Bool.
Require Import LF.Base.Bytes LF.Model.WalJournal LF.Proofs.WalJournalProofs.
Import ListNotations.
Local Open Scope N_scope.

(* For EVERY byte sequence: the frames the reader treats as valid are exactly the longest prefix of
   frames whose salts equal the header's and whose cumulative checksums match (existence and
   uniqueness of that prefix). *)
Theorem C17_wal_reader_is_longest_valid_prefix : forall b h fs,
  wal_read b = (HOk h, fs) ->
  valid_prefix h (skipn 32 b) (wh_ck1 h) (wh_ck2 h) fs /\
  (forall fs', valid_prefix h (skipn 32 b) (wh_ck1 h) (wh_ck2 h) fs' -> fs' = fs).
Proof. exact wal_reader_is_longest_valid_prefix. Qed.

(* buildTxFrameOffsets (used by CommitWAL, C03): from an offset whose running checksum is (c1, c2) it
   returns a transaction iff the valid prefix from there contains a commit frame; the transaction is
   the frames up to and including the FIRST commit frame (none of the earlier ones commits) *)
Theorem C17_build_tx_some : forall h b fuel off c1 c2 acc fs commit endoff d1 d2,
  build_tx fuel h b off c1 c2 acc = Some (fs, commit, endoff, d1, d2) ->
  exists tx, fs = acc ++ tx /\ tx <> [] /\
    (exists rest, valid_prefix h (skipn endoff b) d1 d2 rest /\ valid_prefix h (skipn off b) c1 c2 (tx ++ rest)) /\
    f_commit (last tx {| f_pgno := 0; f_commit := 0; f_data := [] |}) = commit /\ commit <> 0 /\
    Forall (fun f => f_commit f = 0) (removelast tx).
Proof. exact build_tx_spec. Qed.
Theorem C17_build_tx_none : forall h b fuel off c1 c2 acc,
  (length b < fuel + off)%nat -> build_tx fuel h b off c1 c2 acc = None ->
  forall fs, valid_prefix h (skipn off b) c1 c2 fs -> Forall (fun f => f_commit f = 0) fs.
Proof. exact build_tx_none. Qed.

(* arbitrary journal bytes: the segment loop of rollbackJournal always ends (no hang); there is no panic
   outcome in the model: the divisions by sector and page size are only reached with sizes accepted by
   SQLite's validity rules *)
Theorem C17_journal_reader_terminates : forall b ps, snd (jrun (S (length b)) b (jinit ps) []) <> 98.
Proof. exact jrun_terminates. Qed.

(* playback never writes outside the database's pages, for ANY record list *)
Theorem C17_playback_inside : forall lock commit recs pg d,
  In (pg, d) (playback lock commit recs) -> 1 <= pg <= commit /\ pg <> lock /\ In (pg, d) recs.
Proof. exact playback_inside. Qed.

(* journals SQLite leaves behind: records are pre-images of pages of the original database, every page
   the interrupted transaction overwrote has its record (write-ahead rule).  Then playback keeps every
   record and restores exactly the pre-transaction content *)
Theorem C17_playback_keeps_sqlite_records : forall lock commit recs,
  (forall pg d, In (pg, d) recs -> 1 <= pg <= commit /\ pg <> lock) -> playback lock commit recs = recs.
Proof. exact playback_id. Qed.
Theorem C17_rollback_restores : forall (pre cur : N -> list N) recs,
  (forall pg d, In (pg, d) recs -> d = pre pg) ->
  (forall p, (forall d, ~ In (p, d) recs) -> cur p = pre p) ->
  forall p, write_all recs cur p = pre p.
Proof. exact rollback_restores. Qed.

(* Non-vacuity: a little-endian WAL header with a zero page-size field and two 24-byte frames is parsed;
   a journal with sector size 0 is rejected instead of looping *)
Example C17_nonvacuous_journal :
  run_bcase (CJournal 512 ([217;213;5;249;32;161;99;215; 0;0;0;1; 0;0;0;7; 0;0;0;3; 0;0;0;0; 0;0;2;0] ++ repeat 0 600)) = [5001; 0; 0].
Proof. vm_compute. reflexivity. Qed.

(* a log header the reader accepts names a page size SQLite accepts (a power of two in 512..65536), in particular a
   multiple of 8: the checksum of a frame is never asked for a misaligned byte string *)
Theorem C17_valid_header_page_size : forall b h, wal_read_header b = HOk h ->
  wal_ps_ok (wh_ps h) = true /\ (wh_ps h mod 8 = 0)%N.
Proof. exact wal_header_page_size. Qed.
