(* C19 -- The HTTP proxy gives read-your-writes and never runs writes on a replica.  ONLY statements.
   Model/Proxy.v: [proxy_decide q role db_present obs pos_after]; [obs] is the arbitrary sequence of
   TXIDs the polling loop observes before its timeout fires (so every replication timing relative to
   the request is one such sequence); the real-time spacing of polls is not modelled. *)
From Coq Require Import NArith List Bool.
Require Import LF.Model.Proxy LF.Proofs.ProxyProofs.
Import ListNotations.
Local Open Scope N_scope.

Theorem C19_read_waits : forall q ro obs after,
  r_passthrough q = false -> (r_is_get q && r_health_path q) = false ->
  r_read_method q = true -> r_always_forward q = false -> r_cookie q <> 0 ->
  (proxy_decide q ro true obs after = Forward false None /\
     exists pre p post, obs = pre ++ p :: post /\ r_cookie q <= p /\ forall x, In x pre -> x < r_cookie q) \/
  (proxy_decide q ro true obs after = GatewayTimeout /\ forall x, In x obs -> x < r_cookie q).
Proof. exact read_waits. Qed.

Theorem C19_replica_write_never_forwarded : forall q ro dbp obs after,
  r_passthrough q = false -> ro <> RPrimary ->
  (r_read_method q = false \/ r_always_forward q = true) ->
  (r_is_get q && r_health_path q) = false ->
  proxy_decide q ro dbp obs after = Replay \/ proxy_decide q ro dbp obs after = NoPrimary503.
Proof. exact replica_write_never_forwarded. Qed.

(* the cookie names the position read AFTER the application answered; positions never decrease on a
   primary and a local commit completes before the file operation that triggers it returns (C02/C03),
   so it is at or after every commit the application made while serving the request *)
Theorem C19_cookie_after_write : forall q dbp obs after,
  r_passthrough q = false -> r_read_method q = false -> r_is_get q = false ->
  proxy_decide q RPrimary dbp obs after = Forward false (if dbp then Some after else None).
Proof. exact cookie_after_write. Qed.

Theorem C19_read_without_cookie_forwarded : forall q ro dbp obs after,
  r_passthrough q = false -> (r_is_get q && r_health_path q) = false -> r_read_method q = true -> r_always_forward q = false ->
  (r_cookie q = 0 \/ dbp = false) -> proxy_decide q ro dbp obs after = Forward false None.
Proof. exact read_without_cookie_forwarded. Qed.

Example C19_nonvacuous :
  (proxy_decide (mk_req true true false false false 5) RReplica true [3; 4; 5; 9] 9,
   proxy_decide (mk_req true true false false false 5) RReplica true [3; 4] 4,
   proxy_decide (mk_req false false false false false 0) RReplica true [] 7,
   proxy_decide (mk_req false false false false false 0) RPrimary true [] 7)
  = (Forward false None, GatewayTimeout, Replay, Forward false (Some 7)).
Proof. vm_compute. reflexivity. Qed.
