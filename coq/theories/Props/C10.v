(* C10 -- A completed snapshot or export is the image of exactly one position.  ONLY statements.
   Model/Snapshot.v: the reader's script of lock steps, capture steps and page reads, interleaved in ANY
   order ([sched]) with other connections' WAL commits, checkpoints and rollback-journal commits, each of
   which takes effect only if the locks it needs exclusively are not held by the reader (the RWMutex
   semantics proved for the generated model in C11).  [s_hist] is the ghost image of every position.
   FULL STATEMENT for the code's order ([export_script]): out_is_image after every schedule - it is FALSE
   (C10_export_refuted: known finding F12); it is proved for the hand-over that takes the READ locks before
   releasing WRITE ([safe_script]); WriteSnapshotTo is [export_script] followed by a self-check that turns
   a mixture into an error (C10_self_check_sound, under NoCollision: checksums stand for contents). *)
From Coq Require Import NArith List Bool.
Require Import LF.Model.PageDB LF.Model.Snapshot LF.Proofs.SnapshotProofs.
Require Import LF.Base.RWBase LF.Gen.RWMutexGen LF.Gen.LockScriptsGen LF.Model.Locks LF.Proofs.LocksProofs.
Import ListNotations.
Local Open Scope N_scope.

Theorem C10_safe_handover_atomic : forall (pages : list N) (img : N -> pg) (sc : list sched),
  out_is_image (fst (exec (init_sst img) (safe_script pages) sc)).
Proof. exact safe_handover_atomic. Qed.

Theorem C10_export_refuted :
  let s := fst (exec (init_sst (fun _ => pgA)) (export_script [1; 2]) bad_schedule) in
  s_cpos s = Some 0%nat /\ s_out s = [(1, pgA); (2, pgB)] /\ s_hist s 0%nat 2 = pgA /\ ~ out_is_image s.
Proof. exact export_window_refuted. Qed.

Theorem C10_self_check_sound : forall s n, s_cpos s = Some n -> self_check s = true ->
  forall p q, In (p, q) (s_out s) -> pg_h q = pg_h (s_hist s n p).
Proof. exact self_check_sound. Qed.
Theorem C10_self_check_rejects_the_mixture :
  self_check (fst (exec (init_sst (fun _ => pgA)) (export_script [1; 2]) bad_schedule)) = false.
Proof. exact self_check_rejects_bad_schedule. Qed.

(* the guard of the model is the lock table's behaviour: while the reader holds a lock in any mode, another
   owner's exclusive request on it is refused and changes nothing *)
Theorem C10_reader_lock_blocks_exclusive : forall t l g h, TInv t -> gst (t l) g <> Unlocked -> h <> g ->
  exists t', t_trylock t l h = Some (false, t') /\ forall k, gst (t' l) k = gst (t l) k.
Proof. exact reader_lock_blocks_exclusive. Qed.

(* the order the refutation is about is the generated one *)
Theorem C10_export_script_is_generated : abstract gen_export 0 = export_prefix.
Proof. exact export_script_is_generated. Qed.
Theorem C10_snapshot_script_is_generated : abstract gen_snapshot 0 = export_prefix ++ [SRelease SLCkpt].
Proof. exact snapshot_script_is_generated. Qed.

Example C10_nonvacuous :
  s_out (fst (exec (init_sst (fun _ => pgA)) (safe_script [1; 2]) (bad_schedule ++ [RStep]))) = [(1, pgA); (2, pgA)].
Proof. exact safe_on_bad_schedule. Qed.
