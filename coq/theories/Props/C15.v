(* C15 -- Dropping a database is a replicated transaction; recreation continues the log.
   ONLY statements.  Model/PageDB.v: op_drop (DB.Drop), op_receive with a tombstone file
   (commit size 0, no pages, empty post-checksum), op_open, op_commit_journal after a drop. *)
From Coq Require Import NArith List Bool.
Require Import LF.Gen.ConstsGen LF.Model.PageDB LF.Proofs.ChainProofs LF.Proofs.DropProofs.
Import ListNotations.
Local Open Scope N_scope.

(* the drop on a writable node: position + 1 with the empty checksum, one tombstone file chained to
   the previous position, database / WAL content gone *)
Theorem C15_drop_exact : forall s s',
  op_drop s = (Done, s') ->
  exists f, ltxdir s' = ltxdir s ++ [f] /\ tombstone f /\ l_min f = txid s + 1 /\ l_max f = txid s + 1 /\ l_pre f = chk s /\
            txid s' = txid s + 1 /\ chk s' = flag /\ pageN s' = 0 /\ dbfile s' = [] /\ wal_file s' = [] /\ wal_mode s' = false.
Proof. exact drop_exact. Qed.

(* every replica at the position the tombstone extends reaches the same position with no files *)
Theorem C15_tombstone_apply : forall s f,
  tombstone f -> is_snapshot f = false -> extends_pos s f = true ->
  exists s', op_receive s f = (Done, s') /\ txid s' = l_max f /\ chk s' = flag /\ pageN s' = 0 /\ dbfile s' = [] /\ wal_file s' = [].
Proof. exact receive_tombstone. Qed.

(* restarting after the drop (primary or replica) reproduces the dropped state *)
Theorem C15_drop_survives_restart : forall s s',
  op_drop s = (Done, s') ->
  exists s'', op_open s' = (Done, s'') /\ txid s'' = txid s' /\ chk s'' = flag /\ pageN s'' = 0 /\ dbfile s'' = [] /\ ltxdir s'' = ltxdir s'.
Proof. exact drop_survives_restart. Qed.
Theorem C15_restart_on_tombstone : forall s d f,
  dbfile s = [] -> wal_file s = [] -> ltxdir s = d ++ [f] -> tombstone f ->
  exists s'', op_open s = (Done, s'') /\ txid s'' = l_max f /\ chk s'' = flag /\ pageN s'' = 0 /\ dbfile s'' = [] /\ ltxdir s'' = ltxdir s.
Proof. exact open_after_tombstone. Qed.

(* a database recreated under the same name continues the TXID sequence, its first file chained to
   the empty checksum *)
Theorem C15_recreate_continues : forall s commit s',
  chk s = flag -> op_commit_journal s commit = (Done, s') ->
  exists f, ltxdir s' = ltxdir s ++ [f] /\ l_min f = txid s + 1 /\ l_max f = txid s + 1 /\ l_pre f = flag /\ txid s' = txid s + 1.
Proof. exact recreate_continues. Qed.

(* the chain is kept across the drop (C09) *)
Theorem C15_chain_drop : forall s s', Chain s -> op_drop s = (Done, s') -> Chain s'.
Proof. exact chain_drop. Qed.

(* Non-vacuity: create, drop, restart, recreate *)
Example C15_nonvacuous :
  let p h := mkPg (fl h) 1 false in
  match run_ops (init 2097153) [OWrite 1 (p 1); OCommitJournal 1; ODrop; OOpen; OWrite 1 (p 2); OCommitJournal 1] with
  | Some s => (txid s, map l_commit (ltxdir s), map l_pre (skipn 2 (ltxdir s))) = (3, [1; 0; 1], [flag])
  | None => False
  end.
Proof. vm_compute. reflexivity. Qed.
