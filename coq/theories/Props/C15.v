(* C15 -- Dropping a database is a replicated transaction; recreation continues the log.
   ONLY statements.  Model/PageDB.v: op_drop (DB.Drop), op_receive with a tombstone file
   (commit size 0, no pages, empty post-checksum), op_open, op_commit_journal after a drop. *)
From Coq Require Import NArith List Bool.
Require Import LF.Gen.ConstsGen LF.Model.PageDB LF.Proofs.ChainProofs LF.Proofs.DropProofs LF.Proofs.HistoryProofs LF.Proofs.SqlCheckpointProofs LF.Proofs.ComposeProofs LF.Proofs.ChainHistoryProofs.
Import ListNotations.
Local Open Scope N_scope.

(* the drop on a writable node: position + 1 with the empty checksum, one tombstone file chained to
   the previous position, database / WAL content gone *)
Theorem C15_drop_exact : forall s s',
  op_drop s = (Done, s') ->
  exists f, ltxdir s' = ltxdir s ++ [f] /\ tombstone f /\ l_min f = txid s + 1 /\ l_max f = txid s + 1 /\ l_pre f = chk s /\
            txid s' = txid s + 1 /\ chk s' = flag /\ pageN s' = 0 /\ dbfile s' = [] /\ wal_file s' = [] /\ wal_mode s' = false.
Proof. exact drop_exact. Qed.

(* every replica at the position the tombstone extends reaches the same position with no files *)
Theorem C15_tombstone_apply : forall s f,
  tombstone f -> is_snapshot f = false -> extends_pos s f = true ->
  exists s', op_receive s f = (Done, s') /\ txid s' = l_max f /\ chk s' = flag /\ pageN s' = 0 /\ dbfile s' = [] /\ wal_file s' = [].
Proof. exact receive_tombstone. Qed.

(* restarting after the drop (primary or replica) reproduces the dropped state *)
Theorem C15_drop_survives_restart : forall s s',
  op_drop s = (Done, s') ->
  exists s'', op_open s' = (Done, s'') /\ txid s'' = txid s' /\ chk s'' = flag /\ pageN s'' = 0 /\ dbfile s'' = [] /\ ltxdir s'' = ltxdir s'.
Proof. exact drop_survives_restart. Qed.
Theorem C15_restart_on_tombstone : forall s d f,
  dbfile s = [] -> wal_file s = [] -> ltxdir s = d ++ [f] -> tombstone f ->
  exists s'', op_open s = (Done, s'') /\ txid s'' = l_max f /\ chk s'' = flag /\ pageN s'' = 0 /\ dbfile s'' = [] /\ ltxdir s'' = ltxdir s.
Proof. exact open_after_tombstone. Qed.

(* a database recreated under the same name continues the TXID sequence, its first file chained to
   the empty checksum *)
Theorem C15_recreate_continues : forall s commit s',
  chk s = flag -> op_commit_journal s commit = (Done, s') ->
  exists f, ltxdir s' = ltxdir s ++ [f] /\ l_min f = txid s + 1 /\ l_max f = txid s + 1 /\ l_pre f = flag /\ txid s' = txid s + 1.
Proof. exact recreate_continues. Qed.

(* the chain is kept across the drop (C09) *)
Theorem C15_chain_drop : forall s s', Chain s -> op_drop s = (Done, s') -> Chain s'.
Proof. exact chain_drop. Qed.

(* Non-vacuity: create, drop, restart, recreate *)
Example C15_nonvacuous :
  let p h := mkPg (fl h) 1 false in
  match run_ops (init 2097153) [OWrite 1 (p 1); OCommitJournal 1; ODrop; OOpen; OWrite 1 (p 2); OCommitJournal 1] with
  | Some s => (txid s, map l_commit (ltxdir s), map l_pre (skipn 2 (ltxdir s))) = (3, [1; 0; 1], [flag])
  | None => False
  end.
Proof. vm_compute. reflexivity. Qed.

(* ---- over the histories of C04_history (Props/C04.v: transactions in both journal modes, mode switches, checkpoints,
   restarts, files from the stream, forwarded files, earlier drops and imports - any number of create / drop cycles) ----
   After EVERY such history from an empty node, with no premise on its steps: a drop that completes advances the position
   by exactly one with the empty checksum, leaves no database and no log content, rollback-journal mode, and the kept
   files still form one chain ending at the new position; a restart right after it reproduces that state; a database
   recreated under the name gets the next id after the tombstone, its file chained to the empty checksum. *)
Theorem C15_history_drop_lifecycle : forall lock gs s v s1,
  run_gsteps (init lock) (fun _ => 0) gs = Some (s, v) -> grun s GDrop = Some s1 ->
  txid s1 = txid s + 1 /\ chk s1 = flag /\ pageN s1 = 0 /\ dbfile s1 = [] /\ wal_file s1 = [] /\ wal_mode s1 = false /\ Chain s1 /\
  (exists s2, grun s1 GRestart = Some s2 /\ txid s2 = txid s1 /\ chk s2 = flag /\ pageN s2 = 0 /\ dbfile s2 = [] /\ ltxdir s2 = ltxdir s1) /\
  (forall commit s3, op_commit_journal s1 commit = (Done, s3) ->
     txid s3 = txid s + 2 /\ exists f, ltxdir s3 = ltxdir s1 ++ [f] /\ l_pre f = flag /\ l_min f = txid s + 2 /\ l_max f = txid s + 2).
Proof. exact g_history_drop_lifecycle. Qed.

(* Non-vacuity: create; switch to WAL mode; a WAL commit left in the log; drop (position 4); recreate in rollback-journal
   mode (position 5); drop again (6) *)
Example C15_history_nonvacuous :
  let pg h n := mkPg (fl h) n false in
  let pw h n := mkPg (fl h) n true in
  let gs := [GJ (HTx [] [AWrite 1 (pg 11 2); AWrite 2 (pg 12 0)] 2);
             GSwitch [] [AWrite 1 (pw 13 2)] 2;
             GW (W2Commit [(2, pw 24 0)] 2)] in
  match run_gsteps (init 2097153) (fun _ => 0) gs with
  | Some (s, _) =>
      match grun s GDrop with
      | Some s1 =>
          match run_gsteps s1 (fun _ => 0) [GJ (HTx [] [AWrite 1 (pg 31 1)] 1); GDrop] with
          | Some (s3, _) => (wal_mode s, match wal_file s with [] => false | _ => true end, txid s, txid s1, pageN s1, txid s3, map l_commit (ltxdir s3)) =
                            (true, true, 3, 4, 0, 6, [2; 2; 2; 0; 1; 0])
          | None => False
          end
      | None => False
      end
  | None => False
  end.
Proof. vm_compute. reflexivity. Qed.
