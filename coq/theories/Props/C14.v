(* C14 -- Backup sync uploads a gap-free chain and treats the backup as authoritative.  ONLY statements.
   Model/Backup.v: [backup_decide] = the per-database decision of streamBackupDB; [svc_write] = the
   service's contiguity check; [sync] = one sync of one database (decide, upload or restore);
   [SvcChain s]: the files the service holds, starting from nothing, form one gap-free linked chain that
   ends at its position.  Positions are (TXID, checksum); the compaction of a range keeps the first
   file's start and the last file's end.  Uploads that fail half-way leave the service unchanged
   (temporary file + rename in the client; not modelled further). *)
From Coq Require Import NArith List Bool.
Require Import LF.Model.PageDB LF.Model.Repl LF.Model.Backup LF.Proofs.BackupProofs.
Import ListNotations.
Local Open Scope N_scope.

(* gap-free: whatever a sync does, the service is untouched or extended by one file that continues its chain *)
Theorem C14_service_only_extends : forall b,
  b_svc (fst (sync b)) = b_svc b \/
  exists f, svc_write (b_svc b) f = Some (b_svc (fst (sync b))) /\ snd (sync b) = OUploaded.
Proof. exact sync_service. Qed.
Theorem C14_chain_kept : forall b, SvcChain (b_svc b) -> SvcChain (b_svc (fst (sync b))).
Proof. exact sync_keeps_chain. Qed.
Theorem C14_send_spec : forall ex lpos dir rpos lo hi, backup_decide ex lpos dir rpos = BSend lo hi ->
  ex = true /\ lo = fst rpos + 1 /\ lo <= hi /\ hi <= fst lpos /\ hi < lo + max_batch /\ fst rpos < fst lpos /\
  (forall t, lo <= t <= hi -> exists f, open_ltx dir t = Some f).
Proof. exact send_spec. Qed.

(* authoritative: service ahead, same TXID with another checksum, or a needed file missing => restore, and
   the restore adopts the service's position without touching the service *)
Theorem C14_restore_cases : forall ex lpos dir rpos,
  ex = true -> is_zero rpos = false ->
  (fst lpos < fst rpos -> backup_decide ex lpos dir rpos = BRestore 2) /\
  (fst rpos = fst lpos -> snd rpos <> snd lpos -> backup_decide ex lpos dir rpos = BRestore 3) /\
  (fst rpos < fst lpos -> (exists t, fst rpos < t <= N.min (fst lpos) (fst rpos + max_batch) /\ open_ltx dir t = None) ->
     backup_decide ex lpos dir rpos = BRestore 4).
Proof. exact restore_cases. Qed.
(* ... in particular a primary whose database is still empty (the application has opened the file and written nothing)
   while the service holds data: the service is ahead, its copy is adopted *)
Theorem C14_empty_local_adopts : forall dir rpos, 0 < fst rpos -> backup_decide true (0, 0) dir rpos = BRestore 2.
Proof. exact empty_local_adopts. Qed.
Theorem C14_restore_adopts : forall b r,
  backup_decide (b_exists b) (b_lpos b) (b_dir b) (s_pos (b_svc b)) = BRestore r ->
  is_zero (s_pos (b_svc b)) = false ->
  b_lpos (fst (sync b)) = s_pos (b_svc b) /\ b_svc (fst (sync b)) = b_svc b /\ snd (sync b) = ORestored.
Proof. exact restore_adopts. Qed.

(* the published high-water mark never exceeds what the service acknowledged *)
Theorem C14_hwm_acknowledged : forall b,
  b_hwm b <= fst (s_pos (b_svc b)) -> b_hwm (fst (sync b)) <= fst (s_pos (b_svc (fst (sync b)))).
Proof. exact sync_hwm. Qed.

(* repeated syncs on an idle primary: with the service on the primary's history at transaction r, n syncs
   bring it to min(l, r + 256 n); once l <= r + 256 n it is at the primary's position (and stays) *)
Theorem C14_sync_converges : forall (h : N -> N) (dir : list ltxrec) (l : N),
  (forall t, 1 <= t <= l -> exists f, open_ltx dir t = Some f /\ l_pre f = h (t - 1) /\ l_post f = h t) ->
  1 <= l -> forall n b, on_history h dir l b ->
  on_history h dir l (sync_n n b) /\
  fst (s_pos (b_svc (sync_n n b))) = N.min l (fst (s_pos (b_svc b)) + max_batch * N.of_nat n).
Proof. exact sync_converges. Qed.
Theorem C14_sync_reaches_primary : forall (h : N -> N) (dir : list ltxrec) (l : N),
  (forall t, 1 <= t <= l -> exists f, open_ltx dir t = Some f /\ l_pre f = h (t - 1) /\ l_post f = h t) ->
  1 <= l -> forall n b, on_history h dir l b -> l <= fst (s_pos (b_svc b)) + max_batch * N.of_nat n ->
  s_pos (b_svc (sync_n n b)) = (l, h l).
Proof. exact sync_reaches_primary. Qed.

Example C14_nonvacuous :
  (sync_obs true (5, 50) [(3,3,20,30); (4,4,30,40); (5,5,40,50)] (2, 20) 2,
   sync_obs true (5, 50) [(4,4,30,40); (5,5,40,50)] (2, 20) 2,
   sync_obs true (5, 50) [(5,5,40,50)] (7, 70) 2,
   sync_obs true (5, 50) [] (0, 0) 0,
   sync_obs true (5, 50) [(3,3,21,30); (4,4,30,40); (5,5,40,50)] (2, 20) 2)
  = ([2; 5; 50; 5; 50; 5], [3; 2; 20; 2; 20; 2], [3; 7; 70; 7; 70; 2], [2; 5; 50; 5; 50; 5], [3; 2; 20; 2; 20; 2]).
Proof. vm_compute. reflexivity. Qed.
