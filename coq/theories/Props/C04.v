(* C04 -- The reported checksum always equals a from-scratch checksum of the
   database.  ONLY statements; proofs are `exact <lemma>`.

   Pages are represented by their checksum value H(pgno, bytes) -- an arbitrary
   N (the harness supplies CRC64-ISO values computed with the Go standard
   library); nothing is assumed about H.  [scratch f n] is
   flag | XOR_{p=1..n} f p  with f(lock page) = 0, i.e. the value "recomputed
   from nothing".  Model/PageDB.v models checksum(), the per-page / per-block
   cache and its maintenance exactly as db.go does (with the `fix:` for F4).

   Proved here (for every state, every database size, every block layout):
     1. checksum() = scratch of the per-page checksums in effect;
     2. the checksum CommitJournal reports = scratch over the page checksums
        of pages 1..commit - the cached one ([jc]), or for a page inside the
        grown database that SQLite never wrote (a free-list leaf: allocated and
        freed again within the transaction) the checksum of what the file holds
        there - and the cache is left truthful and zero beyond commit;
     3. the checksum CommitWAL reports = scratch over (this tx's page, else last
        committed WAL version, else database page);
     4. a drop reports exactly the empty checksum.
     5. (round 7) along EVERY history of rollback-journal transactions from an
        empty node - any page writes in any order, pages SQLite never writes,
        growth, shrink with the truncate that follows - the per-page cache
        agrees with the file page by page and every reported checksum is the
        from-scratch checksum of the database file (C04_journal_history).
     6. (round 8) continued into WAL mode: after any such history, the
        transaction that rewrites page 1 with the WAL versions, then ANY
        number of WAL commits (growth, shrink, repeated pages): every reported
        checksum is the from-scratch checksum of the logical database - the
        file at the switch overlaid with the last frame of every page each
        transaction wrote - and LiteFS's per-page answer is that database's
        entry (C04_wal_history).
     7. (round 8) ... with LiteFS's own checkpoint (CheckpointNoLock) between
        the WAL commits, in any order and number: the log LiteFS keeps a picture
        of, its per-page WAL checksums and the file stay tied to the logical
        database (invariant WK), so the checkpoint changes no answer, and with
        nothing left in the log the database file IS the logical database
        (C04_wal_checkpoint_history).
     8. (round 8) on a replica: along EVERY sequence of transaction files it
        is sent from an empty node (applied, or refused for not continuing the
        position; tombstones included) the per-page cache is the database
        file's and every position it takes carries the from-scratch checksum
        of its database file (C04_replica_history).
     9. (round 8) across a restart, from ANY state: if Open succeeds, the
        position's checksum is the from-scratch checksum of the database file
        and the cache is the file's (C04_open_recomputes).
    10. (round 8) ... and with checkpoints run by SQLite: single pages of the
        log written into the database file through LiteFS (a checkpoint that
        goes part of the way), and the complete one - every page of the log
        within the database size, the cut of the file, the restart of the log
        at which LiteFS forgets its WAL bookkeeping (C04_wal_full_history).
    11. (round 8) all of it put together, with the way back out of WAL mode and
        restarts anywhere: ONE invariant (GInv: J and an empty log in
        rollback-journal mode, WL and WK in WAL mode) kept by every step -
        a rollback-journal transaction, the truncate, the switch, a WAL commit,
        every kind of checkpoint, the removal of the log with page 1 rewritten
        under a rollback journal, Open - hence for EVERY history made of these
        steps from an empty node the position's checksum is the from-scratch
        checksum of the logical database (C04_history).
        A node may change role inside the history: files from the stream
        (GRecv) between its own transactions.  Drop and import are steps too.
        A partial SQLite checkpoint may copy an older version than the log's
        last (W2BackfillOld); a finalisation of the journal may fail inside
        LiteFS before anything is published (AFail) and be repeated.
   NOT proved (C04_history_partial): histories outside these steps - a WAL
   commit LiteFS fails inside (the process exits: C05 has the crash points), a
   node whose page size changes; these are re-checked on
   every run by the correspondence (the model re-executes every generated
   history and must reproduce every reported position) and by the harness'
   raw-file recomputation. *)
From Coq Require Import NArith List Bool.
Require Import LF.Gen.ConstsGen LF.Model.PageDB LF.Proofs.XorLib LF.Proofs.ChecksumProofs LF.Proofs.CaptureProofs LF.Proofs.HistoryProofs LF.Proofs.WalHistoryProofs LF.Proofs.WalCheckpointProofs LF.Proofs.SqlCheckpointProofs LF.Proofs.ApplyHistoryProofs LF.Proofs.OpenProofs LF.Proofs.ComposeProofs.
Import ListNotations.
Local Open Scope N_scope.

Theorem C04_checksum_is_scratch : forall s pN new c s',
  Pre s pN new -> checksum s pN new = (Some c, s') -> c = scratch (eff s pN new) pN.
Proof. exact checksum_is_scratch. Qed.

Theorem C04_commit_journal_checksum : forall s commit s',
  CacheOK s -> LockZero s -> 1 <= lockpg s -> op_commit_journal s commit = (Done, s') ->
  chk s' = scratch (fun p => if p =? lockpg s then 0 else jc s p) commit /\
  txid s' = txid s + 1 /\ pageN s' = commit /\ dirty s' = [] /\
  CacheOK s' /\ LockZero s' /\ (forall p, commit < p -> dbc s' p = 0) /\
  (forall p, 1 <= p <= commit -> p <> lockpg s -> dbc s' p = jc s p).
Proof. exact commit_journal_checksum. Qed.

(* a database that grows across pages SQLite never wrote (free-list leaves): those pages count with the checksum of
   what the file holds there *)
Theorem C04_unwritten_page_counted : forall s commit s',
  CacheOK s -> LockZero s -> 1 <= lockpg s -> op_commit_journal s commit = (Done, s') ->
  forall p, unwritten s p = true -> p <= commit -> p <> lockpg s -> dbc s' p = file_h s p.
Proof. exact commit_journal_unwritten. Qed.

Theorem C04_commit_wal_checksum : forall s frames commit s',
  CacheOK s -> LockZero s -> (forall p, pageN s < p -> dbc s p = 0) ->
  op_commit_wal s frames commit = (Done, s') ->
  chk s' = scratch (eff s commit (tx_new s frames commit)) commit /\
  txid s' = txid s + 1 /\ pageN s' = commit /\ CacheOK s' /\ (forall p, dbc s' p = dbc s p).
Proof. exact commit_wal_checksum. Qed.

Theorem C04_empty_checksum : forall s new, checksum s 0 new = (Some flag, s).
Proof. exact (fun s new => eq_refl). Qed.

Theorem C04_drop_reports_empty : forall s s',
  op_drop s = (Done, s') -> chk s' = flag /\ txid s' = txid s + 1 /\ pageN s' = 0 /\ dbfile s' = [].
Proof. exact drop_reports_empty. Qed.

(* Non-vacuity: a 257-page database written and committed from nothing, then shrunk to 256 pages by
   a WAL transaction (the F4 shape): all hypotheses hold at the initial state and the run succeeds. *)
Example C04_nonvacuous :
  let pages := map (fun p => OWrite p (mkPg (fl (p * 7919)) (if p =? 1 then 257 else 0) (p =? 1))) (seqN 1 257) in
  let s := snd (run_group (init 2097153) (pages ++ [OCommitJournal 257])) in
  (txid s, pageN s, negb (chk s =? flag), wal_mode s) = (1, 257, true, true) /\
  fst (run_group s [OWalHeader; OCommitWal [(1, mkPg (fl 5) 256 true)] 256]) = 0.
Proof. vm_compute. split; reflexivity. Qed.

(* ... and a database of 2 pages that grows to 5 while only pages 1 and 5 are written (3 and 4: zeros put there by the
   file system, checksums 33 and 44): the position's checksum is the from-scratch one over all five pages, the
   transaction file holds pages 1, 3, 4, 5, and a restart (OOpen recomputes every checksum from the file) agrees *)
Example C04_unwritten_pages_nonvacuous :
  let s1 := snd (run_group (init 2097153) [OWrite 1 (mkPg (fl 11) 2 false); OWrite 2 (mkPg (fl 12) 0 false); OCommitJournal 2]) in
  let s2 := snd (run_group s1 [OWrite 1 (mkPg (fl 21) 5 false); OWrite 5 (mkPg (fl 55) 0 false);
                               OZeroFill 3 (mkPg (fl 33) 0 false); OZeroFill 4 (mkPg (fl 44) 0 false); OCommitJournal 5]) in
  (txid s2, chk s2 =? fl (N.lxor (N.lxor (N.lxor (N.lxor 21 12) 33) 44) 55), map (fun f => map fst (l_pages f)) (ltxdir s2))
    = (2, true, [[1;2];[1;3;4;5]]) /\
  (unwritten (snd (run_group s1 [OWrite 1 (mkPg (fl 21) 5 false); OWrite 5 (mkPg (fl 55) 0 false)])) 3 = true) /\
  run_group s2 [OOpen] = (0, snd (run_group s2 [OOpen])) /\ chk (snd (run_group s2 [OOpen])) = chk s2.
Proof. vm_compute. repeat split; reflexivity. Qed.

(* Histories.  [hstep]: a committed rollback-journal transaction (the gaps the file system fills with zeros - pages SQLite
   never writes -, the page writes, the new size) or the truncate that follows a shrinking commit; [wf_hist]: what SQLite's
   pager guarantees (gaps lie beyond the old size and are distinct, page numbers start at 1, the journal mode stays).
   For EVERY such history from an empty node, of any length: once something was committed the position's checksum is the
   from-scratch checksum of the database file, and the cache agrees with the file on every page of the database. *)
Theorem C04_journal_history : forall lock hs s',
  1 <= lock -> wf_hist (init lock) hs -> run_hsteps (init lock) hs = Some s' ->
  (txid s' <> 0 -> chk s' = scratch (fun p => if p =? lock then 0 else file_h s' p) (pageN s')) /\
  (forall p, 1 <= p <= pageN s' -> p <> lock -> dbc s' p = file_h s' p) /\ lockpg s' = lock.
Proof. exact journal_history_checksum. Qed.

(* Non-vacuity: create 2 pages; grow to 5 writing only pages 1 and 5 (3 and 4 are gaps); a transaction that spills pages 2
   and 7 and is rolled back (pre-image back, cut to 5 pages); shrink to 3 and truncate *)
Example C04_journal_history_nonvacuous :
  let pg h := mkPg (fl h) 0 false in
  let hs := [HTx [] [AWrite 1 (pg 11); AWrite 2 (pg 12)] 2;
             HTx [(3, pg 33); (4, pg 44)] [AWrite 1 (pg 21); AWrite 5 (pg 55)] 5;
             HTx [] [AWrite 2 (pg 77); AWrite 7 (pg 70); AWrite 2 (pg 12); ACut] 5;
             HTx [] [AWrite 2 (pg 92)] 3; HTrunc 3] in
  wf_hist (init 2097153) hs /\
  match run_hsteps (init 2097153) hs with
  | Some s => (txid s, pageN s, lenN (dbfile s), chk s =? fl (N.lxor (N.lxor 21 92) 33)) = (4, 3, 3, true)
  | None => False
  end.
Proof. exact journal_history_example. Qed.

(* Into WAL mode.  [hs]: any rollback-journal history as above; then one more rollback-journal transaction [zf acts c] whose
   pages may carry anything ([wf_tx_any]) and which leaves the database in WAL mode - SQLite rewrites page 1 with the WAL
   versions; then [ws]: any number of committed WAL transactions, each the frames in write order and the size its commit
   frame names, of which [wf_wals] asks what SQLite guarantees: every page the database gains is among the frames, and
   page 1, when written, keeps the WAL versions.  [overlay] (which [run_wal] folds over [ws]) is the logical database:
     overlay lock frames commit v p = checksum of the last frame for p, if p is not the lock page, p <= commit and the
     transaction wrote p; else v p.
   For EVERY such history: the position's checksum is the from-scratch checksum of that logical database, and what
   LiteFS answers for a page's checksum ([eff], pageChecksum of db.go) is its entry there. *)
Theorem C04_wal_history : forall lock hs zf acts c ws s1 s2 s' v',
  1 <= lock -> wf_hist (init lock) hs -> run_hsteps (init lock) hs = Some s1 ->
  wf_tx_any s1 zf acts -> run_group s1 (hops s1 (HTx zf acts c)) = (0, s2) -> wal_mode s2 = true ->
  wf_wals s2 ws -> run_wal s2 (file_h s2) ws = Some (s', v') ->
  chk s' = scratch (fun p => if p =? lock then 0 else v' p) (pageN s') /\
  (forall p, 1 <= p <= pageN s' -> p <> lock -> eff s' (pageN s') [] p = v' p) /\ lockpg s' = lock.
Proof. exact wal_history_checksum. Qed.
Print Assumptions C04_wal_history.

(* Non-vacuity: two pages in rollback-journal mode, the switch, then three WAL transactions - one grows the database to 3
   pages and writes page 2 twice, one shrinks it to 2, one grows it again *)
Example C04_wal_history_nonvacuous :
  let pg h := mkPg (fl h) 0 false in
  let pw h := mkPg (fl h) 0 true in
  let hs := [HTx [] [AWrite 1 (pg 11); AWrite 2 (pg 12)] 2] in
  let sw := [AWrite 1 (pw 13)] in
  let ws : list wstep := [([(2, pw 22); (3, pw 33); (2, pw 23)], 3); ([(1, pw 14)], 2); ([(3, pw 35); (1, pw 15)], 3)] in
  exists s1 s2,
    wf_hist (init 2097153) hs /\ run_hsteps (init 2097153) hs = Some s1 /\
    wf_tx_any s1 [] sw /\ run_group s1 (hops s1 (HTx [] sw 2)) = (0, s2) /\ wal_mode s2 = true /\
    wf_wals s2 ws /\
    match run_wal s2 (file_h s2) ws with
    | Some (s', v') => (txid s', pageN s', chk s' =? fl (N.lxor (N.lxor (fl 15) (fl 23)) (fl 35)), v' 2 =? fl 23) = (5, 3, true, true)
    | None => False
    end.
Proof. exact wal_history_example. Qed.

(* ... and with LiteFS's checkpoint anywhere in between.  [os]: WAL commits ([WCommit frames commit]) and checkpoints
   ([WCheckpoint]: the last committed version of every page in the log is copied into the database file, the file is cut to
   the size of the last commit, the WAL bookkeeping is forgotten) in any order and number; [wf_wops] asks of a commit what
   [wf_wals] asks, and that it has frames, a size, and page numbers from 1.  [v'] is computed as before - a checkpoint
   leaves it alone.  For EVERY such history: as above, and whenever nothing is left in the log (right after a checkpoint)
   the database file holds exactly the logical database. *)
Theorem C04_wal_checkpoint_history : forall lock hs zf acts c os s1 s2 s' v',
  1 <= lock -> wf_hist (init lock) hs -> run_hsteps (init lock) hs = Some s1 ->
  wf_tx_any s1 zf acts -> run_group s1 (hops s1 (HTx zf acts c)) = (0, s2) -> wal_mode s2 = true ->
  wf_wops s2 os -> run_wops s2 (file_h s2) os = Some (s', v') ->
  chk s' = scratch (fun p => if p =? lock then 0 else v' p) (pageN s') /\
  (forall p, 1 <= p <= pageN s' -> p <> lock -> eff s' (pageN s') [] p = v' p) /\
  (wal_file s' = [] -> forall p, 1 <= p <= pageN s' -> p <> lock -> file_h s' p = v' p) /\ lockpg s' = lock.
Proof. exact wal_ckpt_history_checksum. Qed.
Print Assumptions C04_wal_checkpoint_history.

Example C04_wal_checkpoint_history_nonvacuous :
  let pg h := mkPg (fl h) 0 false in
  let pw h := mkPg (fl h) 0 true in
  let hs := [HTx [] [AWrite 1 (pg 11); AWrite 2 (pg 12)] 2] in
  let sw := [AWrite 1 (pw 13)] in
  let os := [WCommit [(2, pw 22); (3, pw 33); (2, pw 23)] 3; WCheckpoint; WCommit [(1, pw 14)] 2;
             WCommit [(3, pw 35); (1, pw 15)] 3; WCheckpoint] in
  exists s1 s2,
    wf_hist (init 2097153) hs /\ run_hsteps (init 2097153) hs = Some s1 /\
    wf_tx_any s1 [] sw /\ run_group s1 (hops s1 (HTx [] sw 2)) = (0, s2) /\ wal_mode s2 = true /\
    wf_wops s2 os /\
    match run_wops s2 (file_h s2) os with
    | Some (s', v') => (txid s', pageN s', chk s' =? fl (N.lxor (N.lxor (fl 15) (fl 23)) (fl 35)), length (wal_file s'),
                        map (file_h s') [1; 2; 3]) = (5, 3, true, 0%nat, [fl 15; fl 23; fl 35])
    | None => False
    end.
Proof. exact wal_ckpt_history_example. Qed.

(* Replicas.  [fs]: any sequence of transaction files sent to a node that starts empty; [wf_file]: page numbers start at 1,
   no page twice, the TXID is not 0 (what the LTX decoder enforces).  [run_recv] is processLTXStreamFrame: a file that does
   not continue the position is refused and changes nothing, any other is placed and applied (ApplyLTXNoLock, which
   verifies the post-apply checksum and exits the process when it differs - such a history has no final state).
   For EVERY such history: once the replica has a position, the position's checksum is the from-scratch checksum of its
   database file, and the per-page cache is the file's, page by page. *)
Theorem C04_replica_history : forall lock fs s',
  1 <= lock -> Forall wf_file fs -> run_recv (init lock) fs = Some s' ->
  (txid s' <> 0 -> chk s' = scratch (fun p => if p =? lock then 0 else file_h s' p) (pageN s')) /\
  (forall p, 1 <= p -> p <> lock -> dbc s' p = file_h s' p) /\ lockpg s' = lock.
Proof. exact replica_history_checksum. Qed.
Print Assumptions C04_replica_history.

(* Non-vacuity: the files a primary wrote - create 2 pages; grow to 5 writing only pages 1 and 5; shrink to 3 - and a stray
   file that does not continue the position *)
Example C04_replica_history_nonvacuous :
  let pg h := mkPg (fl h) 0 false in
  let hs := [HTx [] [AWrite 1 (pg 11); AWrite 2 (pg 12)] 2;
             HTx [(3, pg 33); (4, pg 44)] [AWrite 1 (pg 21); AWrite 5 (pg 55)] 5;
             HTx [] [AWrite 2 (pg 92)] 3; HTrunc 3] in
  exists s1, run_hsteps (init 2097153) hs = Some s1 /\
    let fs := ltxdir s1 ++ [mkLtx 9 9 0 0 1 []] in
    Forall wf_file fs /\
    match run_recv (init 2097153) fs with
    | Some s' => (txid s', pageN s', chk s' =? chk s1, chk s' =? fl (N.lxor (N.lxor 21 92) 33), lenN (dbfile s')) = (3, 3, true, true, 3)
    | None => False
    end.
Proof. exact replica_history_example. Qed.

(* Restart.  Open (db.go:481) reads the header, checkpoints whatever log it finds, recomputes every page checksum from the
   database file ([open_recomputed]) and re-applies the newest transaction file [f], verifying the checksum it names.
   From ANY state [s] - nothing is assumed about its caches - if Open succeeds then: the cache is the file's on every page
   and empty beyond the database ([RB]), the position is [f]'s, and its checksum is the from-scratch checksum of the database
   file.  Asked of [f]: page numbers from 1, no page twice, and a page it adds beyond the size the header names is among
   its pages (C02_growth_is_captured for the files a primary writes). *)
Theorem C04_open_recomputes : forall s f rest s',
  1 <= lockpg s -> rev (ltxdir s) = f :: rest -> wf_ltx f ->
  (forall x, pageN (open_recomputed s) < x <= l_commit f -> x <> lockpg s -> alookup x (l_pages f) <> None) ->
  op_open s = (Done, s') ->
  RB s' /\ lockpg s' = lockpg s /\ txid s' = l_max f /\ pageN s' = l_commit f /\ chk s' = l_post f /\
  chk s' = scratch (fun p => if p =? lockpg s' then 0 else file_h s' p) (pageN s').
Proof. exact open_checksum. Qed.
Print Assumptions C04_open_recomputes.

(* Non-vacuity: a restart right after a shrinking commit, before SQLite's truncate - the file still has 5 pages, the
   database 3 *)
Example C04_open_recomputes_nonvacuous :
  let pg h n := mkPg (fl h) n false in
  let hs := [HTx [] [AWrite 1 (pg 11 2); AWrite 2 (pg 12 0)] 2;
             HTx [(3, pg 33 0); (4, pg 44 0)] [AWrite 1 (pg 21 5); AWrite 5 (pg 55 0)] 5;
             HTx [] [AWrite 2 (pg 92 0); AWrite 1 (pg 31 3)] 3] in
  exists s f rest, run_hsteps (init 2097153) hs = Some s /\
    1 <= lockpg s /\ rev (ltxdir s) = f :: rest /\ wf_ltx f /\
    (forall x, pageN (open_recomputed s) < x <= l_commit f -> x <> lockpg s -> alookup x (l_pages f) <> None) /\
    match op_open s with
    | (Done, s') => (lenN (dbfile s), txid s', pageN s', chk s' =? chk s, lenN (dbfile s'), chk s' =? fl (N.lxor (N.lxor 31 92) 33))
                    = (5, 3, 3, true, 3, true)
    | _ => False
    end.
Proof. exact open_checksum_example. Qed.

(* WAL mode with every kind of checkpoint.  [os]: in any order and number -
     W2Commit frames commit   a committed WAL transaction ([wf_wal2] as above);
     W2Checkpoint             LiteFS's own checkpoint;
     W2Backfill p             SQLite copies the log's last committed version of page p (1 <= p <= database size) into the
                              database file - a write LiteFS sees in WAL mode (a checkpoint that goes part of the way);
     W2BackfillOld p q        ... or any other version q of a page that is in the log (readers hold the checkpoint back);
     W2SqlRestart             SQLite copies every page of the log within the database size, cuts the file to the database
                              size, and starts the log over with its next write - LiteFS forgets its WAL bookkeeping
                              ([sql_ckpt_ops]; the pages written are determined by the state, nothing is assumed).
   For EVERY such history the conclusions of C04_wal_checkpoint_history hold. *)
Theorem C04_wal_full_history : forall lock hs zf acts c os s1 s2 s' v',
  1 <= lock -> wf_hist (init lock) hs -> run_hsteps (init lock) hs = Some s1 ->
  wf_tx_any s1 zf acts -> run_group s1 (hops s1 (HTx zf acts c)) = (0, s2) -> wal_mode s2 = true ->
  wf_wops2 s2 os -> run_wops2 s2 (file_h s2) os = Some (s', v') ->
  chk s' = scratch (fun p => if p =? lock then 0 else v' p) (pageN s') /\
  (forall p, 1 <= p <= pageN s' -> p <> lock -> eff s' (pageN s') [] p = v' p) /\
  (wal_file s' = [] -> forall p, 1 <= p <= pageN s' -> p <> lock -> file_h s' p = v' p) /\ lockpg s' = lock.
Proof. exact wal_full_history_checksum. Qed.
Print Assumptions C04_wal_full_history.

Example C04_wal_full_history_nonvacuous :
  let pg h := mkPg (fl h) 0 false in
  let pw h := mkPg (fl h) 0 true in
  let hs := [HTx [] [AWrite 1 (pg 11); AWrite 2 (pg 12)] 2] in
  let sw := [AWrite 1 (pw 13)] in
  let os := [W2Commit [(2, pw 22); (3, pw 33); (2, pw 23)] 3; W2BackfillOld 2 (pw 22); W2Backfill 2; W2Commit [(1, pw 14)] 2; W2SqlRestart;
             W2Commit [(3, pw 35); (1, pw 15)] 3; W2Checkpoint] in
  exists s1 s2,
    wf_hist (init 2097153) hs /\ run_hsteps (init 2097153) hs = Some s1 /\
    wf_tx_any s1 [] sw /\ run_group s1 (hops s1 (HTx [] sw 2)) = (0, s2) /\ wal_mode s2 = true /\
    wf_wops2 s2 os /\
    match run_wops2 s2 (file_h s2) os with
    | Some (s', v') => (txid s', pageN s', chk s' =? fl (N.lxor (N.lxor (fl 15) (fl 23)) (fl 35)), length (wal_file s'),
                        map (file_h s') [1; 2; 3]) = (5, 3, true, 0%nat, [fl 15; fl 23; fl 35])
    | None => False
    end.
Proof. exact wal_full_history_example. Qed.

(* All of it.  [gs]: a list of steps, each allowed in the journal mode the node is in ([wf_gsteps]):
     GJ h                 rollback-journal mode: a transaction that keeps the mode, or the truncate ([wf_step]);
     GSwitch zf acts c    rollback-journal mode: the transaction that leaves the database in WAL mode;
     GW o                 WAL mode: a commit, LiteFS's checkpoint, a page copied by SQLite, SQLite's complete checkpoint with
                          the restart of the log ([wf_wop2]);
     GLeave q c           WAL mode with nothing in the log: SQLite removes the log and rewrites page 1 (q, without the WAL
                          versions) under a rollback journal while the header still says WAL, and commits;
     GRestart             LiteFS restarts: Open, which checkpoints whatever log it finds, recomputes from the file and
                          re-applies the newest transaction file ([wf_restart]: that file is well-formed, has the pages it
                          adds beyond the header's size, and there is a database file or it writes page 1);
     GRecv f              the node, a replica for the moment, is sent a transaction file: refused when it does not continue
                          the position, else placed and applied ([wf_recv]: the file is well-formed and has the pages it adds
                          beyond the database size; in WAL mode the log has been checkpointed);
     GForward f ok        a replica that holds the halt lock forwards a transaction (handlePostTx): it has to continue the
                          position and its body has to verify ([ok]); then as GRecv;
     GDrop                the database is dropped;
     GImport pages commit a database image with every page 1..commit replaces whatever is there ([wf_import]).
   [v'] is the logical database [run_gsteps] computes: in WAL mode the overlay of frames on the file at the switch or at
   the last restart; otherwise the file.  For EVERY such history from an empty node: in rollback-journal mode the
   position's checksum (once there is one) is the from-scratch checksum of the database file and the cache is the file's;
   in WAL mode it is the from-scratch checksum of [v'], pageChecksum answers [v'], and with nothing in the log the file
   is [v']. *)
Theorem C04_history : forall lock gs s' v',
  1 <= lock -> wf_gsteps (init lock) gs -> run_gsteps (init lock) (fun _ => 0) gs = Some (s', v') ->
  lockpg s' = lock /\
  (wal_mode s' = false -> (txid s' <> 0 -> chk s' = scratch (fun p => if p =? lock then 0 else file_h s' p) (pageN s')) /\
                          (forall p, 1 <= p <= pageN s' -> p <> lock -> dbc s' p = file_h s' p)) /\
  (wal_mode s' = true -> chk s' = scratch (fun p => if p =? lock then 0 else v' p) (pageN s') /\
                         (forall p, 1 <= p <= pageN s' -> p <> lock -> eff s' (pageN s') [] p = v' p) /\
                         (wal_file s' = [] -> forall p, 1 <= p <= pageN s' -> p <> lock -> file_h s' p = v' p)).
Proof. exact g_history_checksum. Qed.
Print Assumptions C04_history.

(* Non-vacuity: create the database; restart; switch to WAL mode; a WAL transaction that grows the database; restart with the
   log in place; another transaction; SQLite's complete checkpoint with the restart of the log; back to rollback-journal
   mode; a rollback-journal transaction; a file from the stream applied, a stray one refused; a forwarded transaction refused,
   one applied; a drop; an import *)
Example C04_history_nonvacuous :
  let pg h n := mkPg (fl h) n false in
  let pw h n := mkPg (fl h) n true in
  let x3 a b c := fl (N.lxor (N.lxor (fl a) (fl b)) (fl c)) in
  let gs := [GJ (HTx [] [AWrite 1 (pg 11 2); AWrite 2 (pg 19 0); AFail 2; AWrite 2 (pg 12 0)] 2);
             GRestart;
             GSwitch [] [AWrite 1 (pw 13 2)] 2;
             GW (W2Commit [(1, pw 14 3); (3, pw 33 0); (2, pw 23 0)] 3);
             GRestart;
             GW (W2Commit [(2, pw 24 0)] 3);
             GW W2SqlRestart;
             GLeave (pg 15 3) 3;
             GJ (HTx [] [AWrite 3 (pg 36 0)] 3);
             GRecv (mkLtx 7 7 (x3 15 24 36) (x3 15 27 36) 3 [(2, pg 27 0)]);
             GRecv (mkLtx 9 9 0 0 1 []);
             GForward (mkLtx 8 8 0 0 1 []) true;
             GForward (mkLtx 8 8 (x3 15 27 36) (x3 18 27 36) 3 [(1, pg 18 3)]) true;
             GDrop;
             GImport [(1, pg 41 2); (2, pg 42 0)] 2] in
  wf_gsteps (init 2097153) gs /\
  match run_gsteps (init 2097153) (fun _ => 0) gs with
  | Some (s', v') => (wal_mode s', txid s', pageN s', chk s' =? fl (N.lxor (fl 41) (fl 42)), lenN (dbfile s'),
                      map (file_h s') [1; 2; 3]) = (false, 10, 2, true, 2, [fl 41; fl 42; 0])
  | None => False
  end.
Proof. exact g_history_example. Qed.
