(* C13 -- Write forwarding under a halt lock is exclusive, ordered and acknowledged.  ONLY statements.
   Model/Halt.v: a primary P (log [plog], granted halt lock [phalt]), the replica R that takes the lock
   ([rlock], [rlog]) over a network that loses responses and requests, an observer replica O ([olog]);
   [step] is one event (grant, local write, checkpoint, replica commit, release, expiry, a foreign
   POST /tx, a hand-over of the primary role to O), [settle] the replication stream that follows it.  [ohalt] is the
   halt lock a former primary still holds on its own database: until it expires that node cannot follow the stream, which
   is the one exception in C13_reaches_every_replica.  Logs are lists of
   (txid, checksum before, checksum after, producer).  [Inv]: P's log is a linked chain and both
   replicas hold a suffix of it.  Real-time aspects (TTL clock, time-outs, a release racing the apply
   inside one /tx request) are not in the model: expiry is an event between requests. *)
From Coq Require Import NArith List Bool.
Require Import LF.Model.Halt LF.Proofs.HaltProofs.
Require Import LF.Base.RWBase LF.Gen.RWMutexGen LF.Model.Locks LF.Proofs.LocksProofs.
Import ListNotations.
Local Open Scope N_scope.

(* exclusive: from grant to release / expiry the primary commits no local transaction, runs no checkpoint *)
Theorem C13_halted_refuses_local : forall s post id p, phalt s = Some (id, p) ->
  step s (ELocalWrite post) = (s, c_refused) /\ step s ECheckpoint = (s, c_refused).
Proof. exact halted_refuses_local. Qed.
Theorem C13_halted_log_moves_only_by_holder : forall s e s' c id p,
  phalt s = Some (id, p) -> step s e = (s', c) -> plog s' <> plog s ->
  (exists post d, (e = ECommit post d \/ e = ECommitWal post d) /\ holds (rlock s) id = true) \/ (exists post, e = EForeign id post).
Proof. exact halted_log_moves_only_by_holder. Qed.
(* ... which on the lock table means: the grant's guard set keeps every other owner out of RESERVED
   (rollback journal) and of WRITE and CKPT (WAL) - the generated RWMutex model of C11 *)
Theorem C13_halt_guard_blocks_writers : forall t g wal t' h,
  TInv t -> (forall l, gst (t l) g = Unlocked) -> try_acquire_write t g wal = Some (true, t') -> h <> g ->
  (wal = false -> exists t2, t_trylock t' LReserved h = Some (false, t2)) /\
  (wal = true -> (exists t2, t_trylock t' LWrite h = Some (false, t2)) /\ (exists t2, t_trylock t' LCkpt h = Some (false, t2))).
Proof. exact halt_guard_blocks_writers. Qed.

(* start: the replica writes from exactly the position the lock was granted at = the primary's *)
Theorem C13_grant_position : forall s id s', Inv s -> step s (EGrant id true) = (s', c_ok) ->
  exists l, rlock s' = Some l /\ phalt s' = Some l /\ fst l = id /\ pos_of (rlog s') = snd l /\
    (phalt s = None -> snd l = pos_of (plog s') /\ rlog s' = plog s').
Proof. exact grant_ok_position. Qed.

(* ordered and acknowledged: when the replica's commit returns, the primary has applied that very
   transaction, under the same id and checksum, on top of the same history *)
Theorem C13_commit_acknowledged : forall s post d s', Inv s -> step s (ECommit post d) = (s', c_ok) ->
  exists id g, rlock s = Some (id, g) /\ holds (phalt s) id = true /\ rlog s = plog s /\
    plog s' = next_entry (rlog s) post 1 :: plog s /\ rlog s' = plog s' /\ pos_of (rlog s') = (fst (pos_of (rlog s)) + 1, post).
Proof. exact commit_acknowledged. Qed.
(* then it reaches every other replica (and, if the acknowledgement was lost, the committing replica
   itself): after each event and the stream that follows, both replicas hold the primary's history *)
Theorem C13_reaches_every_replica : forall s e s' c, Inv s -> step_settled s e = (s', c) ->
  rlog s' = plog s' /\ (ohalt s' = None -> olog s' = plog s').
Proof. exact step_settled_converged. Qed.
Theorem C13_reachable : forall es s0, Inv s0 -> rlog s0 = plog s0 -> (ohalt s0 = None -> olog s0 = plog s0) ->
  Inv (final s0 es) /\ rlog (final s0 es) = plog (final s0 es) /\
  (ohalt (final s0 es) = None -> olog (final s0 es) = plog (final s0 es)).
Proof. exact reachable_converged. Qed.
Theorem C13_init : Inv init.
Proof. exact inv_init. Qed.

(* holder only: a forwarded file is applied only under the id of the lock granted now, and only if it
   extends the primary's history; without the lock it is refused and nothing changes *)
Theorem C13_forward_needs_holder : forall s id e s', forward s id e = (s', true) ->
  exists p, phalt s = Some (id, p) /\ e_txid e = fst (pos_of (plog s)) + 1 /\ e_pre e = snd (pos_of (plog s)).
Proof. exact forward_needs_holder. Qed.
Theorem C13_forward_without_lock_refused : forall s id e, holds (phalt s) id = false -> forward s id e = (s, false).
Proof. exact forward_without_lock_refused. Qed.

(* idempotent acquire; a different id is refused while the lock is granted *)
Theorem C13_grant_idempotent : forall s id s1 l, grant s id = (s1, Some l) -> grant s1 id = (s1, Some l).
Proof. exact grant_idempotent. Qed.
Theorem C13_grant_other_id_refused : forall s id i p, phalt s = Some (i, p) -> i <> id -> grant s id = (s, None).
Proof. exact grant_other_id_refused. Qed.

(* release / expiry: the primary writes again, the former holder cannot publish *)
Theorem C13_release_frees : forall s s' id g, rlock s = Some (id, g) -> holds (phalt s) id = true ->
  step s (ERelease true) = (s', c_ok) -> phalt s' = None /\ rlock s' = None /\ plog s' = plog s.
Proof. exact release_frees. Qed.
Theorem C13_expire_frees : forall s, phalt (fst (step s EExpire)) = None /\ plog (fst (step s EExpire)) = plog s.
Proof. exact expire_frees. Qed.
Theorem C13_free_primary_writes : forall s post, phalt s = None -> snd (step s (ELocalWrite post)) = c_ok.
Proof. exact free_primary_writes. Qed.
Theorem C13_former_holder_cannot_publish : forall s post d, phalt s = None -> step s (ECommit post d) = (s, c_refused).
Proof. exact former_holder_cannot_publish. Qed.
Theorem C13_replica_without_lock_cannot_write : forall s post d, rlock s = None -> step s (ECommit post d) = (s, c_refused).
Proof. exact replica_without_lock_cannot_write. Qed.

(* both journal modes: on a WAL-mode database the commit is the same commit, except that a forward which is
   refused or whose answer is lost ends in a restart of the replica (fail-stop) instead of a rollback; an
   acknowledged WAL commit is an acknowledged commit (C13_commit_acknowledged applies to it) *)
Theorem C13_commit_wal_spec : forall s post d,
  step s (ECommitWal post d) =
  (let '(s1, c) := step s (ECommit post d) in if c =? c_ok then (s1, c) else (restart s1, c)).
Proof. exact commit_wal_spec. Qed.
Theorem C13_commit_wal_acknowledged : forall s post d s',
  step s (ECommitWal post d) = (s', c_ok) -> step s (ECommit post d) = (s', c_ok).
Proof. exact commit_wal_acknowledged. Qed.

(* a replica that restarts while it holds the lock (in WAL mode: whose forwarded commit failed) has forgotten
   it and is read-only again; the primary stays halted until release by id or expiry *)
Theorem C13_restart_forgets : forall s post d,
  let s1 := fst (step s ERestart) in
  rlock s1 = None /\ plog s1 = plog s /\ phalt s1 = phalt s /\ rlog s1 = rlog s /\ step s1 (ECommit post d) = (s1, c_refused).
Proof. exact restart_forgets. Qed.

(* primary change while a halt is held.  The role is handed to a connected, caught-up replica (the only hand-over the
   model has); the history is the same, so nothing acknowledged is lost; the new primary has granted no lock, writes at
   once, and whatever the former holder forwards - under any lock id - is refused and changes nothing; the former primary
   keeps the lock it had granted and cannot follow the new primary until that lock expires; then everybody converges *)
Theorem C13_handoff_spec : forall s s', step s EHandoff = (s', c_ok) ->
  ohalt s = None /\ olog s = plog s /\ plog s' = plog s /\ olog s' = plog s /\ phalt s' = None /\ ohalt s' = phalt s /\
  rlock s' = rlock s /\ rlog s' = rlog s.
Proof. exact handoff_spec. Qed.
Theorem C13_handoff_refused_changes_nothing : forall s s', step s EHandoff = (s', c_refused) -> s' = s.
Proof. exact handoff_refused. Qed.
Theorem C13_handoff_accepted_when_converged : forall s, ohalt s = None -> olog s = plog s -> snd (step s EHandoff) = c_ok.
Proof. exact handoff_accepted_when_converged. Qed.
Theorem C13_handoff_to_stuck_node_refused : forall s p, ohalt s = Some p -> step s EHandoff = (s, c_refused).
Proof. exact handoff_to_stuck_node_refused. Qed.
Theorem C13_handoff_new_primary_free : forall s s' post d, step s EHandoff = (s', c_ok) ->
  snd (step s' (ELocalWrite post)) = c_ok /\ step s' (ECommit post d) = (s', c_refused) /\
  (forall id e, forward s' id e = (s', false)).
Proof. exact handoff_new_primary_free. Qed.
Theorem C13_former_primary_stuck_until_expiry : forall s p, ohalt s = Some p -> stream_o s = s.
Proof. exact former_primary_stuck. Qed.
Theorem C13_expire_unsticks : forall s, ohalt (fst (step s EExpire)) = None /\ phalt (fst (step s EExpire)) = None.
Proof. exact expire_unsticks. Qed.
Theorem C13_expire_settled_converges : forall s s' c, Inv s -> step_settled s EExpire = (s', c) ->
  rlog s' = plog s' /\ olog s' = plog s'.
Proof. exact expire_settled_converges. Qed.

(* Non-vacuity: grant, blocked local write, two forwarded commits (the second unacknowledged), the stream
   repairs the replica and clears its stale lock, expiry, the primary writes again *)
Example C13_nonvacuous :
  run (start_of [5; 6]) [EGrant 11 true; ELocalWrite 9; ECommit 7 true; ECommit 8 false; EExpire; ELocalWrite 10; ECommit 12 true]
  = [[1; 2; 6; 2; 6; 2; 6; 11; 11; 0]; [0; 2; 6; 2; 6; 2; 6; 11; 11; 0]; [1; 3; 7; 3; 7; 3; 7; 11; 11; 0]; [2; 4; 8; 4; 8; 4; 8; 11; 0; 0];
     [1; 4; 8; 4; 8; 4; 8; 0; 0; 0]; [1; 5; 10; 5; 10; 5; 10; 0; 0; 0]; [0; 5; 10; 5; 10; 5; 10; 0; 0; 0]].
Proof. vm_compute. reflexivity. Qed.
(* ... and a primary change while halted: the hand-over, the former holder's commit refused, the new primary writes, the
   former primary (third position) stays behind with its lock (last number) until expiry, a hand-over back to it is
   refused meanwhile and accepted afterwards *)
Example C13_handoff_nonvacuous :
  run (start_of [5; 6]) [EGrant 11 true; ECommit 7 true; EHandoff; ECommit 8 true; ELocalWrite 9; EHandoff; EExpire; EHandoff; ELocalWrite 10]
  = [[1; 2; 6; 2; 6; 2; 6; 11; 11; 0]; [1; 3; 7; 3; 7; 3; 7; 11; 11; 0]; [1; 3; 7; 3; 7; 3; 7; 0; 11; 11]; [0; 3; 7; 3; 7; 3; 7; 0; 11; 11];
     [1; 4; 9; 4; 9; 3; 7; 0; 0; 11]; [0; 4; 9; 4; 9; 3; 7; 0; 0; 11]; [1; 4; 9; 4; 9; 4; 9; 0; 0; 0]; [1; 4; 9; 4; 9; 4; 9; 0; 0; 0];
     [1; 5; 10; 5; 10; 5; 10; 0; 0; 0]].
Proof. vm_compute. reflexivity. Qed.

(* a grant whose position the replica does not reach in time is given back and forgotten: the replica is not the holder *)
Theorem C13_grant_not_reached_forgets : forall s id s' post d, step s (EGrant id true) = (s', c_refused) ->
  grant s id <> (fst (grant s id), None) -> rlock s' = None /\ step s' (ECommit post d) = (s', c_refused).
Proof. exact grant_not_reached_forgets. Qed.

(* "the replica starts writing from exactly the primary's position" when it is BEHIND at the moment of the grant (by any
   number of transactions): the stream brings it to the granted position, and it then holds the lock the primary
   granted.  [grant_wait _ _ false] is the order of AcquireRemoteHaltLock after the repair (wait, then store). *)
Theorem C13_grant_to_lagging_replica : forall s id, Inv s -> phalt s = None -> id <> 0 ->
  snd (grant_wait s id false) = c_ok /\
  rlock (fst (grant_wait s id false)) = Some (id, pos_of (plog s)) /\
  phalt (fst (grant_wait s id false)) = Some (id, pos_of (plog s)) /\
  rlog (fst (grant_wait s id false)) = plog s /\ plog (fst (grant_wait s id false)) = plog s.
Proof. exact grant_wait_holds. Qed.
(* the order before the repair (store, then wait), one transaction behind: the request succeeds, the primary is halted
   for lock 61, and the replica holds nothing - the catch-up transaction cleared the lock it had just stored *)
Example C13_lock_stored_before_the_wait_is_lost :
  let '(s', c) := grant_wait (behind_state [5; 6; 7] 1) 61 true in
  (c, id_of (phalt s'), id_of (rlock s'), fst (pos_of (rlog s'))) = (c_ok, 61, 0, 3) /\
  behind_obs [5; 6; 7] 1 61 = [1; 3; 7; 3; 7; 61; 61].
Proof. vm_compute. split; reflexivity. Qed.

