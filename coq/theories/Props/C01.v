(* C01 -- A replica at position (TXID, checksum) is byte-identical to the primary there.
   ONLY statements.

   Safety is stated against the ghost map [world : position -> image] ("the primary's database as
   it stood when it committed (t, c)").  That such a map exists -- a position determines an image
   across all nodes of the history -- is LiteFS's design premise (XOR-of-CRC64 collisions are
   assumed away); it is the hypothesis NoCollision of DESIGN.md and is NOT provable.
   Under it:
     * every file in a primary's log is a true delta of the world (C02/C03 exactness, proved there),
     * the primary sends an incremental file only on top of exactly the position it was built
       from (C06), so a replica holding world(pos) holds world(pos') after applying it (below),
     * otherwise it sends a snapshot, whose pages are those of world(primary pos) (C10).
   Liveness is proved as a bound on the number of stream iterations (no wall-clock statement).
   The kernel page cache is exercised by the harness with a simulated cache fed only by the
   Invalidator callbacks; it is not part of the model.
   Round 8, WITHOUT that premise, for rollback-journal histories (C01_follower_identical): a follower
   that is sent, step by step, the files a primary's log gains holds page for page what the
   primary's database file holds, at the same position - for every history from empty nodes.
   The argument is about contents, not checksums: a page that is not in a transaction's file was
   not in the dirty set, hence is what it was (SameM), hence what the follower already has (Sim).
   And on into WAL mode (C01_follower_identical_wal): after the switch, through WAL commits and
   checkpoints of every kind, the follower's file is the primary's LOGICAL database - the last
   committed version of a page in the primary's log, else the primary's file. *)
From Coq Require Import NArith List Bool.
Require Import LF.Model.PageDB LF.Model.Repl LF.Proofs.ChainProofs LF.Proofs.ReplProofs LF.Proofs.ChecksumProofs LF.Proofs.HistoryProofs LF.Proofs.WalHistoryProofs LF.Proofs.WalCheckpointProofs LF.Proofs.SqlCheckpointProofs LF.Proofs.ApplyHistoryProofs LF.Proofs.ComposeProofs LF.Proofs.FollowProofs LF.Proofs.FollowWalProofs LF.Proofs.FollowGProofs LF.Proofs.FollowRestartProofs LF.Proofs.JoinerProofs.
Import ListNotations.
Local Open Scope N_scope.

Theorem C01_incremental_keeps_image : forall lock (world : pos -> image) ppos dir cpos f (rimg rimg' : image),
  stream_decide ppos dir cpos = ASendLTX f ->
  (forall g, In g dir -> delta lock g (world (l_min g - 1, l_pre g)) (world (l_max g, l_post g))) ->
  (forall p, 1 <= p -> p <> lock -> rimg p = world cpos p) ->
  delta lock f rimg rimg' ->
  img_eq lock (l_commit f) rimg' (world (l_max f, l_post f)).
Proof. exact incremental_keeps_image. Qed.

(* the stream loop against a quiescent primary ends after at most (primary TXID - client TXID) + 1
   iterations (incremental files one TXID at a time, or one snapshot), for every client position *)
Theorem C01_convergence_steps : forall ppos dir,
  (forall f, In f dir -> l_max f = fst ppos -> l_post f = snd ppos) ->
  forall fuel cpos, (length (stream_db fuel ppos dir cpos) <= N.to_nat (fst ppos - fst (effective_client ppos cpos)) + 1)%nat.
Proof. exact stream_db_bound. Qed.

(* the replica-side apply is the one whose chain/position behaviour is proved in C09 *)
Theorem C01_receive_sets_position : forall s f s',
  op_receive s f = (Done, s') -> txid s' = l_max f /\ chk s' = l_post f /\ pageN s' = l_commit f.
Proof.
  exact (fun s f s' H =>
    match negb (is_snapshot f) && negb (extends_pos s f) as b
      return ((if b then (Failed, s) else op_apply (with_dir s (if is_snapshot f then [f] else ltxdir s ++ [f])) f true) = (Done, s') -> _) with
    | true => fun H0 => match (eq_ind (Failed, s) (fun r => match fst r with Failed => True | _ => False end) I _ H0) with end
    | false => fun H0 => let '(conj a (conj b (conj c _))) := apply_done _ f true s' H0 in conj a (conj b c)
    end H).
Qed.

(* Primary and follower, both starting empty.  [hs]: any rollback-journal history of the primary ([wf_hist]: what SQLite's pager
   guarantees, as in C04_journal_history).  [follow] runs it step by step; after each step the follower is sent the files the
   primary's log gained in it ([new_files]; [run_recv] is processLTXStreamFrame: position check, placement, apply with its
   checksum verification - a follower that exits has no final state).  [fpg s p]: what the database file holds at page p.
   For EVERY such history: the follower is at the primary's position and its file holds what the primary's holds on every
   page of the database but the lock page.  Nothing is assumed about checksums. *)
Theorem C01_follower_identical : forall lock hs sP sR,
  1 <= lock -> wf_hist (init lock) hs -> follow (init lock) (init lock) hs = Some (sP, sR) ->
  txid sR = txid sP /\ chk sR = chk sP /\ pageN sR = pageN sP /\
  (forall p, 1 <= p <= pageN sP -> p <> lock -> fpg sR p = fpg sP p).
Proof. exact follower_identical. Qed.
Print Assumptions C01_follower_identical.

(* Non-vacuity: create 2 pages; grow to 5 writing only pages 1 and 5 (3 and 4 are gaps the file system fills); a transaction
   that spills pages 2 and 7 and is rolled back; shrink to 3 and truncate - four files reach the follower *)
Example C01_follower_identical_nonvacuous :
  let pg h := mkPg (fl h) 0 false in
  let hs := [HTx [] [AWrite 1 (pg 11); AWrite 2 (pg 12)] 2;
             HTx [(3, pg 33); (4, pg 44)] [AWrite 1 (pg 21); AWrite 5 (pg 55)] 5;
             HTx [] [AWrite 2 (pg 77); AWrite 7 (pg 70); AWrite 2 (pg 12); ACut] 5;
             HTx [] [AWrite 2 (pg 92)] 3; HTrunc 3] in
  wf_hist (init 2097153) hs /\
  match follow (init 2097153) (init 2097153) hs with
  | Some (sP, sR) => (txid sR, pageN sR, chk sR =? chk sP, map (fpg sR) [1; 2; 3], lenN (dbfile sR), length (ltxdir sP))
                     = (4, 3, true, [pg 21; pg 92; pg 33], 3, 4%nat)
  | None => False
  end.
Proof. exact follower_identical_example. Qed.

(* Into WAL mode.  As above, then the rollback-journal transaction that switches the primary to WAL mode (its file reaches the
   follower), then [os]: WAL commits, LiteFS checkpoints, pages copied by SQLite, SQLite's complete checkpoint with the restart
   of the log, in any order ([wf_wops2] as in C04_wal_full_history) - the follower being sent after each step what the
   primary's log gained ([followw]).  [lpage s p]: the primary's logical page - the last committed version of p in its log
   ([wpages]), else what its database file holds.  For EVERY such history the follower is at the primary's position and its
   database file holds the primary's logical database, page for page.  Nothing is assumed about checksums. *)
Theorem C01_follower_identical_wal : forall lock hs zf acts c os s1 r1 s2 r2 sP sR,
  1 <= lock -> wf_hist (init lock) hs -> follow (init lock) (init lock) hs = Some (s1, r1) ->
  wf_tx_any s1 zf acts -> run_group s1 (hops s1 (HTx zf acts c)) = (0, s2) -> wal_mode s2 = true ->
  run_recv r1 (new_files s1 s2) = Some r2 ->
  wf_wops2 s2 os -> followw s2 r2 (file_h s2) os = Some (sP, sR) ->
  txid sR = txid sP /\ chk sR = chk sP /\ pageN sR = pageN sP /\
  (forall p, 1 <= p <= pageN sP -> p <> lock -> fpg sR p = lpage sP p).
Proof. exact follower_identical_wal. Qed.
Print Assumptions C01_follower_identical_wal.

(* Non-vacuity: at the end of this history the primary's database file is behind its log (page 1 is an older version, page 3
   is not there yet) and the follower's file is the logical database *)
Example C01_follower_identical_wal_nonvacuous :
  let pg h := mkPg (fl h) 0 false in
  let pw h := mkPg (fl h) 0 true in
  let hs := [HTx [] [AWrite 1 (pg 11); AWrite 2 (pg 12)] 2] in
  let sw := [AWrite 1 (pw 13)] in
  let os := [W2Commit [(2, pw 22); (3, pw 33); (2, pw 23)] 3; W2BackfillOld 2 (pw 22); W2Commit [(1, pw 14)] 2; W2Checkpoint;
             W2Commit [(3, pw 35); (1, pw 15)] 3] in
  exists s1 r1 s2 r2,
    wf_hist (init 2097153) hs /\ follow (init 2097153) (init 2097153) hs = Some (s1, r1) /\
    wf_tx_any s1 [] sw /\ run_group s1 (hops s1 (HTx [] sw 2)) = (0, s2) /\ wal_mode s2 = true /\
    run_recv r1 (new_files s1 s2) = Some r2 /\ wf_wops2 s2 os /\
    match followw s2 r2 (file_h s2) os with
    | Some (sP, sR) => (txid sR, pageN sR, chk sR =? chk sP, map (fpg sR) [1; 2; 3], map (lpage sP) [1; 2; 3], map (fpg sP) [1; 2; 3])
                       = (5, 3, true, [pw 15; pw 23; pw 35], [pw 15; pw 23; pw 35], [pw 14; pw 23; zero_pg])
    | None => False
    end.
Proof. exact follower_identical_wal_example. Qed.

(* Over the steps of C04_history.  [gs]: any list of them the journal mode allows ([wf_fgsteps] = [wf_gsteps], and no
   restart of the primary itself): rollback-journal transactions, truncates, the switch, WAL commits, checkpoints of every
   kind, the way back out of WAL mode, files that reach the node from the stream or are forwarded to it under the halt lock,
   drops, imports.  [followg]: after each step the follower is sent what the step publishes ([sent]: the files the log
   gained; for a received or forwarded file, that file).  For EVERY such history from empty nodes: the follower is at the
   primary's position and its database file holds the primary's logical database, page for page.  Nothing is assumed about
   checksums. *)
Theorem C01_follower_history : forall lock gs sP sR,
  1 <= lock -> wf_fgsteps (init lock) gs -> followg (init lock) (init lock) (fun _ => 0) gs = Some (sP, sR) ->
  txid sR = txid sP /\ chk sR = chk sP /\ pageN sR = pageN sP /\
  (forall p, 1 <= p <= pageN sP -> p <> lock -> fpg sR p = lpage sP p).
Proof. exact follower_identical_g. Qed.
Print Assumptions C01_follower_history.

(* Non-vacuity: a failed and repeated finalisation; the switch; two WAL transactions; SQLite's complete checkpoint; the way back;
   a rollback-journal transaction; a file from the stream applied, a stray one refused; a forwarded transaction refused,
   one applied; a drop; an import - ten files reach the follower *)
Example C01_follower_history_nonvacuous :
  let pg h n := mkPg (fl h) n false in
  let pw h n := mkPg (fl h) n true in
  let x3 a b c := fl (N.lxor (N.lxor (fl a) (fl b)) (fl c)) in
  let gs := [GJ (HTx [] [AWrite 1 (pg 11 2); AWrite 2 (pg 19 0); AFail 2; AWrite 2 (pg 12 0)] 2);
             GSwitch [] [AWrite 1 (pw 13 2)] 2;
             GW (W2Commit [(1, pw 14 3); (3, pw 33 0); (2, pw 23 0)] 3);
             GW (W2Commit [(2, pw 24 0)] 3);
             GW W2SqlRestart;
             GLeave (pg 15 3) 3;
             GJ (HTx [] [AWrite 3 (pg 36 0)] 3);
             GRecv (mkLtx 7 7 (x3 15 24 36) (x3 15 27 36) 3 [(2, pg 27 0)]);
             GRecv (mkLtx 9 9 0 0 1 []);
             GForward (mkLtx 8 8 0 0 1 []) true;
             GForward (mkLtx 8 8 (x3 15 27 36) (x3 18 27 36) 3 [(1, pg 18 3)]) true;
             GDrop;
             GImport [(1, pg 41 2); (2, pg 42 0)] 2] in
  wf_fgsteps (init 2097153) gs /\
  match followg (init 2097153) (init 2097153) (fun _ => 0) gs with
  | Some (sP, sR) => (txid sR, pageN sR, chk sR =? chk sP, map (fpg sR) [1; 2], map (lpage sP) [1; 2], length (ltxdir sR))
                     = (10, 2, true, [pg 41 2; pg 42 0], [pg 41 2; pg 42 0], 10%nat)
  | None => False
  end.
Proof. exact follower_identical_g_example. Qed.

(* The late joiner.  [snapshot_file s]: the file that starts at TXID 1, names the node's position and size, and holds what
   readPage returns for every page of the database but the lock page (the log's index, else the database file) - what
   WriteSnapshotTo streams.  For EVERY history of the primary into and through WAL mode (as in C04_wal_full_history): a node
   that starts empty and applies that snapshot is at the primary's position and its database file holds the primary's
   logical database, page for page.  Nothing is assumed about checksums (the snapshot is taken on a quiescent primary; the
   interleaved case is C10). *)
Theorem C01_late_joiner : forall lock hs zf acts c os s1 s2 s' v' sR,
  1 <= lock -> wf_hist (init lock) hs -> run_hsteps (init lock) hs = Some s1 ->
  wf_tx_any s1 zf acts -> run_group s1 (hops s1 (HTx zf acts c)) = (0, s2) -> wal_mode s2 = true ->
  wf_wops2 s2 os -> run_wops2 s2 (file_h s2) os = Some (s', v') ->
  op_receive (init lock) (snapshot_file s') = (Done, sR) ->
  txid sR = txid s' /\ chk sR = chk s' /\ pageN sR = pageN s' /\
  (forall p, 1 <= p <= pageN s' -> p <> lock -> fpg sR p = lpage s' p).
Proof. exact late_joiner_history. Qed.
Print Assumptions C01_late_joiner.

(* Non-vacuity: the snapshot is taken while the primary's database file is behind its log; the joiner's file is the logical
   database *)
Example C01_late_joiner_nonvacuous :
  let pg h := mkPg (fl h) 0 false in
  let pw h := mkPg (fl h) 0 true in
  let hs := [HTx [] [AWrite 1 (pg 11); AWrite 2 (pg 12)] 2] in
  let sw := [AWrite 1 (pw 13)] in
  let os := [W2Commit [(2, pw 22); (3, pw 33); (2, pw 23)] 3; W2BackfillOld 2 (pw 22); W2Commit [(1, pw 14)] 2; W2Checkpoint;
             W2Commit [(3, pw 35); (1, pw 15)] 3] in
  exists s1 s2,
    wf_hist (init 2097153) hs /\ run_hsteps (init 2097153) hs = Some s1 /\
    wf_tx_any s1 [] sw /\ run_group s1 (hops s1 (HTx [] sw 2)) = (0, s2) /\ wal_mode s2 = true /\
    wf_wops2 s2 os /\
    match run_wops2 s2 (file_h s2) os with
    | Some (s', v') =>
        match op_receive (init 2097153) (snapshot_file s') with
        | (Done, sR) => (txid sR, pageN sR, chk sR =? chk s', map (fpg sR) [1; 2; 3], map (fpg s') [1; 2; 3])
                        = (5, 3, true, [pw 15; pw 23; pw 35], [pw 14; pw 23; zero_pg])
        | _ => False
        end
    | None => False
    end.
Proof. exact late_joiner_example. Qed.

(* ... and a node in ANY state - behind, ahead, diverged (C06 decides when) - that is sent a snapshot, which replaces its log
   and is applied over whatever it holds: provided the primary can read every page of its database, the node ends at the
   primary's position with the primary's logical database, whatever it held before.  Resnapshotting repairs. *)
Theorem C01_resnapshot_any_state : forall lock hs zf acts c os s1 s2 s' v' sR0 sR,
  1 <= lock -> wf_hist (init lock) hs -> run_hsteps (init lock) hs = Some s1 ->
  wf_tx_any s1 zf acts -> run_group s1 (hops s1 (HTx zf acts c)) = (0, s2) -> wal_mode s2 = true ->
  wf_wops2 s2 os -> run_wops2 s2 (file_h s2) os = Some (s', v') ->
  lockpg sR0 = lock -> (forall x, 1 <= x <= pageN s' -> x <> lock -> read_page s' x <> None) ->
  op_receive sR0 (snapshot_file s') = (Done, sR) ->
  txid sR = txid s' /\ chk sR = chk s' /\ pageN sR = pageN s' /\
  (forall p, 1 <= p <= pageN s' -> p <> lock -> fpg sR p = lpage s' p).
Proof. exact resnapshot_history. Qed.
Print Assumptions C01_resnapshot_any_state.

(* Non-vacuity: the node holds an older database (the primary's state before the switch, position 1) *)
Example C01_resnapshot_nonvacuous :
  let pg h := mkPg (fl h) 0 false in
  let pw h := mkPg (fl h) 0 true in
  let hs := [HTx [] [AWrite 1 (pg 11); AWrite 2 (pg 12)] 2] in
  let sw := [AWrite 1 (pw 13)] in
  let os := [W2Commit [(2, pw 22); (3, pw 33); (2, pw 23)] 3; W2BackfillOld 2 (pw 22); W2Commit [(1, pw 14)] 2; W2Checkpoint;
             W2Commit [(3, pw 35); (1, pw 15)] 3] in
  exists s1 s2,
    wf_hist (init 2097153) hs /\ run_hsteps (init 2097153) hs = Some s1 /\
    wf_tx_any s1 [] sw /\ run_group s1 (hops s1 (HTx [] sw 2)) = (0, s2) /\ wal_mode s2 = true /\
    wf_wops2 s2 os /\
    match run_wops2 s2 (file_h s2) os with
    | Some (s', v') =>
        (forall x, 1 <= x <= pageN s' -> x <> 2097153 -> read_page s' x <> None) /\
        match op_receive s1 (snapshot_file s') with
        | (Done, sR) => (txid s1, txid sR, pageN sR, chk sR =? chk s', map (fpg sR) [1; 2; 3], length (ltxdir sR))
                        = (1, 5, 3, true, [pw 15; pw 23; pw 35], 1%nat)
        | _ => False
        end
    | None => False
    end.
Proof. exact resnapshot_example. Qed.

(* ... the primary's own restarts included: [gs] is any history of C04_history ([wf_gsteps], nothing excluded).  A restart
   publishes nothing; that it leaves the primary's logical database and position alone rests on one more invariant, kept
   by every step: the newest transaction file names the node's position and size and its pages are the logical
   database's ([LastAgree]), so re-applying it after the checkpoint inside Open changes no page. *)
Theorem C01_follower_history_all : forall lock gs sP sR,
  1 <= lock -> wf_gsteps (init lock) gs -> followg (init lock) (init lock) (fun _ => 0) gs = Some (sP, sR) ->
  txid sR = txid sP /\ chk sR = chk sP /\ pageN sR = pageN sP /\
  (forall p, 1 <= p <= pageN sP -> p <> lock -> fpg sR p = lpage sP p).
Proof. exact follower_identical_all. Qed.
Print Assumptions C01_follower_history_all.

(* Non-vacuity: the history of C04_history_nonvacuous - the primary restarts in rollback-journal mode and again in WAL mode with
   its log in place *)
Example C01_follower_history_all_nonvacuous :
  let pg h n := mkPg (fl h) n false in
  let pw h n := mkPg (fl h) n true in
  let x3 a b c := fl (N.lxor (N.lxor (fl a) (fl b)) (fl c)) in
  let gs := [GJ (HTx [] [AWrite 1 (pg 11 2); AWrite 2 (pg 19 0); AFail 2; AWrite 2 (pg 12 0)] 2);
             GRestart;
             GSwitch [] [AWrite 1 (pw 13 2)] 2;
             GW (W2Commit [(1, pw 14 3); (3, pw 33 0); (2, pw 23 0)] 3);
             GRestart;
             GW (W2Commit [(2, pw 24 0)] 3);
             GW W2SqlRestart;
             GLeave (pg 15 3) 3;
             GJ (HTx [] [AWrite 3 (pg 36 0)] 3);
             GRecv (mkLtx 7 7 (x3 15 24 36) (x3 15 27 36) 3 [(2, pg 27 0)]);
             GRecv (mkLtx 9 9 0 0 1 []);
             GForward (mkLtx 8 8 0 0 1 []) true;
             GForward (mkLtx 8 8 (x3 15 27 36) (x3 18 27 36) 3 [(1, pg 18 3)]) true;
             GDrop;
             GImport [(1, pg 41 2); (2, pg 42 0)] 2] in
  wf_gsteps (init 2097153) gs /\
  match followg (init 2097153) (init 2097153) (fun _ => 0) gs with
  | Some (sP, sR) => (txid sR, pageN sR, chk sR =? chk sP, map (fpg sR) [1; 2], map (lpage sP) [1; 2], length (ltxdir sR))
                     = (10, 2, true, [pg 41 2; pg 42 0], [pg 41 2; pg 42 0], 10%nat)
  | None => False
  end.
Proof. exact follower_identical_all_example. Qed.
