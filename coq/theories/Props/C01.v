(* C01 -- A replica at position (TXID, checksum) is byte-identical to the primary there.
   ONLY statements.

   Safety is stated against the ghost map [world : position -> image] ("the primary's database as
   it stood when it committed (t, c)").  That such a map exists -- a position determines an image
   across all nodes of the history -- is LiteFS's design premise (XOR-of-CRC64 collisions are
   assumed away); it is the hypothesis NoCollision of DESIGN.md and is NOT provable.
   Under it:
     * every file in a primary's log is a true delta of the world (C02/C03 exactness, proved there),
     * the primary sends an incremental file only on top of exactly the position it was built
       from (C06), so a replica holding world(pos) holds world(pos') after applying it (below),
     * otherwise it sends a snapshot, whose pages are those of world(primary pos) (C10).
   Liveness is proved as a bound on the number of stream iterations (no wall-clock statement).
   The kernel page cache is exercised by the harness with a simulated cache fed only by the
   Invalidator callbacks; it is not part of the model. *)
From Coq Require Import NArith List Bool.
Require Import LF.Model.PageDB LF.Model.Repl LF.Proofs.ChainProofs LF.Proofs.ReplProofs.
Import ListNotations.
Local Open Scope N_scope.

Theorem C01_incremental_keeps_image : forall lock (world : pos -> image) ppos dir cpos f (rimg rimg' : image),
  stream_decide ppos dir cpos = ASendLTX f ->
  (forall g, In g dir -> delta lock g (world (l_min g - 1, l_pre g)) (world (l_max g, l_post g))) ->
  (forall p, 1 <= p -> p <> lock -> rimg p = world cpos p) ->
  delta lock f rimg rimg' ->
  img_eq lock (l_commit f) rimg' (world (l_max f, l_post f)).
Proof. exact incremental_keeps_image. Qed.

(* the stream loop against a quiescent primary ends after at most (primary TXID - client TXID) + 1
   iterations (incremental files one TXID at a time, or one snapshot), for every client position *)
Theorem C01_convergence_steps : forall ppos dir,
  (forall f, In f dir -> l_max f = fst ppos -> l_post f = snd ppos) ->
  forall fuel cpos, (length (stream_db fuel ppos dir cpos) <= N.to_nat (fst ppos - fst (effective_client ppos cpos)) + 1)%nat.
Proof. exact stream_db_bound. Qed.

(* the replica-side apply is the one whose chain/position behaviour is proved in C09 *)
Theorem C01_receive_sets_position : forall s f s',
  op_receive s f = (Done, s') -> txid s' = l_max f /\ chk s' = l_post f /\ pageN s' = l_commit f.
Proof.
  exact (fun s f s' H =>
    match negb (is_snapshot f) && negb (extends_pos s f) as b
      return ((if b then (Failed, s) else op_apply (with_dir s (if is_snapshot f then [f] else ltxdir s ++ [f])) f true) = (Done, s') -> _) with
    | true => fun H0 => match (eq_ind (Failed, s) (fun r => match fst r with Failed => True | _ => False end) I _ H0) with end
    | false => fun H0 => let '(conj a (conj b (conj c _))) := apply_done _ f true s' H0 in conj a (conj b c)
    end H).
Qed.
