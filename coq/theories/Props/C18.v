(* C18 -- Stream frames, position maps and chunked bodies round-trip and fail
   safely.  ONLY statements; proofs are `exact <lemma>` (or vm_compute for
   closed witnesses).  A reader is a [stream] = the list of segments successive
   Read calls return, so "no matter how the bytes are split across reads" is
   the quantification over all [s] with a given [concat s].  All decoders are
   structurally recursive total functions whose result type has no panic
   constructor: termination and panic-freedom on arbitrary bytes hold by
   construction of the model (and are exercised on the code by the harness). *)
From Coq Require Import NArith List Bool Arith.
Require Import LF.Base.Bytes LF.Gen.ConstsGen LF.Model.Codec LF.Proofs.CodecProofs.
Import ListNotations.
Local Open Scope N_scope.

(* 1. every frame value that can be written is read back identically, with the
      unread remainder untouched, for every segmentation *)
Theorem C18_frame_roundtrip : forall typ lay vs s tail,
  layout_of typ = Some lay -> wf_vals lay vs -> concat s = encode_frame typ vs ++ tail ->
  exists s', decode_frame s = DOk (typ, vs) s' /\ concat s' = tail.
Proof. exact frame_roundtrip. Qed.

(* 2. every proper prefix of an encoding is an error: clean EOF only for the empty
      prefix (end of stream between frames), ErrUnexpectedEOF otherwise *)
Theorem C18_frame_prefix_error : forall typ lay vs s p q,
  layout_of typ = Some lay -> wf_vals lay vs -> encode_frame typ vs = p ++ q -> q <> [] -> concat s = p ->
  decode_frame s = match p with [] => DEOF | _ => DUnexpected end.
Proof. exact frame_prefix. Qed.

(* 3. arbitrary bytes: whatever is accepted re-encodes to exactly the bytes consumed
      (never a silently different value), and is a well-formed value of a known type *)
Theorem C18_frame_no_different_value : forall s typ vs s',
  bytes_ok (concat s) -> decode_frame s = DOk (typ, vs) s' ->
  concat s = encode_frame typ vs ++ concat s' /\ exists lay, layout_of typ = Some lay /\ wf_vals lay vs.
Proof. exact frame_sound. Qed.

(* 4./5. position maps *)
Theorem C18_posmap_roundtrip : forall m s tail,
  Forall (wf_vals pos_layout) m -> N.of_nat (length m) < 2 ^ 32 ->
  concat s = encode_posmap m ++ tail ->
  exists s', decode_posmap s = DOk m s' /\ concat s' = tail.
Proof. exact posmap_roundtrip. Qed.

Theorem C18_posmap_prefix_error : forall m s p q,
  Forall (wf_vals pos_layout) m -> N.of_nat (length m) < 2 ^ 32 ->
  encode_posmap m = p ++ q -> q <> [] -> concat s = p ->
  forall v s', decode_posmap s <> DOk v s'.
Proof. exact posmap_prefix. Qed.

(* 6./7. chunked bodies: any list of writes (any sizes, including 0 and > 65535) *)
Theorem C18_chunk_roundtrip : forall ws s tail,
  concat s = chunk_write ws ++ chunk_close ++ tail ->
  exists s', chunk_read_all true s = (concat ws, CClean s') /\ concat s' = tail.
Proof. exact chunk_roundtrip. Qed.

Theorem C18_chunk_prefix_error : forall ws s p q,
  chunk_write ws ++ chunk_close = p ++ q -> q <> [] -> concat s = p ->
  snd (chunk_read_all true s) = CUnexpected.
Proof. exact chunk_prefix. Qed.

(* 8. memory in proportion to the bytes received (model of the repaired ReadFrom) *)
Theorem C18_alloc_proportional : forall s, alloc_frame false s <= 1044 + 2 * avail s.
Proof. exact alloc_frame_bound. Qed.

(* ReadFullAt returns exactly the requested bytes or an error *)
Theorem C18_read_full_at : forall file n off b,
  read_full_at file n off = RFAOk b <->
  (n <= N.of_nat (length (skipn (N.to_nat off) file)) /\ b = firstn (N.to_nat n) (skipn (N.to_nat off) file)).
Proof. exact read_full_at_ok. Qed.

(* Refuted twins: the same statements are FALSE of the faithful model of the code
   as it stood before the two `fix:` commits (KNOWN_FINDINGS.txt: fixed F1, F13). *)
Theorem C18_alloc_prealloc_refuted :
  exists s, avail s = 16 /\ alloc_frame true s > 4 * 1024 * 1024 * 1024.
Proof. exists [[0;0;0;1; 0;0;0;0;0;0;0;0; 255;255;255;255]]. vm_compute. split; reflexivity. Qed.

Theorem C18_chunk_silent_eof_refuted :
  exists ws p q s, chunk_write ws ++ chunk_close = p ++ q /\ q <> [] /\ concat s = p /\
                   snd (chunk_read_all false s) = CSilentEOF.
Proof.
  exists [[7;8;9]], [0;3], [7;8;9;0;0], [[0;3]]. vm_compute.
  split; [reflexivity|]. split; [discriminate|]. split; reflexivity.
Qed.

(* Non-vacuity *)
Example C18_nonvacuous_frame :
  decode_frame [[0;0];[0;1;0;0;0;0;0;0];[1;2;0;0;0;3;100];[98;99;42]] = DOk (1, [VInt 258; VBytes [100;98;99]]) [[42]]
  /\ wf_vals [FU64; FBytes] [VInt 258; VBytes [100;98;99]].
Proof. split; [vm_compute; reflexivity|]. cbn. repeat split; try (vm_compute; reflexivity); repeat constructor. Qed.

Example C18_nonvacuous_chunk :
  chunk_read_all true [[0;2;5];[6;0;1;7;0;0;9]] = ([5;6;7], CClean [[9]]).
Proof. vm_compute. reflexivity. Qed.
