(* C02 -- Rollback-journal commits are captured exactly, once, in order.
   ONLY statements.  Model: Model/PageDB.v (WriteDatabaseAt, CommitJournal,
   TruncateDatabase at DB-API granularity; pages = their checksums).
   [Unchanged s0 s]: every page of the database file that differs from the file at the
   last commit point s0 is in the dirty set -- established by the write lemma below for
   every sequence of page writes, so the commit theorem applies to every pager program
   (any set of modified / appended / freed pages, any write order, rollback before or
   after spill, which re-writes the pre-images through the same call). *)
From Coq Require Import NArith List Bool Sorted.
Require Import LF.Gen.ConstsGen LF.Model.PageDB LF.Proofs.XorLib LF.Proofs.ChecksumProofs LF.Proofs.CaptureProofs LF.Proofs.HistoryProofs LF.Proofs.LogHistoryProofs.
Import ListNotations.
Local Open Scope N_scope.

(* every database page write in rollback mode is tracked; position, checksum and log are untouched *)
Theorem C02_write_tracked : forall s0 s p q s',
  wal_mode s = false -> contiguous s p -> Unchanged s0 s -> op_write_page s p q = (Done, s') ->
  Unchanged s0 s' /\ wal_mode s' = false /\ dirty s' = insert_sorted p (dirty s) /\
  txid s' = txid s /\ chk s' = chk s /\ ltxdir s' = ltxdir s /\ lockpg s' = lockpg s.
Proof. exact write_page_unchanged. Qed.

(* ... and so is every page write made inside a rollback-journal transaction while LiteFS tracks the database as WAL:
   SQLite leaves WAL mode by closing the log and then rewriting page 1 under a rollback journal, with the header on disk
   still naming WAL (vdbe.c OP_JournalMode); C02_journal_commit_exact then applies to that transaction as to any other *)
Theorem C02_journalled_write_tracked : forall s0 s p q s',
  contiguous s p -> Unchanged s0 s -> op_write_page_j s p q = (Done, s') ->
  Unchanged s0 s' /\ wal_mode s' = wal_mode s /\ dirty s' = insert_sorted p (dirty s) /\
  txid s' = txid s /\ chk s' = chk s /\ ltxdir s' = ltxdir s /\ lockpg s' = lockpg s.
Proof. exact write_page_j_unchanged. Qed.

(* finalising a valid journal: exactly one new file, TXID + 1, pre-checksum = previous checksum,
   sorted pages, none beyond the new size or on the lock page, and applying the file to the
   image at the previous position yields exactly the file SQLite now sees *)
Theorem C02_journal_commit_exact : forall s0 s commit s',
  Unchanged s0 s -> StronglySorted N.lt (dirty s) ->
  op_commit_journal s commit = (Done, s') ->
  exists f, ltxdir s' = ltxdir s ++ [f] /\
    l_min f = txid s + 1 /\ l_max f = txid s + 1 /\ l_pre f = chk s /\ l_post f = chk s' /\ l_commit f = commit /\
    txid s' = txid s + 1 /\ pageN s' = commit /\
    StronglySorted N.lt (map fst (l_pages f)) /\
    (forall p, In p (map fst (l_pages f)) -> p <= commit /\ p <> lockpg s) /\
    (forall p, 1 <= p <= commit -> p <> lockpg s ->
       file_pg s' p = match alookup p (l_pages f) with Some q => Some q | None => file_pg s0 p end).
Proof. exact journal_commit_exact. Qed.

(* a database that grows: every page between the old and the new size is in the file of the transaction with what the
   database file holds there - also a page SQLite never wrote (a free-list leaf, allocated and freed again within the
   transaction; the file system put zeros there), which no WriteDatabaseAt call ever announced *)
Theorem C02_growth_is_captured : forall s commit s',
  op_commit_journal s commit = (Done, s') ->
  exists f, ltxdir s' = ltxdir s ++ [f] /\
    forall p, pageN s < p <= commit -> p <> lockpg s -> exists q, In (p, q) (l_pages f) /\ file_pg s p = Some q.
Proof. exact commit_journal_covers_growth. Qed.

(* "database created from nothing ... rollback after spill": the transaction that would have created the database is
   rolled back after it wrote pages; SQLite cuts the file back to nothing and finalises the journal: nothing is
   published, position, log and (empty) image are what they were *)
Theorem C02_rolled_back_creation_publishes_nothing : forall s c,
  writeable s = true -> pageN s = 0 -> dbfile s = [] -> step s (OCommitJournal c) = (Done, with_dirty s []).
Proof. exact rolled_back_creation. Qed.
Example C02_rolled_back_creation_nonvacuous :
  let s := snd (run_group (init 2097153) [OWrite 1 (mkPg (fl 11) 3 false); OWrite 2 (mkPg (fl 12) 0 false); OTruncate 0; OCommitJournal 0]) in
  (txid s, chk s, pageN s, dbfile s, ltxdir s, dirty s) = (0, 0, 0, [], [], []) /\
  fst (run_group s [OWrite 1 (mkPg (fl 21) 1 false); OCommitJournal 1]) = 0.
Proof. vm_compute. split; reflexivity. Qed.

(* the truncate issued after finalisation is accepted only for the committed size, cuts the file
   to it and changes neither position nor log; any other size is refused without change *)
Theorem C02_post_commit_truncate : forall s n s' o, op_truncate s n = (o, s') ->
  (o = Done -> n = pageN s /\ dbfile s' = firstn (N.to_nat n) (dbfile s)) /\
  (o <> Done -> s' = s) /\ txid s' = txid s /\ chk s' = chk s /\ ltxdir s' = ltxdir s.
Proof. exact truncate_spec. Qed.

(* Non-vacuity: create a 3-page database from nothing, then modify page 2 and shrink to 2 pages;
   a rolled-back transaction (pre-image written back) produces a file whose application is the identity *)
Example C02_nonvacuous :
  let p n h := mkPg (fl h) (if n =? 1 then 3 else 0) false in
  let s1 := snd (run_group (init 2097153) [OWrite 1 (p 1 11); OWrite 2 (p 2 12); OWrite 3 (p 3 13); OCommitJournal 3]) in
  let s2 := snd (run_group s1 [OWrite 2 (p 2 99); OWrite 2 (p 2 12); OCommitJournal 3]) in
  (txid s1, txid s2, map (fun f => map fst (l_pages f)) (ltxdir s2)) = (1, 2, [[1;2;3];[2]]) /\ chk s2 = chk s1 /\ dbfile s2 = dbfile s1.
Proof. vm_compute. repeat split; reflexivity. Qed.

(* ... and leaving WAL mode: a 2-page WAL-mode database; the log is closed; page 1 is rewritten with version 1 under a
   rollback journal; the file of that transaction holds page 1 and the database is tracked as rollback-journal afterwards *)
Example C02_leaving_wal_mode :
  let s1 := snd (run_group (init 2097153) [OWrite 1 (mkPg (fl 11) 2 true); OWrite 2 (mkPg (fl 12) 0 false); OCommitJournal 2]) in
  let s2 := snd (run_group s1 [OWalTruncate; OWriteJ 1 (mkPg (fl 21) 2 false); OCommitJournal 2]) in
  (wal_mode s1, wal_mode s2, txid s2, map (fun f => map fst (l_pages f)) (ltxdir s2)) = (true, false, 2, [[1;2];[1]]).
Proof. vm_compute. reflexivity. Qed.

(* "Exactly once, in order", along histories.  [hs]: any rollback-journal history from an empty node ([hstep], [wf_hist] as
   in C04_journal_history: committed transactions with page writes in any order, gaps, spills and rollbacks, failed
   finalisations that are repeated; truncates).  For EVERY such history the log holds exactly one file per committed
   transaction, the k-th numbered k - nothing captured twice, nothing skipped, nothing out of order.  (That each file's
   pre-checksum is the post-checksum of the one before is C09's chain invariant; that each file holds exactly the pages the
   transaction changed is C02_journal_commit_exact; that replaying them reproduces the database is C01_follower_identical.) *)
Theorem C02_history_once_in_order : forall lock hs s',
  1 <= lock -> wf_hist (init lock) hs -> run_hsteps (init lock) hs = Some s' ->
  map (fun f => (l_min f, l_max f)) (ltxdir s') = map (fun t => (t, t)) (seqN 1 (N.to_nat (txid s'))) /\
  length (ltxdir s') = N.to_nat (txid s').
Proof. exact log_history_once_in_order. Qed.
Print Assumptions C02_history_once_in_order.

(* Non-vacuity: the history of C04_journal_history_nonvacuous - four committed transactions (one of them a rollback after a
   spill, which publishes a file of unchanged pages) and a truncate: four files, numbered 1..4 *)
Example C02_history_nonvacuous :
  let pg h := mkPg (fl h) 0 false in
  let hs := [HTx [] [AWrite 1 (pg 11); AWrite 2 (pg 12)] 2;
             HTx [(3, pg 33); (4, pg 44)] [AWrite 1 (pg 21); AWrite 5 (pg 55)] 5;
             HTx [] [AWrite 2 (pg 77); AWrite 7 (pg 70); AWrite 2 (pg 12); ACut] 5;
             HTx [] [AWrite 2 (pg 92)] 3; HTrunc 3] in
  wf_hist (init 2097153) hs /\
  match run_hsteps (init 2097153) hs with
  | Some s => (txid s, map (fun f => (l_min f, l_max f)) (ltxdir s), map (fun f => map fst (l_pages f)) (ltxdir s))
              = (4, [(1, 1); (2, 2); (3, 3); (4, 4)], [[1; 2]; [1; 3; 4; 5]; [2]; [2]])
  | None => False
  end.
Proof. exact log_history_example. Qed.
