(* C07 -- A node without write authority cannot change a replicated database.  ONLY statements.
   Model/PageDB.v (the operations behind the mount and the import endpoint, each with LiteFS's
   Writeable() gate where the code has one) + Model/ReadOnly.v ([app_op]: the operations an
   application can cause; [view]: the logical pages 1..pageN, position, transaction log, size and
   journal mode; the errno table of the FUSE handlers).  [quiet s]: no write authority and no WAL
   content of its own - what a replica is between stream applies (role change checkpoints the WAL).
   A non-writeable node that still has committed WAL frames (the window between losing the lease and
   the role-change recovery) is outside [quiet]: there TruncateWAL/RemoveWAL are not gated by the code. *)
From Coq Require Import NArith List Bool.
Require Import LF.Model.PageDB LF.Model.ReadOnly LF.Proofs.ReadOnlyProofs.
Import ListNotations.
Local Open Scope N_scope.

(* any sequence of application-level operations leaves the database exactly as it was *)
Theorem C07_readonly_run : forall ops s, quiet s -> forallb app_op ops = true ->
  view (run_all s ops) = view s /\ quiet (run_all s ops).
Proof. exact readonly_run. Qed.
(* and each operation that would change it is refused *)
Theorem C07_readonly_refused : forall ops s, quiet s -> forallb app_op ops = true ->
  forall i o, nth_error ops i = Some o -> mutating o = true -> nth_error (outcomes s ops) i <> Some Done.
Proof. exact readonly_refused. Qed.
(* a commit step that begins after write authority is lost is refused, not published - in any state *)
Theorem C07_late_commit_refused : forall s o, writeable s = false ->
  match o with OCommitJournal _ | OCommitWal _ _ | ODrop | OImport _ _ _ => True | _ => False end ->
  fst (step s o) <> Done /\ txid (snd (step s o)) = txid s /\ chk (snd (step s o)) = chk s /\ ltxdir (snd (step s o)) = ltxdir s.
Proof. exact late_commit_refused. Qed.
(* page, journal and WAL writes are answered with the read-only permission error *)
Theorem C07_writes_get_eacces : forall h pr ss hw, In h [HWriteDB; HWriteJournal; HWriteWAL] -> answer_of h false pr ss hw = AAccess.
Proof. exact writes_get_eacces. Qed.
Theorem C07_nothing_that_changes_succeeds : forall h ss hw, changes_database h = true -> answer_of h false false ss hw <> AOk.
Proof. exact nothing_that_changes_succeeds. Qed.

(* Non-vacuity: a replica that received a two-page database; a page write, a journal commit, a drop
   and an import are refused, the WAL resets and the same-size truncate go through, the view stays *)
Example C07_nonvacuous :
  let p1 := mkPg 11 2 false in let p2 := mkPg 12 0 false in
  let f := mkLtx 1 1 0 (fl (N.lxor (fl (N.lxor 0 11)) 12)) 2 [(1, p1); (2, p2)] in
  let s := snd (step (set_writeable (init 1000) false) (OReceive f)) in
  let ops := [OWrite 2 (mkPg 99 0 false); OCommitJournal 2; OWalTruncate; OTruncate 2; ODrop; OImport [(1, p1)] 1 true; OWalHeader] in
  (txid s, map ocode (outcomes s ops), fst (op_export (run_all s ops)))
  = (1, [1; 1; 0; 0; 1; 1; 0], [Some p1; Some p2]).
Proof. vm_compute. reflexivity. Qed.
