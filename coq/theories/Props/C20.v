(* C20 -- Every API request gets a response; invalid requests change nothing.  ONLY statements.
   Model/Api.v: [respond q] = (status, effect) for a request abstracted to the classes the handlers
   distinguish (endpoint, method, name / id / nodeID classes, Litefs-Id = self, protocol, body usable,
   halt lock held), on a primary, a replica and a node with no primary.  [invalid q] is the property's
   side: malformed, not allowed for the role, or referring to a database, lock or node that is not
   there; it is defined without reference to [respond].  What a theorem cannot show - that the Go
   runtime really delivers the response and no handler panics or blocks - is what the harness
   observes on the real server for every request whose class it feeds to [respond]. *)
From Coq Require Import NArith List Bool.
Require Import LF.Model.Api LF.Proofs.ApiProofs.
Import ListNotations.
Local Open Scope N_scope.

(* total: every request is answered, with one of eight statuses *)
Theorem C20_every_request_answered : forall q, In (fst (respond q)) [200; 400; 404; 405; 409; 426; 500; 503].
Proof. exact respond_status. Qed.

(* FULL STATEMENT: forall q, invalid q = true -> snd (respond q) = ENone.
   It is FALSE of the faithful model (and of the code): see C20_refuted.  What holds is the statement
   for every invalid request outside two classes. *)
Theorem C20_invalid_changes_nothing_partial : forall q,
  invalid q = true -> import_leftover q = false -> tx_poisoned q = false -> snd (respond q) = ENone.
Proof. exact invalid_no_effect. Qed.

(* the missing class, exactly: POST /import on the primary for a name that does not exist yet, with an
   unusable body - refused with 500, but the empty database it created first stays (known finding) *)
Theorem C20_refuted : exists q, invalid q = true /\ snd (respond q) <> ENone.
Proof. exact invalid_effect_refuted. Qed.
Theorem C20_refuted_class : forall q, import_leftover q = true -> invalid q = true /\ respond q = (500, ECreateDB).
Proof. exact import_leftover_spec. Qed.

(* the second class: the holder of the halt lock forwards a file that continues the primary's position and carries a
   wrong post-apply checksum - answered 500, but only after the file was put into the log and its pages into the database;
   the primary then stops itself (known finding).  Nothing else makes a node stop. *)
Theorem C20_refuted_class_forwarded : forall q, tx_poisoned q = true -> invalid q = true /\ respond q = (500, EStop).
Proof. exact tx_poisoned_spec. Qed.
Theorem C20_stop_only_when_poisoned : forall q, snd (respond q) = EStop -> tx_poisoned q = true.
Proof. exact stop_only_when_poisoned. Qed.

(* invalid requests are refused; the only 200 is the release of a lock that is not held, a no-op *)
Theorem C20_invalid_refused : forall q, invalid q = true ->
  400 <= fst (respond q) \/ (q_path q = PHalt /\ q_meth q = MDelete /\ respond q = (200, ENone)).
Proof. exact invalid_refused. Qed.

(* state changes need authority: a forwarded transaction is applied only on the primary, for the holder
   of the database's halt lock; a lock is granted only by the primary and only when none is held; it is
   released only under its id; nothing but a release or a promote request acts on a non-primary *)
Theorem C20_apply_needs_holder : forall q, snd (respond q) = EApplyTx ->
  q_path q = PTx /\ q_meth q = MPost /\ q_role q = RPrimary /\ q_name q = NmKnown /\ q_halted q = true /\ q_id q = IdHeld /\
  q_self q = false /\ q_body q = true.
Proof. exact apply_needs_holder. Qed.
Theorem C20_grant_needs_primary_and_free_lock : forall q, snd (respond q) = EHaltAcquire ->
  q_path q = PHalt /\ q_meth q = MPost /\ q_role q = RPrimary /\ q_self q = false /\ (q_id q = IdOther \/ q_id q = IdHeld) /\
  (q_name q = NmUnknown \/ (q_name q = NmKnown /\ q_halted q = false)).
Proof. exact grant_needs_primary_and_free_lock. Qed.
Theorem C20_release_needs_lock_id : forall q, snd (respond q) = EHaltRelease ->
  q_path q = PHalt /\ q_meth q = MDelete /\ q_name q = NmKnown /\ q_halted q = true /\ q_id q = IdHeld.
Proof. exact release_needs_lock_id. Qed.
Theorem C20_write_effects_only_on_primary : forall q,
  changes (snd (respond q)) = true -> snd (respond q) <> EHaltRelease -> snd (respond q) <> EPromote -> q_role q = RPrimary.
Proof. exact write_effects_only_on_primary. Qed.

(* the hypotheses are met and the conclusions are not trivial *)
Example C20_nonvacuous :
  (respond (mk_req RPrimary PTx MPost NmKnown IdHeld NdBad false true true true false),
   respond (mk_req RPrimary PTx MPost NmKnown IdOther NdBad false true true true false),
   respond (mk_req RReplica PHalt MPost NmKnown IdOther NdBad false false false false false),
   respond (mk_req RPrimary PHalt MDelete NmUnknown IdOther NdBad false false false false false),
   invalid (mk_req RPrimary PTx MPost NmKnown IdHeld NdBad false true true true false),
   invalid (mk_req RPrimary PTx MPost NmKnown IdOther NdBad false true true true false))
  = ((200, EApplyTx), (409, ENone), (503, ENone), (404, ENone), false, true).
Proof. vm_compute. reflexivity. Qed.
