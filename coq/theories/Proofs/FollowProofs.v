(* C01, without the no-collision premise, for rollback-journal histories: a replica that applies the files a primary writes,
   in order, holds page for page what the primary's database file holds, at the same position - for every history. *)
From Coq Require Import NArith List Lia ZifyN ZifyNat ZifyBool Bool Arith Sorted.
Require Import LF.Gen.ConstsGen LF.Model.PageDB LF.Proofs.XorLib LF.Proofs.ChecksumProofs LF.Proofs.CaptureProofs
  LF.Proofs.ChainProofs LF.Proofs.ApplyProofs
  LF.Proofs.HistoryProofs LF.Proofs.WalHistoryProofs LF.Proofs.WalCheckpointProofs LF.Proofs.ApplyHistoryProofs LF.Proofs.OpenProofs LF.Proofs.ComposeProofs.
Import ListNotations.
Local Open Scope N_scope.

(* ---- what the file holds at an index (the empty page where it holds nothing) ---- *)
Definition pg_at (l : list pg) (j : nat) : pg := match nth_error l j with Some q => q | None => zero_pg end.
Definition fpg (s : st) (x : N) : pg := pg_at (dbfile s) (N.to_nat (x - 1)).

Lemma set_file_pg_at : forall i l j v, pg_at (set_file l i v) j = if Nat.eqb j i then v else pg_at l j.
Proof.
  unfold pg_at. induction i as [|i IH]; intros l j v.
  - destruct l as [|x r], j as [|j]; cbn; try reflexivity. destruct j; reflexivity.
  - destruct l as [|x r], j as [|j]; cbn [set_file nth_error Nat.eqb]; try reflexivity.
    + rewrite IH. destruct (Nat.eqb j i); [reflexivity|]. destruct j; reflexivity.
    + apply IH.
Qed.
Lemma firstn_pg_at : forall n l j, pg_at (firstn n l) j = if (j <? n)%nat then pg_at l j else zero_pg.
Proof.
  unfold pg_at. induction n as [|n IH]; intros l j.
  - cbn. destruct j; reflexivity.
  - destruct l as [|x r]; [destruct j; cbn [firstn nth_error]; destruct (Nat.ltb _ (S n)); reflexivity|].
    destruct j as [|j]; cbn [firstn nth_error]; [reflexivity|]. rewrite IH.
    change (Nat.ltb (S j) (S n)) with (Nat.ltb j n). reflexivity.
Qed.
Lemma fpg_file_pg s x q : file_pg s x = Some q -> fpg s x = q.
Proof. unfold fpg, pg_at, file_pg. intros ->. reflexivity. Qed.

Lemma fpg_write s p q x : 1 <= p -> 1 <= x -> fpg (write_db_page s p q) x = if x =? p then q else fpg s x.
Proof.
  intros Hp Hx. unfold fpg, write_db_page. cbn [dbfile set_page_chk with_file]. rewrite set_file_pg_at.
  destruct (N.eqb_spec x p) as [->|Hne]; [rewrite Nat.eqb_refl; reflexivity|].
  destruct (Nat.eqb_spec (N.to_nat (x - 1)) (N.to_nat (p - 1))); [lia|reflexivity].
Qed.
Lemma fpg_fold_write : forall pages s x,
  (forall p q, In (p, q) pages -> 1 <= p) -> KeysNoDup pages -> 1 <= x ->
  fpg (fold_left (fun a kv => write_db_page a (fst kv) (snd kv)) pages s) x =
  match alookup x pages with Some q => q | None => fpg s x end.
Proof.
  induction pages as [|[p q] r IH]; intros s x Hpos Hnd Hx; cbn [fold_left fst snd alookup]; [reflexivity|].
  unfold KeysNoDup in Hnd. cbn [map fst] in Hnd. inversion Hnd as [|? ? Hn Hd]; subst.
  assert (1 <= p) as Hp by (apply (Hpos p q); left; reflexivity).
  rewrite IH; [|intros p' q' Hin; apply (Hpos p' q'); right; assumption|exact Hd|exact Hx].
  destruct (N.eqb_spec x p) as [->|Hne].
  - rewrite alookup_none_notin; [|intros kv Hin E; apply Hn; apply in_map_iff; exists kv; split; assumption].
    rewrite fpg_write by assumption. rewrite N.eqb_refl. reflexivity.
  - destruct (alookup x r); [reflexivity|]. rewrite fpg_write by assumption. destruct (N.eqb_spec x p); [contradiction|reflexivity].
Qed.
Lemma fpg_truncate_db s n x : 1 <= x -> fpg (truncate_db s n) x = if x <=? n then fpg s x else zero_pg.
Proof.
  intros Hx. unfold fpg, truncate_db, reset_after. rewrite dbfile_clear_from. cbn [dbfile with_file]. rewrite firstn_pg_at.
  destruct (N.leb_spec x n), (Nat.ltb_spec (N.to_nat (x - 1)) (N.to_nat n)); try lia; reflexivity.
Qed.

(* the database file of a node after it applied a file: the file's pages, the rest untouched *)
Lemma apply_fpg s f fatal s' : op_apply s f fatal = (Done, s') -> wf_ltx f -> l_commit f <> 0 ->
  forall x, 1 <= x <= l_commit f -> fpg s' x = match alookup x (l_pages f) with Some q => q | None => fpg s x end.
Proof.
  intros H [Hpos Hnd] Hc x Hx. unfold op_apply in H.
  set (s1 := fold_left (fun a kv => write_db_page a (fst kv) (snd kv)) (l_pages f) s) in *.
  destruct (N.eqb_spec (l_commit f) 0) as [E|_]; [contradiction|]. cbv beta iota zeta in H.
  match type of H with context [checksum ?x ?c []] => pose proof (checksum_same x c []) as HS; destruct (checksum x c []) as [[c0|] s4] end;
    [|destruct fatal; discriminate].
  cbn [snd] in HS. destruct (c0 =? l_post f); [|destruct fatal; discriminate]. inversion H; subst s'. clear H.
  destruct HS as [_ [_ [Ef _]]]. cbn [dbfile with_pos] in Ef.
  unfold fpg at 1. cbn [dbfile with_pos]. rewrite Ef. fold (fpg (truncate_db s1 (l_commit f)) x).
  rewrite fpg_truncate_db by lia. destruct (N.leb_spec x (l_commit f)); [|lia].
  unfold s1. apply fpg_fold_write; [assumption|assumption|lia].
Qed.

(* ---- the inside of a rollback-journal transaction: a page of the old database that is not in the dirty set is what it
   was ---- *)
Record SameM (s0 s : st) : Prop := {
  sm_same : forall x, 1 <= x <= pageN s0 -> ~ In x (dirty s) -> fpg s x = fpg s0 x;
  sm_pn : pageN s = pageN s0;
  sm_sorted : StronglySorted N.lt (dirty s); sm_pos : forall x, In x (dirty s) -> 1 <= x;
  sm_fix : txid s = txid s0 /\ chk s = chk s0 /\ ltxdir s = ltxdir s0 /\ lockpg s = lockpg s0
}.
Definition body_ok (s0 : st) (o : op) : Prop :=
  match o with
  | OZeroFill p _ => pageN s0 < p
  | OWrite p _ => 1 <= p
  | OTruncate n => n = pageN s0
  | OCommitJournalFail _ => True
  | _ => False
  end.

Lemma clear_from_dirty_pn : forall m s i, dirty (clear_from s m i) = dirty s /\ pageN (clear_from s m i) = pageN s.
Proof.
  induction m as [|m IH]; intros s i; cbn [clear_from]; [auto|].
  destruct (i <? lenN (chk_pages s)); [|auto]. destruct (IH (set_page_chk s (i + 1) 0) (i + 1)) as [A B]. rewrite A, B. auto.
Qed.

Lemma same_step s0 s o s' : body_ok s0 o -> SameM s0 s -> wal_mode s = false -> step s o = (Done, s') ->
  SameM s0 s' /\ wal_mode s' = false.
Proof.
  intros Hb [Hs Hp Hso Hpo Hfx] Hm H. destruct o; cbn [body_ok] in Hb; try contradiction; cbn [step] in H.
  - (* OWrite *)
    unfold op_write_page in H. destruct (negb (writeable s)); [discriminate|]. rewrite Hm in H. inversion H; subst s'. clear H.
    split; [|exact Hm]. constructor.
    + intros x Hx Hnd. change (dirty (write_db_page (with_dirty s (insert_sorted pgno (dirty s))) pgno p)) with (insert_sorted pgno (dirty s)) in Hnd.
      rewrite insert_sorted_in in Hnd. rewrite fpg_write by lia. destruct (N.eqb_spec x pgno); [tauto|]. apply Hs; tauto.
    + exact Hp.
    + apply insert_sorted_sorted. exact Hso.
    + intros x Hx. change (In x (insert_sorted pgno (dirty s))) in Hx. apply insert_sorted_in in Hx. destruct Hx as [->|Hx]; [exact Hb|apply Hpo; exact Hx].
    + exact Hfx.
  - (* OTruncate *)
    unfold op_truncate in H. subst n. rewrite <- Hp, N.eqb_refl in H. cbn [negb] in H. inversion H; subst s'. clear H.
    assert (Ed : dirty (truncate_db s (pageN s)) = dirty s /\ pageN (truncate_db s (pageN s)) = pageN s).
    { unfold truncate_db, reset_after.
      destruct (clear_from_dirty_pn (length (chk_pages (with_file s (firstn (N.to_nat (pageN s)) (dbfile s)))))
                  (with_file s (firstn (N.to_nat (pageN s)) (dbfile s))) (pageN s)) as [A B]. rewrite A, B. auto. }
    destruct Ed as [Ed Epn]. destruct (truncate_db_misc s (pageN s)) as [_ [Em _]].
    split; [|rewrite Em; exact Hm]. constructor.
    + intros x Hx Hnd. rewrite Ed in Hnd. rewrite fpg_truncate_db by lia. destruct (N.leb_spec x (pageN s)); [|lia]. apply Hs; assumption.
    + rewrite Epn. exact Hp.
    + rewrite Ed. exact Hso.
    + rewrite Ed. exact Hpo.
    + destruct (pos_truncate_db s (pageN s)) as [A [B C]]. rewrite A, B, C.
      assert (lockpg (truncate_db s (pageN s)) = lockpg s) as -> by (unfold truncate_db, reset_after; rewrite lockpg_clear_from; reflexivity).
      exact Hfx.
  - (* OCommitJournalFail *) inversion H; subst. split; [constructor; assumption|exact Hm].
  - (* OZeroFill *)
    unfold op_zero_fill in H. inversion H; subst s'. clear H. split; [|exact Hm]. constructor; try assumption.
    intros x Hx Hnd. unfold fpg. cbn [dbfile with_file]. rewrite set_file_pg_at.
    destruct (Nat.eqb_spec (N.to_nat (x - 1)) (N.to_nat (pgno - 1))); [lia|]. apply Hs; assumption.
Qed.

Lemma same_run s0 : forall ops s s', Forall (body_ok s0) ops -> SameM s0 s -> wal_mode s = false ->
  run_group s ops = (0, s') -> SameM s0 s'.
Proof.
  induction ops as [|o r IH]; intros s s' Hb HS Hm H; cbn [run_group] in H; [inversion H; subst; exact HS|].
  inversion Hb as [|? ? Ho Hr]; subst. destruct (step s o) as [oc s1] eqn:E.
  destruct oc; cbn [ocode] in H; try (inversion H; fail).
  destruct (same_step s0 s o s1 Ho HS Hm E) as [HS1 Hm1]. apply (IH s1 s' Hr HS1 Hm1 H).
Qed.

Lemma same_run_mode s0 : forall ops s s', Forall (body_ok s0) ops -> SameM s0 s -> wal_mode s = false ->
  run_group s ops = (0, s') -> wal_mode s' = false.
Proof.
  induction ops as [|o r IH]; intros s s' Hb HS Hm H; cbn [run_group] in H; [inversion H; subst; exact Hm|].
  inversion Hb as [|? ? Ho Hr]; subst. destruct (step s o) as [oc s1] eqn:E.
  destruct oc; cbn [ocode] in H; try (inversion H; fail).
  destruct (same_step s0 s o s1 Ho HS Hm E) as [HS1 Hm1]. apply (IH s1 s' Hr HS1 Hm1 H).
Qed.

(* ---- primary and follower ---- *)
Record Sim (sP sR : st) : Prop := {
  si_lock : lockpg sR = lockpg sP; si_pn : pageN sR = pageN sP; si_tx : txid sR = txid sP; si_chk : chk sR = chk sP;
  si_pages : forall p, 1 <= p <= pageN sP -> p <> lockpg sP -> fpg sR p = fpg sP p
}.
Definition FInv (sP sR : st) : Prop := J sP /\ dirty sP = [] /\ Sim sP sR.

(* the files the primary's log gained in a step: what the stream carries to the follower *)
Definition new_files (s s' : st) : list ltxrec := skipn (length (ltxdir s)) (ltxdir s').
Lemma skipn_same {A} (l : list A) : skipn (length l) l = [].
Proof. apply skipn_all. Qed.
Lemma skipn_snoc {A} (l : list A) x : skipn (length l) (l ++ [x]) = [x].
Proof. rewrite skipn_app, skipn_all, Nat.sub_diag. reflexivity. Qed.

Lemma sorted_nodup : forall l, StronglySorted N.lt l -> NoDup l.
Proof.
  induction 1 as [|y l Hs IH Hall]; constructor; [|exact IH].
  intros Hin. rewrite Forall_forall in Hall. specialize (Hall y Hin). lia.
Qed.
Lemma alookup_none_keys {A} x : forall (l : list (N * A)), alookup x l = None -> ~ In x (map fst l).
Proof.
  induction l as [|[k v] l IH]; cbn [alookup map fst In]; [tauto|].
  destruct (N.eqb_spec x k); [discriminate|]. intros H [E|Hin]; [congruence|apply (IH H Hin)].
Qed.
Lemma apply_lockpg s f fatal s' : op_apply s f fatal = (Done, s') -> lockpg s' = lockpg s.
Proof.
  intros H. unfold op_apply in H.
  set (s1 := fold_left (fun a kv => write_db_page a (fst kv) (snd kv)) (l_pages f) s) in *.
  assert (lockpg s1 = lockpg s) as E1 by apply lockpg_fold_write.
  destruct (l_commit f =? 0); cbv beta iota zeta in H;
    (match type of H with context [checksum ?x ?c []] => pose proof (checksum_same x c []) as HS; destruct (checksum x c []) as [[c0|] s4] end;
     [|destruct fatal; discriminate]);
    cbn [snd] in HS; (destruct (c0 =? l_post f); [|destruct fatal; discriminate]); inversion H; subst s'; clear H;
    destruct HS as [_ [S2 _]]; cbn [lockpg with_pos] in *; rewrite S2.
  - exact E1.
  - unfold truncate_db, reset_after. rewrite lockpg_clear_from. exact E1.
Qed.

Lemma body_ops_ok k s zf acts :
  (forall p q, In (p, q) zf -> pageN s < p) -> Forall (act_ok k) acts ->
  Forall (body_ok s) (zf_ops zf ++ act_ops (pageN s) acts).
Proof.
  intros Hzf Hacts. apply Forall_app. split; apply Forall_forall; intros o Hin.
  - unfold zf_ops in Hin. apply in_map_iff in Hin. destruct Hin as [[p q] [E Hin]]. subst o. cbn [body_ok fst]. apply (Hzf p q Hin).
  - unfold act_ops in Hin. apply in_map_iff in Hin. destruct Hin as [a [E Hin]]. subst o.
    rewrite Forall_forall in Hacts. specialize (Hacts a Hin). destruct a; cbn [body_ok act_ok] in *; [tauto|reflexivity|exact I].
Qed.

Lemma same_start s : dirty s = [] -> SameM s s.
Proof.
  intros Hd. constructor; try reflexivity; try assumption.
  - rewrite Hd. constructor.
  - rewrite Hd. intros x [].
  - auto.
Qed.

(* the finalisation of the journal after any body that kept SameM, the follower applying the file it published: an argument
   about contents only *)
Lemma follow_commit_sim sP sR s2 c sP' sR' :
  Sim sP sR -> SameM sP s2 -> step s2 (OCommitJournal c) = (Done, sP') -> lockpg sP' = lockpg sP ->
  run_recv sR (new_files sP sP') = Some sR' -> dirty sP' = [] /\ Sim sP' sR'.
Proof.
  intros HS SM H El HR. destruct SM as [Ss Sp Sso Spo [Ft [Fc [Fd Fl]]]]. cbn [step] in H.
    destruct (writeable s2 && (pageN s2 =? 0) && match dbfile s2 with [] => true | _ :: _ => false end) eqn:Einv.
    + unfold op_invalidate_journal in H. inversion H; subst sP'. clear H.
      apply andb_true_iff in Einv. destruct Einv as [Einv _]. apply andb_true_iff in Einv. destruct Einv as [_ Ep]. apply N.eqb_eq in Ep.
      unfold new_files in HR. cbn [ltxdir with_dirty] in HR. rewrite Fd, skipn_same in HR. cbn [run_recv] in HR. inversion HR; subst sR'.
      split; [reflexivity|]. destruct HS as [A B C D E].
      constructor; cbn [lockpg pageN txid chk with_dirty]; try congruence.
      intros p Hp. cbn [pageN with_dirty] in Hp. lia.
    + destruct (commit_journal_file s2 c sP' H) as [f [E1 [E2' [E3 [E4 [E5 [E6 [E7 [E8 E9]]]]]]]]].
      assert (Hpos' : txid sP' = txid s2 + 1 /\ pageN sP' = c /\ dirty sP' = []).
      { clear -H. unfold op_commit_journal in H. destruct (writeable s2); cbn [negb] in H; [|discriminate].
        destruct (journal_pages _ _ _) as [[pages|] sj]; [|discriminate].
        destruct (checksum _ _ _) as [[post|] sx]; [|discriminate]. inversion H; subst. cbn. auto. }
      destruct Hpos' as [Etx [Epn Edr]].
      unfold new_files in HR. rewrite E1, Fd, skipn_snoc in HR. cbn [run_recv] in HR.
      destruct (op_receive sR f) as [oc s1] eqn:Er.
      assert (s1 = sR' /\ (oc = Done \/ oc = Failed)) as [-> Hoc] by (destruct oc; try discriminate; inversion HR; auto).
      destruct HS as [A B C D E].
      assert (Hext : extends_pos sR f = true).
      { unfold extends_pos. rewrite E2', E4, C, D, Ft, Fc, !N.eqb_refl. reflexivity. }
      unfold op_receive in Er. rewrite Hext, andb_false_r in Er.
      assert (oc = Done) as ->.
      { destruct Hoc as [->| ->]; [reflexivity|]. exfalso. unfold op_apply in Er.
        repeat match type of Er with
        | context [let '(_, _) := ?x in _] => destruct x
        | context [match ?x with (_, _) => _ end] => destruct x
        | context [match ?x with Some _ => _ | None => _ end] => destruct x
        | context [if ?x then _ else _] => destruct x
        end; inversion Er. }
      destruct (apply_done _ f true sR' Er) as [At [Ac [Ap _]]].
      pose proof (apply_lockpg _ f true sR' Er) as Al. cbn [lockpg with_dir] in Al.
      assert (Hkeys : forall x, In x (map fst (l_pages f)) -> x <> lockpg s2 /\ In x (journal_pgnos s2 c)).
      { intros x Hx. rewrite E7 in Hx. apply filter_In in Hx. destruct Hx as [Hx Hb]. apply negb_true_iff, N.eqb_neq in Hb. auto. }
      assert (Hwfl : wf_ltx f).
      { split.
        - intros p q Hin. assert (In p (map fst (l_pages f))) as Hk by (apply in_map_iff; exists (p, q); auto).
          destruct (Hkeys p Hk) as [_ Hj]. apply journal_pgnos_in in Hj. destruct Hj as [[Hdd _]|[Hgt _]]; [apply Spo; exact Hdd|lia].
        - unfold KeysNoDup. rewrite E7. apply sorted_nodup. apply filter_sorted. apply journal_pgnos_sorted. exact Sso. }
      split; [exact Edr|].
      constructor.
      * congruence.
      * congruence.
      * rewrite At, E3, Etx. reflexivity.
      * rewrite Ac, E5. reflexivity.
      * intros x Hx Hnl. rewrite Epn in Hx. rewrite El in Hnl.
        assert (c <> 0) as Hc0 by lia.
        rewrite (apply_fpg _ f true sR' Er Hwfl ltac:(rewrite E6; exact Hc0) x ltac:(rewrite E6; exact Hx)).
        assert (Hfs : fpg sP' x = fpg s2 x) by (unfold fpg; rewrite E9; reflexivity).
        rewrite Hfs. destruct (alookup x (l_pages f)) as [q|] eqn:Ea.
        -- apply alookup_in in Ea. symmetry. apply fpg_file_pg. apply (E8 x q Ea).
        -- apply alookup_none_keys in Ea. rewrite E7 in Ea.
           assert (~ In x (journal_pgnos s2 c)) as Hnj.
           { intros Hj. apply Ea. apply filter_In. split; [exact Hj|]. apply negb_true_iff, N.eqb_neq. congruence. }
           rewrite journal_pgnos_in in Hnj.
           assert (x <= pageN s2 /\ ~ In x (dirty s2)) as [Hle Hnd2].
           { split; [destruct (N.le_gt_cases x (pageN s2)); [assumption|exfalso; apply Hnj; right; lia]|].
             intros Hdd. apply Hnj. left. split; [exact Hdd|]. split; [lia|].
             destruct (N.le_gt_cases x (pageN s2)); [assumption|exfalso; apply Hnj; right; lia]. }
           change (fpg (with_dir sR (if is_snapshot f then [f] else ltxdir sR ++ [f])) x) with (fpg sR x).
           rewrite (Ss x ltac:(lia) Hnd2). apply E; [lia|congruence].
Qed.

(* a rollback-journal transaction of the primary (whatever its pages carry) *)
Lemma follow_tx_sim k sP sR zf acts c sP' sR' :
  dirty sP = [] -> wal_mode sP = false -> Sim sP sR ->
  (forall p q, In (p, q) zf -> pageN sP < p) -> Forall (act_ok k) acts ->
  run_group sP (hops sP (HTx zf acts c)) = (0, sP') -> lockpg sP' = lockpg sP ->
  run_recv sR (new_files sP sP') = Some sR' -> dirty sP' = [] /\ Sim sP' sR'.
Proof.
  intros Hd Hmode HS Hzf Hacts H El HR. cbn [hops] in H.
  rewrite app_assoc, run_group_app in H.
  destruct (run_group sP (zf_ops zf ++ act_ops (pageN sP) acts)) as [code s2] eqn:E2. destruct code; [|inversion H].
  pose proof (same_run sP _ sP s2 (body_ops_ok k sP zf acts Hzf Hacts) (same_start sP Hd) Hmode E2) as SM.
  apply run_group_one in H. apply (follow_commit_sim sP sR s2 c sP' sR' HS SM H El HR).
Qed.

(* one step of the primary, the follower applying what the step published *)
Lemma follow_step sP sR h sP' sR' : FInv sP sR -> wf_step sP h ->
  run_group sP (hops sP h) = (0, sP') -> run_recv sR (new_files sP sP') = Some sR' -> FInv sP' sR'.
Proof.
  intros [HJ [Hd HS]] Hwf H HR. destruct (j_step sP h sP' HJ Hwf H) as [HJ' El].
  destruct h as [zf acts c|n]; cbn [wf_step] in *.
  - destruct Hwf as [Hnd [Hzf Hacts]].
    destruct (follow_tx_sim true sP sR zf acts c sP' sR' Hd (j_mode sP HJ) HS (fun p q Hin => proj1 (Hzf p q Hin)) Hacts H El HR) as [A B].
    split; [exact HJ'|]. split; assumption.
  - cbn [hops] in H. apply run_group_one in H. cbn [step] in H.
    assert (Hl : ltxdir sP' = ltxdir sP /\ dirty sP' = dirty sP /\ forall x, 1 <= x <= pageN sP -> fpg sP' x = fpg sP x).
    { unfold op_truncate in H. destruct (N.eqb_spec n (pageN sP)) as [->|Hne]; cbn [negb] in H; [|discriminate]. inversion H; subst sP'.
      split; [apply ltxdir_truncate_db|]. split.
      - unfold truncate_db, reset_after.
        destruct (clear_from_dirty_pn (length (chk_pages (with_file sP (firstn (N.to_nat (pageN sP)) (dbfile sP)))))
                    (with_file sP (firstn (N.to_nat (pageN sP)) (dbfile sP))) (pageN sP)) as [A _]. exact A.
      - intros x Hx. rewrite fpg_truncate_db by lia. destruct (N.leb_spec x (pageN sP)); [reflexivity|lia]. }
    destruct Hl as [Hl [Hdd Hf]]. destruct (j_truncate sP n sP' HJ H) as [_ [Et Ep]].
    unfold new_files in HR. rewrite Hl, skipn_same in HR. cbn [run_recv] in HR. inversion HR; subst sR'.
    split; [exact HJ'|]. split; [congruence|]. destruct HS as [A B C D E].
    assert (chk sP' = chk sP) as Ec.
    { unfold op_truncate in H. destruct (negb (n =? pageN sP)); [discriminate|]. inversion H; subst sP'. apply (pos_truncate_db sP n). }
    constructor; try congruence.
    intros p Hp Hnl. rewrite Ep in Hp. rewrite El in Hnl. rewrite (Hf p Hp). apply E; assumption.
Qed.

(* ---- histories ---- *)
Fixpoint follow (sP sR : st) (hs : list hstep) : option (st * st) :=
  match hs with
  | [] => Some (sP, sR)
  | h :: r => match run_group sP (hops sP h) with
              | (0, sP') => match run_recv sR (new_files sP sP') with
                            | Some sR' => follow sP' sR' r
                            | None => None
                            end
              | _ => None
              end
  end.

Theorem follow_invariant : forall hs sP sR sP' sR',
  FInv sP sR -> wf_hist sP hs -> follow sP sR hs = Some (sP', sR') -> FInv sP' sR'.
Proof.
  induction hs as [|h r IH]; intros sP sR sP' sR' HI Hwf H; cbn [follow wf_hist] in *.
  - inversion H; subst. exact HI.
  - destruct Hwf as [Hw Hrest]. destruct (run_group sP (hops sP h)) as [code s1] eqn:E. destruct code; [|discriminate].
    destruct (run_recv sR (new_files sP s1)) as [r1|] eqn:Er; [|discriminate].
    apply (IH s1 r1 sP' sR' (follow_step sP sR h s1 r1 HI Hw E Er) (Hrest s1 eq_refl) H).
Qed.

Lemma follow_run_hsteps : forall hs sP sR sP' sR', follow sP sR hs = Some (sP', sR') -> run_hsteps sP hs = Some sP'.
Proof.
  induction hs as [|h r IH]; intros sP sR sP' sR' H; cbn [follow run_hsteps] in *.
  - inversion H; subst. reflexivity.
  - destruct (run_group sP (hops sP h)) as [code s1]. destruct code; [|discriminate].
    destruct (run_recv sR (new_files sP s1)) as [r1|]; [|discriminate]. apply (IH s1 r1 sP' sR' H).
Qed.

(* C01 for every rollback-journal history of a primary that starts empty and a follower that starts empty and is sent, step
   by step, the files the primary's log gains: at the end the follower is at the primary's position and its database file
   holds, page for page, what the primary's holds - no premise about checksums *)
Theorem follower_identical lock hs sP sR :
  1 <= lock -> wf_hist (init lock) hs -> follow (init lock) (init lock) hs = Some (sP, sR) ->
  txid sR = txid sP /\ chk sR = chk sP /\ pageN sR = pageN sP /\
  (forall p, 1 <= p <= pageN sP -> p <> lock -> fpg sR p = fpg sP p).
Proof.
  intros Hl Hwf H.
  assert (FInv (init lock) (init lock)) as HI0.
  { split; [apply j_init; exact Hl|]. split; [reflexivity|]. constructor; try reflexivity. }
  destruct (follow_invariant hs _ _ sP sR HI0 Hwf H) as [HJ [_ [A B C D E]]].
  destruct (journal_history_invariant hs (init lock) sP (j_init lock Hl) Hwf (follow_run_hsteps hs _ _ sP sR H)) as [_ El].
  change (lockpg (init lock)) with lock in El. rewrite El in E. auto.
Qed.

(* a concrete history that meets the hypotheses (the non-vacuity example of Props/C01.v): the history of C04's example - create
   2 pages; grow to 5 writing only pages 1 and 5; a transaction that spills and is rolled back; shrink to 3; truncate *)
Lemma follower_identical_example :
  let pg h := mkPg (fl h) 0 false in
  let hs := [HTx [] [AWrite 1 (pg 11); AWrite 2 (pg 12)] 2;
             HTx [(3, pg 33); (4, pg 44)] [AWrite 1 (pg 21); AWrite 5 (pg 55)] 5;
             HTx [] [AWrite 2 (pg 77); AWrite 7 (pg 70); AWrite 2 (pg 12); ACut] 5;
             HTx [] [AWrite 2 (pg 92)] 3; HTrunc 3] in
  wf_hist (init 2097153) hs /\
  match follow (init 2097153) (init 2097153) hs with
  | Some (sP, sR) => (txid sR, pageN sR, chk sR =? chk sP, map (fpg sR) [1; 2; 3], lenN (dbfile sR), length (ltxdir sP))
                     = (4, 3, true, [pg 21; pg 92; pg 33], 3, 4%nat)
  | None => False
  end.
Proof.
  cbn zeta. split; [|vm_compute; reflexivity].
  pose proof journal_history_example as H. cbn zeta in H. destruct H as [Hwf _]. exact Hwf.
Qed.
