(* C08: what the election loop may decide, and how the primary's loop ends. *)
From Coq Require Import NArith ZArith List Bool Lia ZifyN ZifyBool.
Require Import LF.Model.Lease.
Import ListNotations.
Local Open Scope N_scope.
Ltac Zify.zify_post_hook ::= Z.div_mod_to_equations.

Ltac split_iter i := destruct i as [cand lc cid ho i1 ac i2]; cbn [i_candidate i_local_cid i_cid i_handoff i_info1 i_acquire i_info2] in *.
Ltac run_iter := unfold iterate, leaser_has_cid; cbn [i_candidate i_local_cid i_cid i_handoff i_info1 i_acquire i_info2].

(* a node that is not a candidate never tries to acquire a free lease *)
Lemma noncandidate_never_acquires i : i_candidate i = false -> ~ In CallAcquire (snd (iterate i)).
Proof.
  split_iter i. intros ->. run_iter.
  destruct cid, lc, ho as [[|]|], i1, ac, i2; cbn; intuition discriminate.
Qed.
(* ... and becomes primary only through a lease handed over to it *)
Lemma noncandidate_primary_only_by_handoff i : i_candidate i = false -> fst (iterate i) = OPrimary -> i_handoff i = Some true.
Proof.
  split_iter i. intros ->. run_iter.
  destruct cid, lc, ho as [[|]|], i1, ac, i2; cbn; intros H; try discriminate H; reflexivity.
Qed.

(* a cluster id that differs from the stored one: the node neither leads nor follows, and asks nothing else *)
Lemma foreign_cluster_refused i : i_local_cid i = true -> i_cid i = CidDifferent -> iterate i = (ORetry, [CallClusterID]).
Proof. split_iter i. intros -> ->. reflexivity. Qed.
(* a node without a cluster id never leads a cluster that has one *)
Lemma uninitialised_node_never_leads i : i_local_cid i = false -> leaser_has_cid i = true -> fst (iterate i) <> OPrimary.
Proof.
  split_iter i. intros ->. unfold leaser_has_cid. cbn [i_cid]. run_iter.
  destruct cid, i1; cbn; intros H; try discriminate H; discriminate.
Qed.

(* primary only with a lease: a fresh one (candidate, no primary known, Acquire granted) or a handed one *)
Lemma primary_needs_lease i : fst (iterate i) = OPrimary ->
  i_cid i <> CidErr /\ ~ (i_local_cid i = true /\ i_cid i = CidDifferent) /\
  (i_handoff i = Some true \/
   (i_handoff i = None /\ i_candidate i = true /\ i_info1 i = InfoAbsent /\ i_acquire i = AcqOk)).
Proof.
  split_iter i. run_iter.
  destruct cid, lc, ho as [[|]|], cand, i1, ac, i2; cbn; intros H; try discriminate H;
    (split; [discriminate|split; [intros [A B]; discriminate|]]); tauto.
Qed.
(* follower only of a primary the lease service names *)
Lemma replica_needs_primary i : fst (iterate i) = OReplica ->
  i_cid i <> CidErr /\ ~ (i_local_cid i = true /\ i_cid i = CidDifferent) /\ (i_info1 i = InfoPresent \/ i_info2 i = InfoPresent).
Proof.
  split_iter i. run_iter.
  destruct cid, lc, ho as [[|]|], cand, i1, ac, i2; cbn; intros H; try discriminate H;
    (split; [discriminate|split; [intros [A B]; discriminate|]]); tauto.
Qed.

(* ---------- the primary's loop ---------- *)
Definition PInv (ttl : N) (s : pstate) : Prop :=
  (p_since s = 0 /\ p_wait s = ttl / 2) \/ (p_wait s = retry_ms /\ p_since s + retry_ms <= ttl).

Ltac fin HI :=
  repeat split; try discriminate; intros; try tauto; try (split; discriminate);
  try (match goal with H : _ <> _ /\ _ <> _ |- _ => destruct H; congruence end);
  try (unfold PInv, retry_ms in HI; cbn in HI; destruct HI as [[? ?]|[? ?]]; lia).

Lemma primary_loop_facts ttl evs : forall s, PInv ttl s ->
  let '(x, closed, stop) := primary_loop ttl s evs in
  (closed = true <-> (x <> XHandedOff /\ x <> XStillPrimary)) /\
  (x = XHandedOff -> In (PHandoff true true) evs) /\
  (x = XExpired -> stop <= ttl) /\
  (x = XExpired -> ~ In PRenewExpired evs -> ~ In PHandoffLeaseGone evs -> stop = ttl).
Proof.
  induction evs as [|e r IH]; intros s HI; cbn [primary_loop].
  - fin HI.
  - destruct e as [| | | |c l| |].
    + (* renew ok *) specialize (IH {| p_since := 0; p_wait := ttl / 2 |}). cbn [In].
      destruct (primary_loop ttl _ r) as [[x closed] stop]. destruct IH as [A [B [C D]]]; [left; cbn; tauto|].
      repeat split; try tauto; try (intros Hx Hn Hg; apply D; [exact Hx| |]; intros Hin; [apply Hn|apply Hg]; right; exact Hin).
    + (* expired *) fin HI; try (exfalso; match goal with H : ~ In _ _ |- _ => apply H; left; reflexivity end).
    + (* renew error *) unfold retry_ms. destruct (N.ltb_spec ttl (p_since s + p_wait s + 1000)) as [Hg|Hg].
      * fin HI.
      * specialize (IH {| p_since := p_since s + p_wait s; p_wait := 1000 |}). cbn [In].
        destruct (primary_loop ttl _ r) as [[x closed] stop]. destruct IH as [A [B [C D]]]; [right; cbn; unfold retry_ms; lia|].
        repeat split; try tauto; try (intros Hx Hn Hg; apply D; [exact Hx| |]; intros Hin; [apply Hn|apply Hg]; right; exact Hin).
    + (* demote *) fin HI.
    + (* handoff *) destruct (c && l) eqn:E.
      * apply andb_true_iff in E. destruct E as [-> ->]. fin HI; try (left; reflexivity).
      * specialize (IH s HI). cbn [In]. destruct (primary_loop ttl s r) as [[x closed] stop]. destruct IH as [A [B [C D]]].
        repeat split; try tauto; try (intros Hx; right; apply B; exact Hx);
          try (intros Hx Hn Hg; apply D; [exact Hx| |]; intros Hin; [apply Hn|apply Hg]; right; exact Hin).
    + (* handoff, lease gone *) fin HI; try (exfalso; match goal with H : ~ In PHandoffLeaseGone _ |- _ => apply H; left; reflexivity end).
    + (* shutdown *) fin HI.
Qed.

(* the lease is destroyed on every exit except a completed handoff; a handoff completes only for a connected
   target; a node whose renewals fail leaves exactly one TTL after its last successful renewal, never later *)
Theorem primary_run_facts ttl evs :
  let '(x, closed, stop) := primary_run ttl evs in
  (closed = true <-> (x <> XHandedOff /\ x <> XStillPrimary)) /\
  (x = XHandedOff -> In (PHandoff true true) evs) /\
  (x = XExpired -> stop <= ttl) /\
  (x = XExpired -> ~ In PRenewExpired evs -> ~ In PHandoffLeaseGone evs -> stop = ttl).
Proof. unfold primary_run. apply primary_loop_facts. left. cbn. tauto. Qed.
(* a handoff whose last renewal reports the lease gone ends the primary role at once, and the lease is destroyed *)
Lemma handoff_lease_gone_ends_role ttl s r : primary_loop ttl s (PHandoffLeaseGone :: r) = (XExpired, true, p_since s).
Proof. reflexivity. Qed.
(* a handoff that does not complete leaves the loop exactly where it was: the next renewal is not postponed *)
Lemma handoff_failed_keeps_deadline ttl s c l r : c && l = false -> primary_loop ttl s (PHandoff c l :: r) = primary_loop ttl s r.
Proof. intros H. cbn [primary_loop]. rewrite H. reflexivity. Qed.
(* a renewal that reports the lease gone ends the primary role at once *)
Lemma expired_renewal_ends_role ttl s r : primary_loop ttl s (PRenewExpired :: r) = (XExpired, true, p_since s + p_wait s).
Proof. reflexivity. Qed.
(* a handoff to a node that is not connected changes nothing *)
Lemma handoff_unconnected_ignored ttl s l r : primary_loop ttl s (PHandoff false l :: r) = primary_loop ttl s r.
Proof. reflexivity. Qed.

(* a node that has a cluster id follows only a stream of that very cluster, and keeps its id *)
Lemma attach_foreign_refused a b : a <> b -> attach (Some a) (Some b) = (Some a, false).
Proof. intros H. unfold attach. destruct (N.eqb_spec a b); [contradiction|reflexivity]. Qed.
Lemma attach_keeps_id a s : fst (attach (Some a) s) = Some a.
Proof. destruct s; reflexivity. Qed.
Lemma attach_follows_only_own l s c : attach l s = (Some c, true) -> s = Some c /\ (l = None \/ l = Some c).
Proof.
  unfold attach. destruct l as [a|], s as [b|]; cbn; intros H; inversion H; subst; try discriminate.
  - apply N.eqb_eq in H2. subst. tauto.
  - tauto.
Qed.

(* after the acquisition: the node goes on as primary only of its own cluster *)
Lemma post_acquire_own_cluster local leaser c : post_acquire local leaser = (true, Some c) ->
  (leaser = None /\ (local = Some c \/ (local = None /\ c = 0))) \/ (leaser = Some c /\ local = Some c).
Proof.
  unfold post_acquire. destruct leaser as [b|]; destruct local as [a|]; cbn; intros H; inversion H; subst; try discriminate; auto.
  right. match goal with E : (_ =? _) = true |- _ => apply N.eqb_eq in E; subst end. auto.
Qed.
Lemma post_acquire_foreign_refused a b : a <> b -> fst (post_acquire (Some a) (Some b)) = false.
Proof. intros H. cbn. destruct (N.eqb_spec a b); [contradiction|reflexivity]. Qed.

