(* C04 along histories (rollback-journal mode): the per-page checksum cache agrees with the database file after every
   transaction of every history, hence every reported checksum is the from-scratch checksum of the file. *)
From Coq Require Import NArith List Lia ZifyN ZifyNat ZifyBool Bool Arith.
Require Import LF.Gen.ConstsGen LF.Model.PageDB LF.Proofs.XorLib LF.Proofs.ChecksumProofs LF.Proofs.CaptureProofs.
Import ListNotations.
Local Open Scope N_scope.

(* ---- the checksum of what the file holds at an index (0 where it holds nothing) ---- *)
Definition h_at (l : list pg) (j : nat) : N := match nth_error l j with Some q => pg_h q | None => 0 end.

Lemma file_h_h_at s p : file_h s p = h_at (dbfile s) (N.to_nat (p - 1)).
Proof. reflexivity. Qed.

Lemma set_file_h : forall i l j v, h_at (set_file l i v) j = if Nat.eqb j i then pg_h v else h_at l j.
Proof.
  unfold h_at. induction i as [|i IH]; intros l j v.
  - destruct l as [|x r], j as [|j]; cbn; try reflexivity. destruct j; reflexivity.
  - destruct l as [|x r], j as [|j]; cbn [set_file nth_error Nat.eqb]; try reflexivity.
    + rewrite IH. destruct (Nat.eqb j i); [reflexivity|]. destruct j; reflexivity.
    + apply IH.
Qed.

Lemma firstn_h : forall n l j, h_at (firstn n l) j = if (j <? n)%nat then h_at l j else 0.
Proof.
  unfold h_at. induction n as [|n IH]; intros l j.
  - cbn. destruct j; reflexivity.
  - destruct l as [|x r]; [destruct j; cbn [firstn nth_error]; destruct (Nat.ltb _ (S n)); reflexivity|].
    destruct j as [|j]; cbn [firstn nth_error]; [reflexivity|]. rewrite IH.
    change (Nat.ltb (S j) (S n)) with (Nat.ltb j n). reflexivity.
Qed.

(* ---- a page write: cache and file move together ---- *)
Lemma cacheok_with_file s f : CacheOK s -> CacheOK (with_file s f).
Proof. intros H. exact H. Qed.
Lemma cacheok_with_dirty s d : CacheOK s -> CacheOK (with_dirty s d).
Proof. intros H. exact H. Qed.

Lemma write_db_page_facts s p q : 1 <= p -> 1 <= lockpg s -> CacheOK s -> LockZero s ->
  let s' := write_db_page s p q in
  CacheOK s' /\ LockZero s' /\ lockpg s' = lockpg s /\ pageN s' = pageN s /\ writeable s' = writeable s /\
  wal_mode s' = wal_mode s /\ txid s' = txid s /\ chk s' = chk s /\
  (forall x, 1 <= x -> dbc s' x = if x =? p then (if p =? lockpg s then 0 else pg_h q) else dbc s x) /\
  (forall x, 1 <= x -> file_h s' x = if x =? p then pg_h q else file_h s x).
Proof.
  intros Hp Hlk HC HL. unfold write_db_page. cbn zeta.
  set (s1 := with_file s (set_file (dbfile s) (N.to_nat (p - 1)) q)).
  assert (CacheOK s1) as HC1 by exact HC.
  split; [apply set_page_chk_cacheok; assumption|].
  assert (Hd : forall x, 1 <= x -> dbc (set_page_chk s1 p (pg_h q)) x = if x =? p then (if p =? lockpg s then 0 else pg_h q) else dbc s x).
  { intros x Hx. rewrite dbc_set by assumption. reflexivity. }
  split. { unfold LockZero. change (lockpg (set_page_chk s1 p (pg_h q))) with (lockpg s). rewrite Hd by assumption.
           destruct (N.eqb_spec (lockpg s) p) as [E|_]; [rewrite <- E, N.eqb_refl; reflexivity|exact HL]. }
  repeat (split; [reflexivity|]). split; [exact Hd|].
  intros x Hx. unfold file_h, file_pg. change (dbfile (set_page_chk s1 p (pg_h q))) with (set_file (dbfile s) (N.to_nat (p - 1)) q).
  fold (h_at (set_file (dbfile s) (N.to_nat (p - 1)) q) (N.to_nat (x - 1))). rewrite set_file_h.
  fold (h_at (dbfile s) (N.to_nat (x - 1))).
  destruct (N.eqb_spec x p) as [->|Hne]; [rewrite Nat.eqb_refl; reflexivity|].
  destruct (Nat.eqb_spec (N.to_nat (x - 1)) (N.to_nat (p - 1))); [lia|reflexivity].
Qed.

(* ---- the state inside a rollback-journal transaction that started at [s0] ---- *)
Definition truth (s : st) : Prop :=
  forall x, 1 <= x -> x <> lockpg s -> dbc s x = file_h s x \/ (pageN s < x /\ dbc s x = 0).

Record Mid (k : bool) (s0 s : st) : Prop := {
  m_w : writeable s = true; m_mode : wal_mode s = wal_mode s0; m_lock : lockpg s = lockpg s0; m_lk1 : 1 <= lockpg s;
  m_pn : pageN s = pageN s0; m_tx : txid s = txid s0; m_chk : chk s = chk s0;
  m_cache : CacheOK s; m_lz : LockZero s; m_truth : truth s;
  m_p1 : k = true -> forall q, file_pg s 1 = Some q -> pg_wal q = false
}.

Lemma file_pg_h s p q : file_pg s p = Some q -> file_h s p = pg_h q.
Proof. unfold file_h. intros ->. reflexivity. Qed.

Lemma mid_write k s0 s p q : Mid k s0 s -> wal_mode s0 = false -> 1 <= p -> (k = true -> pg_wal q = false) -> Mid k s0 (snd (op_write_page s p q)) /\ fst (op_write_page s p q) = Done.
Proof.
  intros M Hm0 Hp Hw. destruct M. unfold op_write_page. rewrite m_w0, m_mode0, Hm0. cbn [negb fst snd]. split; [|reflexivity].
  set (sd := with_dirty s (insert_sorted p (dirty s))).
  assert (CacheOK sd) as HCd by exact m_cache0. assert (LockZero sd) as HLd by exact m_lz0.
  destruct (write_db_page_facts sd p q Hp m_lk2 HCd HLd) as [A1 [A2 [A3 [A4 [A5 [A6 [A7 [A8 [A9 A10]]]]]]]]].
  change (lockpg sd) with (lockpg s) in *. change (pageN sd) with (pageN s) in *. change (writeable sd) with (writeable s) in *.
  change (wal_mode sd) with (wal_mode s) in *. change (txid sd) with (txid s) in *. change (chk sd) with (chk s) in *.
  constructor.
  - congruence.
  - congruence.
  - congruence.
  - rewrite A3. exact m_lk2.
  - congruence.
  - congruence.
  - congruence.
  - assumption.
  - assumption.
  - intros x Hx Hnl. rewrite A3 in Hnl. rewrite A4.
    rewrite A9, A10 by assumption. change (dbc sd x) with (dbc s x). change (file_h sd x) with (file_h s x).
    destruct (N.eqb_spec x p) as [->|Hne].
    + left. destruct (N.eqb_spec p (lockpg s)); [contradiction|reflexivity].
    + apply (m_truth0 x Hx Hnl).
  - intros Hk q1 Hq1. specialize (Hw Hk). destruct (N.eq_dec p 1) as [->|Hne].
    + pose proof (A10 1 ltac:(lia)) as H1. rewrite N.eqb_refl in H1.
      unfold file_pg in Hq1. unfold write_db_page in Hq1. cbn [dbfile set_page_chk with_file] in Hq1.
      change (N.to_nat (1 - 1)) with 0%nat in Hq1. destruct (dbfile sd) as [|x r]; cbn in Hq1; inversion Hq1; subst; assumption.
    + unfold file_pg in Hq1. unfold write_db_page in Hq1. cbn [dbfile set_page_chk with_file] in Hq1.
      change (N.to_nat (1 - 1)) with 0%nat in *. change (dbfile sd) with (dbfile s) in Hq1.
      assert (N.to_nat (p - 1) <> 0%nat) as Hi by lia. destruct (N.to_nat (p - 1)) as [|i]; [congruence|].
      destruct (dbfile s) as [|x r] eqn:Ef; cbn in Hq1.
      * inversion Hq1; subst; reflexivity.
      * apply (m_p2 Hk). unfold file_pg. rewrite Ef. exact Hq1.
Qed.

(* the same write inside a rollback-journal transaction SQLite runs while the header still says WAL (OWriteJ) *)
Lemma mid_write_j k s0 s p q : Mid k s0 s -> 1 <= p -> (k = true -> pg_wal q = false) -> Mid k s0 (snd (op_write_page_j s p q)) /\ fst (op_write_page_j s p q) = Done.
Proof.
  intros M Hp Hw. destruct M. unfold op_write_page_j. rewrite m_w0. cbn [negb fst snd]. split; [|reflexivity].
  set (sd := with_dirty s (insert_sorted p (dirty s))).
  assert (CacheOK sd) as HCd by exact m_cache0. assert (LockZero sd) as HLd by exact m_lz0.
  destruct (write_db_page_facts sd p q Hp m_lk2 HCd HLd) as [A1 [A2 [A3 [A4 [A5 [A6 [A7 [A8 [A9 A10]]]]]]]]].
  change (lockpg sd) with (lockpg s) in *. change (pageN sd) with (pageN s) in *. change (writeable sd) with (writeable s) in *.
  change (wal_mode sd) with (wal_mode s) in *. change (txid sd) with (txid s) in *. change (chk sd) with (chk s) in *.
  constructor.
  - congruence.
  - congruence.
  - congruence.
  - rewrite A3. exact m_lk2.
  - congruence.
  - congruence.
  - congruence.
  - assumption.
  - assumption.
  - intros x Hx Hnl. rewrite A3 in Hnl. rewrite A4.
    rewrite A9, A10 by assumption. change (dbc sd x) with (dbc s x). change (file_h sd x) with (file_h s x).
    destruct (N.eqb_spec x p) as [->|Hne].
    + left. destruct (N.eqb_spec p (lockpg s)); [contradiction|reflexivity].
    + apply (m_truth0 x Hx Hnl).
  - intros Hk q1 Hq1. specialize (Hw Hk). destruct (N.eq_dec p 1) as [->|Hne].
    + pose proof (A10 1 ltac:(lia)) as H1. rewrite N.eqb_refl in H1.
      unfold file_pg in Hq1. unfold write_db_page in Hq1. cbn [dbfile set_page_chk with_file] in Hq1.
      change (N.to_nat (1 - 1)) with 0%nat in Hq1. destruct (dbfile sd) as [|x r]; cbn in Hq1; inversion Hq1; subst; assumption.
    + unfold file_pg in Hq1. unfold write_db_page in Hq1. cbn [dbfile set_page_chk with_file] in Hq1.
      change (N.to_nat (1 - 1)) with 0%nat in *. change (dbfile sd) with (dbfile s) in Hq1.
      assert (N.to_nat (p - 1) <> 0%nat) as Hi by lia. destruct (N.to_nat (p - 1)) as [|i]; [congruence|].
      destruct (dbfile s) as [|x r] eqn:Ef; cbn in Hq1.
      * inversion Hq1; subst; reflexivity.
      * apply (m_p2 Hk). unfold file_pg. rewrite Ef. exact Hq1.
Qed.

(* the file system fills a gap with zeros: only the file changes, and only at a page the cache knows nothing about *)
Lemma mid_zero_fill k s0 s p q : Mid k s0 s -> pageN s < p -> dbc s p = 0 -> (k = true -> pg_wal q = false) ->
  Mid k s0 (snd (op_zero_fill s p q)) /\ fst (op_zero_fill s p q) = Done.
Proof.
  intros M Hp Hz Hw. destruct M. unfold op_zero_fill. cbn [fst snd]. split; [|reflexivity].
  set (s' := with_file s (set_file (dbfile s) (N.to_nat (p - 1)) q)).
  assert (Hf : forall x, 1 <= x -> file_h s' x = if x =? p then pg_h q else file_h s x).
  { intros x Hx. unfold file_h, file_pg. change (dbfile s') with (set_file (dbfile s) (N.to_nat (p - 1)) q).
    fold (h_at (set_file (dbfile s) (N.to_nat (p - 1)) q) (N.to_nat (x - 1))). rewrite set_file_h.
    fold (h_at (dbfile s) (N.to_nat (x - 1))).
    destruct (N.eqb_spec x p) as [->|Hne]; [rewrite Nat.eqb_refl; reflexivity|].
    destruct (Nat.eqb_spec (N.to_nat (x - 1)) (N.to_nat (p - 1))); [lia|reflexivity]. }
  constructor; try assumption.
  - intros x Hx Hnl. change (lockpg s') with (lockpg s) in Hnl. change (pageN s') with (pageN s). change (dbc s' x) with (dbc s x).
    rewrite Hf by assumption. destruct (N.eqb_spec x p) as [->|Hne]; [right; split; assumption|apply (m_truth0 x Hx Hnl)].
  - intros Hk q1 Hq1. specialize (Hw Hk). destruct (N.eq_dec p 1) as [->|Hne].
    + unfold file_pg in Hq1. cbn [dbfile with_file s'] in Hq1. change (N.to_nat (1 - 1)) with 0%nat in Hq1.
      destruct (dbfile s) as [|x r]; cbn in Hq1; inversion Hq1; subst; assumption.
    + unfold file_pg in Hq1. cbn [dbfile with_file s'] in Hq1. change (N.to_nat (1 - 1)) with 0%nat in *.
      assert (N.to_nat (p - 1) <> 0%nat) as Hi by lia. destruct (N.to_nat (p - 1)) as [|i]; [congruence|].
      destruct (dbfile s) as [|x r] eqn:Ef; cbn in Hq1.
      * inversion Hq1; subst; reflexivity.
      * apply (m_p2 Hk). unfold file_pg. rewrite Ef. exact Hq1.
Qed.

(* ---- the body of a transaction: the gaps, then the page writes ---- *)
Definition zf_ops (zf : list (N * pg)) : list op := map (fun kv => OZeroFill (fst kv) (snd kv)) zf.
Definition wr_ops (wr : list (N * pg)) : list op := map (fun kv => OWrite (fst kv) (snd kv)) wr.
(* what a connection does to the database file inside one transaction: page writes (new content; pre-images put back by a
   rollback) and, when it rolls back after a spill that had grown the file, the cut back to the old size *)
Inductive act :=
| AWrite (p : N) (q : pg)
| ACut
| AFail (c : N).   (* a finalisation of the journal that fails inside LiteFS before anything is published (an I/O error):
                      nothing it touched survives; SQLite then rolls back - more page writes - and finalises again *)
Definition act_ops (old : N) (acts : list act) : list op :=
  map (fun a => match a with AWrite p q => OWrite p q | ACut => OTruncate old | AFail c => OCommitJournalFail c end) acts.
Definition act_ok (k : bool) (a : act) : Prop := match a with AWrite p q => 1 <= p /\ (k = true -> pg_wal q = false) | ACut | AFail _ => True end.

Lemma run_group_app s a b : run_group s (a ++ b) =
  match run_group s a with (0, s') => run_group s' b | r => r end.
Proof.
  revert s. induction a as [|o a IH]; intros s; cbn [app run_group]; [reflexivity|].
  destruct (step s o) as [oc s1]. destruct oc; cbn [ocode]; try reflexivity. apply IH.
Qed.

Lemma run_writes k s0 : wal_mode s0 = false -> forall wr s, Mid k s0 s -> (forall p q, In (p, q) wr -> 1 <= p /\ (k = true -> pg_wal q = false)) ->
  exists s', run_group s (wr_ops wr) = (0, s') /\ Mid k s0 s'.
Proof.
  intros Hm0. induction wr as [|[p q] wr IH]; intros s M H; cbn [wr_ops map run_group].
  - exists s. auto.
  - cbn [step fst snd]. destruct (H p q (or_introl eq_refl)) as [Hp Hw].
    destruct (mid_write k s0 s p q M Hm0 Hp Hw) as [M1 E1].
    destruct (op_write_page s p q) as [oc s1]. cbn [fst snd] in *. subst oc.
    apply IH; [assumption|]. intros p' q' Hin. apply H. right; assumption.
Qed.

(* the gaps lie beyond the old size; none is named twice *)
Lemma run_zero_fills k s0 : forall zf s, Mid k s0 s -> NoDup (map fst zf) ->
  (forall p q, In (p, q) zf -> pageN s0 < p /\ (k = true -> pg_wal q = false) /\ dbc s p = 0) ->
  exists s', run_group s (zf_ops zf) = (0, s') /\ Mid k s0 s' /\ (forall x, dbc s' x = dbc s x).
Proof.
  induction zf as [|[p q] zf IH]; intros s M Hnd H; cbn [zf_ops map run_group].
  - exists s. auto.
  - cbn [step fst snd]. cbn [map fst] in Hnd. inversion Hnd as [|? ? Hnotin Hnd']; subst.
    destruct (H p q (or_introl eq_refl)) as [Hp [Hw Hz]].
    assert (pageN s < p) as Hp' by (rewrite (m_pn k s0 s M); exact Hp).
    destruct (mid_zero_fill k s0 s p q M Hp' Hz Hw) as [M1 E1].
    assert (Hd1 : forall x, dbc (snd (op_zero_fill s p q)) x = dbc s x) by reflexivity.
    destruct (op_zero_fill s p q) as [oc s1]. cbn [fst snd] in *. subst oc.
    destruct (IH s1 M1 Hnd') as [s' [E [M' Hd]]].
    { intros p' q' Hin. destruct (H p' q' (or_intror Hin)) as [A [B C]]. split; [assumption|]. split; [assumption|]. rewrite Hd1. exact C. }
    exists s'. split; [exact E|]. split; [exact M'|]. intros x. rewrite Hd, Hd1. reflexivity.
Qed.

(* ---- the commit ---- *)
Lemma clear_after_commit_fields : forall n sx i,
  writeable (clear_after_commit sx n i) = writeable sx /\ lockpg (clear_after_commit sx n i) = lockpg sx /\
  wal_chk (clear_after_commit sx n i) = wal_chk sx /\ wal_file (clear_after_commit sx n i) = wal_file sx.
Proof.
  induction n as [|n IH]; intros sx i; cbn [clear_after_commit]; [auto|].
  destruct (i <? lenN (chk_pages sx)); [|auto].
  destruct (IH (if i + 1 =? lockpg sx then sx else set_page_chk sx (i + 1) 0) (i + 1)) as [A [B [C D]]]. rewrite A, B, C, D.
  destruct (i + 1 =? lockpg sx); auto.
Qed.

Lemma commit_journal_fields s c s' : op_commit_journal s c = (Done, s') ->
  writeable s' = true /\ lockpg s' = lockpg s /\
  (wal_mode s' = true -> exists q, file_pg s 1 = Some q /\ pg_wal q = true) /\ wal_chk s' = [] /\ wal_file s' = wal_file s.
Proof.
  intros H. unfold op_commit_journal in H. destruct (writeable s) eqn:Ew; cbn [negb] in H; [|discriminate].
  set (s0 := with_wal s [] (wal_latest s) (wal_file s)) in *.
  destruct (journal_pages s0 c (journal_pgnos s c)) as [[pages|] sj] eqn:Ej; [|discriminate].
  pose proof (journal_pages_samenc c _ _ _ _ Ej) as HSj.
  destruct (journal_pages_spec c _ s0 _ _ Ej) as [_ A2].
  set (s1 := clear_after_commit sj (length (chk_pages sj)) c) in *.
  destruct (clear_after_commit_fields (length (chk_pages sj)) sj c) as [F1 [F2 [F3 F4]]]. fold s1 in F1, F2, F3, F4.
  pose proof (checksum_same s1 c []) as HS.
  destruct (checksum s1 c []) as [[post|] s2]; [|discriminate]. cbn [snd] in HS.
  inversion H; subst s'. clear H.
  destruct HS as [W2 [L2 [_ [_ [_ [_ [K2 [_ [X2 _]]]]]]]]]. destruct HSj as [Wj [Lj [_ [_ [_ [Kj [_ [Xj _]]]]]]]].
  cbn [writeable lockpg wal_mode wal_chk wal_file with_dirty with_pos].
  split; [rewrite W2, F1, Wj; exact Ew|]. split; [rewrite L2, F2, Lj; reflexivity|].
  split; [|split; [rewrite K2, F3, Kj; reflexivity|rewrite X2, F4, Xj; reflexivity]].
  destruct (alookup 1 pages) as [q|] eqn:Ea; [|discriminate].
  intros Hw. exists q. split; [|exact Hw]. apply (A2 1 q). apply alookup_in. exact Ea.
Qed.

(* between transactions: what C04 asks for, and what keeps it true *)
Record J (s : st) : Prop := {
  j_w : writeable s = true; j_mode : wal_mode s = false; j_lk1 : 1 <= lockpg s;
  j_cache : CacheOK s; j_lz : LockZero s;
  j_truth : forall p, 1 <= p <= pageN s -> p <> lockpg s -> dbc s p = file_h s p;
  j_tail : forall p, pageN s < p -> dbc s p = 0;
  j_chk : txid s <> 0 -> chk s = scratch (fun p => if p =? lockpg s then 0 else file_h s p) (pageN s);
  j_p1 : forall q, file_pg s 1 = Some q -> pg_wal q = false
}.

Lemma j_mid k s : J s -> Mid k s s.
Proof.
  intros [A B C D E F G H I]. constructor; try assumption; try reflexivity; [|intros _; assumption].
  intros x Hx Hnl. destruct (N.le_gt_cases x (pageN s)) as [Hle|Hgt]; [left; apply F; [lia|assumption]|right; split; [lia|apply G; lia]].
Qed.

Lemma scratch_ext f g n : (forall p, 1 <= p <= n -> f p = g p) -> scratch f n = scratch g n.
Proof.
  intros H. unfold scratch. f_equal. f_equal. apply map_ext_in. intros p Hp. apply seqN_in in Hp. apply H. lia.
Qed.

(* between transactions, whatever the journal mode: the per-page cache is the database file's *)
Record JB (s : st) : Prop := {
  b_w : writeable s = true; b_lk1 : 1 <= lockpg s; b_cache : CacheOK s; b_lz : LockZero s;
  b_truth : forall p, 1 <= p <= pageN s -> p <> lockpg s -> dbc s p = file_h s p;
  b_tail : forall p, pageN s < p -> dbc s p = 0;
  b_chk : txid s <> 0 -> chk s = scratch (fun p => if p =? lockpg s then 0 else file_h s p) (pageN s)
}.
Lemma jb_j s : JB s -> wal_mode s = false -> (forall q, file_pg s 1 = Some q -> pg_wal q = false) -> J s.
Proof. intros [A B C D E F G] Hm Hp. constructor; assumption. Qed.

Lemma mid_commit k s0 s c s' : Mid k s0 s -> op_commit_journal s c = (Done, s') ->
  JB s' /\ txid s' = txid s0 + 1 /\ pageN s' = c /\
  (k = true -> wal_mode s' = false /\ forall q, file_pg s' 1 = Some q -> pg_wal q = false).
Proof.
  intros M H. destruct M.
  destruct (commit_journal_checksum s c s' m_cache0 m_lz0 m_lk2 H) as [C1 [C2 [C3 [C4 [C5 [C6 [C7 C8]]]]]]].
  destruct (commit_journal_file s c s' H) as [f [_ [_ [_ [_ [_ [_ [_ [_ Ef]]]]]]]]].
  destruct (commit_journal_fields s c s' H) as [F1 [F2 [F3 _]]].
  assert (Hfh : forall p, file_h s' p = file_h s p) by (intros p; unfold file_h, file_pg; rewrite Ef; reflexivity).
  assert (Hjc : forall p, 1 <= p -> p <> lockpg s -> jc s p = file_h s p).
  { intros p Hp Hnl. unfold jc, unwritten. fold (dbc s p).
    destruct (m_truth0 p Hp Hnl) as [E|[Hgt Hz]].
    - destruct ((pageN s <? p) && (dbc s p =? 0)) eqn:Eu; [reflexivity|exact E].
    - assert ((pageN s <? p) && (dbc s p =? 0) = true) as -> ; [|reflexivity].
      apply andb_true_iff. split; [apply N.ltb_lt; assumption|rewrite Hz; reflexivity]. }
  split; [|split; [congruence|split; [assumption|]]].
  2:{ intros Hk. split.
      - destruct (wal_mode s') eqn:Ew; [|reflexivity]. destruct (F3 eq_refl) as [q [Hq Hw]]. rewrite (m_p2 Hk q Hq) in Hw. discriminate.
      - intros q Hq. apply (m_p2 Hk). unfold file_pg in *. rewrite Ef in Hq. exact Hq. }
  constructor.
  - exact F1.
  - rewrite F2. exact m_lk2.
  - exact C5.
  - exact C6.
  - intros p Hp Hnl. rewrite F2 in Hnl. rewrite C3 in Hp. rewrite C8 by assumption. rewrite Hfh. apply Hjc; [lia|assumption].
  - intros p Hp. rewrite C3 in Hp. apply C7. assumption.
  - intros _. rewrite C1, C3, F2. apply scratch_ext. intros p Hp.
    destruct (N.eqb_spec p (lockpg s)) as [_|Hnl]; [reflexivity|]. rewrite Hfh. apply Hjc; [lia|assumption].
Qed.

(* ---- the truncate SQLite issues after a shrinking commit ---- *)
Lemma clear_from_spec : forall fuel s i,
  (length (chk_pages s) - N.to_nat i <= fuel)%nat -> CacheOK s -> LockZero s -> 1 <= lockpg s ->
  let s' := clear_from s fuel i in
  CacheOK s' /\ LockZero s' /\ lockpg s' = lockpg s /\ writeable s' = writeable s /\ wal_mode s' = wal_mode s /\
  pageN s' = pageN s /\ txid s' = txid s /\ chk s' = chk s /\ dbfile s' = dbfile s /\
  (forall q, 1 <= q -> dbc s' q = if i <? q then 0 else dbc s q).
Proof.
  induction fuel as [|fuel IH]; intros s i Hf HC HL Hlk; cbn [clear_from].
  - repeat (split; [assumption || reflexivity|]). intros q Hq.
    destruct (N.ltb_spec i q) as [Hlt|_]; [|reflexivity].
    unfold dbc, db_page_chk, nthN. apply nth_overflow. lia.
  - destruct (N.ltb_spec i (lenN (chk_pages s))) as [Hlt|Hge].
    + set (s1 := set_page_chk s (i + 1) 0).
      assert (CacheOK s1) as HC1 by (apply set_page_chk_cacheok; [lia|assumption]).
      assert (forall q, 1 <= q -> dbc s1 q = if q =? i + 1 then 0 else dbc s q) as Hd1.
      { intros q Hq. unfold s1. rewrite dbc_set by lia. destruct (q =? i + 1); [|reflexivity]. destruct (i + 1 =? lockpg s); reflexivity. }
      assert (LockZero s1) as HL1.
      { unfold LockZero. change (lockpg s1) with (lockpg s). rewrite Hd1 by assumption. destruct (lockpg s =? i + 1); [reflexivity|exact HL]. }
      assert (length (chk_pages s1) = length (chk_pages s)) as Elen.
      { unfold s1, set_page_chk. cbn [chk_pages]. apply set_nth_keeps_length. unfold lenN in Hlt. lia. }
      destruct (IH s1 (i + 1)) as [C2 [L2 [E2 [W2 [M2 [P2 [T2 [K2 [F2 D2]]]]]]]]]; [lia|assumption|assumption|exact Hlk|].
      fold s1. split; [assumption|]. split; [assumption|]. repeat (split; [assumption|]).
      intros q Hq. rewrite D2 by assumption. rewrite Hd1 by assumption.
      destruct (N.ltb_spec (i + 1) q), (N.ltb_spec i q), (N.eqb_spec q (i + 1)); try lia; reflexivity.
    + repeat (split; [assumption || reflexivity|]). intros q Hq.
      destruct (N.ltb_spec i q) as [Hlt|_]; [|reflexivity].
      unfold dbc, db_page_chk, nthN. apply nth_overflow. unfold lenN in Hge. lia.
Qed.

(* inside a transaction: the cut back to the old size when SQLite rolls back after a spill that had grown the file *)
Lemma mid_truncate k s0 s s' : Mid k s0 s -> op_truncate s (pageN s) = (Done, s') -> Mid k s0 s'.
Proof.
  intros M H. destruct M. unfold op_truncate in H. rewrite N.eqb_refl in H. cbn [negb] in H. inversion H; subst s'. clear H.
  unfold truncate_db, reset_after.
  set (sf := with_file s (firstn (N.to_nat (pageN s)) (dbfile s))).
  assert (CacheOK sf) as HCf by exact m_cache0. assert (LockZero sf) as HLf by exact m_lz0.
  destruct (clear_from_spec (length (chk_pages sf)) sf (pageN s) ltac:(lia) HCf HLf m_lk2) as [C2 [L2 [E2 [W2 [M2 [P2 [T2 [K2 [F2 D2]]]]]]]]].
  set (s2 := clear_from sf (length (chk_pages sf)) (pageN s)) in *. cbn zeta in *.
  assert (Hfh : forall p, 1 <= p -> file_h s2 p = if p <=? pageN s then file_h s p else 0).
  { intros p Hp. unfold file_h, file_pg. rewrite F2. change (dbfile sf) with (firstn (N.to_nat (pageN s)) (dbfile s)).
    fold (h_at (firstn (N.to_nat (pageN s)) (dbfile s)) (N.to_nat (p - 1))). rewrite firstn_h.
    fold (h_at (dbfile s) (N.to_nat (p - 1))).
    destruct (N.leb_spec p (pageN s)), (Nat.ltb_spec (N.to_nat (p - 1)) (N.to_nat (pageN s))); try lia; reflexivity. }
  change (lockpg sf) with (lockpg s) in *. change (writeable sf) with (writeable s) in *. change (wal_mode sf) with (wal_mode s) in *.
  change (pageN sf) with (pageN s) in *. change (txid sf) with (txid s) in *. change (chk sf) with (chk s) in *.
  constructor.
  - congruence.
  - congruence.
  - congruence.
  - rewrite E2. assumption.
  - congruence.
  - congruence.
  - congruence.
  - assumption.
  - assumption.
  - intros x Hx Hnl. rewrite E2 in Hnl. rewrite P2. rewrite D2 by assumption. change (dbc sf x) with (dbc s x). rewrite Hfh by assumption.
    destruct (N.ltb_spec (pageN s) x) as [Hgt|Hle].
    + right. split; [assumption|reflexivity].
    + destruct (N.leb_spec x (pageN s)); [|lia]. destruct (m_truth0 x Hx Hnl) as [E|[Hgt _]]; [left; exact E|lia].
  - intros Hk q Hq. apply (m_p2 Hk). unfold file_pg in *. rewrite F2 in Hq. change (dbfile sf) with (firstn (N.to_nat (pageN s)) (dbfile s)) in Hq.
    change (N.to_nat (1 - 1)) with 0%nat in *. destruct (N.to_nat (pageN s)); [discriminate|]. destruct (dbfile s); [discriminate|exact Hq].
Qed.

Lemma run_acts k s0 : wal_mode s0 = false -> forall acts s s', Mid k s0 s -> Forall (act_ok k) acts ->
  run_group s (act_ops (pageN s0) acts) = (0, s') -> Mid k s0 s'.
Proof.
  intros Hm0. induction acts as [|a acts IH]; intros s s' M Hok H; cbn [act_ops map run_group] in H.
  - inversion H; subst. exact M.
  - inversion Hok as [|? ? Ha Hok']; subst. destruct a as [p q| |cf]; cbn [step] in H.
    + destruct Ha as [Hp Hw]. destruct (mid_write k s0 s p q M Hm0 Hp Hw) as [M1 E1].
      destruct (op_write_page s p q) as [oc s1]. cbn [fst snd] in *. subst oc. apply (IH s1 s' M1 Hok' H).
    + destruct (op_truncate s (pageN s0)) as [oc s1] eqn:Et. destruct oc; cbn [ocode] in H; try (inversion H; fail).
      rewrite <- (m_pn k s0 s M) in Et. apply (IH s1 s' (mid_truncate k s0 s s1 M Et) Hok' H).
    + apply (IH s s' M Hok' H).
Qed.

Lemma j_truncate s n s' : J s -> op_truncate s n = (Done, s') -> J s' /\ txid s' = txid s /\ pageN s' = pageN s.
Proof.
  intros HJ H. destruct HJ. unfold op_truncate in H. destruct (N.eqb_spec n (pageN s)) as [->|Hne]; cbn [negb] in H; [|discriminate].
  inversion H; subst s'. clear H. unfold truncate_db, reset_after.
  set (sf := with_file s (firstn (N.to_nat (pageN s)) (dbfile s))).
  assert (CacheOK sf) as HCf by exact j_cache0. assert (LockZero sf) as HLf by exact j_lz0.
  destruct (clear_from_spec (length (chk_pages sf)) sf (pageN s) ltac:(lia) HCf HLf j_lk2) as [C2 [L2 [E2 [W2 [M2 [P2 [T2 [K2 [F2 D2]]]]]]]]].
  set (s2 := clear_from sf (length (chk_pages sf)) (pageN s)) in *. cbn zeta in *.
  assert (Hfh : forall p, 1 <= p -> file_h s2 p = if p <=? pageN s then file_h s p else 0).
  { intros p Hp. unfold file_h, file_pg. rewrite F2. change (dbfile sf) with (firstn (N.to_nat (pageN s)) (dbfile s)).
    fold (h_at (firstn (N.to_nat (pageN s)) (dbfile s)) (N.to_nat (p - 1))). rewrite firstn_h.
    fold (h_at (dbfile s) (N.to_nat (p - 1))).
    destruct (N.leb_spec p (pageN s)), (Nat.ltb_spec (N.to_nat (p - 1)) (N.to_nat (pageN s))); try lia; reflexivity. }
  change (lockpg sf) with (lockpg s) in *. change (writeable sf) with (writeable s) in *. change (wal_mode sf) with (wal_mode s) in *.
  change (pageN sf) with (pageN s) in *. change (txid sf) with (txid s) in *. change (chk sf) with (chk s) in *.
  split; [|split; assumption].
  constructor.
  - congruence.
  - congruence.
  - rewrite E2. assumption.
  - assumption.
  - assumption.
  - intros p Hp Hnl. rewrite P2 in Hp. rewrite E2 in Hnl. rewrite D2 by lia. change (dbc sf p) with (dbc s p).
    rewrite Hfh by lia. destruct (N.ltb_spec (pageN s) p); [lia|]. destruct (N.leb_spec p (pageN s)); [|lia]. apply j_truth0; assumption.
  - intros p Hp. rewrite P2 in Hp. rewrite D2 by lia. destruct (N.ltb_spec (pageN s) p); [reflexivity|lia].
  - intros Ht. rewrite T2 in Ht. rewrite K2, P2, E2, (j_chk0 Ht). apply scratch_ext. intros p Hp.
    destruct (p =? lockpg s); [reflexivity|]. rewrite Hfh by lia. destruct (N.leb_spec p (pageN s)); [reflexivity|lia].
  - intros q Hq. apply j_p2. unfold file_pg in *. rewrite F2 in Hq. change (dbfile sf) with (firstn (N.to_nat (pageN s)) (dbfile s)) in Hq.
    change (N.to_nat (1 - 1)) with 0%nat in *. destruct (N.to_nat (pageN s)); [discriminate|]. destruct (dbfile s); [discriminate|exact Hq].
Qed.

(* ---- histories ---- *)
Inductive hstep :=
| HTx (zf : list (N * pg)) (acts : list act) (c : N)
    (* a rollback-journal transaction that ends with the finalisation of a valid journal - a commit, or a rollback after a
       spill: the gaps the file system fills (pages SQLite never writes), then page writes in any order with any
       repetitions (new content, pre-images put back) and cuts back to the old size, then the size page 1 names *)
| HTrunc (n : N).                        (* the truncate SQLite issues after a shrinking commit *)
Definition hops (s : st) (h : hstep) : list op :=
  match h with
  | HTx zf acts c => zf_ops zf ++ act_ops (pageN s) acts ++ [OCommitJournal c]
  | HTrunc n => [OTruncate n]
  end.
(* what SQLite's pager guarantees about a transaction, relative to the state it starts in: the gaps lie beyond the old
   size and are distinct; page numbers start at 1; the database stays in rollback-journal mode *)
Definition wf_step (s : st) (h : hstep) : Prop :=
  match h with
  | HTx zf acts c => NoDup (map fst zf) /\ (forall p q, In (p, q) zf -> pageN s < p /\ pg_wal q = false) /\ Forall (act_ok true) acts
  | HTrunc _ => True
  end.
Fixpoint run_hsteps (s : st) (hs : list hstep) : option st :=
  match hs with
  | [] => Some s
  | h :: r => match run_group s (hops s h) with (0, s') => run_hsteps s' r | _ => None end
  end.
Fixpoint wf_hist (s : st) (hs : list hstep) : Prop :=
  match hs with
  | [] => True
  | h :: r => wf_step s h /\ forall s', run_group s (hops s h) = (0, s') -> wf_hist s' r
  end.

Lemma run_group_one s o s' : run_group s [o] = (0, s') -> step s o = (Done, s').
Proof.
  cbn [run_group]. destruct (step s o) as [oc s1]. destruct oc; cbn [ocode]; intros H; inversion H; reflexivity.
Qed.

Lemma j_step s h s' : J s -> wf_step s h -> run_group s (hops s h) = (0, s') -> J s' /\ lockpg s' = lockpg s.
Proof.
  intros HJ Hwf H. destruct h as [zf acts c|n]; cbn [hops wf_step] in *.
  - destruct Hwf as [Hnd [Hzf Hacts]].
    destruct (run_zero_fills true s zf s (j_mid true s HJ) Hnd) as [s1 [E1 [M1 _]]].
    { intros p q Hin. destruct (Hzf p q Hin) as [A B]. split; [assumption|]. split; [intros _; assumption|]. apply (j_tail s HJ). assumption. }
    rewrite run_group_app, E1 in H. rewrite run_group_app in H.
    destruct (run_group s1 (act_ops (pageN s) acts)) as [code s2] eqn:E2. destruct code; [|inversion H].
    pose proof (run_acts true s (j_mode s HJ) acts s1 s2 M1 Hacts E2) as M2.
    apply run_group_one in H. cbn [step] in H.
    destruct (writeable s2 && (pageN s2 =? 0) && match dbfile s2 with [] => true | _ :: _ => false end) eqn:Einv.
    + (* nothing was written and there is no database: the journal is invalidated, nothing is published *)
      unfold op_invalidate_journal in H. inversion H; subst s'. clear H.
      apply andb_true_iff in Einv. destruct Einv as [Einv Ef]. apply andb_true_iff in Einv. destruct Einv as [_ Ep]. apply N.eqb_eq in Ep.
      destruct (dbfile s2) eqn:Edb; [|discriminate]. destruct M2. destruct HJ.
      assert (Hfh : forall p, file_h s2 p = 0) by (intros p; unfold file_h, file_pg; rewrite Edb; destruct (N.to_nat (p - 1)); reflexivity).
      split; [|exact m_lock0].
      constructor.
      * exact m_w0.
      * change (wal_mode s2 = false). rewrite m_mode0. exact j_mode0.
      * exact m_lk2.
      * exact m_cache0.
      * exact m_lz0.
      * intros p Hp. change (pageN (with_dirty s2 [])) with (pageN s2) in Hp. lia.
      * intros p Hp. change (dbc (with_dirty s2 []) p) with (dbc s2 p).
        destruct (N.eq_dec p (lockpg s2)) as [->|Hnl]; [exact m_lz0|].
        destruct (m_truth0 p ltac:(change (pageN (with_dirty s2 [])) with (pageN s2) in Hp; lia) Hnl) as [E|[_ E]]; [rewrite E; apply Hfh|exact E].
      * cbn [txid chk pageN lockpg with_dirty]. intros Ht. rewrite m_tx0 in Ht. rewrite m_chk0, (j_chk0 Ht), Ep, <- m_pn0, Ep. reflexivity.
      * intros q Hq. unfold file_pg in Hq. cbn [dbfile with_dirty] in Hq. rewrite Edb in Hq. destruct (N.to_nat (1 - 1)); discriminate.
    + destruct (mid_commit true s s2 c s' M2 H) as [HB [_ [_ Hs]]]. destruct (Hs eq_refl) as [Hm Hp1]. split; [exact (jb_j s' HB Hm Hp1)|].
      destruct (commit_journal_fields s2 c s' H) as [_ [F _]]. rewrite F. apply (m_lock true s s2 M2).
  - apply run_group_one in H. cbn [step] in H. destruct (j_truncate s n s' HJ H) as [HJ' _]. split; [exact HJ'|].
    unfold op_truncate in H. destruct (negb (n =? pageN s)); [discriminate|]. inversion H; subst.
    unfold truncate_db, reset_after.
    destruct (clear_from_spec (length (chk_pages (with_file s (firstn (N.to_nat n) (dbfile s))))) (with_file s (firstn (N.to_nat n) (dbfile s))) n ltac:(lia) (j_cache s HJ) (j_lz s HJ) (j_lk1 s HJ)) as [_ [_ [F _]]].
    exact F.
Qed.

(* a rollback-journal transaction whose pages may carry anything - in particular the one that rewrites page 1 with the WAL
   versions and so takes the database into WAL mode *)
Definition wf_tx_any (s : st) (zf : list (N * pg)) (acts : list act) : Prop :=
  NoDup (map fst zf) /\ (forall p q, In (p, q) zf -> pageN s < p) /\ Forall (act_ok false) acts.
Lemma tx_step_any s zf acts c s' : J s -> wf_tx_any s zf acts -> run_group s (hops s (HTx zf acts c)) = (0, s') ->
  wal_mode s' = true ->
  JB s' /\ wal_chk s' = [] /\ txid s' = txid s + 1 /\ pageN s' = c /\ lockpg s' = lockpg s.
Proof.
  intros HJ [Hnd [Hzf Hacts]] H Hm. cbn [hops] in H.
  destruct (run_zero_fills false s zf s (j_mid false s HJ) Hnd) as [s1 [E1 [M1 _]]].
  { intros p q Hin. split; [apply (Hzf p q Hin)|]. split; [discriminate|]. apply (j_tail s HJ). apply (Hzf p q Hin). }
  rewrite run_group_app, E1 in H. rewrite run_group_app in H.
  destruct (run_group s1 (act_ops (pageN s) acts)) as [code s2] eqn:E2. destruct code; [|inversion H].
  pose proof (run_acts false s (j_mode s HJ) acts s1 s2 M1 Hacts E2) as M2.
  apply run_group_one in H. cbn [step] in H.
  destruct (writeable s2 && (pageN s2 =? 0) && match dbfile s2 with [] => true | _ :: _ => false end).
  - unfold op_invalidate_journal in H. inversion H; subst s'. cbn [wal_mode with_dirty] in Hm.
    rewrite (m_mode false s s2 M2), (j_mode s HJ) in Hm. discriminate.
  - destruct (mid_commit false s s2 c s' M2 H) as [HB [Et [Ep _]]].
    destruct (commit_journal_fields s2 c s' H) as [_ [F [_ [K _]]]].
    split; [exact HB|]. split; [exact K|]. split; [exact Et|]. split; [exact Ep|]. rewrite F. apply (m_lock false s s2 M2).
Qed.

Theorem journal_history_invariant : forall hs s s', J s -> wf_hist s hs -> run_hsteps s hs = Some s' -> J s' /\ lockpg s' = lockpg s.
Proof.
  induction hs as [|h r IH]; intros s s' HJ Hwf H; cbn [run_hsteps wf_hist] in *.
  - inversion H; subst. split; [exact HJ|reflexivity].
  - destruct Hwf as [Hw Hrest]. destruct (run_group s (hops s h)) as [code s1] eqn:E.
    destruct code; [|discriminate]. destruct (j_step s h s1 HJ Hw E) as [HJ1 El1].
    destruct (IH s1 s' HJ1 (Hrest s1 eq_refl) H) as [HJ' El']. split; [exact HJ'|congruence].
Qed.

Lemma j_init lock : 1 <= lock -> J (init lock).
Proof.
  intros Hl. constructor; cbn; try reflexivity; try assumption.
  - intros b Hb. unfold lenN in Hb. cbn in Hb. lia.
  - unfold LockZero, dbc, db_page_chk, nthN. cbn. destruct (N.to_nat (lock - 1)); reflexivity.
  - intros p Hp. lia.
  - intros p _. unfold dbc, db_page_chk, nthN. cbn. destruct (N.to_nat (p - 1)); reflexivity.
  - intros H. contradiction H. reflexivity.
  - intros q Hq. discriminate.
Qed.

(* C04 for every rollback-journal history from an empty node: once something was committed, the position's checksum is the
   from-scratch checksum of the database file, and the per-page cache agrees with the file page by page *)
Theorem journal_history_checksum lock hs s' :
  1 <= lock -> wf_hist (init lock) hs -> run_hsteps (init lock) hs = Some s' ->
  (txid s' <> 0 -> chk s' = scratch (fun p => if p =? lock then 0 else file_h s' p) (pageN s')) /\
  (forall p, 1 <= p <= pageN s' -> p <> lock -> dbc s' p = file_h s' p) /\ lockpg s' = lock.
Proof.
  intros Hl Hwf H. destruct (journal_history_invariant hs (init lock) s' (j_init lock Hl) Hwf H) as [HJ El].
  change (lockpg (init lock)) with lock in El. destruct HJ. rewrite El in *.
  split; [exact j_chk0|]. split; [exact j_truth0|reflexivity].
Qed.

(* a concrete history that meets the hypotheses (used as the non-vacuity example of Props/C04.v) *)
Lemma journal_history_example :
  let pg h := mkPg (fl h) 0 false in
  let hs := [HTx [] [AWrite 1 (pg 11); AWrite 2 (pg 12)] 2;
             HTx [(3, pg 33); (4, pg 44)] [AWrite 1 (pg 21); AWrite 5 (pg 55)] 5;
             HTx [] [AWrite 2 (pg 77); AWrite 7 (pg 70); AWrite 2 (pg 12); ACut] 5;
             HTx [] [AWrite 2 (pg 92)] 3; HTrunc 3] in
  wf_hist (init 2097153) hs /\
  match run_hsteps (init 2097153) hs with
  | Some s => (txid s, pageN s, lenN (dbfile s), chk s =? fl (N.lxor (N.lxor 21 92) 33)) = (4, 3, 3, true)
  | None => False
  end.
Proof.
  cbn zeta. split; [|vm_compute; reflexivity].
  Ltac in_cases := let H := fresh in intros ? ? H; cbn [In] in H;
    repeat (destruct H as [H|H]; [inversion H; subst; cbn; split; [lia|reflexivity]|]); destruct H.
  Ltac acts_ok := repeat constructor; cbn; lia.
  cbn [wf_hist wf_step].
  split. { split; [constructor|]. split; [intros ? ? []|acts_ok]. }
  intros s1 E1. vm_compute in E1. inversion E1; subst s1; clear E1.
  split. { split; [repeat constructor; cbn; intuition discriminate|]. split; [in_cases|acts_ok]. }
  intros s2 E2. vm_compute in E2. inversion E2; subst s2; clear E2.
  split. { split; [constructor|]. split; [intros ? ? []|acts_ok]. }
  intros s3 E3. vm_compute in E3. inversion E3; subst s3; clear E3.
  split. { split; [constructor|]. split; [intros ? ? []|acts_ok]. }
  intros s4 E4. vm_compute in E4. inversion E4; subst s4; clear E4.
  split; [exact I|]. intros s5 E5. exact I.
Qed.
