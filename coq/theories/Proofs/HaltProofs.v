(* C13: halt lock protocol - exclusion, order, acknowledgement, holder-only, idempotence, convergence. *)
From Coq Require Import NArith List Bool Lia ZifyN ZifyNat ZifyBool Arith.
Require Import LF.Model.Halt.
Import ListNotations.
Local Open Scope N_scope.

(* ---------- logs ---------- *)
Fixpoint chain (l : log) : Prop :=
  match l with [] => True | e :: r => extends r e = true /\ chain r end.
Definition suffix (a b : log) : Prop := exists x, b = x ++ a.

Lemma extends_spec l e : extends l e = true <-> e_txid e = fst (pos_of l) + 1 /\ e_pre e = snd (pos_of l).
Proof. unfold extends. rewrite andb_true_iff, !N.eqb_eq. tauto. Qed.

Lemma chain_len l : chain l -> fst (pos_of l) = N.of_nat (length l).
Proof.
  induction l as [|e r IH]; cbn [chain pos_of length fst]; [reflexivity|].
  intros [He Hr]. apply extends_spec in He. destruct He as [Ht _]. rewrite Ht, (IH Hr). lia.
Qed.

Lemma suffix_refl a : suffix a a. Proof. exists []. reflexivity. Qed.
Lemma suffix_cons a b e : suffix a b -> suffix a (e :: b).
Proof. intros [x ->]. exists (e :: x). reflexivity. Qed.
Lemma suffix_both a e : suffix (e :: a) (e :: a). Proof. apply suffix_refl. Qed.
Lemma suffix_len a b : suffix a b -> (length a <= length b)%nat.
Proof. intros [x ->]. rewrite app_length. lia. Qed.
Lemma suffix_same_len a b : suffix a b -> length a = length b -> a = b.
Proof.
  intros [x ->] H. rewrite app_length in H. destruct x as [|y x]; [reflexivity|]. cbn [length] in H. lia.
Qed.
Lemma chain_suffix a b : suffix a b -> chain b -> chain a.
Proof.
  intros [x ->]. induction x as [|y x IH]; cbn [app chain]; [tauto|]. intros [_ H]. exact (IH H).
Qed.

(* the entry with a given id in a chain is the one at that height *)
Lemma find_tx_chain x e a : chain (x ++ e :: a) -> find_tx (x ++ e :: a) (e_txid e) = Some e.
Proof.
  induction x as [|y x IH]; cbn [app find_tx chain].
  - intros _. rewrite N.eqb_refl. reflexivity.
  - intros [Hy Hc]. specialize (IH Hc).
    apply extends_spec in Hy. destruct Hy as [Hy _].
    assert (He : e_txid e = N.of_nat (length (e :: a))).
    { apply (chain_suffix (e :: a)) in Hc; [|exists x; reflexivity]. destruct Hc as [Hc1 Hc2].
      apply extends_spec in Hc1. destruct Hc1 as [Hc1 _]. rewrite Hc1, (chain_len _ Hc2). cbn [length]. lia. }
    rewrite (chain_len _ Hc), app_length in Hy.
    destruct (N.eqb_spec (e_txid y) (e_txid e)) as [E|E]; [|exact IH].
    exfalso. rewrite He in E. cbn [length] in *. lia.
Qed.
Lemma find_tx_none l t : chain l -> N.of_nat (length l) < t -> find_tx l t = None.
Proof.
  induction l as [|e r IH]; cbn [find_tx chain length]; [reflexivity|].
  intros [He Hr] Ht. apply extends_spec in He. destruct He as [He _]. rewrite (chain_len _ Hr) in He.
  destruct (N.eqb_spec (e_txid e) t) as [E|E]; [lia|]. apply IH; [exact Hr|lia].
Qed.

(* one stream step of a follower whose log is a proper suffix of a chain takes exactly the next entry *)
Lemma next_of_suffix a b : chain b -> suffix a b -> a <> b ->
  exists x e, b = x ++ e :: a /\ find_tx b (fst (pos_of a) + 1) = Some e /\ e_pre e = snd (pos_of a).
Proof.
  intros Hc [x0 ->] Hne.
  assert (x0 <> []) as Hx0 by (intros ->; apply Hne; reflexivity).
  destruct (exists_last Hx0) as [x [y ->]].
  rewrite <- app_assoc in *. cbn [app] in *. exists x, y. split; [reflexivity|].
  pose proof (chain_suffix (y :: a) _ (ex_intro _ x eq_refl) Hc) as [Hy Ha].
  apply extends_spec in Hy. destruct Hy as [Hy1 Hy2]. rewrite <- Hy1. split; [apply find_tx_chain; exact Hc|exact Hy2].
Qed.

(* ---------- invariant ---------- *)
Record Inv (s : sys) : Prop := {
  inv_chain : chain (plog s);
  inv_r : suffix (rlog s) (plog s);
  inv_o : suffix (olog s) (plog s)
}.
Lemma log_eqb_eq a b : log_eqb a b = true -> a = b.
Proof.
  revert b. induction a as [|x a IH]; intros [|y b]; cbn [log_eqb]; try discriminate; [reflexivity|].
  intros H. apply andb_true_iff in H. destruct H as [H Hl]. apply andb_true_iff in H. destruct H as [H H4].
  apply andb_true_iff in H. destruct H as [H H3]. apply andb_true_iff in H. destruct H as [H1 H2].
  apply N.eqb_eq in H1. apply N.eqb_eq in H2. apply N.eqb_eq in H3. apply N.eqb_eq in H4.
  rewrite (IH _ Hl). destruct x, y; cbn in *; subst. reflexivity.
Qed.
Lemma log_eqb_refl a : log_eqb a a = true.
Proof. induction a as [|x a IH]; cbn [log_eqb]; [reflexivity|]. rewrite !N.eqb_refl, IH. reflexivity. Qed.
Lemma can_handoff_spec s : can_handoff s = true -> ohalt s = None /\ olog s = plog s.
Proof. unfold can_handoff. destruct (ohalt s); [discriminate|]. intros H. split; [reflexivity|apply log_eqb_eq, H]. Qed.

Lemma inv_init : Inv init.
Proof. split; cbn; [exact I|apply suffix_refl|apply suffix_refl]. Qed.

Lemma forward_spec s id e s' :
  forward s id e = (s', true) ->
  holds (phalt s) id = true /\ extends (plog s) e = true /\ plog s' = e :: plog s /\
  phalt s' = phalt s /\ rlock s' = rlock s /\ rlog s' = rlog s /\ olog s' = olog s.
Proof.
  unfold forward. destruct (holds (phalt s) id) eqn:Eh; cbn [andb]; [|intros H; inversion H].
  destruct (extends (plog s) e) eqn:Ee; intros H; inversion H; subst. cbn. repeat split; reflexivity.
Qed.
Lemma forward_refused s id e s' : forward s id e = (s', false) -> s' = s.
Proof. unfold forward. destruct (_ && _); intros H; inversion H; reflexivity. Qed.

Lemma next_entry_extends l post node : extends l (next_entry l post node) = true.
Proof. apply extends_spec. split; reflexivity. Qed.

Lemma grant_spec s id s' r : grant s id = (s', r) ->
  plog s' = plog s /\ rlog s' = rlog s /\ olog s' = olog s /\ rlock s' = rlock s.
Proof.
  unfold grant. destruct (id =? 0); [intros H; inversion H; subst; tauto|].
  destruct (phalt s) as [[i p]|]; [destruct (i =? id)|]; intros H; inversion H; subst; cbn; tauto.
Qed.
Lemma release_primary_spec s id :
  plog (release_primary s id) = plog s /\ rlog (release_primary s id) = rlog s /\ olog (release_primary s id) = olog s /\
  rlock (release_primary s id) = rlock s.
Proof. unfold release_primary. destruct (holds _ _); cbn; tauto. Qed.

(* every event leaves the primary's log unchanged or extends it by exactly one linked entry *)
Lemma step_log s e s' c : step s e = (s', c) ->
  plog s' = plog s \/ exists x, plog s' = x :: plog s /\ extends (plog s) x = true.
Proof.
  destruct e as [id d|post| |post d|sent| |id post|post d| | ]; cbn [step]; unfold restart.
  - destruct (grant s id) as [s1 r] eqn:Eg. apply grant_spec in Eg. destruct Eg as [Ep _].
    destruct r as [l|]; [|intros H; inversion H; subst; left; exact Ep].
    destruct (negb d); [intros H; inversion H; subst; left; exact Ep|].
    destruct (_ && _); intros H; inversion H; subst; cbn; left; [exact Ep|].
    destruct (release_primary_spec s1 (fst l)) as [E _]. rewrite E. exact Ep.
  - destruct (phalt s); intros H; inversion H; subst; [left; reflexivity|].
    right. eexists. split; [reflexivity|apply next_entry_extends].
  - destruct (phalt s); intros H; inversion H; subst; left; reflexivity.
  - destruct (rlock s) as [[id g]|]; [|intros H; inversion H; subst; left; reflexivity].
    destruct (forward s id _) as [s1 ok] eqn:Ef. destruct ok.
    + apply forward_spec in Ef. destruct Ef as [_ [Hx [Hp _]]].
      destruct d; cbn [negb]; intros H; inversion H; subst; cbn; right; eexists; (split; [exact Hp|exact Hx]).
    + apply forward_refused in Ef. subst s1. cbn [negb]. intros H; inversion H; subst. left; reflexivity.
  - destruct (rlock s) as [[id g]|]; [|intros H; inversion H; subst; left; reflexivity].
    destruct sent; intros H; inversion H; subst; left; [|reflexivity].
    destruct (release_primary_spec {| plog := plog s; phalt := phalt s; rlock := None; rlog := rlog s; olog := olog s; ohalt := ohalt s |} id) as [E _]. exact E.
  - intros H; inversion H; subst; left; reflexivity.
  - destruct (forward s id _) as [s1 ok] eqn:Ef. destruct ok; intros H; inversion H; subst.
    + apply forward_spec in Ef. destruct Ef as [_ [Hx [Hp _]]]. right; eexists; split; [exact Hp|exact Hx].
    + apply forward_refused in Ef. subst. left; reflexivity.
  - destruct (rlock s) as [[id g]|]; [|intros H; inversion H; subst; left; reflexivity].
    destruct (forward s id _) as [s1 ok] eqn:Ef. destruct ok.
    + apply forward_spec in Ef. destruct Ef as [_ [Hx [Hp _]]].
      destruct d; cbn [negb]; intros H; inversion H; subst; cbn; right; eexists; (split; [exact Hp|exact Hx]).
    + apply forward_refused in Ef. subst s1. cbn [negb]. intros H; inversion H; subst. left; reflexivity.
  - destruct (can_handoff s) eqn:Eh; intros H; inversion H; subst; left; [|reflexivity].
    apply can_handoff_spec in Eh. destruct Eh as [_ Eo]. cbn. exact Eo.
  - intros H; inversion H; subst; left; reflexivity.
Qed.

(* the replica's log: unchanged, or extended by the very entry the primary accepted *)
Lemma step_rlog s e s' c : step s e = (s', c) ->
  (rlog s' = rlog s) \/
  (exists x, rlog s' = x :: rlog s /\ plog s' = x :: plog s /\ extends (rlog s) x = true /\ extends (plog s) x = true).
Proof.
  destruct e as [id d|post| |post d|sent| |id post|post d| | ]; cbn [step]; unfold restart.
  - destruct (grant s id) as [s1 r] eqn:Eg. apply grant_spec in Eg. destruct Eg as [_ [Er _]].
    destruct r as [l|]; [|intros H; inversion H; subst; left; exact Er].
    destruct (negb d); [intros H; inversion H; subst; left; exact Er|].
    destruct (_ && _); intros H; inversion H; subst; cbn; left; [exact Er|].
    destruct (release_primary_spec s1 (fst l)) as [_ [E _]]. rewrite E. exact Er.
  - destruct (phalt s); intros H; inversion H; subst; left; reflexivity.
  - destruct (phalt s); intros H; inversion H; subst; left; reflexivity.
  - destruct (rlock s) as [[id g]|]; [|intros H; inversion H; subst; left; reflexivity].
    destruct (forward s id _) as [s1 ok] eqn:Ef. destruct ok.
    + apply forward_spec in Ef. destruct Ef as [_ [Hx [Hp [_ [_ [Hr _]]]]]].
      destruct d; cbn [negb]; intros H; inversion H; subst; cbn.
      * right. eexists. split; [rewrite Hr; reflexivity|]. split; [exact Hp|]. split; [apply next_entry_extends|exact Hx].
      * left. exact Hr.
    + apply forward_refused in Ef. subst s1. cbn [negb]. intros H; inversion H; subst. left; reflexivity.
  - destruct (rlock s) as [[id g]|]; [|intros H; inversion H; subst; left; reflexivity].
    destruct sent; intros H; inversion H; subst; left; [|reflexivity].
    destruct (release_primary_spec {| plog := plog s; phalt := phalt s; rlock := None; rlog := rlog s; olog := olog s; ohalt := ohalt s |} id) as [_ [E _]]. exact E.
  - intros H; inversion H; subst; left; reflexivity.
  - destruct (forward s id _) as [s1 ok] eqn:Ef. destruct ok; intros H; inversion H; subst.
    + apply forward_spec in Ef. left. tauto.
    + apply forward_refused in Ef. subst. left; reflexivity.
  - destruct (rlock s) as [[id g]|]; [|intros H; inversion H; subst; left; reflexivity].
    destruct (forward s id _) as [s1 ok] eqn:Ef. destruct ok.
    + apply forward_spec in Ef. destruct Ef as [_ [Hx [Hp [_ [_ [Hr _]]]]]].
      destruct d; cbn [negb]; intros H; inversion H; subst; cbn.
      * right. eexists. split; [rewrite Hr; reflexivity|]. split; [exact Hp|]. split; [apply next_entry_extends|exact Hx].
      * left. exact Hr.
    + apply forward_refused in Ef. subst s1. cbn [negb]. intros H; inversion H; subst. left; reflexivity.
  - destruct (can_handoff s); intros H; inversion H; subst; left; reflexivity.
  - intros H; inversion H; subst; left; reflexivity.
Qed.

Lemma step_olog s e s' c : step s e = (s', c) -> olog s' = olog s.
Proof.
  destruct e as [id d|post| |post d|sent| |id post|post d| | ]; cbn [step]; unfold restart.
  - destruct (grant s id) as [s1 r] eqn:Eg. apply grant_spec in Eg. destruct Eg as [_ [_ [Eo _]]].
    destruct r as [l|]; [|intros H; inversion H; subst; exact Eo].
    destruct (negb d); [intros H; inversion H; subst; exact Eo|].
    destruct (_ && _); intros H; inversion H; subst; cbn; [exact Eo|].
    destruct (release_primary_spec s1 (fst l)) as [_ [_ [E _]]]. rewrite E. exact Eo.
  - destruct (phalt s); intros H; inversion H; subst; reflexivity.
  - destruct (phalt s); intros H; inversion H; subst; reflexivity.
  - destruct (rlock s) as [[id g]|]; [|intros H; inversion H; subst; reflexivity].
    destruct (forward s id _) as [s1 ok] eqn:Ef. destruct ok.
    + apply forward_spec in Ef. destruct Ef as [_ [_ [_ [_ [_ [_ Ho]]]]]].
      destruct d; cbn [negb]; intros H; inversion H; subst; cbn; exact Ho.
    + apply forward_refused in Ef. subst s1. cbn [negb]. intros H; inversion H; subst. reflexivity.
  - destruct (rlock s) as [[id g]|]; [|intros H; inversion H; subst; reflexivity].
    destruct sent; intros H; inversion H; subst; [|reflexivity].
    destruct (release_primary_spec {| plog := plog s; phalt := phalt s; rlock := None; rlog := rlog s; olog := olog s; ohalt := ohalt s |} id) as [_ [_ [E _]]]. exact E.
  - intros H; inversion H; subst; reflexivity.
  - destruct (forward s id _) as [s1 ok] eqn:Ef. destruct ok; intros H; inversion H; subst.
    + apply forward_spec in Ef. tauto.
    + apply forward_refused in Ef. subst. reflexivity.
  - destruct (rlock s) as [[id g]|]; [|intros H; inversion H; subst; reflexivity].
    destruct (forward s id _) as [s1 ok] eqn:Ef. destruct ok.
    + apply forward_spec in Ef. destruct Ef as [_ [_ [_ [_ [_ [_ Ho]]]]]].
      destruct d; cbn [negb]; intros H; inversion H; subst; cbn; exact Ho.
    + apply forward_refused in Ef. subst s1. cbn [negb]. intros H; inversion H; subst. reflexivity.
  - destruct (can_handoff s) eqn:Eh; intros H; inversion H; subst; [|reflexivity].
    apply can_handoff_spec in Eh. destruct Eh as [_ Eo]. cbn. symmetry. exact Eo.
  - intros H; inversion H; subst; reflexivity.
Qed.

Lemma step_inv s e s' c : Inv s -> step s e = (s', c) -> Inv s'.
Proof.
  intros [Hc Hr Ho] Hs.
  pose proof (step_log _ _ _ _ Hs) as Hl. pose proof (step_rlog _ _ _ _ Hs) as Hrl. pose proof (step_olog _ _ _ _ Hs) as Hol.
  split.
  - destruct Hl as [->|[x [-> Hx]]]; [exact Hc|split; assumption].
  - destruct Hrl as [->|[x [-> [Hp [Hxr Hxp]]]]].
    + destruct Hl as [->|[x [-> _]]]; [exact Hr|apply suffix_cons; exact Hr].
    + (* the accepted entry extends both logs: they have the same height, so they are equal *)
      rewrite Hp. apply extends_spec in Hxr. apply extends_spec in Hxp. destruct Hxr as [Hxr _]. destruct Hxp as [Hxp _].
      rewrite (chain_len _ Hc) in Hxp. rewrite (chain_len _ (chain_suffix _ _ Hr Hc)) in Hxr.
      assert (rlog s = plog s) as -> by (apply suffix_same_len; [exact Hr|lia]).
      apply suffix_refl.
  - rewrite Hol. destruct Hl as [->|[x [-> _]]]; [exact Ho|apply suffix_cons; exact Ho].
Qed.

(* ---------- the stream ---------- *)
Lemma stream_r_plog s : plog (stream_r s) = plog s /\ olog (stream_r s) = olog s /\ phalt (stream_r s) = phalt s /\ ohalt (stream_r s) = ohalt s.
Proof. unfold stream_r. destruct (find_tx _ _) as [e|]; [destruct (_ =? _)|]; cbn; tauto. Qed.
Lemma stream_o_stuck s p : ohalt s = Some p -> stream_o s = s.
Proof. intros H. unfold stream_o. rewrite H. reflexivity. Qed.
Lemma stream_o_plog s : plog (stream_o s) = plog s /\ rlog (stream_o s) = rlog s /\ phalt (stream_o s) = phalt s /\ rlock (stream_o s) = rlock s /\
  ohalt (stream_o s) = ohalt s.
Proof.
  destruct (ohalt s) as [p|] eqn:En; [rewrite (stream_o_stuck _ _ En); tauto|].
  unfold stream_o. rewrite En. destruct (find_tx _ _) as [e|]; [destruct (_ =? _)|]; cbn; tauto.
Qed.

Lemma stream_r_spec s : Inv s ->
  (rlog s = plog s /\ stream_r s = s) \/
  (exists x e, plog s = x ++ e :: rlog s /\ rlog (stream_r s) = e :: rlog s /\ rlock (stream_r s) = None).
Proof.
  intros [Hc Hr Ho]. destruct (list_eq_dec (fun a b : entry => ltac:(decide equality; apply N.eq_dec)) (rlog s) (plog s)) as [E|E].
  - left. split; [exact E|]. unfold stream_r. rewrite E.
    rewrite find_tx_none; [reflexivity|exact Hc|]. rewrite (chain_len _ Hc). lia.
  - right. destruct (next_of_suffix _ _ Hc Hr E) as [x [e [Hp [Hf He]]]]. exists x, e. split; [exact Hp|].
    unfold stream_r. rewrite Hf, He, N.eqb_refl. cbn. tauto.
Qed.
Lemma stream_o_spec s : Inv s -> ohalt s = None ->
  (olog s = plog s /\ stream_o s = s) \/
  (exists x e, plog s = x ++ e :: olog s /\ olog (stream_o s) = e :: olog s).
Proof.
  intros [Hc Hr Ho] Hn. destruct (list_eq_dec (fun a b : entry => ltac:(decide equality; apply N.eq_dec)) (olog s) (plog s)) as [E|E].
  - left. split; [exact E|]. unfold stream_o. rewrite Hn, E.
    rewrite find_tx_none; [reflexivity|exact Hc|]. rewrite (chain_len _ Hc). lia.
  - right. destruct (next_of_suffix _ _ Hc Ho E) as [x [e [Hp [Hf He]]]]. exists x, e. split; [exact Hp|].
    unfold stream_o. rewrite Hn, Hf, He, N.eqb_refl. cbn. reflexivity.
Qed.

Lemma stream_r_inv s : Inv s -> Inv (stream_r s).
Proof.
  intros HI. destruct (stream_r_plog s) as [Ep [Eo _]]. destruct (stream_r_spec s HI) as [[_ ->]|[x [e [Hp [Hr _]]]]]; [exact HI|].
  destruct HI as [Hc _ Ho]. split; rewrite ?Ep, ?Eo; [exact Hc| |exact Ho]. rewrite Hr, Hp. exists x. reflexivity.
Qed.
Lemma stream_o_inv s : Inv s -> Inv (stream_o s).
Proof.
  intros HI. destruct (ohalt s) as [p|] eqn:En; [rewrite (stream_o_stuck _ _ En); exact HI|].
  destruct (stream_o_plog s) as [Ep [Er _]]. destruct (stream_o_spec s HI En) as [[_ ->]|[x [e [Hp Ho]]]]; [exact HI|].
  destruct HI as [Hc Hr _]. split; rewrite ?Ep, ?Er; [exact Hc|exact Hr|]. rewrite Ho, Hp. exists x. reflexivity.
Qed.
Lemma settle_inv n s : Inv s -> Inv (settle n s).
Proof. revert s. induction n as [|n IH]; intros s H; cbn [settle]; [exact H|]. apply IH, stream_o_inv, stream_r_inv, H. Qed.
Lemma settle_plog n s : plog (settle n s) = plog s /\ phalt (settle n s) = phalt s /\ ohalt (settle n s) = ohalt s.
Proof.
  revert s. induction n as [|n IH]; intros s; cbn [settle]; [tauto|].
  destruct (IH (stream_o (stream_r s))) as [-> [-> ->]].
  destruct (stream_o_plog (stream_r s)) as [-> [_ [-> [_ ->]]]]. destruct (stream_r_plog s) as [-> [_ [-> ->]]]. tauto.
Qed.

(* each round brings a lagging follower one entry closer; a former primary that still holds its own halt lock
   does not move *)
Definition lag (a b : log) : nat := length b - length a.
Lemma settle_converges n s : Inv s -> (lag (rlog s) (plog s) <= n)%nat -> (ohalt s = None -> (lag (olog s) (plog s) <= n)%nat) ->
  rlog (settle n s) = plog s /\ (ohalt s = None -> olog (settle n s) = plog s).
Proof.
  revert s. induction n as [|n IH]; intros s HI Hr Ho; cbn [settle].
  - destruct HI as [_ Sr So]. unfold lag in *. split.
    + apply suffix_same_len; [assumption|]. pose proof (suffix_len _ _ Sr). lia.
    + intros Hn. specialize (Ho Hn). apply suffix_same_len; [assumption|]. pose proof (suffix_len _ _ So). lia.
  - set (s1 := stream_r s). set (s2 := stream_o s1).
    assert (Inv s1) as H1 by (apply stream_r_inv; exact HI).
    assert (Inv s2) as H2 by (apply stream_o_inv; exact H1).
    destruct (stream_r_plog s) as [Ep1 [Eo1 [_ Eh1]]]. destruct (stream_o_plog s1) as [Ep2 [Er2 [_ [_ Eh2]]]].
    fold s1 in Ep1, Eo1, Eh1. fold s2 in Ep2, Er2, Eh2.
    assert (plog s2 = plog s) as Ep by congruence.
    assert (ohalt s2 = ohalt s) as Eh by congruence.
    rewrite <- Ep, <- Eh. apply IH; [exact H2| |].
    + rewrite Er2, Ep2. unfold lag in *. destruct (stream_r_spec s HI) as [[E Es]|[x [e [Hp [Hr' _]]]]].
      * fold s1 in Es. rewrite Es, E. lia.
      * fold s1 in Hr'. rewrite Hr', Ep1, Hp, app_length. cbn [length]. rewrite Hp, app_length in Hr. cbn [length] in Hr. lia.
    + intros Hn2. assert (ohalt s1 = None) as Hn1 by congruence. assert (ohalt s = None) as Hn by congruence. specialize (Ho Hn).
      unfold lag in *. destruct (stream_o_spec s1 H1 Hn1) as [[E Es]|[x [e [Hp Ho']]]].
      * fold s2 in Es. rewrite Es, E. lia.
      * fold s2 in Ho'. rewrite Ho', Ep2, Hp, app_length. cbn [length]. rewrite Eo1 in *. rewrite <- Ep1 in Ho. rewrite Hp, app_length in Ho. cbn [length] in Ho. lia.
Qed.

Lemma step_settled_inv s e s' c : Inv s -> step_settled s e = (s', c) -> Inv s'.
Proof.
  unfold step_settled. destruct (step s e) as [s1 c1] eqn:Es. intros HI H.
  assert (s' = settle (S (length (plog s1))) s1) as -> by congruence.
  apply (settle_inv (S (length (plog s1))) s1). eapply step_inv; eassumption.
Qed.
(* after every event and the stream that follows it, the replicas hold the primary's whole history - except a former
   primary that still holds the halt lock it had granted: it cannot follow until that lock expires *)
Lemma step_settled_converged s e s' c : Inv s -> step_settled s e = (s', c) ->
  rlog s' = plog s' /\ (ohalt s' = None -> olog s' = plog s').
Proof.
  unfold step_settled. destruct (step s e) as [s1 c1] eqn:Es. intros HI H.
  assert (s' = settle (S (length (plog s1))) s1) as -> by congruence. clear H.
  destruct (settle_plog (S (length (plog s1))) s1) as [-> [_ ->]].
  apply settle_converges; [eapply step_inv; eassumption| |]; unfold lag; intros; lia.
Qed.
Lemma run_inv es : forall s, Inv s -> Inv (final s es).
Proof.
  induction es as [|e es IH]; intros s H; cbn [final]; [exact H|].
  apply IH. destruct (step_settled s e) as [s1 c] eqn:E. cbn [fst]. eapply step_settled_inv; eassumption.
Qed.

(* ---------- the property ---------- *)
(* exclusive: while a halt lock is granted the primary commits nothing locally and runs no checkpoint *)
Lemma halted_refuses_local s post id p : phalt s = Some (id, p) ->
  step s (ELocalWrite post) = (s, c_refused) /\ step s ECheckpoint = (s, c_refused).
Proof. intros H. cbn [step]. rewrite H. split; reflexivity. Qed.
Lemma local_write_needs_no_halt s post s' : step s (ELocalWrite post) = (s', c_ok) -> phalt s = None.
Proof. cbn [step]. destruct (phalt s); [intros H; inversion H|reflexivity]. Qed.
Lemma checkpoint_needs_no_halt s s' : step s ECheckpoint = (s', c_ok) -> phalt s = None.
Proof. cbn [step]. destruct (phalt s); [intros H; inversion H|reflexivity]. Qed.
(* while halted the primary's log moves only by a forwarded transaction carrying the lock's id *)
Lemma halted_log_moves_only_by_holder s e s' c id p :
  phalt s = Some (id, p) -> step s e = (s', c) -> plog s' <> plog s ->
  (exists post d, (e = ECommit post d \/ e = ECommitWal post d) /\ holds (rlock s) id = true) \/ (exists post, e = EForeign id post).
Proof.
  intros Hh. destruct e as [i d|post| |post d|sent| |i post|post d| | ]; cbn [step]; unfold restart.
  - destruct (grant s i) as [s1 r] eqn:Eg. apply grant_spec in Eg. destruct Eg as [Ep _].
    destruct r as [l|]; [|intros H; inversion H; subst; congruence].
    destruct (negb d); [intros H; inversion H; subst; congruence|].
    destruct (_ && _); intros H; inversion H; subst; cbn; [congruence|].
    destruct (release_primary_spec s1 (fst l)) as [E _]. rewrite E. congruence.
  - rewrite Hh. intros H; inversion H; subst; congruence.
  - rewrite Hh. intros H; inversion H; subst; congruence.
  - destruct (rlock s) as [[i g]|] eqn:Er; [|intros H; inversion H; subst; congruence].
    destruct (forward s i _) as [s1 ok] eqn:Ef. destruct ok.
    + apply forward_spec in Ef. destruct Ef as [Hho _]. intros _ _. left. exists post, d. split; [left; reflexivity|].
      rewrite Hh in Hho. cbn [holds] in *. rewrite N.eqb_sym. exact Hho.
    + apply forward_refused in Ef. subst s1. cbn [negb]. intros H; inversion H; subst. congruence.
  - destruct (rlock s) as [[i g]|]; [|intros H; inversion H; subst; congruence].
    destruct sent; intros H; inversion H; subst; [|cbn; congruence].
    destruct (release_primary_spec {| plog := plog s; phalt := phalt s; rlock := None; rlog := rlog s; olog := olog s; ohalt := ohalt s |} i) as [E _].
    rewrite E. cbn. congruence.
  - intros H; inversion H; subst; cbn; congruence.
  - destruct (forward s i _) as [s1 ok] eqn:Ef. destruct ok; intros H; inversion H; subst.
    + apply forward_spec in Ef. destruct Ef as [Hho _]. intros _. right. exists post.
      rewrite Hh in Hho. cbn [holds] in Hho. apply N.eqb_eq in Hho. subst. reflexivity.
    + apply forward_refused in Ef. subst. congruence.
  - destruct (rlock s) as [[i g]|] eqn:Er; [|intros H; inversion H; subst; cbn; congruence].
    destruct (forward s i _) as [s1 ok] eqn:Ef. destruct ok.
    + apply forward_spec in Ef. destruct Ef as [Hho _]. intros _ _. left. exists post, d. split; [right; reflexivity|].
      rewrite Hh in Hho. cbn [holds] in *. rewrite N.eqb_sym. exact Hho.
    + apply forward_refused in Ef. subst s1. cbn [negb]. intros H; inversion H; subst. cbn. congruence.
  - destruct (can_handoff s) eqn:Eh; intros H; inversion H; subst; [|congruence].
    apply can_handoff_spec in Eh. destruct Eh as [_ Eo]. cbn. congruence.
  - intros H; inversion H; subst; cbn; congruence.
Qed.

(* acknowledged and ordered: when the replica's commit returns, the primary has applied exactly that
   transaction under the same id and checksum, on top of the history the replica wrote from *)
Lemma commit_acknowledged s post d s' : Inv s -> step s (ECommit post d) = (s', c_ok) ->
  exists id g, rlock s = Some (id, g) /\ holds (phalt s) id = true /\ rlog s = plog s /\
    plog s' = next_entry (rlog s) post 1 :: plog s /\ rlog s' = plog s' /\ pos_of (rlog s') = (fst (pos_of (rlog s)) + 1, post).
Proof.
  intros [Hc Hr _]. cbn [step]. destruct (rlock s) as [[id g]|]; [|intros H; inversion H].
  destruct (forward s id _) as [s1 ok] eqn:Ef. destruct ok; cbn [negb].
  - apply forward_spec in Ef. destruct Ef as [Hh [Hx [Hp [_ [_ [Hrl _]]]]]].
    destruct d; intros H; inversion H; subst; cbn.
    assert (rlog s = plog s) as E.
    { apply extends_spec in Hx. destruct Hx as [Hx _]. cbn [next_entry e_txid] in Hx.
      rewrite (chain_len _ Hc), (chain_len _ (chain_suffix _ _ Hr Hc)) in Hx.
      apply suffix_same_len; [exact Hr|lia]. }
    exists id, g. rewrite Hrl, Hp, E. repeat split; try reflexivity; try assumption.
  - apply forward_refused in Ef. subst s1. intros H; inversion H.
Qed.
(* a lost acknowledgement: the primary has the transaction, the replica does not - and gets it from the stream *)
Lemma commit_unacknowledged s post d s' : step s (ECommit post d) = (s', c_applied_but_unacknowledged) ->
  d = false /\ plog s' = next_entry (rlog s) post 1 :: plog s /\ rlog s' = rlog s.
Proof.
  cbn [step]. destruct (rlock s) as [[id g]|]; [|intros H; inversion H].
  destruct (forward s id _) as [s1 ok] eqn:Ef. destruct ok; cbn [negb].
  - apply forward_spec in Ef. destruct Ef as [_ [_ [Hp [_ [_ [Hrl _]]]]]].
    destruct d; intros H; inversion H; subst. tauto.
  - apply forward_refused in Ef. subst s1. intros H; inversion H.
Qed.

(* holder only: a forwarded file is applied only under the id of the lock now granted, and only if it
   extends the primary's history *)
Lemma forward_needs_holder s id e s' : forward s id e = (s', true) ->
  exists p, phalt s = Some (id, p) /\ e_txid e = fst (pos_of (plog s)) + 1 /\ e_pre e = snd (pos_of (plog s)).
Proof.
  intros H. apply forward_spec in H. destruct H as [Hh [Hx _]]. apply extends_spec in Hx.
  destruct (phalt s) as [[i p]|]; cbn [holds] in Hh; [|discriminate]. apply N.eqb_eq in Hh. subst. exists p. tauto.
Qed.
Lemma forward_without_lock_refused s id e : holds (phalt s) id = false -> forward s id e = (s, false).
Proof. intros H. unfold forward. rewrite H. reflexivity. Qed.

(* start: a granted lock carries the primary's position and the replica writes from exactly there *)
Lemma grant_ok_position s id s' : Inv s -> step s (EGrant id true) = (s', c_ok) ->
  exists l, rlock s' = Some l /\ phalt s' = Some l /\ fst l = id /\ pos_of (rlog s') = snd l /\
    (phalt s = None -> snd l = pos_of (plog s') /\ rlog s' = plog s').
Proof.
  intros [Hc Hr _]. cbn [step]. unfold grant.
  destruct (id =? 0) eqn:E0; [intros H; inversion H|].
  destruct (phalt s) as [[i p]|] eqn:Eh.
  - destruct (N.eqb_spec i id) as [Ei|Ei]; [|intros H; inversion H]. cbn [negb fst snd].
    destruct (_ && _) eqn:Eb; intros H; [|inversion H].
    apply andb_true_iff in Eb. destruct Eb as [E1 E2]. apply N.eqb_eq in E1. apply N.eqb_eq in E2.
    injection H as <-. cbn. exists (i, p). rewrite Eh. repeat split; try assumption; try reflexivity; try discriminate.
    destruct (pos_of (rlog s)), p; cbn in *; congruence.
  - cbn [negb fst snd rlog plog].
    destruct (_ && _) eqn:Eb; intros H; [|inversion H].
    apply andb_true_iff in Eb. destruct Eb as [E1 E2]. apply N.eqb_eq in E1. apply N.eqb_eq in E2.
    injection H as <-. cbn. exists (id, pos_of (plog s)). repeat split; try reflexivity.
    + destruct (pos_of (rlog s)), (pos_of (plog s)); cbn in *; congruence.
    + apply suffix_same_len; [exact Hr|]. rewrite (chain_len _ Hc), (chain_len _ (chain_suffix _ _ Hr Hc)) in E1. lia.
Qed.

(* idempotent: asking again with the same id returns the same lock and changes nothing *)
Lemma grant_idempotent s id s1 l : grant s id = (s1, Some l) -> grant s1 id = (s1, Some l).
Proof.
  unfold grant. destruct (id =? 0) eqn:E0; [intros H; inversion H|].
  destruct (phalt s) as [[i p]|] eqn:Eh.
  - destruct (i =? id) eqn:Ei; intros H; inversion H; subst. rewrite Eh, Ei. reflexivity.
  - intros H; inversion H; subst. cbn. rewrite N.eqb_refl. reflexivity.
Qed.
Lemma grant_other_id_refused s id i p : phalt s = Some (i, p) -> i <> id -> grant s id = (s, None).
Proof.
  intros Hh Hne. unfold grant. destruct (id =? 0); [reflexivity|]. rewrite Hh.
  destruct (N.eqb_spec i id); [contradiction|reflexivity].
Qed.

(* after release or expiry: the primary writes again, the former holder cannot publish *)
Lemma release_frees s s' id g : rlock s = Some (id, g) -> holds (phalt s) id = true -> step s (ERelease true) = (s', c_ok) ->
  phalt s' = None /\ rlock s' = None /\ plog s' = plog s.
Proof.
  intros Hr Hh. cbn [step]. rewrite Hr. intros H; inversion H; subst. unfold release_primary. cbn. rewrite Hh. cbn. tauto.
Qed.
Lemma expire_frees s : phalt (fst (step s EExpire)) = None /\ plog (fst (step s EExpire)) = plog s.
Proof. cbn. tauto. Qed.
Lemma free_primary_writes s post : phalt s = None -> snd (step s (ELocalWrite post)) = c_ok.
Proof. intros H. cbn [step]. rewrite H. reflexivity. Qed.
Lemma former_holder_cannot_publish s post d : phalt s = None -> step s (ECommit post d) = (s, c_refused).
Proof.
  intros H. cbn [step]. destruct (rlock s) as [[id g]|]; [|reflexivity].
  rewrite forward_without_lock_refused; [reflexivity|]. rewrite H. reflexivity.
Qed.
Lemma replica_without_lock_cannot_write s post d : rlock s = None -> step s (ECommit post d) = (s, c_refused).
Proof. intros H. cbn [step]. rewrite H. reflexivity. Qed.

(* every reachable state satisfies the invariant and is converged after the stream ran *)
(* a restarted replica has forgotten the lock: it cannot write, although the primary may still be halted *)
Lemma restart_forgets s post d :
  let s1 := fst (step s ERestart) in
  rlock s1 = None /\ plog s1 = plog s /\ phalt s1 = phalt s /\ rlog s1 = rlog s /\ step s1 (ECommit post d) = (s1, c_refused).
Proof. cbn. repeat split; reflexivity. Qed.

(* a WAL-mode commit is the commit followed, unless it was acknowledged, by a restart of the replica *)
Lemma commit_wal_spec s post d :
  step s (ECommitWal post d) =
  (let '(s1, c) := step s (ECommit post d) in if c =? c_ok then (s1, c) else (restart s1, c)).
Proof.
  cbn [step]. destruct (rlock s) as [[id g]|]; [|reflexivity].
  destruct (forward s id _) as [s1 ok]. destruct ok; cbn [negb]; [|reflexivity]. destruct d; reflexivity.
Qed.
Lemma commit_wal_acknowledged s post d s' : step s (ECommitWal post d) = (s', c_ok) -> step s (ECommit post d) = (s', c_ok).
Proof.
  rewrite commit_wal_spec. destruct (step s (ECommit post d)) as [s1 c]. destruct (N.eqb_spec c c_ok) as [->|Hn]; [trivial|].
  intros H. inversion H. subst. contradiction.
Qed.

Theorem reachable_converged es : forall s0, Inv s0 -> rlog s0 = plog s0 -> (ohalt s0 = None -> olog s0 = plog s0) ->
  Inv (final s0 es) /\ rlog (final s0 es) = plog (final s0 es) /\
  (ohalt (final s0 es) = None -> olog (final s0 es) = plog (final s0 es)).
Proof.
  induction es as [|e es IH]; intros s0 HI Hr Ho; cbn [final]; [tauto|].
  destruct (step_settled s0 e) as [s1 c] eqn:E. cbn [fst].
  destruct (step_settled_converged _ _ _ _ HI E) as [A B]. apply IH; [eapply step_settled_inv; eassumption|exact A|exact B].
Qed.

(* ---------- primary change while a halt lock is held ---------- *)
(* the hand-over is accepted exactly when the target is connected (holds no halt lock of its own) and caught up;
   the new primary has the same history, has granted no lock; the former primary keeps the one it had granted *)
Lemma handoff_spec s s' : step s EHandoff = (s', c_ok) ->
  ohalt s = None /\ olog s = plog s /\ plog s' = plog s /\ olog s' = plog s /\ phalt s' = None /\ ohalt s' = phalt s /\
  rlock s' = rlock s /\ rlog s' = rlog s.
Proof.
  cbn [step]. destruct (can_handoff s) eqn:Eh; intros H; inversion H; subst.
  apply can_handoff_spec in Eh. destruct Eh as [En Eo]. cbn. rewrite Eo. tauto.
Qed.
Lemma handoff_refused s s' : step s EHandoff = (s', c_refused) -> s' = s.
Proof. cbn [step]. destruct (can_handoff s); intros H; inversion H; reflexivity. Qed.
Lemma handoff_accepted_when_converged s : ohalt s = None -> olog s = plog s -> snd (step s EHandoff) = c_ok.
Proof. intros Hn Ho. cbn [step]. unfold can_handoff. rewrite Hn, Ho, log_eqb_refl. reflexivity. Qed.
Lemma handoff_to_stuck_node_refused s p : ohalt s = Some p -> step s EHandoff = (s, c_refused).
Proof. intros H. cbn [step]. unfold can_handoff. rewrite H. reflexivity. Qed.
(* the new primary can write at once; the former holder cannot publish any more: whatever it forwards, under any
   lock id, is refused and changes nothing *)
Lemma handoff_new_primary_free s s' post d : step s EHandoff = (s', c_ok) ->
  snd (step s' (ELocalWrite post)) = c_ok /\ step s' (ECommit post d) = (s', c_refused) /\
  (forall id e, forward s' id e = (s', false)).
Proof.
  intros H. apply handoff_spec in H. destruct H as [_ [_ [_ [_ [Hp _]]]]].
  split; [apply free_primary_writes; exact Hp|]. split; [apply former_holder_cannot_publish; exact Hp|].
  intros id e. apply forward_without_lock_refused. rewrite Hp. reflexivity.
Qed.
(* the former primary does not follow the new one while the lock it had granted is still held; expiry frees it *)
Lemma former_primary_stuck s p : ohalt s = Some p -> stream_o s = s.
Proof. exact (stream_o_stuck s p). Qed.
Lemma expire_unsticks s : ohalt (fst (step s EExpire)) = None /\ phalt (fst (step s EExpire)) = None.
Proof. cbn. tauto. Qed.
Lemma expire_settled_converges s s' c : Inv s -> step_settled s EExpire = (s', c) -> rlog s' = plog s' /\ olog s' = plog s'.
Proof.
  intros HI H. destruct (step_settled_converged _ _ _ _ HI H) as [A B]. split; [exact A|]. apply B.
  unfold step_settled in H. destruct (step s EExpire) as [s1 c1] eqn:Es.
  assert (s' = settle (S (length (plog s1))) s1) as -> by congruence.
  destruct (settle_plog (S (length (plog s1))) s1) as [_ [_ ->]].
  cbn [step] in Es. injection Es as <- _. reflexivity.
Qed.

(* ---------- what "the halt lock pins the write lock" means on the lock table (C11's model) ---------- *)
Require Import LF.Base.RWBase LF.Gen.RWMutexGen LF.Model.Locks LF.Proofs.LocksProofs.
(* the grant takes the internal write lock for a guard set g; until g is released no other owner gets
   RESERVED (rollback journal), nor WRITE or CKPT (WAL): no local write transaction, no checkpoint *)
Lemma halt_guard_blocks_writers t g wal t' h :
  TInv t -> (forall l, gst (t l) g = Unlocked) -> try_acquire_write t g wal = Some (true, t') -> h <> g ->
  (wal = false -> exists t2, t_trylock t' LReserved h = Some (false, t2)) /\
  (wal = true -> (exists t2, t_trylock t' LWrite h = Some (false, t2)) /\ (exists t2, t_trylock t' LCkpt h = Some (false, t2))).
Proof.
  intros HI Hfree Hacq Hne. destruct (internal_write_excludes t g wal t' HI Hfree Hacq) as [HI' [_ [Hr Hw]]].
  split; intros ->.
  - destruct (Hr eq_refl) as [[Hres _] _]. destruct (held_blocks_others t' LReserved g h HI' Hres Hne) as [[t2 [H2 _]] _].
    exists t2. exact H2.
  - destruct (Hw eq_refl) as [[Hwr _] [[Hck _] _]]. split.
    + destruct (held_blocks_others t' LWrite g h HI' Hwr Hne) as [[t2 [H2 _]] _]. exists t2. exact H2.
    + destruct (held_blocks_others t' LCkpt g h HI' Hck Hne) as [[t2 [H2 _]] _]. exists t2. exact H2.
Qed.

(* a grant whose position the replica does not reach is no grant: the replica holds nothing afterwards and cannot write *)
Lemma grant_not_reached_forgets s id s' post d : step s (EGrant id true) = (s', c_refused) ->
  grant s id <> (fst (grant s id), None) -> rlock s' = None /\ step s' (ECommit post d) = (s', c_refused).
Proof.
  cbn [step]. destruct (grant s id) as [s1 r] eqn:Eg. destruct r as [l|]; [|intros _ H; exfalso; apply H; reflexivity].
  cbn [negb]. destruct (_ && _); intros H _; inversion H; subst; cbn. split; reflexivity.
Qed.

(* a replica that is behind the primary - by any number of transactions - when it asks for the lock ends up holding the
   lock the primary granted, at the primary's position *)
Theorem grant_wait_holds s id : Inv s -> phalt s = None -> id <> 0 ->
  snd (grant_wait s id false) = c_ok /\
  rlock (fst (grant_wait s id false)) = Some (id, pos_of (plog s)) /\
  phalt (fst (grant_wait s id false)) = Some (id, pos_of (plog s)) /\
  rlog (fst (grant_wait s id false)) = plog s /\ plog (fst (grant_wait s id false)) = plog s.
Proof.
  intros HI Hp Hid. unfold grant_wait, grant. apply N.eqb_neq in Hid. rewrite Hid, Hp.
  set (l := (id, pos_of (plog s))).
  set (s1 := {| plog := plog s; phalt := Some l; rlock := rlock s; rlog := rlog s; olog := olog s; ohalt := ohalt s |}).
  assert (Inv s1) as HI1 by (destruct HI as [A B C]; constructor; assumption).
  destruct (settle_plog (S (length (plog s1))) s1) as [Ep [Eh _]].
  destruct (settle_converges (S (length (plog s1))) s1 HI1) as [Er _]; [unfold lag; lia|unfold lag; intros; lia|].
  set (s2 := settle (S (length (plog s1))) s1) in *.
  cbn [snd fst l]. rewrite Er. change (plog s1) with (plog s). rewrite !N.eqb_refl. cbn [andb fst snd with_rlock rlock phalt rlog plog].
  rewrite Eh, Er, Ep. repeat split; reflexivity.
Qed.

