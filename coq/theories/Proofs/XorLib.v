(* XOR / flag algebra over N used by the checksum proofs (C04 and friends). *)
From Coq Require Import NArith List Lia ZifyN ZifyNat Bool Arith.
Require Import LF.Gen.ConstsGen LF.Model.PageDB.
Import ListNotations.
Local Open Scope N_scope.

Lemma flag_bit n : N.testbit flag n = (n =? 63).
Proof.
  destruct (N.eqb_spec n 63) as [->|Hn]; [reflexivity|].
  change flag with (2 ^ 63). apply N.pow2_bits_false. congruence.
Qed.
Global Opaque flag.

Definition xorl (l : list N) : N := fold_left N.lxor l 0.
Definition rstep (a x : N) : N := fl (N.lxor a x).
Definition rolling (acc : N) (l : list N) : N := fold_left rstep l acc.

Lemma fl_bits x n : N.testbit (fl x) n = (n =? 63) || N.testbit x n.
Proof. unfold fl. rewrite N.lor_spec, flag_bit. reflexivity. Qed.

Lemma fl_absorb a x : fl (N.lxor (fl a) x) = fl (N.lxor a x).
Proof.
  apply N.bits_inj; intros n. rewrite !fl_bits, !N.lxor_spec, fl_bits.
  destruct (n =? 63); [reflexivity|]. reflexivity.
Qed.
Lemma fl_absorb_r a x : fl (N.lxor a (fl x)) = fl (N.lxor a x).
Proof. rewrite (N.lxor_comm a (fl x)), fl_absorb, N.lxor_comm. reflexivity. Qed.
Lemma fl_idem x : fl (fl x) = fl x.
Proof. apply N.bits_inj; intros n. rewrite !fl_bits. destruct (n =? 63); reflexivity. Qed.
Lemma fl_nonzero x : fl x <> 0.
Proof.
  intros H. assert (N.testbit (fl x) 63 = true) as Hb by (rewrite fl_bits; reflexivity).
  rewrite H in Hb. cbn in Hb. discriminate.
Qed.

Lemma xorl_from l : forall a, fold_left N.lxor l a = N.lxor a (xorl l).
Proof.
  unfold xorl. induction l as [|x l IH]; intros a; cbn [fold_left].
  - rewrite N.lxor_0_r. reflexivity.
  - rewrite IH, (IH (N.lxor 0 x)), N.lxor_0_l, N.lxor_assoc. reflexivity.
Qed.
Lemma xorl_nil : xorl [] = 0. Proof. reflexivity. Qed.
Lemma xorl_cons x l : xorl (x :: l) = N.lxor x (xorl l).
Proof. unfold xorl at 1. cbn [fold_left]. rewrite xorl_from, N.lxor_0_l. reflexivity. Qed.
Lemma xorl_app a b : xorl (a ++ b) = N.lxor (xorl a) (xorl b).
Proof.
  induction a as [|x a IH]; cbn [app]; [rewrite xorl_nil, N.lxor_0_l; reflexivity|].
  rewrite !xorl_cons, IH, N.lxor_assoc. reflexivity.
Qed.

(* the rolling checksum  fold (fun a x => flag | (a xor x))  is  flag | (acc xor xor-of-all)  *)
Lemma rolling_fl l : forall acc, l <> [] -> rolling acc l = fl (N.lxor acc (xorl l)).
Proof.
  unfold rolling. induction l as [|x l IH]; intros acc Hne; [congruence|]. cbn [fold_left].
  destruct l as [|y l].
  - cbn [fold_left]. unfold rstep. rewrite xorl_cons, xorl_nil, N.lxor_0_r. reflexivity.
  - rewrite IH by discriminate. unfold rstep at 1. rewrite fl_absorb, (xorl_cons x), N.lxor_assoc. reflexivity.
Qed.
Lemma rolling_app acc a b : rolling acc (a ++ b) = rolling (rolling acc a) b.
Proof. unfold rolling. apply fold_left_app. Qed.

(* ---- N-indexed ranges ---- *)
Fixpoint seqN (a : N) (n : nat) : list N :=
  match n with O => [] | S n' => a :: seqN (a + 1) n' end.
Lemma seqN_length a n : length (seqN a n) = n.
Proof. revert a; induction n as [|n IH]; intros a; cbn; [reflexivity|]. rewrite IH. reflexivity. Qed.
Lemma seqN_app a n m : seqN a (n + m) = seqN a n ++ seqN (a + N.of_nat n) m.
Proof.
  revert a; induction n as [|n IH]; intros a; cbn [seqN Nat.add app].
  - rewrite N.add_0_r. reflexivity.
  - rewrite IH. do 3 f_equal. lia.
Qed.
Lemma seqN_in a n x : In x (seqN a n) <-> a <= x < a + N.of_nat n.
Proof.
  revert a; induction n as [|n IH]; intros a; cbn [seqN In].
  - lia.
  - rewrite IH. lia.
Qed.

Lemma blocksize_pos : 0 < c_ChecksumBlockSize.
Proof. vm_compute. reflexivity. Qed.
