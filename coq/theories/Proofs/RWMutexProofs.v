(* C12 proofs: the generated model of rwmutex.go refines the POSIX spec. *)
From Coq Require Import ZArith Bool Arith List Lia.
Require Import LF.Base.RWBase LF.Gen.RWMutexGen LF.Model.RWMutex.
Import ListNotations.
Local Open Scope Z_scope.

Definition Inv (w : world) : Prop :=
  (forall g, excl w = Some g <-> gst w g = Exclusive) /\
  (exists l, NoDup l /\ (forall g, In g l <-> gst w g = Shared) /\ sharedN w = Z.of_nat (length l)) /\
  (excl w <> None -> sharedN w = 0).

Lemma inv_init : Inv init_world.
Proof.
  unfold Inv, init_world; cbn. split; [|split].
  - intros g; split; intros H; discriminate.
  - exists []. split; [constructor|]. split; [|reflexivity].
    intros g; split; intros H; [destruct H | discriminate].
  - intros H; reflexivity.
Qed.

(* ---- list facts for the ghost list ---- *)
Lemma in_remove_iff (g h : nat) l : In h (remove Nat.eq_dec g l) <-> In h l /\ h <> g.
Proof.
  induction l as [|x xs IH]; cbn; [tauto|].
  destruct (Nat.eq_dec g x) as [E|E].
  - subst x. rewrite IH. split; [tauto|]. intros [[H|H] Hn]; [congruence|tauto].
  - cbn. rewrite IH. split.
    + intros [H|[H Hn]]; [subst; split; [tauto|congruence] | tauto].
    + intros [[H|H] Hn]; tauto.
Qed.

Lemma nodup_remove (g : nat) l : NoDup l -> NoDup (remove Nat.eq_dec g l).
Proof.
  induction 1 as [|x xs Hx Hnd IH]; cbn; [constructor|].
  destruct (Nat.eq_dec g x); [assumption|].
  constructor; [|assumption]. rewrite in_remove_iff. tauto.
Qed.

Lemma length_remove_nodup (g : nat) l :
  NoDup l -> In g l -> S (length (remove Nat.eq_dec g l)) = length l.
Proof.
  induction 1 as [|x xs Hx Hnd IH]; cbn; [tauto|].
  intros [E|Hin].
  - subst x. destruct (Nat.eq_dec g g) as [_|N]; [|congruence].
    rewrite notin_remove; [reflexivity|assumption].
  - destruct (Nat.eq_dec g x) as [E|E]; [subst; tauto|].
    cbn. rewrite IH; [reflexivity|assumption].
Qed.

(* ---- consequences of the invariant ---- *)
Section InvFacts.
  Variable w : world.
  Hypothesis HI : Inv w.

  Lemma inv_excl_unique g h : gst w g = Exclusive -> gst w h = Exclusive -> g = h.
  Proof.
    destruct HI as [He _]. intros Hg Hh.
    apply He in Hg. apply He in Hh. congruence.
  Qed.

  Lemma inv_zero_noshared : sharedN w = 0 -> forall h, gst w h <> Shared.
  Proof.
    destruct HI as [_ [[l [Hnd [Hl Hn]]] _]]. intros H0 h Hs.
    apply Hl in Hs. destruct l; [destruct Hs|]. cbn in Hn. lia.
  Qed.

  Lemma inv_nonzero_shared : sharedN w <> 0 -> exists h, gst w h = Shared.
  Proof.
    destruct HI as [_ [[l [Hnd [Hl Hn]]] _]]. intros H0.
    destruct l as [|x xs]; [cbn in Hn; lia|]. exists x. apply Hl. left; reflexivity.
  Qed.

  Lemma inv_nonneg : 0 <= sharedN w.
  Proof. destruct HI as [_ [[l [_ [_ Hn]]] _]]. lia. Qed.

  Lemma inv_shared_pos g : gst w g = Shared -> 1 <= sharedN w /\ excl w = None.
  Proof.
    intros Hs. assert (1 <= sharedN w) as H1.
    { destruct HI as [_ [[l [Hnd [Hl Hn]]] _]]. apply Hl in Hs.
      destruct l; [destruct Hs|]. cbn [length] in Hn. lia. }
    split; [assumption|]. destruct HI as [_ [_ Hx]].
    destruct (excl w) eqn:E; [|reflexivity].
    assert (sharedN w = 0) by (apply Hx; discriminate). lia.
  Qed.

  Lemma inv_shared_one g : gst w g = Shared -> sharedN w = 1 -> forall h, gst w h = Shared -> h = g.
  Proof.
    destruct HI as [_ [[l [Hnd [Hl Hn]]] _]]. intros Hg H1 h Hh.
    apply Hl in Hg. apply Hl in Hh.
    destruct l as [|x [|y ys]]; cbn [length] in Hn; try lia.
    destruct Hg as [Hg|[]]. destruct Hh as [Hh|[]]. congruence.
  Qed.

  Lemma inv_shared_many g : gst w g = Shared -> 1 < sharedN w -> exists h, h <> g /\ gst w h = Shared.
  Proof.
    destruct HI as [_ [[l [Hnd [Hl Hn]]] _]]. intros Hg H1.
    destruct l as [|x [|y ys]]; cbn [length] in Hn; try lia.
    inversion Hnd as [|? ? Hx Hnd']; subst.
    destruct (Nat.eq_dec x g) as [E|E].
    - exists y. split.
      + intros Ey. subst. apply Hx. left; reflexivity.
      + apply Hl. right; left; reflexivity.
    - exists x. split; [assumption|]. apply Hl. left; reflexivity.
  Qed.

  Lemma inv_excl_noshared g : gst w g = Exclusive -> forall h, gst w h <> Shared.
  Proof.
    intros Hg. apply inv_zero_noshared.
    destruct HI as [He [_ Hx]]. apply Hx. apply He in Hg. congruence.
  Qed.

  Lemma inv_excl_none_noexcl : excl w = None -> forall h, gst w h <> Exclusive.
  Proof. destruct HI as [He _]. intros Hn h Hh. apply He in Hh. congruence. Qed.
End InvFacts.

Lemma gstate_cases (s : gstate) : s <> Shared -> s <> Exclusive -> s = Unlocked.
Proof. destruct s; congruence. Qed.

Lemma ptr_eqb_none o : ptr_eqb o None = true <-> o = None.
Proof. destruct o; cbn; split; congruence. Qed.
Lemma ptr_eqb_some o g : ptr_eqb o (Some g) = true <-> o = Some g.
Proof.
  destruct o as [x|]; cbn; [|split; congruence].
  rewrite Nat.eqb_eq. split; congruence.
Qed.

Lemma upd_same s g v : upd s g v g = v.
Proof. unfold upd. rewrite Nat.eqb_refl. reflexivity. Qed.
Lemma upd_other s g v h : h <> g -> upd s g v h = s h.
Proof. unfold upd. intros H. apply Nat.eqb_neq in H. rewrite H. reflexivity. Qed.
Lemma set_gst_upd g v w h : gst (set_gst g v w) h = upd (gst w) g v h.
Proof. reflexivity. Qed.

(* rebuilding the invariant after an update of one guard *)
Lemma inv_build (w : world) g v n x (l : list nat) :
  (forall h, x = Some h <-> upd (gst w) g v h = Exclusive) ->
  NoDup l -> (forall h, In h l <-> upd (gst w) g v h = Shared) -> n = Z.of_nat (length l) ->
  (x <> None -> n = 0) ->
  Inv (mkWorld n x (fun h => if Nat.eqb h g then v else gst w h)).
Proof.
  intros He Hnd Hl Hn Hx. unfold Inv; cbn. split; [exact He|]. split; [|exact Hx].
  exists l. auto.
Qed.

(* ------------------------------------------------------------------ *)
(* One lemma per worker: no panic, spec-conformant result, invariant. *)
(* ------------------------------------------------------------------ *)

Lemma tryLock_ok w g : Inv w ->
  exists b w', tryLock g w = Ret b w' /\ spec_step (gst w) g OTryLock (RBool b) (gst w') /\ Inv w'.
Proof.
  intros HI. unfold tryLock. destruct (gst w g) eqn:Hg.
  - (* Unlocked *)
    destruct (orb _ _) eqn:Hc.
    + exists false, w. split; [reflexivity|]. split; [|assumption].
      right. split; [reflexivity|]. split; [|intros h; reflexivity].
      intros Hou. apply orb_true_iff in Hc. destruct Hc as [Hc|Hc].
      * apply negb_true_iff, Z.eqb_neq in Hc.
        destruct (inv_nonzero_shared w HI Hc) as [h Hh].
        assert (h <> g) by (intros E; subst; congruence).
        rewrite (Hou h) in Hh by assumption. discriminate.
      * apply negb_true_iff in Hc. destruct (excl w) as [h|] eqn:Ex; [|discriminate].
        destruct HI as [He _]. apply He in Ex.
        assert (h <> g) by (intros E; subst; congruence).
        rewrite (Hou h) in Ex by assumption. discriminate.
    + apply orb_false_iff in Hc. destruct Hc as [Hc1 Hc2].
      apply negb_false_iff, Z.eqb_eq in Hc1. apply negb_false_iff, ptr_eqb_none in Hc2.
      eexists true, _. split; [reflexivity|].
      assert (Hou : others_unlocked (gst w) g).
      { intros h Hh. apply gstate_cases.
        - apply (inv_zero_noshared w HI Hc1).
        - apply (inv_excl_none_noexcl w HI Hc2). }
      split.
      * left. split; [reflexivity|]. split; [assumption|]. intros h; reflexivity.
      * cbn. apply inv_build with (l := []); cbn [excl sharedN gst set_excl set_sharedN set_gst].
        -- intros h. destruct (Nat.eq_dec h g) as [E|E].
           ++ subst. rewrite upd_same. split; congruence.
           ++ rewrite upd_other by assumption. rewrite (Hou h E). split; [congruence|discriminate].
        -- constructor.
        -- intros h. split; [intros []|]. destruct (Nat.eq_dec h g) as [E|E].
           ++ subst. rewrite upd_same. discriminate.
           ++ rewrite upd_other by assumption. rewrite (Hou h E). discriminate.
        -- reflexivity.
        -- reflexivity.
  - (* Shared: upgrade *)
    destruct (inv_shared_pos w HI g Hg) as [Hpos Hex].
    assert (Hpe : ptr_eqb (excl w) None = true) by (apply ptr_eqb_none; assumption).
    rewrite Hpe. destruct (Z.gtb (sharedN w) 1) eqn:Hgt.
    + exists false, w. split; [reflexivity|]. split; [|assumption].
      right. split; [reflexivity|]. split; [|intros h; reflexivity].
      intros Hou. apply Z.gtb_lt in Hgt.
      destruct (inv_shared_many w HI g Hg Hgt) as [h [Hne Hh]].
      rewrite (Hou h Hne) in Hh. discriminate.
    + assert (H1 : sharedN w = 1) by (rewrite Z.gtb_ltb in Hgt; apply Z.ltb_ge in Hgt; lia).
      assert (Heq : Z.eqb (sharedN w) 1 = true) by (apply Z.eqb_eq; assumption).
      rewrite Heq. eexists true, _. split; [reflexivity|].
      assert (Hou : others_unlocked (gst w) g).
      { intros h Hh. apply gstate_cases.
        - intros Hs. apply Hh. apply (inv_shared_one w HI g Hg H1 h Hs).
        - apply (inv_excl_none_noexcl w HI Hex). }
      split.
      * left. split; [reflexivity|]. split; [assumption|]. intros h; reflexivity.
      * cbn. apply inv_build with (l := []); cbn [excl sharedN gst set_excl set_sharedN set_gst].
        -- intros h. destruct (Nat.eq_dec h g) as [E|E].
           ++ subst. rewrite upd_same. split; congruence.
           ++ rewrite upd_other by assumption. rewrite (Hou h E). split; [congruence|discriminate].
        -- constructor.
        -- intros h. split; [intros []|]. destruct (Nat.eq_dec h g) as [E|E].
           ++ subst. rewrite upd_same. discriminate.
           ++ rewrite upd_other by assumption. rewrite (Hou h E). discriminate.
        -- reflexivity.
        -- reflexivity.
  - (* Exclusive: no-op *)
    exists true, w. split; [reflexivity|]. split; [|assumption].
    left. split; [reflexivity|].
    assert (Hou : others_unlocked (gst w) g).
    { intros h Hh. apply gstate_cases.
      - apply (inv_excl_noshared w HI g Hg).
      - intros Hx. apply Hh. apply (inv_excl_unique w HI h g Hx Hg). }
    split; [assumption|]. intros h. destruct (Nat.eq_dec h g) as [E|E].
    + subst. rewrite upd_same. assumption.
    + rewrite upd_other by assumption. reflexivity.
Qed.

Lemma tryRLock_ok w g : Inv w ->
  exists b w', tryRLock g w = Ret b w' /\ spec_step (gst w) g OTryRLock (RBool b) (gst w') /\ Inv w'.
Proof.
  intros HI. unfold tryRLock. destruct (gst w g) eqn:Hg.
  - (* Unlocked *)
    destruct (negb (ptr_eqb (excl w) None)) eqn:Hc.
    + exists false, w. split; [reflexivity|]. split; [|assumption].
      right. split; [reflexivity|]. split; [|intros h; reflexivity].
      intros Hou. apply negb_true_iff in Hc. destruct (excl w) as [h|] eqn:Ex; [|discriminate].
      destruct HI as [He _]. apply He in Ex.
      assert (h <> g) by (intros E; subst; congruence).
      apply (Hou h); assumption.
    + apply negb_false_iff, ptr_eqb_none in Hc.
      eexists true, _. split; [reflexivity|].
      assert (Hou : others_not_excl (gst w) g).
      { intros h _. apply (inv_excl_none_noexcl w HI Hc). }
      split.
      * left. split; [reflexivity|]. split; [assumption|]. intros h; reflexivity.
      * destruct HI as [He [[l [Hnd [Hl Hn]]] Hx]]. cbn.
        apply inv_build with (l := g :: l); cbn [excl sharedN gst set_excl set_sharedN set_gst].
        -- intros h. rewrite Hc. destruct (Nat.eq_dec h g) as [E|E].
           ++ subst. rewrite upd_same. split; discriminate.
           ++ rewrite upd_other by assumption. rewrite <- He, Hc. tauto.
        -- constructor; [|assumption]. rewrite Hl, Hg. discriminate.
        -- intros h. destruct (Nat.eq_dec h g) as [E|E].
           ++ subst. rewrite upd_same. split; [reflexivity|]. intros _. left; reflexivity.
           ++ rewrite upd_other by assumption. rewrite <- Hl. cbn. split; [intros [H|H]; [congruence|assumption]|tauto].
        -- cbn [length]. lia.
        -- intros H. congruence.
  - (* Shared: no-op *)
    exists true, w. split; [reflexivity|]. split; [|assumption].
    left. split; [reflexivity|].
    destruct (inv_shared_pos w HI g Hg) as [_ Hex].
    split; [intros h _; apply (inv_excl_none_noexcl w HI Hex)|].
    intros h. destruct (Nat.eq_dec h g) as [E|E].
    + subst. rewrite upd_same. assumption.
    + rewrite upd_other by assumption. reflexivity.
  - (* Exclusive: downgrade *)
    assert (Hex : excl w = Some g) by (destruct HI as [He _]; apply He; assumption).
    assert (Hpe : ptr_eqb (excl w) (Some g) = true) by (apply ptr_eqb_some; assumption).
    rewrite Hpe. eexists true, _. split; [reflexivity|].
    assert (Hou : others_unlocked (gst w) g).
    { intros h Hh. apply gstate_cases.
      - apply (inv_excl_noshared w HI g Hg).
      - intros Hx. apply Hh. apply (inv_excl_unique w HI h g Hx Hg). }
    split.
    + left. split; [reflexivity|]. split; [|intros h; reflexivity].
      intros h Hh. rewrite (Hou h Hh). discriminate.
    + cbn. apply inv_build with (l := [g]); cbn [excl sharedN gst set_excl set_sharedN set_gst].
      * intros h. split; [discriminate|]. destruct (Nat.eq_dec h g) as [E|E].
        -- subst. rewrite upd_same. discriminate.
        -- rewrite upd_other by assumption. rewrite (Hou h E). discriminate.
      * constructor; [intros []|constructor].
      * intros h. destruct (Nat.eq_dec h g) as [E|E].
        -- subst. rewrite upd_same. split; [reflexivity|]. intros _; left; reflexivity.
        -- rewrite upd_other by assumption. rewrite (Hou h E). cbn. split; [intros [H|[]]; congruence|discriminate].
      * reflexivity.
      * congruence.
Qed.

Lemma unlock_ok w g : Inv w ->
  exists w', unlock g w = Ret tt w' /\ spec_step (gst w) g OUnlock RUnit (gst w') /\ Inv w'.
Proof.
  intros HI. unfold unlock. destruct (gst w g) eqn:Hg.
  - exists w. split; [reflexivity|]. split; [|assumption]. split; [reflexivity|].
    intros h. destruct (Nat.eq_dec h g) as [E|E].
    + subst. rewrite upd_same. assumption.
    + rewrite upd_other by assumption. reflexivity.
  - destruct (inv_shared_pos w HI g Hg) as [Hpos Hex].
    assert (Hgt : Z.gtb (sharedN w) 0 = true) by (apply Z.gtb_lt; lia).
    rewrite Hgt. eexists. split; [reflexivity|]. split; [split; [reflexivity|intros h; reflexivity]|].
    destruct HI as [He [[l [Hnd [Hl Hn]]] Hx]]. cbn.
    apply inv_build with (l := remove Nat.eq_dec g l); cbn [excl sharedN gst set_excl set_sharedN set_gst].
    + intros h. destruct (Nat.eq_dec h g) as [E|E].
      * subst. rewrite upd_same. rewrite Hex. split; discriminate.
      * rewrite upd_other by assumption. apply He.
    + apply nodup_remove; assumption.
    + intros h. rewrite in_remove_iff. destruct (Nat.eq_dec h g) as [E|E].
      * subst. rewrite upd_same. split; [tauto|discriminate].
      * rewrite upd_other by assumption. rewrite Hl. tauto.
    + assert (In g l) as Hin by (apply Hl; assumption).
      pose proof (length_remove_nodup g l Hnd Hin). lia.
    + congruence.
  - assert (Hex : excl w = Some g) by (destruct HI as [He _]; apply He; assumption).
    assert (Hpe : ptr_eqb (excl w) (Some g) = true) by (apply ptr_eqb_some; assumption).
    rewrite Hpe. eexists. split; [reflexivity|]. split; [split; [reflexivity|intros h; reflexivity]|].
    assert (Hou : others_unlocked (gst w) g).
    { intros h Hh. apply gstate_cases.
      - apply (inv_excl_noshared w HI g Hg).
      - intros Hx. apply Hh. apply (inv_excl_unique w HI h g Hx Hg). }
    cbn. apply inv_build with (l := []); cbn [excl sharedN gst set_excl set_sharedN set_gst].
    + intros h. split; [discriminate|]. destruct (Nat.eq_dec h g) as [E|E].
      * subst. rewrite upd_same. discriminate.
      * rewrite upd_other by assumption. rewrite (Hou h E). discriminate.
    + constructor.
    + intros h. split; [intros []|]. destruct (Nat.eq_dec h g) as [E|E].
      * subst. rewrite upd_same. discriminate.
      * rewrite upd_other by assumption. rewrite (Hou h E). discriminate.
    + reflexivity.
    + reflexivity.
Qed.

Lemma state_spec w : Inv w -> spec_mstate (gst w) (state w).
Proof.
  intros HI. unfold state. destruct (negb (ptr_eqb (excl w) None)) eqn:Hc.
  - apply negb_true_iff in Hc. destruct (excl w) as [h|] eqn:Ex; [|discriminate].
    cbn. exists h. destruct HI as [He _]. apply He. assumption.
  - apply negb_false_iff, ptr_eqb_none in Hc.
    destruct (Z.gtb (sharedN w) 0) eqn:Hgt.
    + cbn. split.
      * apply (inv_nonzero_shared w HI). apply Z.gtb_lt in Hgt. lia.
      * apply (inv_excl_none_noexcl w HI Hc).
    + cbn. intros h. apply gstate_cases.
      * apply (inv_zero_noshared w HI). pose proof (inv_nonneg w HI).
        rewrite Z.gtb_ltb in Hgt. apply Z.ltb_ge in Hgt. lia.
      * apply (inv_excl_none_noexcl w HI Hc).
Qed.

Lemma canLock_ok w g : Inv w ->
  exists b m, canLock g w = Ret (b, m) w /\ spec_step (gst w) g OCanLock (RBoolState b m) (gst w).
Proof.
  intros HI. pose proof (state_spec w HI) as Hst.
  unfold canLock. destruct (gst w g) eqn:Hg.
  - eexists _, _. split; [reflexivity|]. eexists _, _. split; [reflexivity|].
    split; [|split; [exact Hst|intros h; reflexivity]].
    rewrite andb_true_iff, Z.eqb_eq, ptr_eqb_none. split.
    + intros [H0 Hn] h Hh. apply gstate_cases.
      * apply (inv_zero_noshared w HI H0).
      * apply (inv_excl_none_noexcl w HI Hn).
    + intros Hou. split.
      * destruct (Z.eq_dec (sharedN w) 0) as [E|E]; [assumption|].
        destruct (inv_nonzero_shared w HI E) as [h Hh].
        assert (h <> g) by (intros E'; subst; congruence).
        rewrite (Hou h) in Hh by assumption. discriminate.
      * destruct (excl w) as [h|] eqn:Ex; [|reflexivity].
        destruct HI as [He _]. apply He in Ex.
        assert (h <> g) by (intros E'; subst; congruence).
        rewrite (Hou h) in Ex by assumption. discriminate.
  - eexists _, _. split; [reflexivity|]. eexists _, _. split; [reflexivity|].
    split; [|split; [exact Hst|intros h; reflexivity]].
    destruct (inv_shared_pos w HI g Hg) as [Hpos Hex].
    rewrite Z.eqb_eq. split.
    + intros H1 h Hh. apply gstate_cases.
      * intros Hs. apply Hh. apply (inv_shared_one w HI g Hg H1 h Hs).
      * apply (inv_excl_none_noexcl w HI Hex).
    + intros Hou. destruct (Z.eq_dec (sharedN w) 1) as [E|E]; [assumption|].
      assert (1 < sharedN w) as Hgt by lia.
      destruct (inv_shared_many w HI g Hg Hgt) as [h [Hne Hh]].
      rewrite (Hou h Hne) in Hh. discriminate.
  - eexists _, _. split; [reflexivity|]. eexists _, _. split; [reflexivity|].
    split; [|split; [exact Hst|intros h; reflexivity]].
    split; [|reflexivity]. intros _ h Hh. apply gstate_cases.
    + apply (inv_excl_noshared w HI g Hg).
    + intros Hx. apply Hh. apply (inv_excl_unique w HI h g Hx Hg).
Qed.

Lemma canRLock_ok w g : Inv w ->
  exists b, canRLock g w = Ret b w /\ spec_step (gst w) g OCanRLock (RBool b) (gst w).
Proof.
  intros HI. unfold canRLock. destruct (gst w g) eqn:Hg.
  - eexists. split; [reflexivity|]. eexists. split; [reflexivity|].
    split; [|intros h; reflexivity]. rewrite ptr_eqb_none. split.
    + intros Hn h _. apply (inv_excl_none_noexcl w HI Hn).
    + intros Hou. destruct (excl w) as [h|] eqn:Ex; [|reflexivity].
      destruct HI as [He _]. apply He in Ex.
      assert (h <> g) by (intros E'; subst; congruence).
      exfalso. apply (Hou h); assumption.
  - eexists. split; [reflexivity|]. eexists. split; [reflexivity|].
    split; [|intros h; reflexivity]. split; [|reflexivity]. intros _ h _.
    destruct (inv_shared_pos w HI g Hg) as [_ Hex]. apply (inv_excl_none_noexcl w HI Hex).
  - eexists. split; [reflexivity|]. eexists. split; [reflexivity|].
    split; [|intros h; reflexivity]. split; [|reflexivity]. intros _ h Hh Hx.
    apply Hh. apply (inv_excl_unique w HI h g Hx Hg).
Qed.

(* ---- one API step ---- *)
Lemma step_ok w g o : Inv w ->
  exists r w', step w g o = Some (r, w') /\ spec_step (gst w) g o r (gst w') /\ Inv w'.
Proof.
  intros HI. destruct o; cbn [step].
  - destruct (tryLock_ok w g HI) as [b [w' [E [S I]]]]. rewrite E. eauto.
  - destruct (tryRLock_ok w g HI) as [b [w' [E [S I]]]]. rewrite E. eauto.
  - destruct (unlock_ok w g HI) as [w' [E [S I]]]. rewrite E. eauto.
  - destruct (canLock_ok w g HI) as [b [m [E S]]]. rewrite E. eauto.
  - destruct (canRLock_ok w g HI) as [b [E S]]. rewrite E. eauto.
  - eexists _, _. split; [reflexivity|]. split; [|assumption]. split; [reflexivity|intros h; reflexivity].
  - eexists _, _. split; [reflexivity|]. split; [|assumption].
    exists (state w). split; [reflexivity|]. split; [apply state_spec; assumption|intros h; reflexivity].
Qed.

(* the spec is insensitive to pointwise-equal holder maps *)
Lemma others_unlocked_heq s t g : heq s t -> others_unlocked s g -> others_unlocked t g.
Proof. intros H Ho h Hh. rewrite <- H. apply Ho; assumption. Qed.
Lemma others_not_excl_heq s t g : heq s t -> others_not_excl s g -> others_not_excl t g.
Proof. intros H Ho h Hh. rewrite <- H. apply Ho; assumption. Qed.
Lemma heq_sym s t : heq s t -> heq t s.
Proof. intros H h; symmetry; apply H. Qed.
Lemma heq_trans s t u : heq s t -> heq t u -> heq s u.
Proof. intros H1 H2 h; rewrite H1; apply H2. Qed.
Lemma upd_heq s t g v : heq s t -> heq (upd s g v) (upd t g v).
Proof. intros H h. unfold upd. destruct (Nat.eqb h g); [reflexivity|apply H]. Qed.
Lemma spec_mstate_heq s t m : heq s t -> spec_mstate s m -> spec_mstate t m.
Proof.
  intros H. destruct m; cbn.
  - intros Hs h. rewrite <- H. apply Hs.
  - intros [[h Hh] Hn]. split; [exists h; rewrite <- H; assumption|]. intros h'. rewrite <- H. apply Hn.
  - intros [h Hh]. exists h. rewrite <- H. assumption.
Qed.

Lemma spec_step_heq s t g o r s' : heq s t -> spec_step s g o r s' -> spec_step t g o r s'.
Proof.
  intros H. pose proof (heq_sym _ _ H) as H'. destruct o; cbn.
  - intros [[Hr [Ho Hs]]|[Hr [Ho Hs]]].
    + left. split; [assumption|]. split; [exact (others_unlocked_heq s t g H Ho)|].
      eapply heq_trans; [exact Hs|apply upd_heq; assumption].
    + right. split; [assumption|]. split.
      * intros Ht. apply Ho. exact (others_unlocked_heq t s g H' Ht).
      * eapply heq_trans; eassumption.
  - intros [[Hr [Ho Hs]]|[Hr [Ho Hs]]].
    + left. split; [assumption|]. split; [exact (others_not_excl_heq s t g H Ho)|].
      eapply heq_trans; [exact Hs|apply upd_heq; assumption].
    + right. split; [assumption|]. split.
      * intros Ht. apply Ho. exact (others_not_excl_heq t s g H' Ht).
      * eapply heq_trans; eassumption.
  - intros [Hr Hs]. split; [assumption|]. eapply heq_trans; [exact Hs|apply upd_heq; assumption].
  - intros [b [m [Hr [Hb [Hm Hs]]]]]. exists b, m. split; [assumption|]. split.
    + rewrite Hb. split; intros Ho; [exact (others_unlocked_heq s t g H Ho)|exact (others_unlocked_heq t s g H' Ho)].
    + split; [eapply spec_mstate_heq; eassumption|eapply heq_trans; eassumption].
  - intros [b [Hr [Hb Hs]]]. exists b. split; [assumption|]. split.
    + rewrite Hb. split; intros Ho; [exact (others_not_excl_heq s t g H Ho)|exact (others_not_excl_heq t s g H' Ho)].
    + eapply heq_trans; eassumption.
  - intros [Hr Hs]. split; [rewrite <- H; assumption|eapply heq_trans; eassumption].
  - intros [m [Hr [Hm Hs]]]. exists m. split; [assumption|].
    split; [eapply spec_mstate_heq; eassumption|eapply heq_trans; eassumption].
Qed.

(* ---- every history: no panic, results are the spec's, invariant kept ---- *)
Lemma run_refines ops : forall w, Inv w ->
  exists rs w', run w ops = Some (rs, w') /\ spec_trace (gst w) ops rs (gst w') /\ Inv w'.
Proof.
  induction ops as [|[g o] ops IH]; intros w HI.
  - exists [], w. split; [reflexivity|]. split; [constructor; intros h; reflexivity|assumption].
  - destruct (step_ok w g o HI) as [r [w1 [E1 [S1 I1]]]].
    destruct (IH w1 I1) as [rs [w2 [E2 [S2 I2]]]].
    exists (r :: rs), w2. cbn [run]. rewrite E1, E2. split; [reflexivity|].
    split; [|assumption]. econstructor; eassumption.
Qed.

(* trichotomy at each instant *)
Lemma inv_trichotomy w : Inv w ->
  (forall h, gst w h = Unlocked) \/
  ((exists h, gst w h = Shared) /\ (forall h, gst w h <> Exclusive)) \/
  (exists g, gst w g = Exclusive /\ forall h, h <> g -> gst w h = Unlocked).
Proof.
  intros HI. pose proof (state_spec w HI) as Hs. destruct (state w); cbn in Hs.
  - left; assumption.
  - right; left; assumption.
  - right; right. destruct Hs as [g Hg]. exists g. split; [assumption|].
    intros h Hh. apply gstate_cases.
    + apply (inv_excl_noshared w HI g Hg).
    + intros Hx. apply Hh. apply (inv_excl_unique w HI h g Hx Hg).
Qed.

(* ---- blocking variants ---- *)
Definition try_succeeds (try : gid -> world -> outcome bool) (g : gid) (w : world) : Prop :=
  exists w', try g w = Ret true w'.

Lemma lock_loop_first try g : forall evs n,
  (forall w, In (Tick w) evs -> Inv w) ->
  (forall w, Inv w -> exists b w', try g w = Ret b w') ->
  match lock_loop try g evs n with
  | Acquired w' k => exists pre w post, evs = pre ++ Tick w :: post /\ k = (n + S (length pre))%nat /\
        try g w = Ret true w' /\
        (forall e, In e pre -> exists v, e = Tick v /\ ~ try_succeeds try g v)
  | CtxErr k => exists pre post, evs = pre ++ Done :: post /\ k = (n + length pre)%nat /\
        (forall e, In e pre -> exists v, e = Tick v /\ ~ try_succeeds try g v)
  | Blocked => forall e, In e evs -> exists v, e = Tick v /\ ~ try_succeeds try g v
  | LPanic => False
  end.
Proof.
  induction evs as [|e evs IH]; intros n Hinv Htot; cbn [lock_loop].
  - intros e [].
  - destruct e as [w|].
    + assert (Inv w) as HI by (apply Hinv; left; reflexivity).
      destruct (Htot w HI) as [b [w' E]]. rewrite E. destruct b.
      * exists [], w, evs. split; [reflexivity|]. split; [cbn; lia|]. split; [assumption|]. intros e [].
      * assert (Hns : ~ try_succeeds try g w) by (intros [w'' E']; congruence).
        specialize (IH (S n) (fun v Hv => Hinv v (or_intror Hv)) Htot).
        destruct (lock_loop try g evs (S n)) as [w2 k|k| |].
        -- destruct IH as [pre [v [post [He [Hk [Ht Hp]]]]]].
           exists (Tick w :: pre), v, post. split; [cbn; congruence|]. split; [cbn; lia|].
           split; [assumption|]. intros e [He'|He']; [subst; eauto|auto].
        -- destruct IH as [pre [post [He [Hk Hp]]]].
           exists (Tick w :: pre), post. split; [cbn; congruence|]. split; [cbn; lia|].
           intros e [He'|He']; [subst; eauto|auto].
        -- intros e [He'|He']; [subst; eauto|auto].
        -- assumption.
    + exists [], evs. split; [reflexivity|]. split; [cbn; lia|]. intros e [].
Qed.

Lemma tryLock_total w g : Inv w -> exists b w', tryLock g w = Ret b w'.
Proof. intros HI. destruct (tryLock_ok w g HI) as [b [w' [E _]]]. eauto. Qed.
Lemma tryRLock_total w g : Inv w -> exists b w', tryRLock g w = Ret b w'.
Proof. intros HI. destruct (tryRLock_ok w g HI) as [b [w' [E _]]]. eauto. Qed.

Lemma tryLock_succeeds_iff w g : Inv w -> (try_succeeds tryLock g w <-> others_unlocked (gst w) g).
Proof.
  intros HI. destruct (tryLock_ok w g HI) as [b [w' [E [S _]]]]. cbn in S. split.
  - intros [w'' E']. rewrite E in E'. inversion E'; subst.
    destruct S as [[_ [Ho _]]|[Hr _]]; [assumption|discriminate].
  - intros Ho. destruct S as [[Hr _]|[_ [Hn _]]]; [|tauto].
    inversion Hr; subst. exists w'. assumption.
Qed.
Lemma tryRLock_succeeds_iff w g : Inv w -> (try_succeeds tryRLock g w <-> others_not_excl (gst w) g).
Proof.
  intros HI. destruct (tryRLock_ok w g HI) as [b [w' [E [S _]]]]. cbn in S. split.
  - intros [w'' E']. rewrite E in E'. inversion E'; subst.
    destruct S as [[_ [Ho _]]|[Hr _]]; [assumption|discriminate].
  - intros Ho. destruct S as [[Hr _]|[_ [Hn _]]]; [|tauto].
    inversion Hr; subst. exists w'. assumption.
Qed.

(* ---- statements used by Props/C12.v ---- *)
Definition reachable (w : world) : Prop := exists ops rs, run init_world ops = Some (rs, w).

Lemma reachable_inv w : reachable w -> Inv w.
Proof.
  intros [ops [rs E]]. destruct (run_refines ops init_world inv_init) as [rs' [w' [E' [_ I]]]].
  rewrite E in E'. inversion E'; subst. assumption.
Qed.

Lemma histories_refine ops :
  exists rs w, run init_world ops = Some (rs, w) /\
               spec_trace (fun _ => Unlocked) ops rs (gst w).
Proof.
  destruct (run_refines ops init_world inv_init) as [rs [w [E [S _]]]]. eauto.
Qed.

Lemma failed_try_changes_nothing w g o w' :
  reachable w -> (o = OTryLock \/ o = OTryRLock) -> step w g o = Some (RBool false, w') ->
  forall h, gst w' h = gst w h.
Proof.
  intros HR Ho E. apply reachable_inv in HR.
  destruct (step_ok w g o HR) as [r [w1 [E1 [S _]]]]. rewrite E in E1. inversion E1; subst.
  destruct Ho; subst; cbn in S; destruct S as [[Hr _]|[_ [_ Hs]]]; try discriminate; exact Hs.
Qed.

Lemma failed_try_keeps_mutex w g o w' :
  reachable w -> (o = OTryLock \/ o = OTryRLock) -> step w g o = Some (RBool false, w') -> w' = w.
Proof.
  intros HR Ho E. apply reachable_inv in HR. destruct Ho; subst; cbn [step] in E.
  - destruct (tryLock_ok w g HR) as [b [w1 [E1 _]]]. rewrite E1 in E. inversion E; subst.
    unfold tryLock in E1. destruct (gst w g); repeat match type of E1 with
      | (if ?c then _ else _) = _ => destruct c
      end; inversion E1; reflexivity.
  - destruct (tryRLock_ok w g HR) as [b [w1 [E1 _]]]. rewrite E1 in E. inversion E; subst.
    unfold tryRLock in E1. destruct (gst w g); repeat match type of E1 with
      | (if ?c then _ else _) = _ => destruct c
      end; inversion E1; reflexivity.
Qed.

Lemma unlock_unheld_noop w g :
  reachable w -> gst w g = Unlocked -> step w g OUnlock = Some (RUnit, w).
Proof. intros _ Hg. cbn [step]. unfold unlock. rewrite Hg. reflexivity. Qed.

Lemma lock_ctx_first try g w0 evs :
  Inv w0 -> (forall w, In (Tick w) evs -> Inv w) ->
  (forall w, Inv w -> exists b w', try g w = Ret b w') ->
  match lock_ctx try g w0 evs with
  | Acquired w' 0 => try g w0 = Ret true w'
  | Acquired w' (S k) => ~ try_succeeds try g w0 /\
        exists pre w post, evs = pre ++ Tick w :: post /\ k = length pre /\ try g w = Ret true w' /\
        (forall e, In e pre -> exists v, e = Tick v /\ ~ try_succeeds try g v)
  | CtxErr k => ~ try_succeeds try g w0 /\
        exists pre post, evs = pre ++ Done :: post /\ k = length pre /\
        (forall e, In e pre -> exists v, e = Tick v /\ ~ try_succeeds try g v)
  | Blocked => ~ try_succeeds try g w0 /\ forall e, In e evs -> exists v, e = Tick v /\ ~ try_succeeds try g v
  | LPanic => False
  end.
Proof.
  intros H0 Hevs Htot. unfold lock_ctx. destruct (Htot w0 H0) as [b [w' E]]. rewrite E.
  destruct b; [reflexivity|].
  assert (Hns : ~ try_succeeds try g w0) by (intros [w'' E']; congruence).
  pose proof (lock_loop_first try g evs 0 Hevs Htot) as HL.
  destruct (lock_loop try g evs 0) as [w2 k|k| |].
  - destruct HL as [pre [v [post [He [Hk [Ht Hp]]]]]]. cbn in Hk. subst k.
    split; [assumption|]. exists pre, v, post. auto.
  - destruct HL as [pre [post [He [Hk Hp]]]]. cbn in Hk. split; [assumption|]. exists pre, post. auto.
  - split; assumption.
  - assumption.
Qed.
