(* C02 / C03: the transaction file produced by CommitJournal / CommitWAL is exactly the
   difference between the previous image and the image SQLite now sees. *)
From Coq Require Import NArith List Lia ZifyN ZifyNat ZifyBool Bool Arith Sorted.
Require Import LF.Gen.ConstsGen LF.Model.PageDB LF.Proofs.XorLib LF.Proofs.ChecksumProofs.
Import ListNotations.
Local Open Scope N_scope.

(* ---------- dirty set ---------- *)
Lemma insert_sorted_in x p l : In x (insert_sorted p l) <-> x = p \/ In x l.
Proof.
  induction l as [|y l IH]; cbn [insert_sorted In]; [intuition congruence|].
  destruct (N.eqb_spec p y) as [->|Hne]; [cbn [In]; intuition congruence|].
  destruct (p <? y); cbn [In]; [intuition congruence|]. rewrite IH. intuition congruence.
Qed.

Lemma insert_sorted_sorted p l : StronglySorted N.lt l -> StronglySorted N.lt (insert_sorted p l).
Proof.
  induction 1 as [|y l Hs IH Hall]; cbn [insert_sorted]; [repeat constructor|].
  destruct (N.eqb_spec p y) as [->|Hne]; [constructor; assumption|].
  destruct (N.ltb_spec p y) as [Hlt|Hge].
  - constructor; [constructor; assumption|]. constructor; [assumption|].
    eapply Forall_impl; [|exact Hall]. intros a Ha. lia.
  - constructor; [assumption|]. apply Forall_forall. intros x Hx. apply insert_sorted_in in Hx.
    destruct Hx as [->|Hx]; [lia|]. rewrite Forall_forall in Hall. apply Hall. assumption.
Qed.

Lemma filter_sorted (f : N -> bool) l : StronglySorted N.lt l -> StronglySorted N.lt (filter f l).
Proof.
  induction 1 as [|y l Hs IH Hall]; cbn [filter]; [constructor|].
  destruct (f y); [|assumption]. constructor; [assumption|].
  apply Forall_forall. intros x Hx. apply filter_In in Hx. rewrite Forall_forall in Hall. apply Hall. tauto.
Qed.

(* ---------- file facts ---------- *)
Lemma set_file_same l : forall i v, (i <= length l)%nat -> nth_error (set_file l i v) i = Some v.
Proof.
  induction l as [|x l IH]; intros i v Hi.
  - cbn in Hi. assert (i = 0%nat) as -> by lia. reflexivity.
  - destruct i; cbn; [reflexivity|]. apply IH. cbn in Hi. lia.
Qed.
Lemma set_file_other l : forall i j v, (i <= length l)%nat -> i <> j -> nth_error (set_file l i v) j = nth_error l j.
Proof.
  induction l as [|x l IH]; intros i j v Hi Hij.
  - cbn in Hi. assert (i = 0%nat) as -> by lia. destruct j; [congruence|]. cbn. destruct j; reflexivity.
  - destruct i, j; cbn; try congruence; try reflexivity. apply IH; [cbn in Hi; lia|congruence].
Qed.

Lemma file_pg_set_page_chk s p v x : file_pg (set_page_chk s p v) x = file_pg s x.
Proof. reflexivity. Qed.

(* a write that does not leave a hole: at most one page past the end of the file *)
Definition contiguous (s : st) (p : N) : Prop := 1 <= p /\ p <= lenN (dbfile s) + 1.

Lemma write_page_file s p q x : contiguous s p -> 1 <= x ->
  file_pg (write_db_page s p q) x = if x =? p then Some q else file_pg s x.
Proof.
  intros [H1 H2] Hx. unfold write_db_page. rewrite file_pg_set_page_chk. unfold file_pg, with_file. cbn [dbfile].
  unfold lenN in H2. destruct (N.eqb_spec x p) as [->|Hne].
  - apply set_file_same. lia.
  - apply set_file_other; lia.
Qed.

(* everything that differs from the image at the last commit is in the dirty set *)
Definition Unchanged (s0 s : st) : Prop := forall p, 1 <= p -> ~ In p (dirty s) -> file_pg s p = file_pg s0 p.

Lemma write_page_unchanged s0 s p q s' :
  wal_mode s = false -> contiguous s p -> Unchanged s0 s -> op_write_page s p q = (Done, s') ->
  Unchanged s0 s' /\ wal_mode s' = false /\ dirty s' = insert_sorted p (dirty s) /\
  txid s' = txid s /\ chk s' = chk s /\ ltxdir s' = ltxdir s /\ lockpg s' = lockpg s.
Proof.
  intros Hm Hc HU H. unfold op_write_page in H. destruct (writeable s); cbn [negb] in H; [|discriminate].
  rewrite Hm in H. inversion H; subst s'. clear H.
  split; [|repeat split; try reflexivity; exact Hm].
  intros x Hx Hnd. change (dirty (write_db_page (with_dirty s (insert_sorted p (dirty s))) p q)) with (insert_sorted p (dirty s)) in Hnd.
  rewrite insert_sorted_in in Hnd.
  rewrite write_page_file by assumption.
  destruct (N.eqb_spec x p) as [->|Hne]; [tauto|]. apply HU; tauto.
Qed.

(* the same for a write inside a rollback-journal transaction, whatever journal mode LiteFS tracks *)
Lemma write_page_j_unchanged s0 s p q s' :
  contiguous s p -> Unchanged s0 s -> op_write_page_j s p q = (Done, s') ->
  Unchanged s0 s' /\ wal_mode s' = wal_mode s /\ dirty s' = insert_sorted p (dirty s) /\
  txid s' = txid s /\ chk s' = chk s /\ ltxdir s' = ltxdir s /\ lockpg s' = lockpg s.
Proof.
  intros Hc HU H. unfold op_write_page_j in H. destruct (writeable s); cbn [negb] in H; [|discriminate].
  inversion H; subst s'. clear H.
  split; [|repeat split; reflexivity].
  intros x Hx Hnd. change (dirty (write_db_page (with_dirty s (insert_sorted p (dirty s))) p q)) with (insert_sorted p (dirty s)) in Hnd.
  rewrite insert_sorted_in in Hnd.
  rewrite write_page_file by assumption.
  destruct (N.eqb_spec x p) as [->|Hne]; [tauto|]. apply HU; tauto.
Qed.

(* ---------- CommitJournal ---------- *)
Lemma journal_pages_spec commit : forall pgnos s pages s2,
  journal_pages s commit pgnos = (Some pages, s2) ->
  map fst pages = filter (fun p => negb (p =? lockpg s)) pgnos /\
  (forall p q, In (p, q) pages -> file_pg s p = Some q).
Proof.
  induction pgnos as [|p r IH]; intros s pages s2 H; cbn [journal_pages] in H.
  - inversion H; subst. split; [reflexivity|]. intros p q [].
  - cbn [filter]. destruct (N.eqb_spec p (lockpg s)) as [El|Enl]; cbn [negb].
    + eapply IH. eassumption.
    + destruct (file_pg s p) as [q0|] eqn:Ef; [|discriminate].
      set (s1 := if unwritten s p then set_page_chk s p (pg_h q0) else s) in *.
      assert (lockpg s1 = lockpg s /\ forall x, file_pg s1 x = file_pg s x) as [El1 Ef1]
        by (unfold s1; destruct (unwritten s p); split; reflexivity).
      destruct (page_chk s1 p commit []) as [c ok]. destruct (ok && (c =? pg_h q0)); [|discriminate].
      destruct (journal_pages s1 commit r) as [[l|] s2'] eqn:Ej; [|discriminate]. inversion H; subst pages s2'.
      destruct (IH s1 l s2 Ej) as [A1 A2]. split; [cbn [map fst]; rewrite A1, El1; reflexivity|].
      intros p' q' [E|Hin]; [inversion E; subst; assumption|rewrite <- Ef1; apply A2; assumption].
Qed.

Lemma clear_after_commit_dbfile : forall n sx i, dbfile (clear_after_commit sx n i) = dbfile sx.
Proof.
  induction n as [|n IH]; intros sx i; cbn [clear_after_commit]; [reflexivity|].
  destruct (i <? lenN (chk_pages sx)); [|reflexivity]. rewrite IH. destruct (i + 1 =? lockpg sx); reflexivity.
Qed.
Lemma clear_after_commit_ltxdir : forall n sx i, ltxdir (clear_after_commit sx n i) = ltxdir sx.
Proof.
  induction n as [|n IH]; intros sx i; cbn [clear_after_commit]; [reflexivity|].
  destruct (i <? lenN (chk_pages sx)); [|reflexivity]. rewrite IH. destruct (i + 1 =? lockpg sx); reflexivity.
Qed.

Lemma commit_journal_file s commit s' :
  op_commit_journal s commit = (Done, s') ->
  exists f, ltxdir s' = ltxdir s ++ [f] /\
    l_min f = txid s + 1 /\ l_max f = txid s + 1 /\ l_pre f = chk s /\ l_post f = chk s' /\ l_commit f = commit /\
    map fst (l_pages f) = filter (fun p => negb (p =? lockpg s)) (journal_pgnos s commit) /\
    (forall p q, In (p, q) (l_pages f) -> file_pg s p = Some q) /\
    dbfile s' = dbfile s.
Proof.
  intros H. unfold op_commit_journal in H. destruct (writeable s); cbn [negb] in H; [|discriminate].
  set (s0 := with_wal s [] (wal_latest s) (wal_file s)) in *.
  destruct (journal_pages s0 commit (journal_pgnos s commit)) as [[pages|] sj] eqn:Ej; [|discriminate].
  pose proof (journal_pages_samenc commit _ _ _ _ Ej) as HSj.
  set (s1 := clear_after_commit sj (length (chk_pages sj)) commit) in *.
  pose proof (checksum_same s1 commit []) as HS.
  destruct (checksum s1 commit []) as [[post|] s2]; [|discriminate]. cbn [snd] in HS.
  inversion H; subst s'. clear H.
  destruct (journal_pages_spec commit _ s0 _ _ Ej) as [A1 A2].
  exists (new_ltx s commit post pages). cbn.
  destruct HS as [_ [_ [Ef [_ [_ [_ [_ [_ [_ [_ [_ [_ Ed]]]]]]]]]]]].
  destruct HSj as [_ [_ [Efj [_ [_ [_ [_ [_ [_ [_ [_ Edj]]]]]]]]]]].
  assert (dbfile s1 = dbfile s) as Ef1 by (unfold s1; rewrite clear_after_commit_dbfile; exact Efj).
  assert (ltxdir s1 = ltxdir s) as Ed1 by (unfold s1; rewrite clear_after_commit_ltxdir; exact Edj).
  repeat split; try reflexivity; try assumption; congruence.
Qed.

Lemma alookup_map_fst_none {A} p (m : list (N * A)) : ~ In p (map fst m) -> alookup p m = None.
Proof.
  intros H. apply alookup_none_notin. intros kv Hin E. apply H. apply in_map_iff. exists kv. auto.
Qed.

Lemma in_alookup_sorted p (q : pg) m : StronglySorted N.lt (map fst m) -> In (p, q) m -> alookup p m = Some q.
Proof.
  induction m as [|[k v] m IH]; intros Hs Hin; [destruct Hin|]. cbn [map fst] in Hs. inversion Hs as [|? ? Hs' Hall]; subst.
  cbn [alookup]. destruct Hin as [E|Hin].
  - inversion E; subst. rewrite N.eqb_refl. reflexivity.
  - destruct (N.eqb_spec p k) as [->|Hne]; [|apply IH; assumption].
    exfalso. rewrite Forall_forall in Hall. assert (k < k); [|lia].
    apply Hall. apply in_map_iff. exists (k, q). auto.
Qed.

Lemma seqN_sorted : forall n a, StronglySorted N.lt (seqN a n).
Proof.
  induction n as [|n IH]; intros a; cbn [seqN]; constructor; [apply IH|].
  apply Forall_forall. intros x Hx. apply seqN_in in Hx. lia.
Qed.
Lemma sorted_app (l1 l2 : list N) : StronglySorted N.lt l1 -> StronglySorted N.lt l2 ->
  (forall x y, In x l1 -> In y l2 -> x < y) -> StronglySorted N.lt (l1 ++ l2).
Proof.
  induction l1 as [|a l1 IH]; intros H1 H2 Hlt; cbn [app]; [assumption|].
  inversion H1 as [|? ? H1' Hall]; subst. constructor.
  - apply IH; [assumption|assumption|]. intros x y Hx Hy. apply Hlt; [right|]; assumption.
  - apply Forall_forall. intros x Hx. apply in_app_or in Hx. destruct Hx as [Hx|Hx].
    + rewrite Forall_forall in Hall. apply Hall. assumption.
    + apply Hlt; [left; reflexivity|assumption].
Qed.
Lemma journal_pgnos_in s commit p :
  In p (journal_pgnos s commit) <-> (In p (dirty s) /\ p <= commit /\ p <= pageN s) \/ (pageN s < p /\ p <= commit).
Proof.
  unfold journal_pgnos. rewrite in_app_iff, filter_In, upfrom_seqN, seqN_in. split.
  - intros [[Hd Hb]|Hr]; [left|right].
    + apply andb_true_iff in Hb. destruct Hb as [B1 B2]. apply N.leb_le in B1, B2. auto.
    + lia.
  - intros [[Hd [H1 H2]]|[H1 H2]]; [left|right].
    + split; [assumption|]. apply andb_true_iff. split; apply N.leb_le; assumption.
    + lia.
Qed.
Lemma journal_pgnos_sorted s commit : StronglySorted N.lt (dirty s) -> StronglySorted N.lt (journal_pgnos s commit).
Proof.
  intros Hs. unfold journal_pgnos. apply sorted_app; [apply filter_sorted; assumption|rewrite upfrom_seqN; apply seqN_sorted|].
  intros x y Hx Hy. apply filter_In in Hx. destruct Hx as [_ Hb]. apply andb_true_iff in Hb. destruct Hb as [_ B2].
  apply N.leb_le in B2. rewrite upfrom_seqN in Hy. apply seqN_in in Hy. lia.
Qed.

(* C02: applying the new file's pages to the image at the previous commit gives the file SQLite now sees *)
Theorem journal_commit_exact s0 s commit s' :
  Unchanged s0 s -> StronglySorted N.lt (dirty s) ->
  op_commit_journal s commit = (Done, s') ->
  exists f, ltxdir s' = ltxdir s ++ [f] /\
    l_min f = txid s + 1 /\ l_max f = txid s + 1 /\ l_pre f = chk s /\ l_post f = chk s' /\ l_commit f = commit /\
    txid s' = txid s + 1 /\ pageN s' = commit /\
    StronglySorted N.lt (map fst (l_pages f)) /\
    (forall p, In p (map fst (l_pages f)) -> p <= commit /\ p <> lockpg s) /\
    (forall p, 1 <= p <= commit -> p <> lockpg s ->
       file_pg s' p = match alookup p (l_pages f) with Some q => Some q | None => file_pg s0 p end).
Proof.
  intros HU Hsorted H. destruct (commit_journal_file s commit s' H) as [f [E1 [E2 [E3 [E4 [E5 [E6 [E7 [E8 E9]]]]]]]]].
  exists f. repeat (split; [assumption|]).
  assert (txid s' = txid s + 1 /\ pageN s' = commit) as [T1 T2].
  { clear -H. unfold op_commit_journal in H. destruct (writeable s); cbn [negb] in H; [|discriminate].
    destruct (journal_pages _ _ _) as [[pages|] sj]; [|discriminate]. destruct (checksum _ _ _) as [[post|] s2]; [|discriminate].
    inversion H; subst. cbn. auto. }
  split; [assumption|]. split; [assumption|].
  assert (Hs : StronglySorted N.lt (map fst (l_pages f))) by (rewrite E7; apply filter_sorted, journal_pgnos_sorted; assumption).
  split; [assumption|]. split.
  - intros p Hp. rewrite E7 in Hp. apply filter_In in Hp. destruct Hp as [Hp Hnl]. apply journal_pgnos_in in Hp.
    split; [lia|]. apply negb_true_iff, N.eqb_neq in Hnl. assumption.
  - intros p Hp Hnl. unfold file_pg at 1. rewrite E9. fold (file_pg s p).
    destruct (in_dec N.eq_dec p (journal_pgnos s commit)) as [Hd|Hnd].
    + assert (In p (map fst (l_pages f))) as Hin.
      { rewrite E7. apply filter_In. split; [assumption|]. apply negb_true_iff, N.eqb_neq. assumption. }
      apply in_map_iff in Hin. destruct Hin as [[p' q] [Ep Hin]]. cbn in Ep. subst p'.
      rewrite (in_alookup_sorted p q _ Hs Hin). apply E8. assumption.
    + rewrite alookup_map_fst_none.
      * apply HU; [lia|]. intros Hdirty. apply Hnd. apply journal_pgnos_in.
        destruct (N.le_gt_cases p (pageN s)); [left; repeat split; [assumption|lia|assumption]|right; lia].
      * rewrite E7. intros Hin. apply filter_In in Hin. tauto.
Qed.

(* every page between the old and the new size is in the new file with what the database file holds there,
   whether the transaction wrote it or not *)
Lemma commit_journal_covers_growth s commit s' :
  op_commit_journal s commit = (Done, s') ->
  exists f, ltxdir s' = ltxdir s ++ [f] /\
    forall p, pageN s < p <= commit -> p <> lockpg s -> exists q, In (p, q) (l_pages f) /\ file_pg s p = Some q.
Proof.
  intros H. destruct (commit_journal_file s commit s' H) as [f [E1 [_ [_ [_ [_ [_ [E7 [E8 _]]]]]]]]].
  exists f. split; [assumption|]. intros p Hp Hnl.
  assert (In p (map fst (l_pages f))) as Hin.
  { rewrite E7. apply filter_In. split; [apply journal_pgnos_in; right; lia|]. apply negb_true_iff, N.eqb_neq. assumption. }
  apply in_map_iff in Hin. destruct Hin as [[p' q] [Ep Hin]]. cbn in Ep. subst p'.
  exists q. split; [assumption|]. apply E8. assumption.
Qed.

(* the transaction that would have created the database, rolled back after it had written pages (SQLite has cut the
   file back to nothing): finalising its journal publishes nothing *)
Lemma rolled_back_creation s c : writeable s = true -> pageN s = 0 -> dbfile s = [] ->
  step s (OCommitJournal c) = (Done, with_dirty s []).
Proof. intros Hw Hp Hf. cbn [step]. rewrite Hw, Hp, Hf. reflexivity. Qed.

(* the truncate SQLite issues after finalisation *)
Lemma truncate_spec s n s' o : op_truncate s n = (o, s') ->
  (o = Done -> n = pageN s /\ dbfile s' = firstn (N.to_nat n) (dbfile s)) /\
  (o <> Done -> s' = s) /\ txid s' = txid s /\ chk s' = chk s /\ ltxdir s' = ltxdir s.
Proof.
  unfold op_truncate. destruct (N.eqb_spec n (pageN s)) as [->|Hne]; cbn [negb]; intros H; inversion H; subst.
  - split; [intros _; split; [reflexivity|]|split; [congruence|]].
    + unfold truncate_db, reset_after.
      assert (forall m sx i, dbfile (clear_from sx m i) = dbfile sx) as G.
      { induction m as [|m IH]; intros s1 i; cbn [clear_from]; [reflexivity|].
        destruct (i <? lenN (chk_pages s1)); [|reflexivity]. rewrite IH. reflexivity. }
      rewrite G. reflexivity.
    + unfold truncate_db, reset_after.
      assert (forall m sx i, txid (clear_from sx m i) = txid sx /\ chk (clear_from sx m i) = chk sx /\ ltxdir (clear_from sx m i) = ltxdir sx) as G.
      { induction m as [|m IH]; intros s1 i; cbn [clear_from]; [auto|].
        destruct (i <? lenN (chk_pages s1)); [|auto]. destruct (IH (set_page_chk s1 (i + 1) 0) (i + 1)) as [A [B C]]. rewrite A, B, C. auto. }
      destruct (G (length (chk_pages (with_file s (firstn (N.to_nat (pageN s)) (dbfile s))))) (with_file s (firstn (N.to_nat (pageN s)) (dbfile s))) (pageN s)) as [A [B C]].
      rewrite A, B, C. auto.
  - split; [congruence|]. split; [reflexivity|]. auto.
Qed.

(* ---------- CommitWAL ---------- *)
Definition KeysNoDup {A} (m : list (N * A)) : Prop := NoDup (map fst m).

Lemma alookup_last_versions p : forall frames acc,
  alookup p (last_versions frames acc) =
  match fold_left (fun o kv => if p =? fst kv then Some (snd kv) else o) frames None with
  | Some q => Some q
  | None => alookup p acc
  end.
Proof.
  induction frames as [|[k v] r IH]; intros acc; cbn [last_versions fold_left]; [reflexivity|].
  rewrite IH. cbn [fst snd]. rewrite alookup_aput.
  assert (forall o, fold_left (fun o kv => if p =? fst kv then Some (snd kv) else o) r o =
                    match fold_left (fun o kv => if p =? fst kv then Some (snd kv) else o) r None with
                    | Some q => Some q | None => o end) as G.
  { clear. induction r as [|[k v] r IH]; intros o; cbn [fold_left]; [reflexivity|].
    cbn [fst snd]. destruct (p =? k); [|apply IH]. rewrite (IH (Some v)). destruct (fold_left _ r None); reflexivity. }
  rewrite (G (if p =? k then Some v else None)).
  destruct (fold_left _ r None); [reflexivity|]. destruct (p =? k); reflexivity.
Qed.

(* the page content of the last frame of page p in write order *)
Definition last_frame (p : N) (frames : list (N * pg)) : option pg :=
  fold_left (fun o kv => if p =? fst kv then Some (snd kv) else o) frames None.

Lemma commit_wal_file s frames commit s' :
  op_commit_wal s frames commit = (Done, s') ->
  exists f, ltxdir s' = ltxdir s ++ [f] /\
    l_min f = txid s + 1 /\ l_max f = txid s + 1 /\ l_pre f = chk s /\ l_post f = chk s' /\ l_commit f = commit /\
    l_pages f = tx_pages s frames commit /\ txid s' = txid s + 1 /\ pageN s' = commit /\ dbfile s' = dbfile s.
Proof.
  intros H. unfold op_commit_wal in H. fold (tx_pages s frames commit) in H. fold (tx_new s frames commit) in H.
  destruct (truncated_pages s (commit + 1) (N.to_nat (pageN s)) (tx_new s frames commit)) as [new|]; [|discriminate].
  pose proof (checksum_same s commit new) as HS.
  destruct (checksum s commit new) as [[post|] s1]; [|discriminate]. cbn [snd] in HS.
  destruct (writeable s1); cbn [negb] in H; [|discriminate]. inversion H; subst s'. clear H.
  destruct HS as [_ [_ [Ef [_ [_ [_ [_ [_ [_ [_ [_ [_ Ed]]]]]]]]]]]].
  exists (new_ltx s commit post (tx_pages s frames commit)). cbn. repeat split; try reflexivity; congruence.
Qed.

(* membership in the sorted, lock-free page list = last version of that page among the frames *)
Lemma sort_pages_in x : forall l acc, In x (sort_pages l acc) <-> In x l \/ In x acc.
Proof.
  induction l as [|[p q] r IH]; intros acc; cbn [sort_pages]; [cbn [In]; tauto|].
  rewrite IH.
  assert (forall a, In x ((fix ins (a : list (N * pg)) : list (N * pg) :=
             match a with [] => [(p, q)] | (p', q') :: a' => if p <? p' then (p, q) :: a else (p', q') :: ins a' end) a)
            <-> x = (p, q) \/ In x a) as G.
  { induction a as [|[p' q'] a IHa]; cbn [In]; [intuition congruence|].
    destruct (p <? p'); cbn [In]; [intuition congruence|]. rewrite IHa. intuition congruence. }
  rewrite G. cbn [In]. intuition congruence.
Qed.

Lemma aput_keys_nodup {A} k (v : A) m : KeysNoDup m -> KeysNoDup (aput k v m).
Proof.
  unfold KeysNoDup. induction m as [|[k' v'] m IH]; intros H; cbn [aput map fst].
  - constructor; [intros []|constructor].
  - inversion H as [|? ? Hnotin Hnd]; subst. destruct (N.eqb_spec k k') as [->|Hne]; cbn [map fst].
    + constructor; assumption.
    + constructor; [|apply IH; assumption].
      intros Hin. apply Hnotin. clear -Hin Hne. induction m as [|[k2 v2] m IHm]; cbn [aput map fst In] in *.
      * destruct Hin as [E|[]]. congruence.
      * destruct (N.eqb_spec k k2) as [->|Hne2]; cbn [map fst In] in Hin; [tauto|]. destruct Hin; [tauto|right; auto].
Qed.

Lemma last_versions_keys : forall frames acc, KeysNoDup acc -> KeysNoDup (last_versions frames acc).
Proof.
  induction frames as [|[k v] r IH]; intros acc H; cbn [last_versions]; [assumption|].
  apply IH, aput_keys_nodup. assumption.
Qed.

Lemma in_alookup_nodup {A} p (q : A) m : KeysNoDup m -> In (p, q) m -> alookup p m = Some q.
Proof.
  unfold KeysNoDup. induction m as [|[k v] m IH]; intros Hn Hin; [destruct Hin|]. cbn [map fst] in Hn.
  inversion Hn as [|? ? Hnotin Hnd]; subst. cbn [alookup]. destruct Hin as [E|Hin].
  - inversion E; subst. rewrite N.eqb_refl. reflexivity.
  - destruct (N.eqb_spec p k) as [->|Hne]; [|apply IH; assumption].
    exfalso. apply Hnotin. apply in_map_iff. exists (k, q). auto.
Qed.

(* C03: the new file contains exactly the last frame of every page the transaction wrote
   (the lock page skipped); nothing else *)
Theorem wal_commit_exact s frames commit s' :
  op_commit_wal s frames commit = (Done, s') ->
  exists f, ltxdir s' = ltxdir s ++ [f] /\
    l_min f = txid s + 1 /\ l_max f = txid s + 1 /\ l_pre f = chk s /\ l_post f = chk s' /\ l_commit f = commit /\
    txid s' = txid s + 1 /\ pageN s' = commit /\ dbfile s' = dbfile s /\
    (forall p q, In (p, q) (l_pages f) <-> (p <> lockpg s /\ p <= commit /\ last_frame p frames = Some q)).
Proof.
  intros H. destruct (commit_wal_file s frames commit s' H) as [f [E1 [E2 [E3 [E4 [E5 [E6 [E7 [E8 [E9 E10]]]]]]]]]].
  exists f. repeat (split; [assumption|]).
  intros p q. rewrite E7. unfold tx_pages. rewrite filter_In. cbn [fst]. rewrite sort_pages_in. cbn [In].
  assert (KeysNoDup (last_versions frames ([] : list (N * pg)))) as Hk by (apply last_versions_keys; constructor).
  pose proof (alookup_last_versions p frames []) as Hl. fold (last_frame p frames) in Hl. cbn [alookup] in Hl.
  split.
  - intros [[Hin|[]] Hnl]. apply andb_true_iff in Hnl. destruct Hnl as [Hnl Hle].
    apply negb_true_iff, N.eqb_neq in Hnl. apply N.leb_le in Hle. split; [assumption|]. split; [assumption|].
    apply (in_alookup_nodup p q _ Hk) in Hin. rewrite Hl in Hin. destruct (last_frame p frames); congruence.
  - intros [Hnl [Hle Hlf]]. split; [left|apply andb_true_iff; split; [apply negb_true_iff, N.eqb_neq; assumption|apply N.leb_le; assumption]].
    apply alookup_in. rewrite Hl, Hlf. reflexivity.
Qed.
