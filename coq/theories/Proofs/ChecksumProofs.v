(* C04 core: the block-cached checksum() of db.go equals the from-scratch XOR. *)
From Coq Require Import NArith List Lia ZifyN ZifyNat ZifyBool Bool Arith.
Require Import LF.Gen.ConstsGen LF.Model.PageDB LF.Proofs.XorLib.
Import ListNotations.
Local Open Scope N_scope.

Notation B := c_ChecksumBlockSize.

(* effective per-page checksum seen by checksum(): new WAL entries, then committed WAL, then database *)
Definition eff (s : st) (pN : N) (new : list (N * N)) (p : N) : N := fst (page_chk s p pN new).
Definition dbc (s : st) (p : N) : N := db_page_chk s p.

(* from-scratch value: flag | XOR over pages 1..pN (the lock page contributes 0) *)
Definition scratch (f : N -> N) (pN : N) : N := fl (xorl (map f (seqN 1 (N.to_nat pN)))).

Definition slots (s : st) (b : N) : list N := map (dbc s) (seqN (b * B + 1) (N.to_nat B)).

Definition CacheOK (s : st) : Prop :=
  forall b, b < lenN (chk_blocks s) -> nthN (chk_blocks s) b <> 0 ->
            nthN (chk_blocks s) b = rolling 0 (slots s b).

(* what checksum() needs: truthful block cache, lock page slot 0, and in every block that will be
   taken from the cache (not ignored) the slots past the database size are 0 *)
Record Pre (s : st) (pN : N) (new : list (N * N)) : Prop := {
  cache_ok : CacheOK s;
  tail_zero : forall p, pN < p -> block_of p < block_of pN + 1 ->
                        ignored s new (block_of pN + 1) (block_of p) = false -> dbc s p = 0;
  lock_zero : dbc s (lockpg s) = 0
}.

(* ---- set_nth facts ---- *)
Lemma set_nth_same l : forall i v, nth i (set_nth l i v) 0 = v.
Proof. induction l as [|x l IH]; intros i v; destruct i; cbn; auto. induction i; cbn; auto. Qed.
Lemma set_nth_other l : forall i j v, i <> j -> nth j (set_nth l i v) 0 = nth j l 0.
Proof.
  induction l as [|x l IH]; intros i j v Hij.
  - revert j Hij. induction i as [|i IHi]; intros j Hij; destruct j; cbn; try congruence; auto.
    + destruct j; reflexivity.
    + rewrite IHi by congruence. destruct j; reflexivity.
  - destruct i, j; cbn; try congruence; auto.
Qed.
Lemma set_nth_length l : forall i v, (length l <= length (set_nth l i v))%nat /\ (i < length (set_nth l i v))%nat.
Proof.
  induction l as [|x l IH]; intros i v.
  - induction i as [|i IHi]; cbn; [lia|]. cbn in IHi. lia.
  - destruct i; cbn; [lia|]. specialize (IH i v). lia.
Qed.

Lemma xor_slots_rolling s : forall n base acc, xor_slots s base n acc = rolling acc (map (dbc s) (seqN base n)).
Proof. induction n as [|n IH]; intros base acc; cbn [xor_slots seqN map]; [reflexivity|]. rewrite IH. reflexivity. Qed.

Lemma slots_nonempty s b : slots s b <> [].
Proof.
  unfold slots. pose proof blocksize_pos. destruct (N.to_nat B) eqn:E; [lia|]. cbn. discriminate.
Qed.

Lemma rolling0_nonzero l : l <> [] -> rolling 0 l <> 0.
Proof. intros H. rewrite rolling_fl by assumption. apply fl_nonzero. Qed.

(* block_chk: value and preserved facts *)
Lemma block_chk_spec s pN new b : Pre s pN new ->
  let '(v, s') := block_chk s b in
  v = rolling 0 (slots s b) /\ Pre s' pN new /\
  lockpg s' = lockpg s /\ wal_chk s' = wal_chk s /\ chk_pages s' = chk_pages s.
Proof.
  intros HP. unfold block_chk.
  destruct ((b <? lenN (chk_blocks s)) && negb (nthN (chk_blocks s) b =? 0)) eqn:Hc.
  - apply andb_true_iff in Hc. destruct Hc as [H1 H2].
    apply N.ltb_lt in H1. apply negb_true_iff, N.eqb_neq in H2.
    split; [apply (cache_ok s pN new HP); assumption|]. auto.
  - rewrite xor_slots_rolling. split; [reflexivity|]. split; [|auto].
    constructor.
    + unfold CacheOK. cbn [chk_blocks]. intros b' Hb' Hnz. unfold nthN in *.
      destruct (N.eq_dec b' b) as [->|Hne].
      * rewrite set_nth_same. reflexivity.
      * rewrite set_nth_other in * by lia.
        destruct (N.ltb_spec b' (lenN (chk_blocks s))) as [Hlt|Hge].
        -- apply (cache_ok s pN new HP); assumption.
        -- unfold lenN in Hge. rewrite nth_overflow in Hnz by lia. congruence.
    + apply (tail_zero s pN new HP).
    + apply (lock_zero s pN new HP).
Qed.

Lemma page_chk_ext s s' : lockpg s' = lockpg s -> wal_chk s' = wal_chk s -> chk_pages s' = chk_pages s ->
  forall p pN new, page_chk s' p pN new = page_chk s p pN new.
Proof. intros H1 H2 H3 p pN new. unfold page_chk, db_page_chk. rewrite H1, H2, H3. reflexivity. Qed.

(* the per-page loop *)
Lemma sum_pages_some s pN new : forall n pgno acc r,
  sum_pages s pN new pgno n acc = Some r ->
  exists k, N.of_nat k = N.min (N.of_nat n) (pN + 1 - pgno) /\
            r = rolling acc (map (eff s pN new) (seqN pgno k)).
Proof.
  induction n as [|n IH]; intros pgno acc r H; cbn [sum_pages] in H.
  - inversion H; subst. exists 0%nat. split; [lia|reflexivity].
  - destruct (N.ltb_spec pN pgno) as [Hlt|Hge].
    + inversion H; subst. exists 0%nat. split; [lia|reflexivity].
    + destruct (page_chk s pgno pN new) as [c ok] eqn:Ep. destruct ok; [|discriminate].
      destruct (IH _ _ _ H) as [k [Hk Hr]]. exists (S k). split; [lia|].
      cbn [seqN map]. unfold rolling in *. cbn [fold_left]. unfold rstep at 2, eff at 2. rewrite Ep. exact Hr.
Qed.

Lemma alookup_none_notin {A} p (m : list (N * A)) :
  (forall kv, In kv m -> fst kv <> p) -> alookup p m = None.
Proof.
  induction m as [|[k v] m IH]; intros H; cbn [alookup]; [reflexivity|].
  destruct (N.eqb_spec p k) as [->|Hne].
  - exfalso. apply (H (k, v)); [left; reflexivity|reflexivity].
  - apply IH. intros kv Hin. apply H. right; assumption.
Qed.

Lemma block_of_in b p : b * B + 1 <= p < b * B + 1 + B -> block_of p = b.
Proof.
  intros H. unfold block_of. pose proof blocksize_pos.
  symmetry. apply N.div_unique with (r := p - 1 - b * B); lia.
Qed.

Definition LockZero (s : st) : Prop := dbc s (lockpg s) = 0.

Lemma not_ignored_eff s pN new blockN b p :
  ignored s new blockN b = false -> b < blockN -> LockZero s ->
  b * B + 1 <= p < b * B + 1 + B -> p <= pN -> eff s pN new p = dbc s p.
Proof.
  intros Hig Hb HL Hp HpN. unfold ignored in Hig. apply orb_false_iff in Hig. destruct Hig as [Hw Hn].
  assert (Hblk : block_of p = b) by (apply block_of_in; assumption).
  assert (forall {A} (m : list (N * A)),
            existsb (fun kv => (block_of (fst kv) =? b) && (block_of (fst kv) <? blockN)) m = false ->
            alookup p m = None) as Hnone.
  { intros A m He. apply alookup_none_notin. intros kv Hin Hk.
    assert (existsb (fun kv => (block_of (fst kv) =? b) && (block_of (fst kv) <? blockN)) m = true) as Ht.
    { apply existsb_exists. exists kv. split; [assumption|]. rewrite Hk, Hblk.
      apply andb_true_iff. split; [apply N.eqb_refl|apply N.ltb_lt; assumption]. }
    congruence. }
  unfold eff, page_chk. destruct (N.eqb_spec p (lockpg s)) as [->|Hnl].
  - cbn. symmetry. exact HL.
  - destruct (N.ltb_spec pN p) as [Hlt|_]; [lia|].
    rewrite (Hnone _ new Hn), (Hnone _ (wal_chk s) Hw). reflexivity.
Qed.

Lemma xorl_zeros l : (forall x, In x l -> x = 0) -> xorl l = 0.
Proof.
  induction l as [|x l IH]; intros H; [reflexivity|]. rewrite xorl_cons, IH.
  - rewrite (H x) by (left; reflexivity). reflexivity.
  - intros y Hy. apply H. right; assumption.
Qed.

(* pages of block b that are <= pN *)
Definition kb (pN b : N) : nat := N.to_nat (N.min B (pN - b * B)).

Lemma slots_xor s pN new blockN b :
  Pre s pN new -> blockN = block_of pN + 1 -> ignored s new blockN b = false -> b < blockN ->
  xorl (slots s b) = xorl (map (eff s pN new) (seqN (b * B + 1) (kb pN b))).
Proof.
  intros HP HbN Hig Hb. unfold slots.
  assert (N.to_nat B = (kb pN b + (N.to_nat B - kb pN b))%nat) as Hsplit by (unfold kb; lia).
  rewrite Hsplit at 1. rewrite seqN_app, map_app, xorl_app.
  rewrite (xorl_zeros (map (dbc s) (seqN (b * B + 1 + N.of_nat (kb pN b)) (N.to_nat B - kb pN b)))).
  - rewrite N.lxor_0_r. f_equal. apply map_ext_in. intros p Hp. apply seqN_in in Hp.
    symmetry. eapply not_ignored_eff; try eassumption.
    + exact (lock_zero s pN new HP).
    + unfold kb in Hp. lia.
    + unfold kb in Hp. lia.
  - intros x Hx. apply in_map_iff in Hx. destruct Hx as [p [<- Hp]]. apply seqN_in in Hp.
    assert (block_of p = b) as Hbp by (apply block_of_in; unfold kb in Hp; lia).
    apply (tail_zero s pN new HP); [unfold kb in Hp; lia| |]; rewrite Hbp; subst blockN; assumption.
Qed.

(* the block loop: from block b with n blocks to go (b + n = blockN), pages b*B+1 .. pN *)
Lemma sum_blocks_some pN new blockN : forall n s b acc r s',
  Pre s pN new -> blockN = block_of pN + 1 -> 1 <= pN -> b + N.of_nat n = blockN ->
  sum_blocks s pN new blockN b n acc = (Some r, s') ->
  r = match n with
      | O => acc
      | S _ => fl (N.lxor acc (xorl (map (eff s pN new) (seqN (b * B + 1) (N.to_nat (pN - b * B))))))
      end.
Proof.
  pose proof blocksize_pos as HB.
  induction n as [|n IH]; intros s b acc r s' HP HbN HpN Hbn H; cbn [sum_blocks] in H.
  - inversion H; subst. reflexivity.
  - assert (Hblt : b < blockN) by lia.
    assert (HbB : b * B + 1 <= pN).
    { subst blockN. unfold block_of in *. pose proof (N.div_mod (pN - 1) B). nia. }
    assert (Hkb : (1 <= kb pN b)%nat) by (unfold kb; lia).
    assert (Hsplit : N.to_nat (pN - b * B) = (kb pN b + N.to_nat (pN - (b + 1) * B))%nat) by (unfold kb; lia).
    (* when more blocks follow, this block is full *)
    assert (Hfull : (0 < n)%nat -> b * B + 1 + N.of_nat (kb pN b) = (b + 1) * B + 1).
    { intros Hn. assert ((b + 1) * B + 1 <= pN) as Hnext.
      { subst blockN. unfold block_of in *. pose proof (N.div_mod (pN - 1) B). nia. }
      unfold kb. lia. }
    assert (Hlast : n = 0%nat -> N.to_nat (pN - (b + 1) * B) = 0%nat).
    { intros ->. subst blockN. unfold block_of in *. pose proof (N.div_mod (pN - 1) B).
      pose proof (N.mod_lt (pN - 1) B). nia. }
    (* combine this block's contribution with the rest *)
    assert (Hcomb : forall a2 sx,
              (forall p, eff sx pN new p = eff s pN new p) ->
              a2 = fl (N.lxor acc (xorl (map (eff s pN new) (seqN (b * B + 1) (kb pN b))))) ->
              r = match n with
                  | O => a2
                  | S _ => fl (N.lxor a2 (xorl (map (eff sx pN new) (seqN ((b + 1) * B + 1) (N.to_nat (pN - (b + 1) * B))))))
                  end ->
              r = fl (N.lxor acc (xorl (map (eff s pN new) (seqN (b * B + 1) (N.to_nat (pN - b * B))))))).
    { intros a2 sx Heq Ha2 Hr. rewrite Hsplit, seqN_app, map_app, xorl_app.
      destruct n as [|n'].
      - rewrite (Hlast eq_refl). cbn [seqN map]. rewrite xorl_nil, N.lxor_0_r. congruence.
      - rewrite Hfull by lia. rewrite Hr, Ha2, fl_absorb, N.lxor_assoc.
        rewrite (map_ext _ _ Heq). reflexivity. }
    destruct (ignored s new blockN b) eqn:Hig.
    + destruct (sum_pages s pN new (b * B + 1) (N.to_nat B) acc) as [a2|] eqn:Esp; [|discriminate].
      destruct (sum_pages_some _ _ _ _ _ _ _ Esp) as [k [Hk Ha2]].
      assert (k = kb pN b) as -> by (unfold kb; lia).
      apply (Hcomb a2 s); [reflexivity| |].
      * rewrite Ha2. apply rolling_fl. destruct (kb pN b); [lia|]. cbn. discriminate.
      * apply (IH s (b + 1) a2 r s' HP HbN HpN); [lia|assumption].
    + pose proof (block_chk_spec s pN new b HP) as Hbc. destruct (block_chk s b) as [bc s2].
      destruct Hbc as [Hv [HP2 [F1 [F2 F3]]]].
      assert (bc <> 0) as Hnz by (rewrite Hv; apply rolling0_nonzero, slots_nonempty).
      apply N.eqb_neq in Hnz. rewrite Hnz in H.
      apply (Hcomb (fl (N.lxor acc bc)) s2).
      * intros p. unfold eff. rewrite (page_chk_ext s s2) by assumption. reflexivity.
      * rewrite Hv, rolling_fl by apply slots_nonempty. rewrite N.lxor_0_l, fl_absorb_r.
        rewrite (slots_xor s pN new blockN b HP HbN Hig Hblt). reflexivity.
      * apply (IH s2 (b + 1) _ r s' HP2 HbN HpN); [lia|assumption].
Qed.

(* checksum() = from-scratch XOR of the effective per-page checksums *)
Theorem checksum_is_scratch s pN new c s' :
  Pre s pN new -> checksum s pN new = (Some c, s') -> c = scratch (eff s pN new) pN.
Proof.
  intros HP H. unfold checksum in H. destruct (N.eqb_spec pN 0) as [->|Hnz].
  - inversion H; subst. unfold scratch. cbn. unfold fl. rewrite N.lor_0_r. reflexivity.
  - pose proof (sum_blocks_some pN new (block_of pN + 1) (N.to_nat (block_of pN + 1)) s 0 0 c s' HP eq_refl) as HS.
    rewrite HS; [| lia | lia | assumption].
    destruct (N.to_nat (block_of pN + 1)) eqn:E; [lia|].
    unfold scratch. rewrite N.lxor_0_l, N.mul_0_l, N.sub_0_r, N.add_0_l. reflexivity.
Qed.

(* ------------------------------------------------------------------ *)
(* Cache maintenance: setDatabasePageChecksum and the clearing loops   *)
(* ------------------------------------------------------------------ *)
Lemma set_nth_keeps_length l : forall i v, (i < length l)%nat -> length (set_nth l i v) = length l.
Proof.
  induction l as [|x l IH]; intros i v Hi; [cbn in Hi; lia|].
  destruct i; cbn; [reflexivity|]. rewrite IH by (cbn in Hi; lia). reflexivity.
Qed.

Lemma dbc_set s p v q : 1 <= p -> 1 <= q ->
  dbc (set_page_chk s p v) q = if q =? p then (if p =? lockpg s then 0 else v) else dbc s q.
Proof.
  intros Hp Hq. unfold dbc, db_page_chk, set_page_chk, nthN. cbn [chk_pages].
  destruct (N.eqb_spec q p) as [->|Hne].
  - apply set_nth_same.
  - apply set_nth_other. lia.
Qed.

Lemma lockpg_set s p v : lockpg (set_page_chk s p v) = lockpg s.
Proof. reflexivity. Qed.
Lemma walchk_set s p v : wal_chk (set_page_chk s p v) = wal_chk s.
Proof. reflexivity. Qed.

Lemma blocks_set s p v : chk_blocks (set_page_chk s p v) =
  if block_of p <? lenN (chk_blocks s) then set_nth (chk_blocks s) (N.to_nat (block_of p)) 0 else chk_blocks s.
Proof. reflexivity. Qed.

Lemma set_page_chk_cacheok s p v : 1 <= p -> CacheOK s -> CacheOK (set_page_chk s p v).
Proof.
  intros Hp HC b Hb Hnz. pose proof blocksize_pos as HB.
  assert (Hslots : block_of p <> b -> slots (set_page_chk s p v) b = slots s b).
  { intros Hne. unfold slots. apply map_ext_in. intros q Hq. apply seqN_in in Hq.
    rewrite dbc_set by lia. destruct (N.eqb_spec q p) as [->|_]; [|reflexivity].
    exfalso. apply Hne. apply block_of_in. lia. }
  rewrite blocks_set in Hb, Hnz |- *.
  destruct (N.ltb_spec (block_of p) (lenN (chk_blocks s))) as [Hlt|Hge].
  - unfold nthN in *. destruct (N.eq_dec b (block_of p)) as [->|Hne].
    + rewrite set_nth_same in Hnz. congruence.
    + rewrite set_nth_other in Hnz |- * by lia.
      unfold lenN in Hb. rewrite set_nth_keeps_length in Hb by (unfold lenN in Hlt; lia).
      rewrite Hslots by congruence. apply HC; assumption.
  - rewrite Hslots by lia. apply HC; assumption.
Qed.

(* the clearing loop of CommitJournal (skips the lock page) *)
Lemma clear_after_commit_spec : forall fuel s i,
  (length (chk_pages s) - N.to_nat i <= fuel)%nat -> CacheOK s -> LockZero s -> 1 <= lockpg s ->
  let s' := clear_after_commit s fuel i in
  CacheOK s' /\ LockZero s' /\ lockpg s' = lockpg s /\ wal_chk s' = wal_chk s /\
  (forall q, 1 <= q -> dbc s' q = if i <? q then 0 else dbc s q).
Proof.
  induction fuel as [|fuel IH]; intros s i Hf HC HL Hlk; cbn [clear_after_commit].
  - repeat (split; [assumption || reflexivity|]). intros q Hq.
    destruct (N.ltb_spec i q) as [Hlt|_]; [|reflexivity].
    unfold dbc, db_page_chk, nthN. apply nth_overflow. lia.
  - destruct (N.ltb_spec i (lenN (chk_pages s))) as [Hlt|Hge].
    + set (s1 := if i + 1 =? lockpg s then s else set_page_chk s (i + 1) 0).
      assert (CacheOK s1) as HC1 by (unfold s1; destruct (i + 1 =? lockpg s); [assumption|apply set_page_chk_cacheok; [lia|assumption]]).
      assert (lockpg s1 = lockpg s) as El by (unfold s1; destruct (i + 1 =? lockpg s); reflexivity).
      assert (wal_chk s1 = wal_chk s) as Ew by (unfold s1; destruct (i + 1 =? lockpg s); reflexivity).
      assert (forall q, 1 <= q -> dbc s1 q = if q =? i + 1 then 0 else dbc s q) as Hd1.
      { intros q Hq. unfold s1. destruct (N.eqb_spec (i + 1) (lockpg s)) as [E|E].
        - destruct (N.eqb_spec q (i + 1)) as [->|_]; [|reflexivity]. rewrite E. exact HL.
        - rewrite dbc_set by lia. destruct (q =? i + 1); [|reflexivity]. destruct (i + 1 =? lockpg s); reflexivity. }
      assert (LockZero s1) as HL1.
      { unfold LockZero. rewrite El. rewrite Hd1 by assumption.
        destruct (lockpg s =? i + 1); [reflexivity|exact HL]. }
      assert (length (chk_pages s1) = length (chk_pages s)) as Elen.
      { unfold s1. destruct (i + 1 =? lockpg s); [reflexivity|].
        unfold set_page_chk. cbn [chk_pages]. apply set_nth_keeps_length. unfold lenN in Hlt. lia. }
      destruct (IH s1 (i + 1)) as [C2 [L2 [E2 [W2 D2]]]]; [lia|assumption|assumption|lia|].
      fold s1. split; [assumption|]. split; [assumption|]. split; [congruence|]. split; [congruence|].
      intros q Hq. rewrite D2 by assumption. rewrite Hd1 by assumption.
      destruct (N.ltb_spec (i + 1) q), (N.ltb_spec i q), (N.eqb_spec q (i + 1)); try lia; reflexivity.
    + repeat (split; [assumption || reflexivity|]). intros q Hq.
      destruct (N.ltb_spec i q) as [Hlt|_]; [|reflexivity].
      unfold dbc, db_page_chk, nthN. apply nth_overflow. unfold lenN in Hge. lia.
Qed.

Lemma eff_nowal s pN p : wal_chk s = [] -> p <= pN -> eff s pN [] p = if p =? lockpg s then 0 else dbc s p.
Proof.
  intros Hw Hp. unfold eff, page_chk. destruct (p =? lockpg s); [reflexivity|].
  destruct (N.ltb_spec pN p); [lia|]. rewrite Hw. reflexivity.
Qed.

(* checksum() only touches the block cache *)
Definition SameBut (s s' : st) : Prop :=
  writeable s' = writeable s /\ lockpg s' = lockpg s /\ dbfile s' = dbfile s /\ pageN s' = pageN s /\
  wal_mode s' = wal_mode s /\ chk_pages s' = chk_pages s /\ wal_chk s' = wal_chk s /\
  wal_latest s' = wal_latest s /\ wal_file s' = wal_file s /\ dirty s' = dirty s /\
  txid s' = txid s /\ chk s' = chk s /\ ltxdir s' = ltxdir s.

Lemma samebut_refl s : SameBut s s.
Proof. unfold SameBut. repeat split; reflexivity. Qed.
Lemma samebut_trans a b c : SameBut a b -> SameBut b c -> SameBut a c.
Proof. unfold SameBut. intuition congruence. Qed.
Lemma block_chk_same s b : SameBut s (snd (block_chk s b)).
Proof.
  unfold block_chk. destruct ((b <? lenN (chk_blocks s)) && negb (nthN (chk_blocks s) b =? 0)); cbn [snd].
  - apply samebut_refl.
  - unfold SameBut. cbn. repeat split; reflexivity.
Qed.

Lemma sum_blocks_same pN new blockN : forall n s b acc, SameBut s (snd (sum_blocks s pN new blockN b n acc)).
Proof.
  induction n as [|n IH]; intros s b acc; cbn [sum_blocks]; [apply samebut_refl|].
  destruct (ignored s new blockN b).
  - destruct (sum_pages s pN new (b * B + 1) (N.to_nat B) acc); [apply IH|apply samebut_refl].
  - pose proof (block_chk_same s b) as Hb. destruct (block_chk s b) as [bc s2]. cbn [snd] in Hb.
    destruct (bc =? 0).
    + destruct (sum_pages s2 pN new (b * B + 1) (N.to_nat B) acc).
      * eapply samebut_trans; [exact Hb|apply IH].
      * exact Hb.
    + eapply samebut_trans; [exact Hb|apply IH].
Qed.

Lemma checksum_same s pN new : SameBut s (snd (checksum s pN new)).
Proof. unfold checksum. destruct (pN =? 0); [apply samebut_refl|apply sum_blocks_same]. Qed.

(* the block cache stays truthful through checksum() *)
Lemma sum_blocks_cacheok pN new blockN : forall n s b acc,
  CacheOK s -> CacheOK (snd (sum_blocks s pN new blockN b n acc)).
Proof.
  induction n as [|n IH]; intros s b acc HC; cbn [sum_blocks]; [assumption|].
  assert (Hbc : CacheOK (snd (block_chk s b))).
  { unfold block_chk. destruct ((b <? lenN (chk_blocks s)) && negb (nthN (chk_blocks s) b =? 0)) eqn:Hc; cbn [snd]; [assumption|].
    rewrite xor_slots_rolling. intros b' Hb' Hnz. cbn [chk_blocks] in *. unfold nthN in *.
    destruct (N.eq_dec b' b) as [->|Hne].
    - rewrite set_nth_same. reflexivity.
    - rewrite set_nth_other in * by lia.
      destruct (N.ltb_spec b' (lenN (chk_blocks s))) as [Hlt|Hge].
      + apply HC; assumption.
      + unfold lenN in Hge. rewrite nth_overflow in Hnz by lia. congruence. }
  destruct (ignored s new blockN b).
  - destruct (sum_pages s pN new (b * B + 1) (N.to_nat B) acc); [apply IH; assumption|assumption].
  - destruct (block_chk s b) as [bc s2]. cbn [snd] in Hbc. destruct (bc =? 0).
    + destruct (sum_pages s2 pN new (b * B + 1) (N.to_nat B) acc); [apply IH; assumption|assumption].
    + apply IH; assumption.
Qed.
Lemma checksum_cacheok s pN new : CacheOK s -> CacheOK (snd (checksum s pN new)).
Proof. intros HC. unfold checksum. destruct (pN =? 0); [assumption|apply sum_blocks_cacheok; assumption]. Qed.

Lemma dbc_samebut s s' : SameBut s s' -> forall p, dbc s' p = dbc s p.
Proof. intros H p. unfold dbc, db_page_chk. destruct H as [_ [_ [_ [_ [_ [E _]]]]]]. rewrite E. reflexivity. Qed.

(* ---- the page loop of CommitJournal: what it does to the checksum cache ---- *)
Definition file_h (s : st) (p : N) : N := match file_pg s p with Some q => pg_h q | None => 0 end.
(* the per-page checksum CommitJournal works with: the cached one, or for a page inside the grown database
   that never passed through WriteDatabaseAt the checksum of what the file holds *)
Definition jc (s : st) (p : N) : N := if unwritten s p then file_h s p else dbc s p.

(* everything but the two checksum caches *)
Definition SameNC (s s' : st) : Prop :=
  writeable s' = writeable s /\ lockpg s' = lockpg s /\ dbfile s' = dbfile s /\ pageN s' = pageN s /\
  wal_mode s' = wal_mode s /\ wal_chk s' = wal_chk s /\
  wal_latest s' = wal_latest s /\ wal_file s' = wal_file s /\ dirty s' = dirty s /\
  txid s' = txid s /\ chk s' = chk s /\ ltxdir s' = ltxdir s.
Lemma samenc_refl s : SameNC s s.
Proof. unfold SameNC. repeat split; reflexivity. Qed.
Lemma samenc_trans a b c : SameNC a b -> SameNC b c -> SameNC a c.
Proof. unfold SameNC. intuition congruence. Qed.
Lemma samenc_set s p v : SameNC s (set_page_chk s p v).
Proof. unfold SameNC. repeat split; reflexivity. Qed.
Lemma unwritten_same s s' p : SameNC s s' -> dbc s' p = dbc s p -> unwritten s' p = unwritten s p.
Proof. intros H Hd. unfold unwritten. fold (dbc s' p) (dbc s p). destruct H as [_ [_ [_ [-> _]]]]. rewrite Hd. reflexivity. Qed.
Lemma samenc_file_h s s' p : SameNC s s' -> file_h s' p = file_h s p.
Proof. intros H. unfold file_h, file_pg. destruct H as [_ [_ [-> _]]]. reflexivity. Qed.
Lemma unwritten_pos s p : unwritten s p = true -> 1 <= p.
Proof. unfold unwritten. intros H. apply andb_true_iff in H. destruct H as [H _]. apply N.ltb_lt in H. lia. Qed.

Lemma upfrom_seqN : forall n a, upfrom a n = seqN a n.
Proof. induction n as [|n IH]; intros a; cbn [upfrom seqN]; [reflexivity|]. rewrite IH. reflexivity. Qed.

Lemma journal_pages_cache commit : forall pgnos s r s2,
  CacheOK s -> LockZero s -> 1 <= lockpg s ->
  journal_pages s commit pgnos = (r, s2) ->
  CacheOK s2 /\ LockZero s2 /\ SameNC s s2 /\
  (forall p, 1 <= p -> ~ In p pgnos -> dbc s2 p = dbc s p) /\
  (forall p, 1 <= p -> unwritten s p = false -> dbc s2 p = dbc s p) /\
  (r <> None -> forall p, In p pgnos -> p <> lockpg s -> unwritten s p = true -> dbc s2 p = file_h s p).
Proof.
  induction pgnos as [|p r0 IH]; intros s r s2 HC HL Hlk H; cbn [journal_pages] in H.
  - inversion H; subst. repeat (split; [assumption || apply samenc_refl|]).
    split; [reflexivity|]. split; [reflexivity|]. intros _ p [].
  - destruct (N.eqb_spec p (lockpg s)) as [El|Enl].
    + destruct (IH s r s2 HC HL Hlk H) as [A1 [A2 [A3 [A4 [A5 A6]]]]].
      repeat (split; [assumption|]). split.
      { intros q Hq Hn. apply A4; [assumption|]. intros Hin. apply Hn. right. assumption. }
      split; [assumption|].
      intros Hr q [E|Hin] Hnl Hu; [congruence|]. apply A6; assumption.
    + destruct (file_pg s p) as [q0|] eqn:Ef.
      2:{ inversion H; subst. repeat (split; [assumption || apply samenc_refl|]).
          split; [reflexivity|]. split; [reflexivity|]. intros Hr. congruence. }
      set (s1 := if unwritten s p then set_page_chk s p (pg_h q0) else s) in *.
      assert (SameNC s s1) as HS1 by (unfold s1; destruct (unwritten s p); [apply samenc_set|apply samenc_refl]).
      assert (CacheOK s1) as HC1.
      { unfold s1. destruct (unwritten s p) eqn:Eu; [|assumption].
        apply set_page_chk_cacheok; [apply (unwritten_pos s); assumption|assumption]. }
      assert (Hd1 : forall q, 1 <= q -> dbc s1 q = if (q =? p) && unwritten s p then pg_h q0 else dbc s q).
      { intros q Hq. unfold s1. destruct (unwritten s p) eqn:Eu; [|rewrite andb_false_r; reflexivity].
        rewrite dbc_set by (assumption || (apply (unwritten_pos s); assumption)). rewrite andb_true_r.
        destruct (q =? p); [|reflexivity]. destruct (N.eqb_spec p (lockpg s)); [contradiction|reflexivity]. }
      assert (lockpg s1 = lockpg s) as El1 by (destruct HS1 as [_ [E _]]; exact E).
      assert (LockZero s1) as HL1.
      { unfold LockZero. rewrite El1, Hd1 by assumption.
        destruct (N.eqb_spec (lockpg s) p) as [E|_]; [congruence|]. cbn [andb]. exact HL. }
      destruct (page_chk s1 p commit []) as [c ok].
      destruct (ok && (c =? pg_h q0)).
      2:{ inversion H; subst. split; [assumption|]. split; [assumption|]. split; [assumption|].
          split. { intros q Hq Hn. rewrite Hd1 by assumption. destruct (N.eqb_spec q p) as [->|_]; [|reflexivity].
                   exfalso. apply Hn. left. reflexivity. }
          split. { intros q Hq Hu. rewrite Hd1 by assumption. destruct (N.eqb_spec q p) as [->|_]; [|reflexivity].
                   rewrite Hu. reflexivity. }
          intros Hr. congruence. }
      destruct (journal_pages s1 commit r0) as [r1 s2'] eqn:Ej.
      assert (1 <= lockpg s1) as Hlk1 by (rewrite El1; assumption).
      destruct (IH s1 r1 s2' HC1 HL1 Hlk1 Ej) as [A1 [A2 [A3 [A4 [A5 A6]]]]].
      assert (s2 = s2') as -> by (destruct r1; inversion H; reflexivity).
      split; [assumption|]. split; [assumption|]. split; [eapply samenc_trans; eassumption|].
      split.
      { intros q Hq Hn. rewrite A4; [|assumption|intros Hin; apply Hn; right; assumption].
        rewrite Hd1 by assumption. destruct (N.eqb_spec q p) as [->|_]; [|reflexivity].
        exfalso. apply Hn. left. reflexivity. }
      assert (Hu1 : forall q, 1 <= q -> (q <> p \/ unwritten s p = false) -> unwritten s1 q = unwritten s q).
      { intros q Hq Hc. apply unwritten_same; [assumption|]. rewrite Hd1 by assumption.
        destruct (N.eqb_spec q p) as [->|_]; [|reflexivity]. destruct Hc as [Hc|Hc]; [congruence|rewrite Hc; reflexivity]. }
      split.
      { intros q Hq Hu. rewrite A5; [|assumption|].
        - rewrite Hd1 by assumption. destruct (N.eqb_spec q p) as [->|_]; [|reflexivity]. rewrite Hu. reflexivity.
        - rewrite Hu1; [assumption|assumption|]. destruct (N.eq_dec q p) as [->|Hne]; [right; assumption|left; assumption]. }
      intros Hr q Hin Hnl Hu.
      assert (r1 <> None) as Hr1 by (destruct r1; [discriminate|inversion H; subst; congruence]).
      assert (Hq1 : 1 <= q) by (apply (unwritten_pos s); assumption).
      destruct (in_dec N.eq_dec q r0) as [Hin0|Hnin0].
      * destruct (unwritten s1 q) eqn:Eu1.
        -- rewrite A6; [|assumption|assumption|rewrite El1; assumption|assumption]. apply samenc_file_h. assumption.
        -- rewrite A5 by assumption. rewrite Hd1 by assumption.
           destruct (N.eqb_spec q p) as [->|Hne].
           ++ rewrite Hu. cbn [andb]. unfold file_h. rewrite Ef. reflexivity.
           ++ rewrite Hu1 in Eu1; [congruence|assumption|left; assumption].
      * destruct Hin as [E|Hin]; [subst q|contradiction].
        rewrite A4; [|apply (unwritten_pos s); assumption|assumption].
        rewrite Hd1 by (apply (unwritten_pos s); assumption). rewrite N.eqb_refl, Hu. cbn [andb].
        unfold file_h. rewrite Ef. reflexivity.
Qed.

Lemma journal_pages_samenc commit : forall pgnos s r s2, journal_pages s commit pgnos = (r, s2) -> SameNC s s2.
Proof.
  induction pgnos as [|p r0 IH]; intros s r s2 H; cbn [journal_pages] in H.
  - inversion H; subst. apply samenc_refl.
  - destruct (p =? lockpg s); [eapply IH; eassumption|].
    destruct (file_pg s p) as [q0|]; [|inversion H; subst; apply samenc_refl].
    set (s1 := if unwritten s p then set_page_chk s p (pg_h q0) else s) in *.
    assert (SameNC s s1) as HS1 by (unfold s1; destruct (unwritten s p); [apply samenc_set|apply samenc_refl]).
    destruct (page_chk s1 p commit []) as [c ok].
    destruct (ok && (c =? pg_h q0)); [|inversion H; subst; assumption].
    destruct (journal_pages s1 commit r0) as [r1 s2'] eqn:Ej.
    assert (s2 = s2') as -> by (destruct r1; inversion H; reflexivity).
    eapply samenc_trans; [eassumption|]. eapply IH; eassumption.
Qed.

Lemma journal_pgnos_unwritten s commit p : unwritten s p = true -> p <= commit -> In p (journal_pgnos s commit).
Proof.
  intros Hu Hp. unfold journal_pgnos. apply in_or_app. right. rewrite upfrom_seqN. apply seqN_in.
  unfold unwritten in Hu. apply andb_true_iff in Hu. destruct Hu as [Hu _]. apply N.ltb_lt in Hu. lia.
Qed.

(* CommitJournal: the reported checksum is the from-scratch XOR of the per-page checksums of pages 1..commit
   (lock page excluded): the cached ones, and for pages the transaction never wrote what the file holds *)
Theorem commit_journal_checksum s commit s' :
  CacheOK s -> LockZero s -> 1 <= lockpg s -> op_commit_journal s commit = (Done, s') ->
  chk s' = scratch (fun p => if p =? lockpg s then 0 else jc s p) commit /\
  txid s' = txid s + 1 /\ pageN s' = commit /\ dirty s' = [] /\
  CacheOK s' /\ LockZero s' /\ (forall p, commit < p -> dbc s' p = 0) /\
  (forall p, 1 <= p <= commit -> p <> lockpg s -> dbc s' p = jc s p).
Proof.
  intros HC HL Hlk H. unfold op_commit_journal in H.
  destruct (writeable s); cbn [negb] in H; [|discriminate].
  set (s0 := with_wal s [] (wal_latest s) (wal_file s)) in *.
  assert (CacheOK s0) as HC0 by exact HC. assert (LockZero s0) as HL0 by exact HL.
  destruct (journal_pages s0 commit (journal_pgnos s commit)) as [[pages|] sj] eqn:Ej; [|discriminate].
  destruct (journal_pages_cache commit _ s0 _ sj HC0 HL0 Hlk Ej) as [HCj [HLj [HSj [_ [J5 J6]]]]].
  assert (lockpg sj = lockpg s) as Elj by (destruct HSj as [_ [E _]]; exact E).
  assert (wal_chk sj = []) as Ewj by (destruct HSj as [_ [_ [_ [_ [_ [E _]]]]]]; exact E).
  assert (Hdj : forall p, 1 <= p -> p <= commit -> p <> lockpg s -> dbc sj p = jc s p).
  { intros p Hp Hpc Hnl. unfold jc. change (unwritten s p) with (unwritten s0 p).
    destruct (unwritten s0 p) eqn:Eu.
    - rewrite J6; [reflexivity|discriminate|apply journal_pgnos_unwritten; assumption|assumption|assumption].
    - rewrite J5 by assumption. reflexivity. }
  pose proof (clear_after_commit_spec (length (chk_pages sj)) sj commit ltac:(lia) HCj HLj ltac:(lia)) as Hc.
  set (s1 := clear_after_commit sj (length (chk_pages sj)) commit) in *. cbn zeta in Hc.
  destruct Hc as [C1 [L1 [E1 [W1 D1]]]].
  pose proof (checksum_same s1 commit []) as HS. pose proof (checksum_cacheok s1 commit [] C1) as HC2.
  destruct (checksum s1 commit []) as [[post|] s2] eqn:Eck; [|discriminate]. cbn [snd] in HS, HC2.
  inversion H; subst s'. clear H.
  assert (Pre s1 commit []) as HP.
  { constructor; [assumption| |assumption]. intros p Hp _ _.
    destruct (N.le_gt_cases 1 p) as [H1|H0]; [|lia]. rewrite D1 by assumption.
    destruct (N.ltb_spec commit p); [reflexivity|lia]. }
  pose proof (checksum_is_scratch s1 commit [] post s2 HP Eck) as Hpost.
  assert (Hd2 : forall p, dbc s2 p = dbc s1 p) by (apply dbc_samebut; assumption).
  destruct HS as [_ [El2 _]].
  cbn [chk txid pageN dirty with_dirty with_pos].
  split.
  { rewrite Hpost. unfold scratch. f_equal. f_equal. apply map_ext_in. intros p Hp. apply seqN_in in Hp.
    rewrite eff_nowal by (try (rewrite W1; exact Ewj); lia). rewrite E1, Elj.
    destruct (N.eqb_spec p (lockpg s)) as [_|Hnl]; [reflexivity|]. rewrite D1 by lia.
    destruct (N.ltb_spec commit p); [lia|]. apply Hdj; lia. }
  split; [reflexivity|]. split; [reflexivity|]. split; [reflexivity|].
  split; [exact HC2|].
  split. { change (dbc s2 (lockpg s2) = 0). rewrite Hd2, El2. exact L1. }
  split.
  - intros p Hp. change (dbc s2 p = 0). rewrite Hd2.
    destruct (N.le_gt_cases 1 p) as [H1|H0]; [|lia]. rewrite D1 by assumption.
    destruct (N.ltb_spec commit p); [reflexivity|lia].
  - intros p Hp Hnl. change (dbc s2 p = jc s p). rewrite Hd2, D1 by lia.
    destruct (N.ltb_spec commit p); [lia|]. apply Hdj; lia.
Qed.

(* ... in particular a page of the grown database that never passed through WriteDatabaseAt is counted with the
   checksum of what the file holds, and is cached from then on *)
Corollary commit_journal_unwritten s commit s' :
  CacheOK s -> LockZero s -> 1 <= lockpg s -> op_commit_journal s commit = (Done, s') ->
  forall p, unwritten s p = true -> p <= commit -> p <> lockpg s -> dbc s' p = file_h s p.
Proof.
  intros HC HL Hlk H p Hu Hp Hnl.
  destruct (commit_journal_checksum s commit s' HC HL Hlk H) as [_ [_ [_ [_ [_ [_ [_ Hd]]]]]]].
  rewrite Hd; [|split; [apply (unwritten_pos s); assumption|assumption]|assumption]. unfold jc. rewrite Hu. reflexivity.
Qed.

(* ------------------------------------------------------------------ *)
(* CommitWAL                                                           *)
(* ------------------------------------------------------------------ *)
Lemma alookup_aput {A} p k (v : A) m : alookup p (aput k v m) = if p =? k then Some v else alookup p m.
Proof.
  induction m as [|[k' v'] m IH]; cbn [aput alookup].
  - destruct (p =? k); reflexivity.
  - destruct (N.eqb_spec k k') as [->|Hne]; cbn [alookup].
    + destruct (p =? k'); reflexivity.
    + destruct (N.eqb_spec p k') as [->|Hne2].
      * destruct (N.eqb_spec k' k); [congruence|reflexivity].
      * exact IH.
Qed.
Lemma alookup_in {A} p (v : A) m : alookup p m = Some v -> In (p, v) m.
Proof.
  induction m as [|[k' v'] m IH]; cbn [alookup]; [discriminate|].
  destruct (N.eqb_spec p k') as [->|Hne]; intros H; [inversion H; left; reflexivity|right; auto].
Qed.

Lemma truncated_pages_spec s : forall n start new0 new,
  truncated_pages s start n new0 = Some new ->
  (forall p, p < start -> alookup p new = alookup p new0) /\
  (forall p, start <= p <= pageN s -> p < start + N.of_nat n -> p <> lockpg s -> alookup p new <> None).
Proof.
  induction n as [|n IH]; intros start new0 new H; cbn [truncated_pages] in H.
  - inversion H; subst. split; [reflexivity|]. intros p H1 H2. lia.
  - destruct (N.ltb_spec (pageN s) start) as [Hlt|Hge].
    + inversion H; subst. split; [reflexivity|]. intros p H1. lia.
    + destruct (N.eqb_spec start (lockpg s)) as [El|Enl].
      * destruct (IH _ _ _ H) as [A1 A2]. split.
        -- intros p Hp. apply A1. lia.
        -- intros p H1 H2 H3. apply A2; lia.
      * destruct (read_page s start) as [q|]; [|discriminate].
        destruct (page_chk s start (pageN s) []) as [c ok].
        destruct (c =? pg_h q); [|discriminate].
        destruct (IH _ _ _ H) as [A1 A2]. split.
        -- intros p Hp. rewrite A1 by lia. rewrite alookup_aput.
           destruct (N.eqb_spec p start); [lia|reflexivity].
        -- intros p H1 H2 H3. destruct (N.eq_dec p start) as [->|Hne].
           ++ rewrite A1 by lia. rewrite alookup_aput, N.eqb_refl. discriminate.
           ++ apply A2; lia.
Qed.

Lemma ignored_of_key s new blockN p v :
  alookup p new = Some v -> block_of p < blockN -> ignored s new blockN (block_of p) = true.
Proof.
  intros Hl Hb. unfold ignored. apply orb_true_iff. right. apply existsb_exists.
  exists (p, v). split; [apply alookup_in; assumption|]. cbn [fst].
  apply andb_true_iff. split; [apply N.eqb_refl|apply N.ltb_lt; assumption].
Qed.

Definition tx_pages (s : st) (frames : list (N * pg)) (commit : N) : list (N * pg) :=
  filter (fun kv => negb (fst kv =? lockpg s) && (fst kv <=? commit)) (sort_pages (last_versions frames []) []).
Definition tx_new (s : st) (frames : list (N * pg)) (commit : N) : list (N * N) :=
  map (fun kv => (fst kv, pg_h (snd kv))) (tx_pages s frames commit).

(* CommitWAL: the reported checksum is the from-scratch XOR, over pages 1..commit, of: the page's
   checksum in this transaction if it wrote the page, else its last committed WAL version, else the
   database file's checksum. *)
Theorem commit_wal_checksum s frames commit s' :
  CacheOK s -> LockZero s -> (forall p, pageN s < p -> dbc s p = 0) ->
  op_commit_wal s frames commit = (Done, s') ->
  chk s' = scratch (eff s commit (tx_new s frames commit)) commit /\
  txid s' = txid s + 1 /\ pageN s' = commit /\ CacheOK s' /\ (forall p, dbc s' p = dbc s p).
Proof.
  intros HC HL HT H. unfold op_commit_wal in H. fold (tx_pages s frames commit) in H. fold (tx_new s frames commit) in H.
  destruct (truncated_pages s (commit + 1) (N.to_nat (pageN s)) (tx_new s frames commit)) as [new|] eqn:Etr; [|discriminate].
  destruct (truncated_pages_spec s _ _ _ _ Etr) as [T1 T2].
  pose proof (checksum_same s commit new) as HS. pose proof (checksum_cacheok s commit new HC) as HC2.
  destruct (checksum s commit new) as [[post|] s1] eqn:Eck; [|discriminate]. cbn [snd] in HS, HC2.
  destruct (writeable s1); cbn [negb] in H; [|discriminate].
  inversion H; subst s'. clear H.
  assert (Pre s commit new) as HP.
  { constructor; [assumption| |assumption]. intros p Hp Hb Hig.
    destruct (N.le_gt_cases p (pageN s)) as [Hle|Hgt]; [|apply HT; assumption].
    destruct (N.eq_dec p (lockpg s)) as [->|Hnl]; [exact HL|].
    exfalso. assert (alookup p new <> None) as Hk by (apply T2; lia).
    destruct (alookup p new) as [v|] eqn:El; [|congruence].
    rewrite (ignored_of_key s new _ p v El Hb) in Hig. discriminate. }
  pose proof (checksum_is_scratch s commit new post s1 HP Eck) as Hpost.
  cbn [chk txid pageN with_pos with_wal].
  split.
  { rewrite Hpost. unfold scratch. f_equal. f_equal. apply map_ext_in. intros p Hp. apply seqN_in in Hp.
    unfold eff, page_chk. rewrite T1 by lia. reflexivity. }
  split; [reflexivity|]. split; [reflexivity|].
  split; [exact HC2|].
  intros p. change (dbc s1 p = dbc s p). apply dbc_samebut. assumption.
Qed.

Lemma drop_reports_empty s s' :
  op_drop s = (Done, s') -> chk s' = flag /\ txid s' = txid s + 1 /\ pageN s' = 0 /\ dbfile s' = [].
Proof.
  unfold op_drop. destruct (writeable s); cbn [negb]; intros H; [|discriminate].
  inversion H; subst. cbn. auto.
Qed.
