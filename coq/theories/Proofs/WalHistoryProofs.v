(* C04 along histories, continued: after any rollback-journal history, the transaction that takes the database into WAL mode,
   then any number of WAL commits.  The reported checksum stays the from-scratch checksum of the logical database - the
   file as it was when WAL mode was entered, overlaid with the last frame of every page each WAL transaction wrote. *)
From Coq Require Import NArith List Lia ZifyN ZifyNat ZifyBool Bool Arith Permutation.
Require Import LF.Gen.ConstsGen LF.Model.PageDB LF.Proofs.XorLib LF.Proofs.ChecksumProofs LF.Proofs.CaptureProofs LF.Proofs.HistoryProofs.
Import ListNotations.
Local Open Scope N_scope.

(* ---- lists ---- *)
Lemma sort_pages_perm : forall l acc, Permutation (map fst (sort_pages l acc)) (map fst l ++ map fst acc).
Proof.
  induction l as [|[p q] r IH]; intros acc; cbn [sort_pages]; [reflexivity|].
  rewrite IH.
  assert (forall a, Permutation (map fst ((fix ins (a : list (N * pg)) : list (N * pg) :=
             match a with [] => [(p, q)] | (p', q') :: a' => if p <? p' then (p, q) :: a else (p', q') :: ins a' end) a))
            (p :: map fst a)) as G.
  { induction a as [|[p' q'] a IHa]; [reflexivity|]. destruct (p <? p'); cbn [map fst]; [reflexivity|].
    rewrite IHa. apply perm_swap. }
  rewrite G. cbn [map fst app]. symmetry. apply Permutation_middle.
Qed.

Lemma keys_filter {A} (f : N * A -> bool) : forall l, KeysNoDup l -> KeysNoDup (filter f l).
Proof.
  unfold KeysNoDup. induction l as [|x l IH]; intros H; cbn [filter]; [constructor|].
  cbn [map] in H. inversion H as [|? ? Hn Hd]; subst.
  destruct (f x); [|apply IH; assumption]. cbn [map]. constructor; [|apply IH; assumption].
  intros Hin. apply Hn. apply in_map_iff in Hin. destruct Hin as [y [E Hy]]. apply filter_In in Hy.
  apply in_map_iff. exists y. tauto.
Qed.

Lemma tx_pages_keys s frames commit : KeysNoDup (tx_pages s frames commit).
Proof.
  unfold tx_pages. apply keys_filter. unfold KeysNoDup.
  apply (Permutation_NoDup (l := map fst (last_versions frames ([] : list (N * pg))))).
  - symmetry. rewrite sort_pages_perm. cbn [map]. rewrite app_nil_r. reflexivity.
  - apply last_versions_keys. constructor.
Qed.
Lemma tx_new_keys s frames commit : KeysNoDup (tx_new s frames commit).
Proof. unfold tx_new, KeysNoDup. rewrite map_map. cbn [fst]. apply tx_pages_keys. Qed.

Lemma tx_pages_in s frames commit p q :
  In (p, q) (tx_pages s frames commit) <-> (p <> lockpg s /\ p <= commit /\ last_frame p frames = Some q).
Proof.
  unfold tx_pages. rewrite filter_In. cbn [fst]. rewrite sort_pages_in. cbn [In].
  assert (KeysNoDup (last_versions frames ([] : list (N * pg)))) as Hk by (apply last_versions_keys; constructor).
  pose proof (alookup_last_versions p frames []) as Hl. fold (last_frame p frames) in Hl. cbn [alookup] in Hl.
  split.
  - intros [[Hin|[]] Hnl]. apply andb_true_iff in Hnl. destruct Hnl as [Hnl Hle].
    apply negb_true_iff, N.eqb_neq in Hnl. apply N.leb_le in Hle. split; [assumption|]. split; [assumption|].
    apply (in_alookup_nodup p q _ Hk) in Hin. rewrite Hl in Hin. destruct (last_frame p frames); congruence.
  - intros [Hnl [Hle Hlf]]. split; [left|apply andb_true_iff; split; [apply negb_true_iff, N.eqb_neq; assumption|apply N.leb_le; assumption]].
    apply alookup_in. rewrite Hl, Hlf. reflexivity.
Qed.

Lemma alookup_map_h p : forall (l : list (N * pg)),
  alookup p (map (fun kv => (fst kv, pg_h (snd kv))) l) = option_map pg_h (alookup p l).
Proof. induction l as [|[k v] l IH]; cbn [map alookup fst snd]; [reflexivity|]. destruct (p =? k); [reflexivity|exact IH]. Qed.

(* what a WAL transaction contributes: the checksum of the last frame of every page it wrote, the lock page and the pages
   beyond the size its commit frame names left out *)
Lemma tx_new_lookup s frames commit p : alookup p (tx_new s frames commit) =
  if negb (p =? lockpg s) && (p <=? commit) then option_map pg_h (last_frame p frames) else None.
Proof.
  unfold tx_new. rewrite alookup_map_h.
  destruct (alookup p (tx_pages s frames commit)) as [q|] eqn:E.
  - apply alookup_in, tx_pages_in in E. destruct E as [A [B C]]. rewrite C.
    destruct (N.eqb_spec p (lockpg s)); [contradiction|]. destruct (N.leb_spec p commit); [reflexivity|lia].
  - destruct (negb (p =? lockpg s) && (p <=? commit)) eqn:Ec; [|reflexivity].
    apply andb_true_iff in Ec. destruct Ec as [A B]. apply negb_true_iff, N.eqb_neq in A. apply N.leb_le in B.
    destruct (last_frame p frames) as [q|] eqn:El; [|reflexivity].
    assert (In (p, q) (tx_pages s frames commit)) as Hin by (apply tx_pages_in; auto).
    apply (in_alookup_nodup p q _ (tx_pages_keys s frames commit)) in Hin. congruence.
Qed.

Lemma last_frame_fold p : forall (r : list (N * pg)) o,
  fold_left (fun o kv => if p =? fst kv then Some (snd kv) else o) r o =
  match last_frame p r with Some q => Some q | None => o end.
Proof.
  unfold last_frame. induction r as [|[k v] r IH]; intros o; cbn [fold_left fst snd]; [reflexivity|].
  rewrite (IH (if p =? k then Some v else o)), (IH (if p =? k then Some v else None)).
  destruct (fold_left _ r None); [reflexivity|]. destruct (p =? k); reflexivity.
Qed.
Lemma last_frame_cons p k v r : last_frame p ((k, v) :: r) =
  match last_frame p r with Some q => Some q | None => if p =? k then Some v else None end.
Proof. unfold last_frame at 1. cbn [fold_left fst snd]. apply last_frame_fold. Qed.
Lemma last_frame_some p q : forall frames, In (p, q) frames -> last_frame p frames <> None.
Proof.
  induction frames as [|[k v] r IH]; intros Hin; [destruct Hin|]. rewrite last_frame_cons.
  destruct Hin as [E|Hin].
  - inversion E; subst. destruct (last_frame p r); [discriminate|]. rewrite N.eqb_refl. discriminate.
  - specialize (IH Hin). destruct (last_frame p r); [discriminate|contradiction].
Qed.
Lemma last_frame_in p q : forall frames, last_frame p frames = Some q -> In (p, q) frames.
Proof.
  induction frames as [|[k v] r IH]; intros H; [discriminate|]. rewrite last_frame_cons in H.
  destruct (last_frame p r) as [q'|].
  - right. apply IH. congruence.
  - destruct (N.eqb_spec p k) as [->|_]; [|discriminate]. inversion H; subst. left. reflexivity.
Qed.

Lemma truncated_pages_keys s : forall n start new0 new,
  truncated_pages s start n new0 = Some new -> KeysNoDup new0 -> KeysNoDup new.
Proof.
  induction n as [|n IH]; intros start new0 new H Hk; cbn [truncated_pages] in H.
  - inversion H; subst; assumption.
  - destruct (pageN s <? start); [inversion H; subst; assumption|].
    destruct (start =? lockpg s); [apply (IH _ _ _ H Hk)|].
    destruct (read_page s start) as [q|]; [|discriminate].
    destruct (page_chk s start (pageN s) []) as [c ok]. destruct (c =? pg_h q); [|discriminate].
    apply (IH _ _ _ H). apply aput_keys_nodup. assumption.
Qed.

(* the per-page list of WAL checksums after a commit: one more entry for every page named in [new] *)
Lemma alookup_append_chk : forall new wc p, KeysNoDup new ->
  alookup p (append_chk new wc) =
  match alookup p new with
  | Some c => Some ((match alookup p wc with Some l => l | None => [] end) ++ [c])
  | None => alookup p wc
  end.
Proof.
  induction new as [|[k c] r IH]; intros wc p Hnd; cbn [append_chk alookup]; [reflexivity|].
  unfold KeysNoDup in Hnd. cbn [map fst] in Hnd. inversion Hnd as [|? ? Hn Hd]; subst.
  rewrite (IH _ _ Hd). destruct (N.eqb_spec p k) as [->|Hne].
  - rewrite alookup_none_notin.
    + rewrite alookup_aput, N.eqb_refl. reflexivity.
    + intros kv Hin E. apply Hn. apply in_map_iff. exists kv. split; assumption.
  - rewrite alookup_aput. destruct (N.eqb_spec p k); [contradiction|]. reflexivity.
Qed.
Lemma last_or0_snoc l c : last_or0 (l ++ [c]) = Some c.
Proof. unfold last_or0. rewrite rev_app_distr. reflexivity. Qed.

Lemma ignored_of_walkey s new blockN p l :
  alookup p (wal_chk s) = Some l -> block_of p < blockN -> ignored s new blockN (block_of p) = true.
Proof.
  intros Hl Hb. unfold ignored. apply orb_true_iff. left. apply existsb_exists.
  exists (p, l). split; [apply alookup_in; assumption|]. cbn [fst].
  apply andb_true_iff. split; [apply N.eqb_refl|apply N.ltb_lt; assumption].
Qed.

(* what CommitWAL leaves in its picture of the log: the frames, the last one carrying the size *)
Definition tx_frames (frames : list (N * pg)) (commit : N) : list (N * pg * N) :=
  map (fun kv => (fst kv, snd kv, 0)) (removelast frames) ++
  match rev frames with (p, q) :: _ => [(p, q, commit)] | [] => [] end.

(* ---- CommitWAL, with what a history needs: beyond the database size a page's cache slot is empty or the page has WAL
   entries (it was cut off by an earlier WAL commit) ---- *)
Lemma commit_wal_gen s frames commit s' :
  CacheOK s -> LockZero s -> (forall p, pageN s < p -> dbc s p = 0 \/ alookup p (wal_chk s) <> None) ->
  op_commit_wal s frames commit = (Done, s') ->
  exists new,
    truncated_pages s (commit + 1) (N.to_nat (pageN s)) (tx_new s frames commit) = Some new /\
    chk s' = scratch (eff s commit (tx_new s frames commit)) commit /\
    txid s' = txid s + 1 /\ pageN s' = commit /\ CacheOK s' /\ (forall p, dbc s' p = dbc s p) /\
    wal_chk s' = append_chk new (wal_chk s) /\ writeable s' = true /\ lockpg s' = lockpg s /\
    wal_mode s' = match alookup 1 (tx_pages s frames commit) with Some q => pg_wal q | None => wal_mode s end /\
    wal_file s' = wal_file s ++ tx_frames frames commit /\ dbfile s' = dbfile s.
Proof.
  intros HC HL HT H. unfold op_commit_wal in H. fold (tx_pages s frames commit) in H. fold (tx_new s frames commit) in H.
  destruct (truncated_pages s (commit + 1) (N.to_nat (pageN s)) (tx_new s frames commit)) as [new|] eqn:Etr; [|discriminate].
  destruct (truncated_pages_spec s _ _ _ _ Etr) as [T1 T2].
  pose proof (checksum_same s commit new) as HS. pose proof (checksum_cacheok s commit new HC) as HC2.
  destruct (checksum s commit new) as [[post|] s1] eqn:Eck; [|discriminate]. cbn [snd] in HS, HC2.
  destruct (writeable s1) eqn:Ew1; cbn [negb] in H; [|discriminate].
  inversion H; subst s'. clear H.
  assert (Pre s commit new) as HP.
  { constructor; [assumption| |assumption]. intros p Hp Hb Hig.
    destruct (N.le_gt_cases p (pageN s)) as [Hle|Hgt].
    - destruct (N.eq_dec p (lockpg s)) as [->|Hnl]; [exact HL|].
      exfalso. assert (alookup p new <> None) as Hk by (apply T2; lia).
      destruct (alookup p new) as [v|] eqn:El; [|congruence].
      rewrite (ignored_of_key s new _ p v El Hb) in Hig. discriminate.
    - destruct (HT p Hgt) as [Hz|Hw]; [exact Hz|]. exfalso.
      destruct (alookup p (wal_chk s)) as [l|] eqn:El; [|congruence].
      rewrite (ignored_of_walkey s new _ p l El Hb) in Hig. discriminate. }
  pose proof (checksum_is_scratch s commit new post s1 HP Eck) as Hpost.
  pose proof (dbc_samebut s s1 HS) as Hdbc.
  destruct HS as [S1 [S2 [S3 [_ [S5 [_ [S7 [_ [S9 _]]]]]]]]].
  exists new. split; [reflexivity|].
  cbn [chk txid pageN wal_chk writeable lockpg wal_mode wal_file dbfile with_pos with_wal].
  split.
  { rewrite Hpost. unfold scratch. f_equal. f_equal. apply map_ext_in. intros p Hp. apply seqN_in in Hp.
    unfold eff, page_chk. rewrite T1 by lia. reflexivity. }
  split; [reflexivity|]. split; [reflexivity|]. split; [exact HC2|].
  split. { intros p. change (dbc s1 p = dbc s p). apply Hdbc. }
  split; [rewrite S7; reflexivity|]. split; [exact Ew1|]. split; [exact S2|].
  split; [rewrite S5; reflexivity|]. split; [rewrite S9; reflexivity|exact S3].
Qed.

(* ---- between WAL transactions ---- *)
(* [v] is the logical database: the checksum of the current version of every page *)
Record WL (s : st) (v : N -> N) : Prop := {
  w_w : writeable s = true; w_mode : wal_mode s = true; w_lk1 : 1 <= lockpg s;
  w_cache : CacheOK s; w_lz : LockZero s;
  w_view : forall p, 1 <= p <= pageN s -> p <> lockpg s -> eff s (pageN s) [] p = v p;
  w_tail : forall p, pageN s < p -> dbc s p = 0 \/ alookup p (wal_chk s) <> None;
  w_chk : chk s = scratch (fun p => if p =? lockpg s then 0 else v p) (pageN s)
}.

(* the logical database after a WAL transaction: its last frame for every page it wrote within the new size *)
Definition overlay (lock : N) (frames : list (N * pg)) (commit : N) (v : N -> N) : N -> N :=
  fun p => if negb (p =? lock) && (p <=? commit)
           then match last_frame p frames with Some q => pg_h q | None => v p end
           else v p.

(* what SQLite guarantees about a WAL transaction: every page the database gains is among the frames; page 1, if written,
   still carries the WAL versions *)
Definition wf_wal (s : st) (frames : list (N * pg)) (commit : N) : Prop :=
  (forall p, pageN s < p <= commit -> p <> lockpg s -> exists q, In (p, q) frames) /\
  (forall q, In (1, q) frames -> pg_wal q = true).

Lemma w_step s v frames commit s' : WL s v -> wf_wal s frames commit -> op_commit_wal s frames commit = (Done, s') ->
  WL s' (overlay (lockpg s) frames commit v) /\ lockpg s' = lockpg s /\ txid s' = txid s + 1 /\ pageN s' = commit.
Proof.
  intros [Ww Wm Wl Wc Wz Wv Wt Wk] [Hg Hp1] H.
  destruct (commit_wal_gen s frames commit s' Wc Wz Wt H) as [new [Etr [C1 [C2 [C3 [C4 [C5 [C6 [C7 [C8 [C9 _]]]]]]]]]]].
  destruct (truncated_pages_spec s _ _ _ _ Etr) as [T1 T2].
  pose proof (truncated_pages_keys s _ _ _ _ Etr (tx_new_keys s frames commit)) as Hkn.
  assert (Hov : forall p, 1 <= p <= commit -> p <> lockpg s ->
                 eff s commit (tx_new s frames commit) p = overlay (lockpg s) frames commit v p).
  { intros p Hp Hnl. unfold eff, page_chk, overlay. rewrite tx_new_lookup.
    destruct (N.eqb_spec p (lockpg s)); [contradiction|]. destruct (N.ltb_spec commit p); [lia|].
    destruct (N.leb_spec p commit); [|lia]. cbn [negb andb].
    destruct (last_frame p frames) as [q|] eqn:El; cbn [option_map fst]; [reflexivity|].
    assert (p <= pageN s) as Hle.
    { destruct (N.le_gt_cases p (pageN s)); [assumption|]. destruct (Hg p ltac:(lia) Hnl) as [q Hq].
      apply last_frame_some in Hq. congruence. }
    rewrite <- (Wv p ltac:(lia) Hnl). unfold eff, page_chk.
    destruct (N.eqb_spec p (lockpg s)); [contradiction|]. destruct (N.ltb_spec (pageN s) p); [lia|].
    cbn [alookup]. reflexivity. }
  split; [|split; [exact C8|split; assumption]].
  constructor.
  - exact C7.
  - rewrite C9. destruct (alookup 1 (tx_pages s frames commit)) as [q|] eqn:E1; [|exact Wm].
    apply alookup_in, tx_pages_in in E1. destruct E1 as [_ [_ E1]]. apply Hp1. apply last_frame_in. exact E1.
  - rewrite C8. exact Wl.
  - exact C4.
  - unfold LockZero. rewrite C8, C5. exact Wz.
  - intros p Hp Hnl. rewrite C3 in *. rewrite C8 in Hnl. rewrite <- (Hov p Hp Hnl).
    unfold eff, page_chk. rewrite C8, C6. change (db_page_chk s' p) with (dbc s' p). rewrite C5. fold (dbc s p).
    rewrite (alookup_append_chk _ _ _ Hkn). rewrite (T1 p) by lia. cbn [alookup].
    destruct (p =? lockpg s); [reflexivity|]. destruct (commit <? p); [reflexivity|].
    destruct (alookup p (tx_new s frames commit)) as [c|]; [|reflexivity].
    rewrite last_or0_snoc. reflexivity.
  - intros p Hp. rewrite C3 in Hp. rewrite C5, C6, (alookup_append_chk _ _ _ Hkn).
    destruct (N.le_gt_cases p (pageN s)) as [Hle|Hgt].
    + destruct (N.eq_dec p (lockpg s)) as [->|Hnl]; [left; exact Wz|]. right.
      assert (alookup p new <> None) as Hk by (apply T2; lia).
      destruct (alookup p new); [discriminate|congruence].
    + destruct (Wt p Hgt) as [Hz|Hw]; [left; exact Hz|right]. destruct (alookup p new); [discriminate|exact Hw].
  - rewrite C1, C3, C8. apply scratch_ext. intros p Hp.
    destruct (N.eqb_spec p (lockpg s)) as [->|Hnl]; [|apply Hov; assumption].
    unfold eff, page_chk. rewrite N.eqb_refl. reflexivity.
Qed.

(* entering WAL mode: the database file is the logical database *)
Lemma wl_entry s : JB s -> wal_mode s = true -> wal_chk s = [] -> txid s <> 0 -> WL s (file_h s).
Proof.
  intros [A B C D E F G] Hm Hk Ht. constructor; try assumption.
  - intros p Hp Hnl. unfold eff, page_chk. rewrite Hk. destruct (N.eqb_spec p (lockpg s)); [contradiction|].
    destruct (N.ltb_spec (pageN s) p); [lia|]. cbn [alookup fst]. apply E; assumption.
  - intros p Hp. left. apply F. assumption.
  - apply G. assumption.
Qed.

(* ---- histories ---- *)
Definition wstep := (list (N * pg) * N)%type.      (* the frames of one committed WAL transaction, the size its commit frame names *)
Fixpoint run_wal (s : st) (v : N -> N) (ws : list wstep) : option (st * (N -> N)) :=
  match ws with
  | [] => Some (s, v)
  | (fr, c) :: r => match op_commit_wal s fr c with
                    | (Done, s') => run_wal s' (overlay (lockpg s) fr c v) r
                    | _ => None
                    end
  end.
Fixpoint wf_wals (s : st) (ws : list wstep) : Prop :=
  match ws with
  | [] => True
  | (fr, c) :: r => wf_wal s fr c /\ forall s', op_commit_wal s fr c = (Done, s') -> wf_wals s' r
  end.

Theorem wal_history_invariant : forall ws s v s' v',
  WL s v -> wf_wals s ws -> run_wal s v ws = Some (s', v') -> WL s' v' /\ lockpg s' = lockpg s.
Proof.
  induction ws as [|[fr c] r IH]; intros s v s' v' HW Hwf H; cbn [run_wal wf_wals] in *.
  - inversion H; subst. split; [exact HW|reflexivity].
  - destruct Hwf as [Hw Hrest]. destruct (op_commit_wal s fr c) as [oc s1] eqn:E.
    destruct oc; try discriminate. destruct (w_step s v fr c s1 HW Hw E) as [HW1 [El1 _]].
    destruct (IH s1 _ s' v' HW1 (Hrest s1 eq_refl) H) as [HW' El']. split; [exact HW'|congruence].
Qed.

(* C04 for every history of this shape from an empty node: any rollback-journal history [hs]; the transaction that rewrites
   page 1 with the WAL versions; any number of WAL commits [ws].  The position's checksum is the from-scratch checksum of
   the logical database [v'] - computed from the file at the switch and the frames alone - and what LiteFS would answer
   for any page's checksum is that page's entry in it. *)
Theorem wal_history_checksum lock hs zf acts c ws s1 s2 s' v' :
  1 <= lock -> wf_hist (init lock) hs -> run_hsteps (init lock) hs = Some s1 ->
  wf_tx_any s1 zf acts -> run_group s1 (hops s1 (HTx zf acts c)) = (0, s2) -> wal_mode s2 = true ->
  wf_wals s2 ws -> run_wal s2 (file_h s2) ws = Some (s', v') ->
  chk s' = scratch (fun p => if p =? lock then 0 else v' p) (pageN s') /\
  (forall p, 1 <= p <= pageN s' -> p <> lock -> eff s' (pageN s') [] p = v' p) /\ lockpg s' = lock.
Proof.
  intros Hl Hwf H1 Hsw H2 Hm Hww H3.
  destruct (journal_history_invariant hs (init lock) s1 (j_init lock Hl) Hwf H1) as [HJ El1].
  change (lockpg (init lock)) with lock in El1.
  destruct (tx_step_any s1 zf acts c s2 HJ Hsw H2 Hm) as [HB [Hk [Et [_ El2]]]].
  assert (WL s2 (file_h s2)) as HW by (apply wl_entry; [assumption|assumption|assumption|lia]).
  destruct (wal_history_invariant ws s2 (file_h s2) s' v' HW Hww H3) as [HW' El'].
  assert (lockpg s' = lock) as El by congruence.
  destruct HW'. rewrite El in *. split; [assumption|]. split; [assumption|reflexivity].
Qed.

(* a concrete history that meets the hypotheses (the non-vacuity example of Props/C04.v): two pages in rollback-journal mode,
   the switch, then three WAL transactions - one grows the database and writes page 2 twice, one shrinks it, one grows it
   again *)
Lemma wal_history_example :
  let pg h := mkPg (fl h) 0 false in
  let pw h := mkPg (fl h) 0 true in
  let hs := [HTx [] [AWrite 1 (pg 11); AWrite 2 (pg 12)] 2] in
  let sw := [AWrite 1 (pw 13)] in
  let ws : list wstep := [([(2, pw 22); (3, pw 33); (2, pw 23)], 3); ([(1, pw 14)], 2); ([(3, pw 35); (1, pw 15)], 3)] in
  exists s1 s2,
    wf_hist (init 2097153) hs /\ run_hsteps (init 2097153) hs = Some s1 /\
    wf_tx_any s1 [] sw /\ run_group s1 (hops s1 (HTx [] sw 2)) = (0, s2) /\ wal_mode s2 = true /\
    wf_wals s2 ws /\
    match run_wal s2 (file_h s2) ws with
    | Some (s', v') => (txid s', pageN s', chk s' =? fl (N.lxor (N.lxor (fl 15) (fl 23)) (fl 35)), v' 2 =? fl 23) = (5, 3, true, true)
    | None => False
    end.
Proof.
  cbn zeta. eexists. eexists.
  split. { cbn [wf_hist wf_step]. split; [|intros; exact I]. split; [constructor|]. split; [intros ? ? []|].
           repeat constructor; cbn; lia. }
  split. { vm_compute. reflexivity. }
  split. { split; [constructor|]. split; [intros ? ? []|]. constructor; [|constructor]. split; [lia|discriminate]. }
  split. { vm_compute. reflexivity. }
  split. { reflexivity. }
  split; [|vm_compute; reflexivity].
  Ltac one_of H := cbn [In] in H; repeat (destruct H as [H|H]; [inversion H; subst; reflexivity|]); destruct H.
  cbn [wf_wals]. split.
  { split; [|intros q H; one_of H]. cbn [pageN lockpg]. intros p Hp _. assert (p = 3) as -> by lia. eexists. cbn [In]. auto. }
  intros sa Ea. vm_compute in Ea. inversion Ea; subst sa; clear Ea. split.
  { split; [|intros q H; one_of H]. cbn [pageN lockpg]. intros p Hp _. lia. }
  intros sb Eb. vm_compute in Eb. inversion Eb; subst sb; clear Eb. split.
  { split; [|intros q H; one_of H]. cbn [pageN lockpg]. intros p Hp _. assert (p = 3) as -> by lia. eexists. cbn [In]. auto. }
  intros sc _. exact I.
Qed.
