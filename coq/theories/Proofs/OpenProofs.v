(* C04 across a restart: Open recomputes every page checksum from the database file and re-applies the last transaction
   file; if it succeeds, the position's checksum is the from-scratch checksum of the file and the cache is the file's -
   whatever the state before. *)
From Coq Require Import NArith List Lia ZifyN ZifyNat ZifyBool Bool Arith.
Require Import LF.Gen.ConstsGen LF.Model.PageDB LF.Proofs.XorLib LF.Proofs.ChecksumProofs LF.Proofs.CaptureProofs
  LF.Proofs.HistoryProofs LF.Proofs.WalHistoryProofs LF.Proofs.WalCheckpointProofs LF.Proofs.ApplyHistoryProofs LF.Proofs.ChainProofs.
Import ListNotations.
Local Open Scope N_scope.

(* the state Open builds before it re-applies the last file *)
Definition open_recomputed (s : st) : st :=
  let '(pN0, wal0) := match file_hdr s with Some (n, w) => (n, w) | None => (0, false) end in
  let s0 := mkSt (writeable s) (lockpg s) (dbfile s) pN0 wal0 [] [] [] [] (wal_file s) [] 0 0 (ltxdir s) in
  let '(_, s1) := op_checkpoint s0 in
  let '(pN1, wal1) := match file_hdr s1 with Some (n, w) => (n, w) | None => (0, false) end in
  let pages := map (fun p => pg_h p) (firstn (N.to_nat pN1) (dbfile s1)) in
  let pages := pages ++ repeat 0 (N.to_nat pN1 - length pages) in
  let pages := if (1 <=? lockpg s1) && (lockpg s1 <=? lenN pages) then set_nth pages (N.to_nat (lockpg s1 - 1)) 0 else pages in
  let blocks := repeat 0 (N.to_nat (block_of pN1)) in
  mkSt (writeable s1) (lockpg s1) (dbfile s1) pN1 wal1 pages blocks [] [] [] [] 0 0 (ltxdir s1).

Lemma op_open_eq s : op_open s =
  match rev (ltxdir (open_recomputed s)) with
  | [] => (Done, open_recomputed s)
  | f :: _ => op_apply (open_recomputed s) f false
  end.
Proof.
  unfold op_open, open_recomputed.
  destruct (match file_hdr s with Some (n, w) => (n, w) | None => (0, false) end) as [pN0 wal0].
  match goal with |- context [op_checkpoint ?x] => destruct (op_checkpoint x) as [o1 s1] end.
  destruct (match file_hdr s1 with Some (n, w) => (n, w) | None => (0, false) end) as [pN1 wal1].
  reflexivity.
Qed.

Lemma lockpg_fold_write : forall pages s, lockpg (fold_left (fun a kv => write_db_page a (fst kv) (snd kv)) pages s) = lockpg s.
Proof. induction pages as [|kv r IH]; intros s; cbn [fold_left]; [reflexivity|]. rewrite IH. reflexivity. Qed.
Lemma lockpg_clear_from : forall m s i, lockpg (clear_from s m i) = lockpg s.
Proof.
  induction m as [|m IH]; intros s i; cbn [clear_from]; [reflexivity|].
  destruct (i <? lenN (chk_pages s)); [rewrite IH|]; reflexivity.
Qed.
Lemma lockpg_checkpoint s : lockpg (snd (op_checkpoint s)) = lockpg s.
Proof.
  unfold op_checkpoint. destruct (wal_committed _ _ _ _) as [pages lastc]. cbn [snd lockpg with_wal].
  destruct pages as [|kv pages]; [reflexivity|]. cbn [lockpg with_pos]. unfold truncate_db, reset_after.
  rewrite lockpg_clear_from. cbn [lockpg with_file]. apply lockpg_fold_write.
Qed.

Lemma nth_repeat0 n : forall i, nth i (repeat 0 n) 0 = 0.
Proof. induction n as [|n IH]; intros i; destruct i; cbn; auto. Qed.
Lemma nth_app_zeros (l : list N) k i : nth i (l ++ repeat 0 k) 0 = nth i l 0.
Proof.
  destruct (Nat.lt_ge_cases i (length l)) as [Hlt|Hge].
  - apply app_nth1. assumption.
  - rewrite app_nth2 by assumption. rewrite nth_repeat0. symmetry. apply nth_overflow. assumption.
Qed.
Lemma nth_map_h (l : list pg) : forall i, nth i (map (fun p => pg_h p) l) 0 = h_at l i.
Proof. unfold h_at. induction l as [|x l IH]; intros i; destruct i; cbn; auto. Qed.

Lemma open_recomputed_facts s : 1 <= lockpg s ->
  let s2 := open_recomputed s in
  lockpg s2 = lockpg s /\ CacheOK s2 /\ LockZero s2 /\ wal_chk s2 = [] /\ txid s2 = 0 /\
  (forall x, 1 <= x <= pageN s2 -> x <> lockpg s -> dbc s2 x = file_h s2 x).
Proof.
  intros Hlk. unfold open_recomputed.
  destruct (match file_hdr s with Some (n, w) => (n, w) | None => (0, false) end) as [pN0 wal0].
  match goal with |- context [op_checkpoint ?x] => pose proof (lockpg_checkpoint x) as El; destruct (op_checkpoint x) as [o1 s1] end.
  cbn [snd lockpg] in El.
  destruct (match file_hdr s1 with Some (n, w) => (n, w) | None => (0, false) end) as [pN1 wal1].
  cbn zeta.
  set (pages0 := map (fun p => pg_h p) (firstn (N.to_nat pN1) (dbfile s1)) ++
                 repeat 0 (N.to_nat pN1 - length (map (fun p => pg_h p) (firstn (N.to_nat pN1) (dbfile s1))))).
  set (pages := if (1 <=? lockpg s1) && (lockpg s1 <=? lenN pages0) then set_nth pages0 (N.to_nat (lockpg s1 - 1)) 0 else pages0).
  assert (Hp0 : forall i, nth i pages0 0 = if (i <? N.to_nat pN1)%nat then h_at (dbfile s1) i else 0).
  { intros i. unfold pages0. rewrite nth_app_zeros, nth_map_h. apply firstn_h. }
  split; [exact El|].
  split. { intros b Hb Hnz. exfalso. apply Hnz. unfold nthN. cbn [chk_blocks]. apply nth_repeat0. }
  split.
  { unfold LockZero, dbc, db_page_chk, nthN. cbn [chk_pages lockpg]. unfold pages.
    destruct ((1 <=? lockpg s1) && (lockpg s1 <=? lenN pages0)) eqn:Ec.
    - apply set_nth_same.
    - rewrite El in Ec. destruct (N.leb_spec 1 (lockpg s)); [|lia]. cbn [andb] in Ec. apply N.leb_gt in Ec.
      apply nth_overflow. rewrite El. unfold lenN in Ec. lia. }
  split; [reflexivity|]. split; [reflexivity|].
  intros x Hx Hnl. cbn [pageN] in Hx. unfold dbc, db_page_chk, nthN. cbn [chk_pages].
  assert (nth (N.to_nat (x - 1)) pages 0 = nth (N.to_nat (x - 1)) pages0 0) as ->.
  { unfold pages. destruct ((1 <=? lockpg s1) && (lockpg s1 <=? lenN pages0)); [|reflexivity].
    apply set_nth_other. rewrite El. lia. }
  rewrite Hp0. destruct (Nat.ltb_spec (N.to_nat (x - 1)) (N.to_nat pN1)); [|lia]. reflexivity.
Qed.

Lemma ltxdir_open_recomputed s : ltxdir (open_recomputed s) = ltxdir s.
Proof.
  unfold open_recomputed.
  destruct (match file_hdr s with Some (n, w) => (n, w) | None => (0, false) end) as [pN0 wal0].
  match goal with |- context [op_checkpoint ?x] => pose proof (LF.Proofs.ChainProofs.pos_checkpoint x) as Hc; destruct (op_checkpoint x) as [o1 s1] end.
  destruct (Hc o1 s1 eq_refl) as [_ [_ Ed]]. cbn [ltxdir] in Ed.
  destruct (match file_hdr s1 with Some (n, w) => (n, w) | None => (0, false) end) as [pN1 wal1].
  cbn [ltxdir]. exact Ed.
Qed.

(* C04 across a restart.  [f] is the newest transaction file; the one thing asked beyond its well-formedness: a page it
   would add to the database beyond the size the file header names is among its pages (C02_growth_is_captured for the files a
   primary writes). *)
Theorem open_checksum s f rest s' :
  1 <= lockpg s -> rev (ltxdir s) = f :: rest -> wf_ltx f ->
  (forall x, pageN (open_recomputed s) < x <= l_commit f -> x <> lockpg s -> alookup x (l_pages f) <> None) ->
  op_open s = (Done, s') ->
  RB s' /\ lockpg s' = lockpg s /\ txid s' = l_max f /\ pageN s' = l_commit f /\ chk s' = l_post f /\
  chk s' = scratch (fun p => if p =? lockpg s' then 0 else file_h s' p) (pageN s').
Proof.
  intros Hlk Hr Hwf Hg H. rewrite op_open_eq, ltxdir_open_recomputed, Hr in H.
  destruct (open_recomputed_facts s Hlk) as [El [HC [HL [Hw [_ Ht]]]]]. cbn zeta in *.
  destruct (apply_core (open_recomputed s) f false s') as [A [B C]]; try assumption.
  - rewrite El. exact Hlk.
  - intros x Hx Hnl Hnone. rewrite El in Hnl. apply Ht; [|assumption].
    destruct (N.le_gt_cases x (pageN (open_recomputed s))); [lia|]. exfalso. apply (Hg x); [lia|assumption|assumption].
  - split; [exact A|]. split; [congruence|exact C].
Qed.

(* a concrete state that meets the hypotheses (the non-vacuity example of Props/C04.v): a restart right after a shrinking
   commit, before SQLite's truncate - the file still has 5 pages, the database 3 *)
Lemma open_checksum_example :
  let pg h n := mkPg (fl h) n false in
  let hs := [HTx [] [AWrite 1 (pg 11 2); AWrite 2 (pg 12 0)] 2;
             HTx [(3, pg 33 0); (4, pg 44 0)] [AWrite 1 (pg 21 5); AWrite 5 (pg 55 0)] 5;
             HTx [] [AWrite 2 (pg 92 0); AWrite 1 (pg 31 3)] 3] in
  exists s f rest, run_hsteps (init 2097153) hs = Some s /\
    1 <= lockpg s /\ rev (ltxdir s) = f :: rest /\ wf_ltx f /\
    (forall x, pageN (open_recomputed s) < x <= l_commit f -> x <> lockpg s -> alookup x (l_pages f) <> None) /\
    match op_open s with
    | (Done, s') => (lenN (dbfile s), txid s', pageN s', chk s' =? chk s, lenN (dbfile s'), chk s' =? fl (N.lxor (N.lxor 31 92) 33))
                    = (5, 3, 3, true, 3, true)
    | _ => False
    end.
Proof.
  cbn zeta. eexists. eexists. eexists. split; [vm_compute; reflexivity|].
  split; [cbn; lia|]. split; [vm_compute; reflexivity|].
  split. { split; [intros p q H; cbn [In l_pages] in H; repeat (destruct H as [H|H]; [inversion H; subst; lia|]); destruct H
                  |unfold KeysNoDup; cbn [map fst l_pages]; repeat constructor; cbn [In]; lia]. }
  split; [|vm_compute; reflexivity].
  intros x Hx _. exfalso.
  match type of Hx with (?a < _ <= ?b) =>
    replace a with 3 in Hx by (vm_compute; reflexivity); replace b with 3 in Hx by (vm_compute; reflexivity) end.
  lia.
Qed.
