(* C03 along histories: every committed WAL transaction is captured exactly once, in order, and a checkpoint of any kind
   publishes nothing - the log after any history is one file per transaction, numbered 1, 2, ... *)
From Coq Require Import NArith List Lia ZifyN ZifyNat ZifyBool Bool Arith Sorted.
Require Import LF.Gen.ConstsGen LF.Model.PageDB LF.Proofs.XorLib LF.Proofs.ChecksumProofs LF.Proofs.CaptureProofs
  LF.Proofs.ChainProofs LF.Proofs.ApplyProofs
  LF.Proofs.HistoryProofs LF.Proofs.WalHistoryProofs LF.Proofs.WalCheckpointProofs LF.Proofs.SqlCheckpointProofs
  LF.Proofs.ApplyHistoryProofs LF.Proofs.OpenProofs LF.Proofs.ComposeProofs LF.Proofs.FollowProofs LF.Proofs.FollowWalProofs
  LF.Proofs.LogHistoryProofs.
Import ListNotations.
Local Open Scope N_scope.

(* what one WAL-mode step does to the log: nothing (a checkpoint of any kind), or exactly one file for the next transaction *)
Lemma wop2_log s v o s' : WL s v -> WK s v -> wf_wop2 s o -> run_group s (wop2_ops s o) = (0, s') ->
  (ltxdir s' = ltxdir s /\ txid s' = txid s) \/
  (exists fr c f, o = W2Commit fr c /\ ltxdir s' = ltxdir s ++ [f] /\ l_min f = txid s + 1 /\ l_max f = txid s + 1 /\
                  l_pre f = chk s /\ l_post f = chk s' /\ l_commit f = c /\ txid s' = txid s + 1).
Proof.
  intros HW HK Hwf H. destruct o as [fr c| |p|p q|]; cbn [wop2_ops wf_wop2] in *.
  - apply run_group_one in H. cbn [step] in H.
    destruct (commit_wal_file s fr c s' H) as [f [E1 [E2 [E3 [E4 [E5 [E6 [_ [E8 _]]]]]]]]].
    right. exists fr, c, f. repeat split; auto.
  - apply run_group_one in H. cbn [step] in H. left.
    destruct (pos_checkpoint s Done s' H) as [A [_ C]]. auto.
  - left. destruct (alookup p (wpages s)) as [q|].
    + apply run_group_one in H. cbn [step] in H. unfold op_write_page in H.
      rewrite (w_w s v HW), (w_mode s v HW) in H. cbn [negb] in H. inversion H; subst s'. auto.
    + cbn [run_group] in H. inversion H; subst s'. auto.
  - left. apply run_group_one in H. cbn [step] in H. unfold op_write_page in H.
    rewrite (w_w s v HW), (w_mode s v HW) in H. cbn [negb] in H. inversion H; subst s'. auto.
  - left. destruct (sqlckpt_step s v s' HW HK H) as [_ [_ [_ [Et _]]]].
    destruct (lpage_sqlckpt s v s' HW HK H) as [Ed _]. auto.
Qed.

Theorem wal_log_invariant : forall os s v s' v',
  WL s v -> WK s v -> LogIds s -> wf_wops2 s os -> run_wops2 s v os = Some (s', v') -> LogIds s'.
Proof.
  induction os as [|o r IH]; intros s v s' v' HW HK Hl Hwf H; cbn [run_wops2 wf_wops2] in *.
  - inversion H; subst. exact Hl.
  - destruct Hwf as [Hw Hrest]. destruct (run_group s (wop2_ops s o)) as [code s1] eqn:E. destruct code; [|discriminate].
    destruct (wal_full_history_invariant [o] s v s1 (wop2_view (lockpg s) o v) HW HK) as [HW1 [HK1 _]].
    { cbn [wf_wops2]. split; [exact Hw|intros; exact I]. }
    { cbn [run_wops2]. rewrite E. reflexivity. }
    apply (IH s1 _ s' v' HW1 HK1); [|apply (Hrest s1 eq_refl)|exact H].
    unfold LogIds in *. destruct (wop2_log s v o s1 HW HK Hw E) as [[A B]|[fr [c [f [_ [A [B [C [_ [_ [_ D]]]]]]]]]]].
    + rewrite A, B. exact Hl.
    + rewrite A, D, map_app, Hl. replace (N.to_nat (txid s + 1)) with (S (N.to_nat (txid s))) by lia.
      rewrite seqN_snoc, map_app. cbn [map]. rewrite B, C, N2Nat.id. replace (1 + txid s) with (txid s + 1) by lia. reflexivity.
Qed.

(* C02 + C03 for every history from an empty node: rollback-journal transactions, the switch to WAL mode, then WAL commits and
   checkpoints of every kind - the log holds exactly one file per committed transaction of either kind, the k-th numbered k *)
Theorem wal_log_once_in_order lock hs zf acts c os s1 s2 s' v' :
  1 <= lock -> wf_hist (init lock) hs -> run_hsteps (init lock) hs = Some s1 ->
  wf_tx_any s1 zf acts -> run_group s1 (hops s1 (HTx zf acts c)) = (0, s2) -> wal_mode s2 = true ->
  wf_wops2 s2 os -> run_wops2 s2 (file_h s2) os = Some (s', v') ->
  map (fun f => (l_min f, l_max f)) (ltxdir s') = map (fun t => (t, t)) (seqN 1 (N.to_nat (txid s'))) /\
  length (ltxdir s') = N.to_nat (txid s').
Proof.
  intros Hl Hwf H1 [Hnd [Hzf Hacts]] H2 Hm Hww H3.
  destruct (log_history_invariant hs (init lock) s1 (j_init lock Hl) eq_refl eq_refl Hwf H1) as [Hl1 Hd1].
  destruct (journal_history_invariant hs (init lock) s1 (j_init lock Hl) Hwf H1) as [HJ _].
  pose proof (run_hsteps_wal_file hs (init lock) s1 H1) as Hf1. change (wal_file (init lock)) with (@nil (N * pg * N)) in Hf1.
  pose proof (run_group_wal_file _ s1 s2 (hops_jops s1 (HTx zf acts c)) H2) as Hf2. rewrite Hf1 in Hf2.
  destruct (tx_step_any s1 zf acts c s2 HJ (conj Hnd (conj Hzf Hacts)) H2 Hm) as [HB [Hk [Et _]]].
  (* the switch is a rollback-journal transaction that commits: one more file *)
  assert (LogIds s2) as Hl2.
  { cbn [hops] in H2. rewrite app_assoc, run_group_app in H2.
    destruct (run_group s1 (zf_ops zf ++ act_ops (pageN s1) acts)) as [code sm] eqn:E2. destruct code; [|inversion H2].
    pose proof (same_run s1 _ s1 sm (body_ops_ok false s1 zf acts Hzf Hacts) (same_start s1 Hd1) (j_mode s1 HJ) E2) as SM.
    pose proof (same_run_mode s1 _ s1 sm (body_ops_ok false s1 zf acts Hzf Hacts) (same_start s1 Hd1) (j_mode s1 HJ) E2) as Smode.
    destruct SM as [_ _ _ _ [Ft [Fc [Fd _]]]].
    apply run_group_one in H2. cbn [step] in H2.
    destruct (writeable sm && (pageN sm =? 0) && match dbfile sm with [] => true | _ :: _ => false end).
    - unfold op_invalidate_journal in H2. inversion H2; subst s2. cbn [wal_mode with_dirty] in Hm. congruence.
    - destruct (commit_journal_file sm c s2 H2) as [f [E1 [E2' [E3 _]]]].
      unfold LogIds in *. rewrite E1, Fd, Et, map_app, Hl1. replace (N.to_nat (txid s1 + 1)) with (S (N.to_nat (txid s1))) by lia.
      rewrite seqN_snoc, map_app. cbn [map]. rewrite E2', E3, Ft, N2Nat.id. replace (1 + txid s1) with (txid s1 + 1) by lia. reflexivity. }
  assert (WL s2 (file_h s2)) as HW by (apply wl_entry; [assumption|assumption|assumption|lia]).
  pose proof (wk_entry s2 HB Hf2 Hk) as HK.
  pose proof (wal_log_invariant os s2 (file_h s2) s' v' HW HK Hl2 Hww H3) as A.
  split; [exact A|]. apply (f_equal (@length _)) in A. rewrite !map_length, seqN_length in A. exact A.
Qed.

(* a concrete history that meets the hypotheses (the non-vacuity example of Props/C03.v) *)
Lemma wal_log_example :
  let pg h := mkPg (fl h) 0 false in
  let pw h := mkPg (fl h) 0 true in
  let hs := [HTx [] [AWrite 1 (pg 11); AWrite 2 (pg 12)] 2] in
  let sw := [AWrite 1 (pw 13)] in
  let os := [W2Commit [(2, pw 22); (3, pw 33); (2, pw 23)] 3; W2BackfillOld 2 (pw 22); W2Backfill 2; W2Commit [(1, pw 14)] 2; W2SqlRestart;
             W2Commit [(3, pw 35); (1, pw 15)] 3; W2Checkpoint] in
  exists s1 s2,
    wf_hist (init 2097153) hs /\ run_hsteps (init 2097153) hs = Some s1 /\
    wf_tx_any s1 [] sw /\ run_group s1 (hops s1 (HTx [] sw 2)) = (0, s2) /\ wal_mode s2 = true /\
    wf_wops2 s2 os /\
    match run_wops2 s2 (file_h s2) os with
    | Some (s', v') => (txid s', map (fun f => (l_min f, l_max f)) (ltxdir s'), map (fun f => map fst (l_pages f)) (ltxdir s'))
                       = (5, [(1, 1); (2, 2); (3, 3); (4, 4); (5, 5)], [[1; 2]; [1]; [2; 3]; [1]; [1; 3]])
    | None => False
    end.
Proof.
  cbn zeta. eexists. eexists.
  split. { cbn [wf_hist wf_step]. split; [|intros; exact I]. split; [constructor|]. split; [intros ? ? []|].
           repeat constructor; cbn; lia. }
  split. { vm_compute. reflexivity. }
  split. { split; [constructor|]. split; [intros ? ? []|]. constructor; [|constructor]. split; [lia|discriminate]. }
  split. { vm_compute. reflexivity. }
  split. { reflexivity. }
  split; [|vm_compute; reflexivity].
  Ltac one_of3L H := cbn [In] in H; repeat (destruct H as [H|H]; [inversion H; subst; (reflexivity || lia)|]); destruct H.
  Ltac wal3L tac := split; [split; [cbn [pageN lockpg]; intros p Hp _; tac p Hp|intros q H; one_of3L H]|
                           split; [discriminate|split; [discriminate|intros p q H; one_of3L H]]].
  Ltac grown3bL p Hp := assert (p = 3) as -> by lia; eexists; cbn [In]; auto.
  Ltac nogrowthbL p Hp := lia.
  Ltac nextL s E := intros s E; vm_compute in E; inversion E; subst s; clear E.
  cbn [wf_wops2 wf_wop2]. split. { wal3L grown3bL. }
  nextL sa0 Ea0. split. { split; [cbn [pageN]; lia|vm_compute; discriminate]. }
  nextL sa Ea. split. { cbn [pageN]. lia. }
  nextL sb Eb. split. { wal3L nogrowthbL. }
  nextL sc Ec. split; [exact I|].
  nextL sd Ed. split. { wal3L grown3bL. }
  nextL se Ee. split; [exact I|].
  intros sf _. exact I.
Qed.
