(* C14: the backup sync uploads a gap-free chain, never overwrites the service, converges on an idle primary. *)
From Coq Require Import NArith ZArith List Bool Lia ZifyN ZifyNat ZifyBool Arith.
Require Import LF.Model.PageDB LF.Model.Repl LF.Model.Backup LF.Proofs.ReplProofs.
Import ListNotations.
Local Open Scope N_scope.

Lemma is_zero_spec p : is_zero p = true <-> p = (0, 0).
Proof. destruct p as [a b]. unfold is_zero. cbn. rewrite andb_true_iff, !N.eqb_eq. split; [intros [-> ->]; reflexivity|intros H; inversion H; tauto]. Qed.

Lemma have_range_spec dir : forall n lo, have_range dir lo n = true ->
  forall t, lo <= t < lo + N.of_nat n -> exists f, open_ltx dir t = Some f.
Proof.
  induction n as [|n IH]; intros lo H t Ht; [lia|]. cbn [have_range] in H.
  destruct (open_ltx dir lo) as [f|] eqn:E; [|discriminate].
  destruct (N.eq_dec t lo) as [->|Hne]; [exists f; exact E|]. apply (IH (lo + 1) H). lia.
Qed.
Lemma have_range_complete dir : forall n lo,
  (forall t, lo <= t < lo + N.of_nat n -> exists f, open_ltx dir t = Some f) -> have_range dir lo n = true.
Proof.
  induction n as [|n IH]; intros lo H; [reflexivity|]. cbn [have_range].
  destruct (H lo) as [f E]; [lia|]. rewrite E. apply IH. intros t Ht. apply H. lia.
Qed.

(* what a "send" decision means *)
Lemma send_spec ex lpos dir rpos lo hi : backup_decide ex lpos dir rpos = BSend lo hi ->
  ex = true /\ lo = fst rpos + 1 /\ lo <= hi /\ hi <= fst lpos /\ hi < lo + max_batch /\ fst rpos < fst lpos /\
  (forall t, lo <= t <= hi -> exists f, open_ltx dir t = Some f).
Proof.
  unfold backup_decide, max_batch. destruct ex; cbn [negb]; [|destruct (is_zero rpos); discriminate].
  destruct (is_zero lpos && is_zero rpos); [discriminate|]. destruct (is_zero rpos); [discriminate|].
  destruct (N.ltb_spec (fst lpos) (fst rpos)); [discriminate|].
  destruct (N.eqb_spec (fst rpos) (fst lpos)); [destruct (_ =? _); discriminate|].
  destruct (have_range _ _ _) eqn:Hr; [|discriminate]. intros Hinv; inversion Hinv; subst. clear Hinv.
  repeat split; try lia. intros t Ht. apply (have_range_spec _ _ _ Hr). lia.
Qed.
(* the service is ahead, has another checksum at the same TXID, or a needed file is gone: restore, never send *)
Lemma restore_cases ex lpos dir rpos :
  ex = true -> is_zero rpos = false ->
  (fst lpos < fst rpos -> backup_decide ex lpos dir rpos = BRestore 2) /\
  (fst rpos = fst lpos -> snd rpos <> snd lpos -> backup_decide ex lpos dir rpos = BRestore 3) /\
  (fst rpos < fst lpos -> (exists t, fst rpos < t <= N.min (fst lpos) (fst rpos + max_batch) /\ open_ltx dir t = None) ->
     backup_decide ex lpos dir rpos = BRestore 4).
Proof.
  intros -> Hr. unfold backup_decide. cbn [negb]. rewrite Hr, andb_false_r. repeat split.
  - intros H. destruct (N.ltb_spec (fst lpos) (fst rpos)); [reflexivity|lia].
  - intros H1 H2. destruct (N.ltb_spec (fst lpos) (fst rpos)); [lia|]. rewrite H1, N.eqb_refl.
    destruct (N.eqb_spec (snd rpos) (snd lpos)); [contradiction|reflexivity].
  - intros H [t [Ht Hn]]. destruct (N.ltb_spec (fst lpos) (fst rpos)); [lia|].
    destruct (N.eqb_spec (fst rpos) (fst lpos)); [lia|].
    destruct (have_range _ _ _) eqn:E; [|reflexivity]. exfalso.
    destruct (have_range_spec _ _ _ E t) as [f Hf]; [lia|congruence].
Qed.

Lemma empty_local_adopts dir rpos : 0 < fst rpos -> backup_decide true (0, 0) dir rpos = BRestore 2.
Proof.
  intros H. apply (proj1 (restore_cases true (0, 0) dir rpos eq_refl
    ltac:(unfold is_zero; destruct (N.eqb_spec (fst rpos) 0) as [E|E]; [rewrite E in H; inversion H|reflexivity]))). exact H.
Qed.

(* ---------- the service only ever grows by contiguous files ---------- *)
Fixpoint svc_linked (p : pos) (files : list (N * N * N * N)) : option pos :=
  match files with
  | [] => Some p
  | (mn, mx, pre, post) :: r => if (mn =? fst p + 1) && (pre =? snd p) then svc_linked (mx, post) r else None
  end.
(* started empty: the files form one gap-free chain that ends at the service's position *)
Definition SvcChain (s : svc) : Prop := svc_linked (0, 0) (s_files s) = Some (s_pos s).

Lemma svc_linked_app p a b : svc_linked p (a ++ b) = match svc_linked p a with Some q => svc_linked q b | None => None end.
Proof.
  revert p. induction a as [|[[[mn mx] pre] post] r IH]; intros p; cbn [app svc_linked]; [reflexivity|].
  destruct (_ && _); [apply IH|reflexivity].
Qed.
Lemma svc_write_chain s f s' : SvcChain s -> svc_write s f = Some s' -> SvcChain s'.
Proof.
  unfold SvcChain, svc_write. destruct f as [[[mn mx] pre] post]. intros Hc H.
  destruct ((mn =? fst (s_pos s) + 1) && (pre =? snd (s_pos s))) eqn:E; [|discriminate]. inversion H; subst. cbn [s_files s_pos].
  rewrite svc_linked_app, Hc. cbn [svc_linked]. rewrite E. reflexivity.
Qed.

(* one sync: the service is untouched or extended by one contiguous file; a restore never touches it *)
Lemma sync_service b :
  b_svc (fst (sync b)) = b_svc b \/
  exists f, svc_write (b_svc b) f = Some (b_svc (fst (sync b))) /\ snd (sync b) = OUploaded.
Proof.
  unfold sync. destruct (backup_decide _ _ _ _) as [| | |r|lo hi] eqn:Ed; cbn [fst snd]; try (left; reflexivity).
  - destruct (svc_write _ _) as [s'|] eqn:Ew; cbn [fst snd b_svc]; [|left; reflexivity].
    right. eexists. split; [exact Ew|reflexivity].
  - destruct (is_zero _); cbn; left; reflexivity.
  - destruct (compact _ _ _) as [f|] eqn:Ec; cbn [fst snd]; [|left; reflexivity].
    destruct (svc_write _ f) as [s'|] eqn:Ew; cbn [fst snd b_svc restore]; [|left; reflexivity].
    right. exists f. split; [exact Ew|reflexivity].
Qed.
Lemma sync_keeps_chain b : SvcChain (b_svc b) -> SvcChain (b_svc (fst (sync b))).
Proof.
  intros H. destruct (sync_service b) as [->|[f [Hw _]]]; [exact H|]. eapply svc_write_chain; eassumption.
Qed.

(* the published high-water mark never exceeds what the service acknowledged *)
Lemma sync_hwm b : b_hwm b <= fst (s_pos (b_svc b)) -> b_hwm (fst (sync b)) <= fst (s_pos (b_svc (fst (sync b)))).
Proof.
  intros H. unfold sync. destruct (backup_decide _ _ _ _) as [| | |r|lo hi] eqn:Ed; cbn [fst]; try exact H.
  - unfold svc_write. destruct (_ && _); cbn [fst b_hwm b_svc s_pos]; [lia|exact H].
  - destruct (is_zero _); cbn [fst restore b_hwm b_svc]; exact H.
  - destruct (compact _ _ _) as [[[[mn mx] pre] post]|] eqn:Ec; cbn [fst]; [|exact H].
    unfold svc_write. destruct (_ && _); cbn [fst restore b_hwm b_svc s_pos]; [|exact H].
    unfold compact in Ec. destruct (open_ltx (b_dir b) lo), (open_ltx (b_dir b) hi); inversion Ec; subst. lia.
Qed.

(* authoritative: when the decision is a restore and the service has data, the primary adopts the service's position *)
Lemma restore_adopts b r : backup_decide (b_exists b) (b_lpos b) (b_dir b) (s_pos (b_svc b)) = BRestore r ->
  is_zero (s_pos (b_svc b)) = false ->
  b_lpos (fst (sync b)) = s_pos (b_svc b) /\ b_svc (fst (sync b)) = b_svc b /\ snd (sync b) = ORestored.
Proof. intros Hd Hz. unfold sync. rewrite Hd, Hz. cbn. tauto. Qed.

(* ---------- convergence on an idle primary ---------- *)
(* the primary's history from the service's position on: checksum h t after transaction t, one file per transaction *)
Section Converge.
  Variables (h : N -> N) (dir : list ltxrec) (l : N).
  Hypothesis Hfiles : forall t, 1 <= t <= l -> exists f, open_ltx dir t = Some f /\ l_pre f = h (t - 1) /\ l_post f = h t.
  Hypothesis Hl : 1 <= l.

  Definition on_history (b : bstate) : Prop :=
    b_exists b = true /\ b_lpos b = (l, h l) /\ b_dir b = dir /\
    1 <= fst (s_pos (b_svc b)) <= l /\ snd (s_pos (b_svc b)) = h (fst (s_pos (b_svc b))).

  Lemma sync_progress b : on_history b -> fst (s_pos (b_svc b)) < l ->
    on_history (fst (sync b)) /\
    fst (s_pos (b_svc (fst (sync b)))) = N.min l (fst (s_pos (b_svc b)) + max_batch).
  Proof.
    intros [He [Hp [Hd [Hr Hc]]]] Hlt. set (r := fst (s_pos (b_svc b))) in *.
    set (hi := N.min l (r + max_batch)).
    assert (backup_decide (b_exists b) (b_lpos b) (b_dir b) (s_pos (b_svc b)) = BSend (r + 1) hi) as Ed.
    { unfold backup_decide. rewrite He, Hp, Hd. cbn [negb fst snd].
      assert (is_zero (l, h l) = false) as -> by (unfold is_zero; cbn; destruct (N.eqb_spec l 0); [lia|reflexivity]).
      assert (is_zero (s_pos (b_svc b)) = false) as ->.
      { unfold is_zero. fold r. destruct (N.eqb_spec r 0); [lia|reflexivity]. }
      fold r. destruct (N.ltb_spec l r); [lia|]. destruct (N.eqb_spec r l); [lia|].
      fold hi. rewrite have_range_complete; [reflexivity|].
      intros t Ht. destruct (Hfiles t) as [f [Hf _]]; [unfold hi, max_batch in *; lia|]. exists f. exact Hf. }
    unfold sync. rewrite Ed. unfold compact. rewrite Hd.
    destruct (Hfiles (r + 1)) as [fa [Ea [Pa _]]]; [lia|]. destruct (Hfiles hi) as [fb [Eb [_ Pb]]]; [unfold hi, max_batch; lia|].
    rewrite Ea, Eb. unfold svc_write. fold r. rewrite Pa, Pb.
    replace (r + 1 - 1) with r by lia. rewrite Hc. fold r. rewrite !N.eqb_refl. cbn [andb fst snd b_svc s_pos].
    split; [|reflexivity]. unfold on_history. cbn [b_exists b_lpos b_dir b_svc s_pos fst snd].
    repeat split; try assumption; unfold hi, max_batch; lia.
  Qed.

  Lemma sync_done b : on_history b -> fst (s_pos (b_svc b)) = l -> sync b = (b, OInSync).
  Proof.
    intros [He [Hp [Hd [Hr Hc]]]] Heq. unfold sync, backup_decide. rewrite He, Hp. cbn [negb fst snd].
    assert (is_zero (l, h l) = false) as -> by (unfold is_zero; cbn; destruct (N.eqb_spec l 0); [lia|reflexivity]).
    assert (is_zero (s_pos (b_svc b)) = false) as ->.
    { unfold is_zero. rewrite Heq. destruct (N.eqb_spec l 0); [lia|reflexivity]. }
    rewrite Heq. destruct (N.ltb_spec l l); [lia|]. rewrite N.eqb_refl, Hc, Heq, N.eqb_refl. reflexivity.
  Qed.

  (* n syncs bring the service min(l, r + 256 n) - and then it stays there *)
  Theorem sync_converges n : forall b, on_history b ->
    on_history (sync_n n b) /\
    fst (s_pos (b_svc (sync_n n b))) = N.min l (fst (s_pos (b_svc b)) + max_batch * N.of_nat n).
  Proof.
    induction n as [|n IH]; intros b Hb; cbn [sync_n].
    - split; [exact Hb|]. destruct Hb as [_ [_ [_ [Hr _]]]]. lia.
    - destruct (N.lt_ge_cases (fst (s_pos (b_svc b))) l) as [Hlt|Hge].
      + destruct (sync_progress b Hb Hlt) as [Hb' Hp]. destruct (IH _ Hb') as [A B]. split; [exact A|].
        rewrite B, Hp. unfold max_batch. lia.
      + assert (fst (s_pos (b_svc b)) = l) as E by (destruct Hb as [_ [_ [_ [Hr _]]]]; lia).
        rewrite (sync_done b Hb E). cbn [fst]. destruct (IH b Hb) as [A B]. split; [exact A|]. rewrite B, E. unfold max_batch. lia.
  Qed.
  Corollary sync_reaches_primary n b : on_history b -> l <= fst (s_pos (b_svc b)) + max_batch * N.of_nat n ->
    s_pos (b_svc (sync_n n b)) = (l, h l).
  Proof.
    intros Hb Hn. destruct (sync_converges n b Hb) as [[_ [_ [_ [_ Hc]]]] Hp].
    destruct (s_pos (b_svc (sync_n n b))) as [t c]. cbn [fst snd] in *. rewrite Hc, Hp. f_equal; [lia|f_equal; lia].
  Qed.
End Converge.
