(* C02 along histories: every committing rollback-journal transaction is captured exactly once, in order - the log after
   any history is one file per transaction, numbered 1, 2, ..., each chained to the one before. *)
From Coq Require Import NArith List Lia ZifyN ZifyNat ZifyBool Bool Arith Sorted.
Require Import LF.Gen.ConstsGen LF.Model.PageDB LF.Proofs.XorLib LF.Proofs.ChecksumProofs LF.Proofs.CaptureProofs
  LF.Proofs.ChainProofs LF.Proofs.ApplyProofs
  LF.Proofs.HistoryProofs LF.Proofs.WalHistoryProofs LF.Proofs.WalCheckpointProofs LF.Proofs.ApplyHistoryProofs
  LF.Proofs.OpenProofs LF.Proofs.ComposeProofs LF.Proofs.FollowProofs.
Import ListNotations.
Local Open Scope N_scope.

Lemma seqN_snoc a n : seqN a (S n) = seqN a n ++ [a + N.of_nat n].
Proof. replace (S n) with (n + 1)%nat by lia. rewrite seqN_app. reflexivity. Qed.

(* one file per transaction so far, numbered from 1 *)
Definition LogIds (s : st) : Prop :=
  map (fun f => (l_min f, l_max f)) (ltxdir s) = map (fun t => (t, t)) (seqN 1 (N.to_nat (txid s))).

(* what one step of a history does to the log: nothing, or exactly one file for exactly the next transaction *)
Lemma hstep_log s h s' : J s -> dirty s = [] -> wf_step s h -> run_group s (hops s h) = (0, s') ->
  dirty s' = [] /\
  ((ltxdir s' = ltxdir s /\ txid s' = txid s /\ chk s' = chk s) \/
   (exists f, ltxdir s' = ltxdir s ++ [f] /\ l_min f = txid s + 1 /\ l_max f = txid s + 1 /\ l_pre f = chk s /\
              l_post f = chk s' /\ txid s' = txid s + 1)).
Proof.
  intros HJ Hd Hwf H. destruct h as [zf acts c|n]; cbn [hops wf_step] in *.
  - destruct Hwf as [Hnd [Hzf Hacts]].
    rewrite app_assoc, run_group_app in H.
    destruct (run_group s (zf_ops zf ++ act_ops (pageN s) acts)) as [code s2] eqn:E2. destruct code; [|inversion H].
    pose proof (same_run s _ s s2 (body_ops_ok true s zf acts (fun p q Hin => proj1 (Hzf p q Hin)) Hacts) (same_start s Hd) (j_mode s HJ) E2) as SM.
    destruct SM as [_ _ _ _ [Ft [Fc [Fd _]]]].
    apply run_group_one in H. cbn [step] in H.
    destruct (writeable s2 && (pageN s2 =? 0) && match dbfile s2 with [] => true | _ :: _ => false end).
    + unfold op_invalidate_journal in H. inversion H; subst s'. split; [reflexivity|]. left. cbn [ltxdir txid chk with_dirty]. auto.
    + destruct (commit_journal_file s2 c s' H) as [f [E1 [E2' [E3 [E4 [E5 _]]]]]].
      assert (Hpos' : txid s' = txid s2 + 1 /\ dirty s' = []).
      { clear -H. unfold op_commit_journal in H. destruct (writeable s2); cbn [negb] in H; [|discriminate].
        destruct (journal_pages _ _ _) as [[pages|] sj]; [|discriminate].
        destruct (checksum _ _ _) as [[post|] sx]; [|discriminate]. inversion H; subst. cbn. auto. }
      destruct Hpos' as [Etx Edr]. split; [exact Edr|]. right. exists f. rewrite E1, Fd, E2', E3, E4, Etx, Ft, Fc. repeat split; auto.
  - apply run_group_one in H. cbn [step] in H. destruct (j_truncate s n s' HJ H) as [_ [Et _]].
    unfold op_truncate in H. destruct (N.eqb_spec n (pageN s)) as [->|Hne]; cbn [negb] in H; [|discriminate]. inversion H; subst s'.
    split.
    + unfold truncate_db, reset_after.
      destruct (clear_from_dirty_pn (length (chk_pages (with_file s (firstn (N.to_nat (pageN s)) (dbfile s)))))
                  (with_file s (firstn (N.to_nat (pageN s)) (dbfile s))) (pageN s)) as [A _]. rewrite A. exact Hd.
    + left. destruct (pos_truncate_db s (pageN s)) as [A [B C]]. auto.
Qed.

Theorem log_history_invariant : forall hs s s',
  J s -> dirty s = [] -> LogIds s -> wf_hist s hs -> run_hsteps s hs = Some s' -> LogIds s' /\ dirty s' = [].
Proof.
  induction hs as [|h r IH]; intros s s' HJ Hd Hl Hwf H; cbn [run_hsteps wf_hist] in *.
  - inversion H; subst. auto.
  - destruct Hwf as [Hw Hrest]. destruct (run_group s (hops s h)) as [code s1] eqn:E. destruct code; [|discriminate].
    destruct (j_step s h s1 HJ Hw E) as [HJ1 _].
    destruct (hstep_log s h s1 HJ Hd Hw E) as [Hd1 Hcase].
    apply (IH s1 s' HJ1 Hd1); [|apply (Hrest s1 eq_refl)|exact H].
    unfold LogIds in *. destruct Hcase as [[A [B _]]|[f [A [B [C [_ [_ D]]]]]]].
    + rewrite A, B. exact Hl.
    + rewrite A, D, map_app, Hl. replace (N.to_nat (txid s + 1)) with (S (N.to_nat (txid s))) by lia.
      rewrite seqN_snoc, map_app. cbn [map]. rewrite B, C, N2Nat.id. replace (1 + txid s) with (txid s + 1) by lia. reflexivity.
Qed.

(* C02 for every rollback-journal history from an empty node: the log holds exactly one file per committed transaction, the
   k-th numbered k (that it is also chained - each file's pre-checksum the post-checksum of the one before - is C09's chain
   invariant, proved for every operation) *)
Theorem log_history_once_in_order lock hs s' :
  1 <= lock -> wf_hist (init lock) hs -> run_hsteps (init lock) hs = Some s' ->
  map (fun f => (l_min f, l_max f)) (ltxdir s') = map (fun t => (t, t)) (seqN 1 (N.to_nat (txid s'))) /\
  length (ltxdir s') = N.to_nat (txid s').
Proof.
  intros Hl Hwf H.
  destruct (log_history_invariant hs (init lock) s' (j_init lock Hl) eq_refl eq_refl Hwf H) as [A _].
  split; [exact A|]. apply (f_equal (@length _)) in A. rewrite !map_length, seqN_length in A. exact A.
Qed.

(* a concrete history that meets the hypotheses (the non-vacuity example of Props/C02.v) *)
Lemma log_history_example :
  let pg h := mkPg (fl h) 0 false in
  let hs := [HTx [] [AWrite 1 (pg 11); AWrite 2 (pg 12)] 2;
             HTx [(3, pg 33); (4, pg 44)] [AWrite 1 (pg 21); AWrite 5 (pg 55)] 5;
             HTx [] [AWrite 2 (pg 77); AWrite 7 (pg 70); AWrite 2 (pg 12); ACut] 5;
             HTx [] [AWrite 2 (pg 92)] 3; HTrunc 3] in
  wf_hist (init 2097153) hs /\
  match run_hsteps (init 2097153) hs with
  | Some s => (txid s, map (fun f => (l_min f, l_max f)) (ltxdir s), map (fun f => map fst (l_pages f)) (ltxdir s))
              = (4, [(1, 1); (2, 2); (3, 3); (4, 4)], [[1; 2]; [1; 3; 4; 5]; [2]; [2]])
  | None => False
  end.
Proof.
  cbn zeta. split; [|vm_compute; reflexivity].
  pose proof journal_history_example as H. cbn zeta in H. destruct H as [Hwf _]. exact Hwf.
Qed.
