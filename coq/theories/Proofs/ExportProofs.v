(* C16/C04: what an export reads is the logical database whose from-scratch checksum the position carries - along every
   history into and through WAL mode. *)
From Coq Require Import NArith List Lia ZifyN ZifyNat ZifyBool Bool Arith Sorted Permutation.
Require Import LF.Gen.ConstsGen LF.Model.PageDB LF.Proofs.XorLib LF.Proofs.ChecksumProofs LF.Proofs.CaptureProofs
  LF.Proofs.ChainProofs LF.Proofs.ApplyProofs
  LF.Proofs.HistoryProofs LF.Proofs.WalHistoryProofs LF.Proofs.WalCheckpointProofs LF.Proofs.SqlCheckpointProofs
  LF.Proofs.ApplyHistoryProofs LF.Proofs.OpenProofs LF.Proofs.ComposeProofs LF.Proofs.FollowProofs LF.Proofs.FollowWalProofs.
Import ListNotations.
Local Open Scope N_scope.

Lemma sort_pages_keys l : KeysNoDup l -> KeysNoDup (sort_pages l ([] : list (N * pg))).
Proof.
  intros H. unfold KeysNoDup in *. apply (Permutation_NoDup (l := map fst l)); [|exact H].
  symmetry. rewrite sort_pages_perm. cbn [map]. rewrite app_nil_r. reflexivity.
Qed.
Lemma alookup_sort_pages p l : KeysNoDup l -> alookup p (sort_pages l ([] : list (N * pg))) = alookup p l.
Proof.
  intros Hk. pose proof (sort_pages_keys l Hk) as Hks.
  destruct (alookup p l) as [q|] eqn:E.
  - apply alookup_in in E. apply (in_alookup_nodup p q _ Hks). apply sort_pages_in. left. exact E.
  - destruct (alookup p (sort_pages l [])) as [q'|] eqn:E'; [|reflexivity].
    apply alookup_in, sort_pages_in in E'. destruct E' as [E'|[]]. apply (in_alookup_nodup p q' _ Hk) in E'. congruence.
Qed.

(* LiteFS's index of the log (what readPage consults) names the same version of every page as the log itself *)
Definition LatestEq (s : st) : Prop := forall p, alookup p (wal_latest s) = alookup p (wpages s).

Lemma commit_wal_latest s frames commit s' : op_commit_wal s frames commit = (Done, s') ->
  wal_latest s' = merge_latest (sort_pages (last_versions frames []) []) (wal_latest s).
Proof.
  intros H. unfold op_commit_wal in H.
  destruct (truncated_pages _ _ _ _) as [new|]; [|discriminate].
  pose proof (checksum_same s commit new) as HS.
  destruct (checksum s commit new) as [[post|] s1]; [|discriminate]. cbn [snd] in HS.
  destruct (writeable s1); cbn [negb] in H; [|discriminate]. inversion H; subst s'. clear H.
  destruct HS as [_ [_ [_ [_ [_ [_ [_ [E _]]]]]]]]. cbn [wal_latest with_pos with_wal]. rewrite E. reflexivity.
Qed.

Lemma latest_commit s v fr c s' : WL s v -> WK s v -> LatestEq s -> wf_wal2 s fr c ->
  op_commit_wal s fr c = (Done, s') -> LatestEq s'.
Proof.
  intros HW HK HL [_ [Hne [Hc0 _]]] H p.
  rewrite (commit_wal_latest s fr c s' H), (commit_wpages_lookup s v fr c s' HW HK Hne Hc0 H).
  assert (KeysNoDup (last_versions fr ([] : list (N * pg)))) as Hk by (apply last_versions_keys; constructor).
  rewrite alookup_merge_latest by (apply sort_pages_keys; exact Hk).
  rewrite alookup_sort_pages by exact Hk. rewrite alookup_last_versions_nil, HL. reflexivity.
Qed.

Lemma latest_step s v o s' : WL s v -> WK s v -> LatestEq s -> wf_wop2 s o ->
  run_group s (wop2_ops s o) = (0, s') -> LatestEq s'.
Proof.
  intros HW HK HL Hwf H. destruct o as [fr c| |p|p q|]; cbn [wop2_ops wf_wop2] in *.
  - apply run_group_one in H. cbn [step] in H. apply (latest_commit s v fr c s' HW HK HL Hwf H).
  - apply run_group_one in H. cbn [step] in H. unfold op_checkpoint in H.
    destruct (wal_committed _ _ _ _) as [pages lastc]. inversion H; subst s'. intros x. reflexivity.
  - destruct (alookup p (wpages s)) as [q|].
    + apply run_group_one in H. cbn [step] in H. unfold op_write_page in H.
      rewrite (w_w s v HW), (w_mode s v HW) in H. cbn [negb] in H. inversion H; subst s'. exact HL.
    + cbn [run_group] in H. inversion H; subst s'. exact HL.
  - apply run_group_one in H. cbn [step] in H. unfold op_write_page in H.
    rewrite (w_w s v HW), (w_mode s v HW) in H. cbn [negb] in H. inversion H; subst s'. exact HL.
  - unfold sql_ckpt_ops in H. rewrite run_group_app, (run_wal_writes _ s (w_w s v HW) (w_mode s v HW)) in H.
    cbn [run_group step] in H. destruct (op_truncate _ _) as [oc st1]. destruct oc; cbn [ocode] in H; try (inversion H; fail).
    unfold op_wal_header in H. inversion H; subst s'. intros x. reflexivity.
Qed.

(* what an export (or any reader going through readPage) gets for a page of the database: the logical database's page *)
Lemma read_page_view s v : WL s v -> WK s v -> LatestEq s ->
  forall p q, 1 <= p <= pageN s -> p <> lockpg s -> read_page s p = Some q -> pg_h q = v p.
Proof.
  intros HW HK HL p q Hp Hnl Hr. destruct HW as [Ww Wm Wl Wc Wz Wv Wt Wk].
  destruct HK as [k_scan0 k_last0 k_hash0 k_keys0 k_truth0 k_empty0 k_pos0 k_nodup0 k_in0].
  unfold read_page in Hr. rewrite HL in Hr. destruct (alookup p (wpages s)) as [q'|] eqn:El.
  - inversion Hr; subst q'. apply (k_hash0 p q El); [lia|assumption].
  - assert (~ Cov s p) as Hnc by (intros [Hc|Hc]; [contradiction|lia]).
    assert (alookup p (wal_chk s) = None) as Hnk.
    { destruct (alookup p (wal_chk s)) eqn:Ek; [|reflexivity]. exfalso. apply Hnc. apply (k_keys0 p Hnl). rewrite Ek. discriminate. }
    rewrite <- (Wv p Hp Hnl). rewrite eff_cases by (assumption || lia). rewrite Hnk.
    destruct (k_truth0 p ltac:(lia) Hnl) as [E|[_ Cv]]; [|contradiction]. rewrite E. symmetry. apply file_pg_h. exact Hr.
Qed.

Theorem latest_history_invariant : forall os s v s' v',
  WL s v -> WK s v -> LatestEq s -> wf_wops2 s os -> run_wops2 s v os = Some (s', v') ->
  WL s' v' /\ WK s' v' /\ LatestEq s' /\ lockpg s' = lockpg s.
Proof.
  induction os as [|o r IH]; intros s v s' v' HW HK HL Hwf H; cbn [run_wops2 wf_wops2] in *.
  - inversion H; subst. auto.
  - destruct Hwf as [Hw Hrest]. destruct (run_group s (wop2_ops s o)) as [code s1] eqn:E. destruct code; [|discriminate].
    destruct (wal_full_history_invariant [o] s v s1 (wop2_view (lockpg s) o v) HW HK) as [HW1 [HK1 El1]].
    { cbn [wf_wops2]. split; [exact Hw|intros; exact I]. }
    { cbn [run_wops2]. rewrite E. reflexivity. }
    destruct (IH s1 _ s' v' HW1 HK1 (latest_step s v o s1 HW HK HL Hw E) (Hrest s1 eq_refl) H) as [A [B [C D]]].
    split; [exact A|]. split; [exact B|]. split; [exact C|congruence].
Qed.

(* the rollback-journal part of a history leaves the index of the log empty *)
Lemma clear_from_latest : forall fuel s i, wal_latest (clear_from s fuel i) = wal_latest s.
Proof.
  induction fuel as [|fuel IH]; intros s i; cbn [clear_from]; [reflexivity|].
  destruct (i <? lenN (chk_pages s)); [rewrite IH|]; reflexivity.
Qed.
Lemma clear_after_commit_latest : forall n sx i, wal_latest (clear_after_commit sx n i) = wal_latest sx.
Proof.
  induction n as [|n IH]; intros sx i; cbn [clear_after_commit]; [reflexivity|].
  destruct (i <? lenN (chk_pages sx)); [|reflexivity]. rewrite IH. destruct (i + 1 =? lockpg sx); reflexivity.
Qed.
Lemma commit_journal_latest s c s' : op_commit_journal s c = (Done, s') -> wal_latest s' = wal_latest s.
Proof.
  intros H. unfold op_commit_journal in H. destruct (writeable s); cbn [negb] in H; [|discriminate].
  set (s0 := with_wal s [] (wal_latest s) (wal_file s)) in *.
  destruct (journal_pages s0 c (journal_pgnos s c)) as [[pages|] sj] eqn:Ej; [|discriminate].
  pose proof (journal_pages_samenc c _ _ _ _ Ej) as HSj.
  pose proof (checksum_same (clear_after_commit sj (length (chk_pages sj)) c) c []) as HS.
  destruct (checksum _ c []) as [[post|] s2]; [|discriminate]. cbn [snd] in HS. inversion H; subst s'. clear H.
  destruct HS as [_ [_ [_ [_ [_ [_ [_ [L2 _]]]]]]]]. destruct HSj as [_ [_ [_ [_ [_ [_ [Lj _]]]]]]].
  cbn [wal_latest with_dirty with_pos]. rewrite L2, clear_after_commit_latest, Lj. reflexivity.
Qed.
Lemma jop_latest s o s' : jop o -> step s o = (Done, s') -> wal_latest s' = wal_latest s.
Proof.
  destruct o; cbn [jop]; try contradiction; intros _ H; cbn [step] in H.
  - unfold op_write_page in H. destruct (negb (writeable s)); [discriminate|]. inversion H; subst. destruct (wal_mode s); reflexivity.
  - unfold op_truncate in H. destruct (negb (n =? pageN s)); [discriminate|]. inversion H; subst.
    unfold truncate_db, reset_after. rewrite clear_from_latest. reflexivity.
  - destruct (writeable s && (pageN s =? 0) && match dbfile s with [] => true | _ :: _ => false end).
    + unfold op_invalidate_journal in H. inversion H; subst. reflexivity.
    + apply (commit_journal_latest s commit s' H).
  - inversion H; subst. reflexivity.
  - unfold op_zero_fill in H. inversion H; subst. reflexivity.
Qed.
Lemma run_group_latest : forall ops s s', Forall jop ops -> run_group s ops = (0, s') -> wal_latest s' = wal_latest s.
Proof.
  induction ops as [|o r IH]; intros s s' Hj H; cbn [run_group] in H; [inversion H; reflexivity|].
  inversion Hj as [|? ? Ho Hr]; subst. destruct (step s o) as [oc s1] eqn:E.
  destruct oc; cbn [ocode] in H; try (inversion H; fail).
  rewrite (IH s1 s' Hr H). apply (jop_latest s o s1 Ho E).
Qed.
Lemma run_hsteps_latest : forall hs s s', run_hsteps s hs = Some s' -> wal_latest s' = wal_latest s.
Proof.
  induction hs as [|h r IH]; intros s s' H; cbn [run_hsteps] in H; [inversion H; reflexivity|].
  destruct (run_group s (hops s h)) as [code s1] eqn:E. destruct code; [|discriminate].
  rewrite (IH s1 s' H). apply (run_group_latest _ s s1 (hops_jops s h) E).
Qed.

(* for every history from an empty node into and through WAL mode: the position an export names carries the from-scratch
   checksum of exactly the pages the export reads *)
Theorem export_matches_position lock hs zf acts c os s1 s2 s' v' :
  1 <= lock -> wf_hist (init lock) hs -> run_hsteps (init lock) hs = Some s1 ->
  wf_tx_any s1 zf acts -> run_group s1 (hops s1 (HTx zf acts c)) = (0, s2) -> wal_mode s2 = true ->
  wf_wops2 s2 os -> run_wops2 s2 (file_h s2) os = Some (s', v') ->
  snd (op_export s') = (txid s', chk s') /\
  chk s' = scratch (fun p => if p =? lock then 0 else v' p) (pageN s') /\
  (forall p q, 1 <= p <= pageN s' -> p <> lock -> read_page s' p = Some q -> pg_h q = v' p).
Proof.
  intros Hl Hwf H1 Hsw H2 Hm Hww H3.
  destruct (journal_history_invariant hs (init lock) s1 (j_init lock Hl) Hwf H1) as [HJ El1].
  change (lockpg (init lock)) with lock in El1.
  pose proof (run_hsteps_wal_file hs (init lock) s1 H1) as Hf1. change (wal_file (init lock)) with (@nil (N * pg * N)) in Hf1.
  pose proof (run_group_wal_file _ s1 s2 (hops_jops s1 (HTx zf acts c)) H2) as Hf2. rewrite Hf1 in Hf2.
  pose proof (run_hsteps_latest hs (init lock) s1 H1) as Hl1. change (wal_latest (init lock)) with (@nil (N * pg)) in Hl1.
  pose proof (run_group_latest _ s1 s2 (hops_jops s1 (HTx zf acts c)) H2) as Hl2. rewrite Hl1 in Hl2.
  destruct (tx_step_any s1 zf acts c s2 HJ Hsw H2 Hm) as [HB [Hk [Et [_ El2]]]].
  assert (WL s2 (file_h s2)) as HW by (apply wl_entry; [assumption|assumption|assumption|lia]).
  pose proof (wk_entry s2 HB Hf2 Hk) as HK.
  assert (LatestEq s2) as HL2 by (intros p; rewrite Hl2, (wpages_nil_of_file s2 Hf2); reflexivity).
  destruct (latest_history_invariant os s2 (file_h s2) s' v' HW HK HL2 Hww H3) as [HW' [HK' [HL' El']]].
  assert (lockpg s' = lock) as El by congruence.
  split; [reflexivity|]. split.
  - destruct HW'. rewrite El in *. assumption.
  - intros p q Hp Hnl Hr. apply (read_page_view s' v' HW' HK' HL' p q Hp); [rewrite El; exact Hnl|exact Hr].
Qed.

(* a concrete history that meets the hypotheses (the non-vacuity example of Props/C16.v): at its end the primary's file is
   behind its log - the export reads the logical database, and that is what the position's checksum is the checksum of *)
Lemma export_example :
  let pg h := mkPg (fl h) 0 false in
  let pw h := mkPg (fl h) 0 true in
  let hs := [HTx [] [AWrite 1 (pg 11); AWrite 2 (pg 12)] 2] in
  let sw := [AWrite 1 (pw 13)] in
  let os := [W2Commit [(2, pw 22); (3, pw 33); (2, pw 23)] 3; W2BackfillOld 2 (pw 22); W2Commit [(1, pw 14)] 2; W2Checkpoint;
             W2Commit [(3, pw 35); (1, pw 15)] 3] in
  exists s1 s2,
    wf_hist (init 2097153) hs /\ run_hsteps (init 2097153) hs = Some s1 /\
    wf_tx_any s1 [] sw /\ run_group s1 (hops s1 (HTx [] sw 2)) = (0, s2) /\ wal_mode s2 = true /\
    wf_wops2 s2 os /\
    match run_wops2 s2 (file_h s2) os with
    | Some (s', v') => (op_export s', chk s' =? fl (N.lxor (N.lxor (fl 15) (fl 23)) (fl 35)), map (fpg s') [1; 2; 3])
                       = (([Some (pw 15); Some (pw 23); Some (pw 35)], (5, chk s')), true, [pw 14; pw 23; zero_pg])
    | None => False
    end.
Proof.
  cbn zeta. eexists. eexists.
  split. { cbn [wf_hist wf_step]. split; [|intros; exact I]. split; [constructor|]. split; [intros ? ? []|].
           repeat constructor; cbn; lia. }
  split. { vm_compute. reflexivity. }
  split. { split; [constructor|]. split; [intros ? ? []|]. constructor; [|constructor]. split; [lia|discriminate]. }
  split. { vm_compute. reflexivity. }
  split. { reflexivity. }
  split; [|vm_compute; reflexivity].
  Ltac one_of3E H := cbn [In] in H; repeat (destruct H as [H|H]; [inversion H; subst; (reflexivity || lia)|]); destruct H.
  Ltac wal3E tac := split; [split; [cbn [pageN lockpg]; intros p Hp _; tac p Hp|intros q H; one_of3E H]|
                           split; [discriminate|split; [discriminate|intros p q H; one_of3E H]]].
  Ltac grown3bE p Hp := assert (p = 3) as -> by lia; eexists; cbn [In]; auto.
  Ltac nogrowthbE p Hp := lia.
  Ltac nextE s E := intros s E; vm_compute in E; inversion E; subst s; clear E.
  cbn [wf_wops2 wf_wop2]. split. { wal3E grown3bE. }
  nextE sa0 Ea0. split. { split; [cbn [pageN]; lia|vm_compute; discriminate]. }
  nextE sb Eb. split. { wal3E nogrowthbE. }
  nextE sc Ec. split; [exact I|].
  nextE sd Ed. split. { wal3E grown3bE. }
  intros se _. exact I.
Qed.
