(* C17 proofs: the WAL reader accepts exactly the longest valid prefix; buildTxFrameOffsets finds
   the next committed transaction of that prefix; the journal reader terminates; playback writes
   only inside the database. *)
From Coq Require Import NArith ZArith List Lia ZifyN ZifyNat ZifyBool Bool Arith.
Require Import LF.Base.Bytes LF.Model.WalJournal.
Import ListNotations.
Local Open Scope N_scope.

Lemma skipn_skipn' {A} : forall m n (l : list A), skipn n (skipn m l) = skipn (m + n) l.
Proof.
  induction m as [|m IH]; intros n l; [reflexivity|]. destruct l as [|x l]; [rewrite !skipn_nil; reflexivity|].
  cbn [skipn Nat.add]. apply IH.
Qed.

Lemma app_eq_len {A} : forall (a a' b b' : list A), length a = length a' -> a ++ b = a' ++ b' -> a = a' /\ b = b'.
Proof.
  induction a as [|x a IH]; intros a' b b' HL E; destruct a' as [|y a']; cbn in HL; try lia; [auto|].
  cbn in E. inversion E; subst. destruct (IH a' b b' ltac:(lia) H1) as [-> ->]. auto.
Qed.

(* ---- sub ---- *)
Lemma sub_some b off n r : sub b off n = Some r -> skipn off b = r ++ skipn (off + n) b /\ length r = n.
Proof.
  unfold sub. destruct (Nat.eqb_spec (length (firstn n (skipn off b))) n) as [E|E]; [|discriminate].
  intros H; inversion H; subst r. split; [|assumption].
  rewrite <- (firstn_skipn n (skipn off b)) at 1. f_equal. apply skipn_skipn'.
Qed.
Lemma sub_of_app b off r tl : skipn off b = r ++ tl -> sub b off (length r) = Some r.
Proof.
  intros H. unfold sub. rewrite H, firstn_app, Nat.sub_diag, firstn_all. cbn [firstn]. rewrite app_nil_r, Nat.eqb_refl. reflexivity.
Qed.
Lemma sub_none_short b off n : sub b off n = None -> forall r tl, skipn off b = r ++ tl -> length r <> n.
Proof.
  intros H r tl E Hl. subst n. rewrite (sub_of_app b off r tl E) in H. discriminate.
Qed.
Lemma skipn_app_len {A} (r tl : list A) : skipn (length r) (r ++ tl) = tl.
Proof. rewrite skipn_app, Nat.sub_diag, skipn_all. reflexivity. Qed.

(* one frame at [off]: the reader's test = the spec's frame_bytes_ok *)
Definition frame_test (h : walhdr) (fh data : list N) (c1 c2 : N) : bool :=
  (u32 fh 8 =? wh_salt1 h) && (u32 fh 12 =? wh_salt2 h) && negb (u32 fh 0 =? 0) &&
  (let '(a1, a2) := wal_checksum (wh_be h) c1 c2 (firstn 8 fh) in
   let '(d1, d2) := wal_checksum (wh_be h) a1 a2 data in (d1 =? u32 fh 16) && (d2 =? u32 fh 20)).

Lemma frame_test_ok h fh data c1 c2 :
  length fh = 24%nat -> length data = N.to_nat (wh_ps h) ->
  (frame_test h fh data c1 c2 = true <-> frame_bytes_ok h fh data c1 c2).
Proof.
  intros L1 L2. unfold frame_test, frame_bytes_ok.
  destruct (wal_checksum (wh_be h) c1 c2 (firstn 8 fh)) as [a1 a2].
  destruct (wal_checksum (wh_be h) a1 a2 data) as [d1 d2].
  rewrite !andb_true_iff, negb_true_iff, !N.eqb_eq, N.eqb_neq. tauto.
Qed.

Lemma frame_ok_determines h fh data tl fh' data' tl' c1 c2 :
  length fh = 24%nat -> length data = N.to_nat (wh_ps h) ->
  fh ++ data ++ tl = fh' ++ data' ++ tl' -> frame_bytes_ok h fh' data' c1 c2 -> fh' = fh /\ data' = data.
Proof.
  intros L1 L2 E [L1' [L2' _]].
  destruct (app_eq_len fh fh' _ _ ltac:(lia) E) as [<- E'].
  destruct (app_eq_len data data' _ _ ltac:(lia) E') as [<- _]. auto.
Qed.

(* the reader's frame loop computes the spec's valid prefix *)
Lemma wal_frames_spec h b : forall fuel off c1 c2,
  (length b < fuel + off)%nat ->
  valid_prefix h (skipn off b) c1 c2 (wal_frames fuel h b off c1 c2).
Proof.
  induction fuel as [|fuel IH]; intros off c1 c2 Hf; cbn [wal_frames].
  - constructor. intros fh data tl E [L1 _]. rewrite skipn_all2 in E by lia.
    destruct fh; [cbn in L1; lia|discriminate].
  - set (ps := N.to_nat (wh_ps h)).
    destruct (sub b off 24) as [fh|] eqn:E1.
    2:{ constructor. intros fh data tl E [L1 _]. eapply (sub_none_short b off 24 E1); eassumption. }
    destruct (sub_some _ _ _ _ E1) as [S1 L1].
    destruct (sub b (off + 24) ps) as [data|] eqn:E2.
    2:{ constructor. intros fh' data' tl E [L1' [L2' _]].
        rewrite S1 in E. destruct (app_eq_len fh fh' _ _ ltac:(lia) E) as [<- E'].
        eapply (sub_none_short b (off + 24) ps E2); [exact E'|exact L2']. }
    destruct (sub_some _ _ _ _ E2) as [S2 L2].
    assert (Hsk : skipn off b = fh ++ data ++ skipn (off + 24 + ps) b) by (rewrite S1, S2; reflexivity).
    pose proof (frame_test_ok h fh data c1 c2 L1 L2) as Hiff. unfold frame_test in Hiff.
    assert (Hstop : ((u32 fh 8 =? wh_salt1 h) && (u32 fh 12 =? wh_salt2 h) && negb (u32 fh 0 =? 0) &&
               (let '(a1, a2) := wal_checksum (wh_be h) c1 c2 (firstn 8 fh) in
                let '(d1, d2) := wal_checksum (wh_be h) a1 a2 data in (d1 =? u32 fh 16) && (d2 =? u32 fh 20))) = false ->
              valid_prefix h (skipn off b) c1 c2 []).
    { intros Hfalse. constructor. intros fh' data' tl E Hok'. rewrite Hsk in E.
      destruct (frame_ok_determines h fh data _ fh' data' tl c1 c2 L1 L2 E Hok') as [-> ->].
      apply Hiff in Hok'. congruence. }
    destruct ((u32 fh 8 =? wh_salt1 h) && (u32 fh 12 =? wh_salt2 h)) eqn:Hs; cbn [negb]; [|apply Hstop; reflexivity].
    destruct (u32 fh 0 =? 0) eqn:Hz; cbn [negb andb] in *; [apply Hstop; reflexivity|].
    destruct (wal_checksum (wh_be h) c1 c2 (firstn 8 fh)) as [a1 a2] eqn:Ea.
    destruct (wal_checksum (wh_be h) a1 a2 data) as [d1 d2] eqn:Ed.
    destruct ((d1 =? u32 fh 16) && (d2 =? u32 fh 20)) eqn:Hc; cbn [negb]; [|apply Hstop; reflexivity].
    rewrite Hsk. assert (Hok : frame_bytes_ok h fh data c1 c2) by (apply Hiff; reflexivity).
    pose proof (VP_frame h fh data (skipn (off + 24 + ps) b) c1 c2 (wal_frames fuel h b (off + 24 + ps) d1 d2) Hok) as HV.
    unfold next_ck in HV. rewrite Ea, Ed in HV. cbn [fst snd] in HV. apply HV. apply IH. lia.
Qed.

(* the valid prefix is unique: "exactly the longest prefix" *)
Lemma frame_split_unique h fh data tl fh' data' tl' c1 c2 :
  frame_bytes_ok h fh data c1 c2 -> frame_bytes_ok h fh' data' c1 c2 ->
  fh ++ data ++ tl = fh' ++ data' ++ tl' -> fh = fh' /\ data = data' /\ tl = tl'.
Proof.
  intros [L1 [L2 _]] [L1' [L2' _]] E.
  destruct (app_eq_len fh fh' _ _ ltac:(lia) E) as [<- E'].
  destruct (app_eq_len data data' _ _ ltac:(lia) E') as [<- E'']. auto.
Qed.

Lemma valid_prefix_unique h rest c1 c2 fs : valid_prefix h rest c1 c2 fs ->
  forall fs', valid_prefix h rest c1 c2 fs' -> fs = fs'.
Proof.
  induction 1 as [rest c1 c2 Hno|fh data tl c1 c2 fs Hok Hv IH]; intros fs' H'.
  - inversion H' as [|fh' data' tl' ? ? fs2 Hok' Hv']; subst; [reflexivity|].
    exfalso. eapply Hno; [reflexivity|eassumption].
  - inversion H' as [? ? ? Hno|fh' data' tl' ? ? fs2 Hok' Hv' Eq]; subst.
    + exfalso. eapply Hno; [reflexivity|eassumption].
    + destruct (frame_split_unique _ _ _ _ _ _ _ _ _ Hok' Hok Eq) as [-> [-> ->]].
      f_equal. apply IH. assumption.
Qed.

Theorem wal_reader_is_longest_valid_prefix b h fs :
  wal_read b = (HOk h, fs) ->
  valid_prefix h (skipn 32 b) (wh_ck1 h) (wh_ck2 h) fs /\
  (forall fs', valid_prefix h (skipn 32 b) (wh_ck1 h) (wh_ck2 h) fs' -> fs' = fs).
Proof.
  unfold wal_read. destruct (wal_read_header b) as [h'| |] eqn:E; intros H; inversion H; subst.
  assert (HV : valid_prefix h (skipn 32 b) (wh_ck1 h) (wh_ck2 h) (wal_frames (S (length b)) h b 32 (wh_ck1 h) (wh_ck2 h))) by (apply wal_frames_spec; lia).
  split; [exact HV|]. intros fs' H'. symmetry. eapply valid_prefix_unique; eassumption.
Qed.

(* ---- buildTxFrameOffsets ---- *)
Lemma build_tx_spec h b : forall fuel off c1 c2 acc fs commit endoff d1 d2,
  build_tx fuel h b off c1 c2 acc = Some (fs, commit, endoff, d1, d2) ->
  exists tx, fs = acc ++ tx /\ tx <> [] /\
    (exists rest, valid_prefix h (skipn endoff b) d1 d2 rest /\
                  valid_prefix h (skipn off b) c1 c2 (tx ++ rest)) /\
    f_commit (last tx {| f_pgno := 0; f_commit := 0; f_data := [] |}) = commit /\ commit <> 0 /\
    Forall (fun f => f_commit f = 0) (removelast tx).
Proof.
  induction fuel as [|fuel IH]; intros off c1 c2 acc fs commit endoff d1 d2 H; cbn [build_tx] in H; [discriminate|].
  set (ps := N.to_nat (wh_ps h)) in *.
  destruct (sub b off (24 + ps)) as [fr|] eqn:E1; [|discriminate].
  destruct (sub_some _ _ _ _ E1) as [S1 L1].
  set (fh := firstn 24 fr) in *. set (data := skipn 24 fr) in *.
  assert (Lfh : length fh = 24%nat) by (unfold fh; rewrite firstn_length; lia).
  assert (Ld : length data = ps) by (unfold data; rewrite skipn_length; lia).
  assert (Hsk : skipn off b = fh ++ data ++ skipn (off + 24 + ps) b).
  { rewrite S1. unfold fh, data. rewrite app_assoc, firstn_skipn. f_equal. f_equal. lia. }
  pose proof (frame_test_ok h fh data c1 c2 Lfh Ld) as Hiff. unfold frame_test in Hiff.
  destruct ((u32 fh 8 =? wh_salt1 h) && (u32 fh 12 =? wh_salt2 h)) eqn:Hs; cbn [negb] in H; [|discriminate].
  destruct (u32 fh 0 =? 0) eqn:Hz; cbn [negb andb] in *; [discriminate|].
  destruct (wal_checksum (wh_be h) c1 c2 (firstn 8 fh)) as [a1 a2] eqn:Ea.
  destruct (wal_checksum (wh_be h) a1 a2 data) as [e1 e2] eqn:Ed.
  destruct ((e1 =? u32 fh 16) && (e2 =? u32 fh 20)) eqn:Hc; cbn [negb] in H; [|discriminate].
  assert (Hok : frame_bytes_ok h fh data c1 c2) by (apply Hiff; reflexivity).
  set (f := {| f_pgno := u32 fh 0; f_commit := u32 fh 4; f_data := data |}) in *.
  assert (Hstep : forall rest, valid_prefix h (skipn (off + 24 + ps) b) e1 e2 rest -> valid_prefix h (skipn off b) c1 c2 (f :: rest)).
  { intros rest Hr. rewrite Hsk. pose proof (VP_frame h fh data (skipn (off + 24 + ps) b) c1 c2 rest Hok) as HV. unfold next_ck in HV. rewrite Ea, Ed in HV. apply HV. exact Hr. }
  cbn [f_commit f] in H. destruct (N.eqb_spec (u32 fh 4) 0) as [Ez|Enz]; cbn [negb] in H.
  - destruct (IH _ _ _ _ _ _ _ _ _ H) as [tx [Efs [Hne [[rest [Hr1 Hr2]] [Hl [Hcn Hall]]]]]].
    exists (f :: tx). split; [rewrite Efs, <- app_assoc; reflexivity|]. split; [discriminate|]. split.
    + exists rest. split; [assumption|]. cbn [app]. apply Hstep. assumption.
    + split; [destruct tx; [congruence|exact Hl]|]. split; [assumption|].
      destruct tx as [|t tx']; [congruence|]. cbn [removelast]. constructor; [exact Ez|exact Hall].
  - inversion H; subst. exists [f]. split; [reflexivity|]. split; [discriminate|]. split.
    + exists (wal_frames (S (length b)) h b (off + 24 + ps) d1 d2).
      assert (valid_prefix h (skipn (off + 24 + ps) b) d1 d2 (wal_frames (S (length b)) h b (off + 24 + ps) d1 d2)) as HV by (apply wal_frames_spec; lia).
      split; [exact HV|]. cbn [app]. apply Hstep. exact HV.
    + cbn. split; [reflexivity|]. split; [assumption|constructor].
Qed.

Lemma build_tx_none h b : forall fuel off c1 c2 acc,
  (length b < fuel + off)%nat ->
  build_tx fuel h b off c1 c2 acc = None ->
  forall fs, valid_prefix h (skipn off b) c1 c2 fs -> Forall (fun f => f_commit f = 0) fs.
Proof.
  induction fuel as [|fuel IH]; intros off c1 c2 acc Hf H fs Hv.
  - inversion Hv as [|fh data tl ? ? fs2 Hok Hv' Eq]; subst; [constructor|].
    destruct Hok as [L1 _]. rewrite skipn_all2 in Eq by lia. destruct fh; [cbn in L1; lia|discriminate].
  - cbn [build_tx] in H. set (ps := N.to_nat (wh_ps h)) in *.
    inversion Hv as [|fh data tl ? ? fs2 Hok Hv' Eq]; subst; [constructor|].
    pose proof Hok as [L1 [L2 _]]. fold ps in L2.
    destruct (sub b off (24 + ps)) as [fr|] eqn:E1.
    2:{ exfalso. eapply (sub_none_short b off (24 + ps) E1 (fh ++ data) tl); [rewrite <- app_assoc; symmetry; exact Eq|rewrite app_length; lia]. }
    destruct (sub_some _ _ _ _ E1) as [S1 Lfr].
    assert (fr = fh ++ data) as ->.
    { rewrite <- Eq in S1. rewrite (app_assoc fh data tl) in S1.
      destruct (app_eq_len (fh ++ data) fr _ _ ltac:(rewrite app_length; lia) S1) as [<- _]. reflexivity. }
    assert (F1 : firstn 24 (fh ++ data) = fh).
    { rewrite <- L1 at 1. rewrite firstn_app, Nat.sub_diag, firstn_all. cbn [firstn]. apply app_nil_r. }
    assert (F2 : skipn 24 (fh ++ data) = data).
    { rewrite <- L1 at 1. apply skipn_app_len. }
    rewrite F1, F2 in H.
    pose proof (proj2 (frame_test_ok h fh data c1 c2 L1 L2) Hok) as Ht. unfold frame_test in Ht.
    unfold next_ck in Hv'.
    destruct ((u32 fh 8 =? wh_salt1 h) && (u32 fh 12 =? wh_salt2 h)); [|cbn in Ht; discriminate]. cbn [negb andb] in H, Ht.
    destruct (u32 fh 0 =? 0); [cbn in Ht; discriminate|]. cbn [negb andb] in H, Ht.
    destruct (wal_checksum (wh_be h) c1 c2 (firstn 8 fh)) as [a1 a2].
    destruct (wal_checksum (wh_be h) a1 a2 data) as [e1 e2]. rewrite Ht in H. cbn [negb fst snd f_commit] in H, Hv'.
    destruct (N.eqb_spec (u32 fh 4) 0) as [Ez|Enz]; cbn [negb] in H; [|discriminate].
    constructor; [exact Ez|].
    assert (tl = skipn (off + 24 + ps) b) as Etl.
    { rewrite Nat.add_assoc in S1. rewrite <- Eq in S1. rewrite (app_assoc fh data tl) in S1. apply app_inv_head in S1. exact S1. }
    rewrite Etl in Hv'. eapply IH; [|exact H|exact Hv']. lia.
Qed.

(* ---- journal: playback stays inside the database ---- *)
Lemma playback_inside lock commit recs pg d :
  In (pg, d) (playback lock commit recs) -> 1 <= pg <= commit /\ pg <> lock /\ In (pg, d) recs.
Proof.
  induction recs as [|[p0 d0] r IH]; cbn [playback]; [intros []|].
  destruct (N.eqb_spec p0 0) as [E0|E0]; cbn [orb]; [intros []|].
  destruct (N.eqb_spec p0 lock) as [El|El]; [intros []|].
  destruct (N.ltb_spec commit p0) as [Hlt|Hge].
  - intros H. destruct (IH H) as [A [B C]]. split; [assumption|]. split; [assumption|right; assumption].
  - intros [E|H].
    + inversion E; subst. split; [lia|]. split; [assumption|left; reflexivity].
    + destruct (IH H) as [A [B C]]. split; [assumption|]. split; [assumption|right; assumption].
Qed.

Lemma playback_id lock commit recs :
  (forall pg d, In (pg, d) recs -> 1 <= pg <= commit /\ pg <> lock) -> playback lock commit recs = recs.
Proof.
  induction recs as [|[p0 d0] r IH]; intros H; cbn [playback]; [reflexivity|].
  destruct (H p0 d0 (or_introl eq_refl)) as [[H1 H2] H3].
  destruct (N.eqb_spec p0 0); [lia|]. destruct (N.eqb_spec p0 lock); [congruence|]. cbn [orb].
  destruct (N.ltb_spec commit p0); [lia|]. f_equal. apply IH. intros pg d Hin. apply (H pg d). right; assumption.
Qed.

(* restoring: writing back the pre-images of every journaled page restores a file that differs from the
   pre-transaction image only on journaled pages *)
Definition write_all (recs : list (N * list N)) (file : N -> list N) : N -> list N :=
  fold_left (fun f kv => fun p => if p =? fst kv then snd kv else f p) recs file.
Lemma write_all_spec recs : forall file p,
  write_all recs file p = match find (fun kv => p =? fst kv) (rev recs) with Some kv => snd kv | None => file p end.
Proof.
  unfold write_all. induction recs as [|kv r IH] using rev_ind; intros file p; [reflexivity|].
  rewrite fold_left_app, rev_app_distr. cbn [fold_left rev app find].
  destruct (p =? fst kv); [reflexivity|]. apply IH.
Qed.
Theorem rollback_restores (pre cur : N -> list N) recs :
  (forall pg d, In (pg, d) recs -> d = pre pg) ->
  (forall p, (forall d, ~ In (p, d) recs) -> cur p = pre p) ->
  forall p, write_all recs cur p = pre p.
Proof.
  intros Hpre Hcur p. rewrite write_all_spec.
  destruct (find (fun kv => p =? fst kv) (rev recs)) as [[pg d]|] eqn:E.
  - apply find_some in E. destruct E as [Hin Hb]. apply N.eqb_eq in Hb. cbn [fst snd] in *. subst pg.
    apply in_rev in Hin. apply Hpre. assumption.
  - apply Hcur. intros d Hin. apply in_rev in Hin.
    pose proof (find_none _ _ E (p, d) Hin) as Hn. cbn [fst] in Hn. rewrite N.eqb_refl in Hn. discriminate.
Qed.

(* ---- the journal reader always terminates: rollbackJournal's loop cannot spin ---- *)
Local Open Scope Z_scope.
Definition JInv (r : jr) : Prop := 0 <= j_off r /\ (j_off r = 0 \/ 32 <= j_sector r).

Lemma valid_size_min v m : valid_size v m = true -> m <= v.
Proof. unfold valid_size. rewrite !andb_true_iff, !Z.leb_le. tauto. Qed.

Lemma align_ge x s : 1 <= x -> 0 < s -> x <= ((x - 1) / s + 1) * s.
Proof. intros Hx Hs. pose proof (Z.div_mod (x - 1) s ltac:(lia)). pose proof (Z.mod_pos_bound (x - 1) s Hs). nia. Qed.

Lemma jnext_ok_progress b r r' : JInv r -> jnext b r = JNOk r' ->
  JInv r' /\ j_off r + 32 <= j_off r' /\ j_off r' <= Z.of_nat (length b) /\ 32 <= j_sector r'.
Proof.
  intros [H0 Hsec] H. unfold jnext in H.
  set (size := Z.of_nat (length b)) in *.
  set (off := if j_off r =? 0 then 0 else ((j_off r - 1) / j_sector r + 1) * j_sector r) in *.
  assert (Hoff : j_off r <= off /\ (off = 0 <-> j_off r = 0)).
  { unfold off. destruct (Z.eqb_spec (j_off r) 0) as [E|E]; [lia|].
    destruct Hsec as [?|Hsec]; [lia|]. pose proof (align_ge (j_off r) (j_sector r) ltac:(lia) ltac:(lia)). lia. }
  cbn [j_off j_valid j_frameN j_nonce j_commit j_sector j_ps] in H.
  destruct (sub b (Z.to_nat off) 28) as [hdr|]; [|discriminate].
  destruct (is_zero hdr); [discriminate|].
  destruct ((0 <? off) && negb (bytes_eq (firstn 8 hdr) journal_magic)); [discriminate|].
  destruct (Z.eqb_spec off 0) as [E0|E0].
  - destruct (valid_size (Z.of_N (u32 hdr 20)) 32 && valid_size (if Z.of_N (u32 hdr 24) =? 0 then j_ps r else Z.of_N (u32 hdr 24)) 512) eqn:Hv; cbn [negb] in H; [|discriminate].
    apply andb_true_iff in Hv. destruct Hv as [Hv1 _]. apply valid_size_min in Hv1.
    match type of H with context [if negb (?a =? ?c) then _ else _] => destruct (negb (a =? c)); [discriminate|] end.
    match type of H with context [if ?c then JNEOF _ else _] => destruct c eqn:Hlt; [discriminate|] end.
    inversion H; subst r'. cbn [j_off j_sector]. apply Z.ltb_ge in Hlt. unfold JInv. cbn [j_off j_sector].
    set (sec := Z.of_N (u32 hdr 20)) in *. clearbody sec size off. clear -Hlt Hv1 Hoff H0 E0. lia.
  - destruct Hsec as [Hz|Hsec]; [exfalso; apply E0; apply (proj2 (proj2 Hoff)); exact Hz|].
    match type of H with context [if ?c then JNEOF _ else _] => destruct c eqn:Hlt; [discriminate|] end.
    inversion H; subst r'. cbn [j_off j_sector]. apply Z.ltb_ge in Hlt. unfold JInv. cbn [j_off j_sector].
    clearbody size off. clear -Hlt Hsec Hoff H0 E0. lia.
Qed.

Lemma jread_progress b r pg d r' : jread b r = Some (pg, d, r') -> j_off r <= j_off r' /\ j_sector r' = j_sector r.
Proof.
  unfold jread. destruct (j_frameN r =? 0); [discriminate|].
  destruct (sub b (Z.to_nat (j_off r)) (Z.to_nat (j_ps r + 8))) as [fr|]; [|discriminate].
  destruct (negb _); [discriminate|]. intros H; inversion H; subst. cbn. lia.
Qed.

Lemma jsegment_progress b : forall fuel r acc, j_off r <= j_off (snd (jsegment fuel b r acc)) /\ j_sector (snd (jsegment fuel b r acc)) = j_sector r.
Proof.
  induction fuel as [|fuel IH]; intros r acc; cbn [jsegment]; [cbn; lia|].
  destruct (jread b r) as [[[pg d] r']|] eqn:E; [|cbn; lia].
  destruct (jread_progress _ _ _ _ _ E) as [A B]. destruct (IH r' (acc ++ [(pg, d)])) as [C D]. split; [lia|congruence].
Qed.

Theorem jrun_terminates b ps : snd (jrun (S (length b)) b (jinit ps) []) <> 98%N.
Proof.
  set (size := Z.of_nat (length b)).
  assert (G : forall fuel r acc, JInv r -> snd (jrun fuel b r acc) = 98%N ->
              fuel = 0%nat \/ j_off r + 32 * Z.of_nat fuel <= size).
  { induction fuel as [|fuel IH]; intros r acc HI H; [left; reflexivity|right].
    cbn [jrun] in H. destruct (jnext b r) as [r1|r1|r1] eqn:En; try (cbn in H; discriminate).
    destruct (jnext_ok_progress b r r1 HI En) as [HI1 [Hp [Hle Hs1]]].
    destruct (jsegment (S (length b)) b r1 []) as [recs r2] eqn:Es.
    pose proof (jsegment_progress b (S (length b)) r1 []) as [A B]. rewrite Es in A, B. cbn [snd] in A, B.
    assert (HI2 : JInv r2) by (unfold JInv in *; lia).
    fold size in Hle. rewrite Nat2Z.inj_succ.
    destruct (IH r2 (acc ++ [recs]) HI2 H) as [E|E]; [subst fuel; clear -Hle Hp A; cbn; lia|clear -E Hp A; lia]. }
  intros H98. destruct (G (S (length b)) (jinit ps) [] ltac:(unfold JInv, jinit; cbn; lia) H98) as [E|E]; [discriminate|].
  unfold jinit in E. cbn [j_off] in E. rewrite Nat2Z.inj_succ in E. fold size in E. clear -E. assert (0 <= size) by (unfold size; lia). lia.
Qed.

(* ---- the page size a valid log header names ---- *)
Require Import LF.Proofs.XorLib.
Local Open Scope N_scope.
Lemma wal_ps_ok_aligned v : wal_ps_ok v = true -> v mod 8 = 0.
Proof.
  intros H.
  assert (Hr : 512 <= v < 512 + N.of_nat (N.to_nat 65025)).
  { rewrite N2Nat.id. unfold wal_ps_ok in H. apply andb_true_iff in H. destruct H as [H _].
    apply andb_true_iff in H. destruct H as [H1 H2]. apply N.leb_le in H1. apply N.leb_le in H2. lia. }
  apply seqN_in in Hr.
  assert (A : forallb (fun x => implb (wal_ps_ok x) (x mod 8 =? 0)) (seqN 512 (N.to_nat 65025)) = true) by (vm_compute; reflexivity).
  rewrite forallb_forall in A. specialize (A v Hr). rewrite H in A. cbn [implb] in A. apply N.eqb_eq in A. exact A.
Qed.
Lemma wal_header_page_size b h : wal_read_header b = HOk h -> wal_ps_ok (wh_ps h) = true /\ wh_ps h mod 8 = 0.
Proof.
  unfold wal_read_header. destruct (sub b 0 32) as [hdr|]; [|discriminate].
  destruct (negb _); [discriminate|]. destruct (wal_checksum _ 0 0 _) as [c1 c2].
  destruct (negb (_ && _)); [discriminate|]. destruct (negb (u32 hdr 4 =? 3007000)); [discriminate|].
  destruct (wal_ps_ok (u32 hdr 8)) eqn:E; cbn [negb]; [|discriminate].
  intros H. inversion H; subst. cbn [wh_ps]. split; [assumption|apply wal_ps_ok_aligned; assumption].
Qed.
