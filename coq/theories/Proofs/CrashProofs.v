(* C05: every crash point of a local rollback-journal commit, of a replica's apply and of a snapshot
   recovers to the image before or the image after - decided by the rename of the transaction file. *)
From Coq Require Import NArith List Bool Lia ZifyN ZifyNat ZifyBool Arith.
Require Import LF.Model.PageDB LF.Model.Crash.
Import ListNotations.
Local Open Scope N_scope.

(* ---------- page writes ---------- *)
(* the last value written to page p in a list of writes *)
Fixpoint lastw (p : N) (l : list (N * pg)) : option pg :=
  match l with
  | [] => None
  | (k, q) :: r => match lastw p r with Some x => Some x | None => if k =? p then Some q else None end
  end.

Lemma write_pages_page l : forall f p,
  f_page (write_pages f l) p = match lastw p l with Some q => q | None => f_page f p end.
Proof.
  induction l as [|[k q] r IH]; intros f p; cbn [write_pages fold_left lastw]; [reflexivity|].
  change (fold_left _ r (write_page f (fst (k, q)) (snd (k, q)))) with (write_pages (write_page f k q) r).
  rewrite IH. destruct (lastw p r); [reflexivity|]. cbn [write_page f_page]. unfold upd.
  rewrite (N.eqb_sym p k). destruct (k =? p); reflexivity.
Qed.
Lemma lastw_app p a b : lastw p (a ++ b) = match lastw p b with Some x => Some x | None => lastw p a end.
Proof.
  induction a as [|[k q] r IH]; cbn [app lastw]; [destruct (lastw p b); reflexivity|].
  rewrite IH. destruct (lastw p b); [reflexivity|]. reflexivity.
Qed.
Lemma write_pages_app f a b : write_pages f (a ++ b) = write_pages (write_pages f a) b.
Proof. unfold write_pages. apply fold_left_app. Qed.
Lemma lastw_none_firstn p l k : lastw p l = None -> lastw p (firstn k l) = None.
Proof.
  revert k. induction l as [|[a q] r IH]; intros k H; [destruct k; reflexivity|].
  destruct k; [reflexivity|]. cbn [firstn lastw] in *.
  destruct (lastw p r) eqn:E; [discriminate|]. rewrite (IH k eq_refl). exact H.
Qed.
Lemma lastw_filter p (g : N * pg -> bool) l : (forall q, g (p, q) = true) ->
  lastw p (filter g l) = lastw p l.
Proof.
  intros Hg. induction l as [|[k q] r IH]; cbn [filter lastw]; [reflexivity|].
  destruct (g (k, q)) eqn:E; cbn [lastw]; rewrite IH; [reflexivity|].
  destruct (lastw p r); [reflexivity|]. destruct (N.eqb_spec k p) as [->|]; [rewrite Hg in E; discriminate|reflexivity].
Qed.
Lemma lastw_filter_out p (g : N * pg -> bool) l : (forall q, g (p, q) = false) -> lastw p (filter g l) = None.
Proof.
  intros Hg. induction l as [|[k q] r IH]; cbn [filter lastw]; [reflexivity|].
  destruct (g (k, q)) eqn:E; cbn [lastw]; [|exact IH]. rewrite IH.
  destruct (N.eqb_spec k p) as [->|]; [rewrite Hg in E; discriminate|reflexivity].
Qed.

Lemma same_image_refl a : same_image a a. Proof. split; [reflexivity|intros; reflexivity]. Qed.
Lemma same_image_trans a b c : same_image a b -> same_image b c -> same_image a c.
Proof. intros [S1 P1] [S2 P2]. split; [congruence|]. intros p Hp. rewrite P1 by exact Hp. apply P2. rewrite <- S1. exact Hp. Qed.
Lemma same_image_sym a b : same_image a b -> same_image b a.
Proof. intros [S P]. split; [congruence|]. intros p Hp. symmetry. apply P. rewrite S. exact Hp. Qed.

(* re-applying a file: the result depends only on the pages up to its commit size that it does not carry *)
Lemma reapply_image (a b : file) (f : ltxrec) :
  (forall p, 1 <= p <= l_commit f -> lastw p (l_pages f) = None -> f_page a p = f_page b p) ->
  same_image (truncate (write_pages a (l_pages f)) (l_commit f)) (truncate (write_pages b (l_pages f)) (l_commit f)).
Proof.
  intros H. split; [reflexivity|]. cbn [truncate f_size f_page]. intros p Hp.
  rewrite !write_pages_page. destruct (lastw p (l_pages f)) eqn:E; [reflexivity|]. apply H; assumption.
Qed.

(* ---------- consistency: the database is the image of the newest transaction file ---------- *)
Definition Consistent (d : disk) : Prop :=
  k_journal d = None /\ same_image (k_db (reapply d)) (k_db d).

Lemma disk_pos_reapply d : disk_pos (reapply d) = disk_pos d.
Proof.
  unfold disk_pos, reapply, newest. destruct (rev (k_ltx d)) as [|f r] eqn:E; [rewrite E; reflexivity|].
  cbn [k_ltx]. rewrite E. reflexivity.
Qed.
Lemma recover_consistent d : Consistent d -> same_image (k_db (recover d)) (k_db d).
Proof. intros [Hj Hs]. unfold recover, rollback. rewrite Hj. exact Hs. Qed.

(* ---------- a replica applies a streamed file ---------- *)
Definition after_apply (d0 : disk) (f : ltxrec) : file := truncate (write_pages (k_db d0) (l_pages f)) (l_commit f).

Lemma krun_app d a b : krun d (a ++ b) = krun (krun d a) b.
Proof. unfold krun. apply fold_left_app. Qed.

Lemma krun_writes d l : krun d (map (fun kv => KWritePage (fst kv) (snd kv)) l) =
  {| k_db := write_pages (k_db d) l; k_journal := k_journal d; k_ltx := k_ltx d |}.
Proof.
  revert d. induction l as [|[k q] r IH]; intros d; cbn [map krun fold_left]; [destruct d; reflexivity|].
  change (fold_left kstep _ ?x) with (krun x (map (fun kv => KWritePage (fst kv) (snd kv)) r)).
  rewrite IH. cbn [kstep k_db k_journal k_ltx write_pages fold_left fst snd]. reflexivity.
Qed.

Lemma newest_app (l : list ltxrec) (f : ltxrec) : match rev (l ++ [f]) with x :: _ => Some x | [] => None end = Some f.
Proof. rewrite rev_app_distr. reflexivity. Qed.

(* the states a crash can leave while the pages of f are being written: the file renamed, the first j pages
   written, possibly the final cut *)
Lemma apply_crash_states (d0 : disk) (f : ltxrec) (ltx' : list ltxrec) j (cut : bool) :
  k_journal d0 = None ->
  match rev ltx' with x :: _ => Some x | [] => None end = Some f ->
  let db := write_pages (k_db d0) (firstn j (l_pages f)) in
  let d := {| k_db := if cut then truncate db (l_commit f) else db; k_journal := None; k_ltx := ltx' |} in
  same_image (k_db (recover d)) (after_apply d0 f).
Proof.
  intros Hj Hn db d. unfold recover, rollback. cbn [k_journal d]. unfold reapply, newest. cbn [k_ltx d]. rewrite Hn.
  cbn [k_db]. unfold after_apply. apply reapply_image. intros p Hp Hl.
  assert (f_page db p = f_page (k_db d0) p) as E.
  { unfold db. rewrite write_pages_page. rewrite (lastw_none_firstn _ _ j Hl). reflexivity. }
  destruct cut; cbn [truncate f_page]; exact E.
Qed.

(* prefixes of [x] ++ map g l ++ [y] *)
Lemma firstn_apply_shape {A B} (x y : B) (g : A -> B) (l : list A) k :
  firstn k ([x] ++ map g l ++ [y]) = [] \/
  (exists j, firstn k ([x] ++ map g l ++ [y]) = [x] ++ map g (firstn j l)) \/
  firstn k ([x] ++ map g l ++ [y]) = [x] ++ map g l ++ [y].
Proof.
  destruct k as [|k]; [left; reflexivity|]. right. cbn [app firstn].
  destruct (Nat.le_gt_cases k (length l)) as [H|H].
  - left. exists k. f_equal. rewrite firstn_app, map_length. replace (k - length l)%nat with 0%nat by lia.
    cbn [firstn]. rewrite app_nil_r. rewrite firstn_map. reflexivity.
  - right. f_equal. apply firstn_all2. rewrite app_length, map_length. cbn [length]. lia.
Qed.

Theorem apply_crash_atomic (d0 : disk) (f : ltxrec) (k : nat) :
  Consistent d0 ->
  let d := krun d0 (firstn k (apply_steps f)) in
  (same_image (k_db (recover d)) (k_db d0) /\ disk_pos (recover d) = disk_pos d0) \/
  (same_image (k_db (recover d)) (after_apply d0 f) /\ disk_pos (recover d) = (l_max f, l_post f)).
Proof.
  intros HC d. pose proof HC as [Hj _]. unfold apply_steps in d.
  destruct (firstn_apply_shape (KLtxRename f) (KTruncate (l_commit f)) (fun kv => KWritePage (fst kv) (snd kv)) (l_pages f) k) as [E|[[j E]|E]];
    unfold d; rewrite E.
  - left. cbn [krun fold_left]. split; [apply recover_consistent; exact HC|].
    unfold recover, rollback. rewrite Hj. apply disk_pos_reapply.
  - right. rewrite krun_app. cbn [krun fold_left kstep]. change (fold_left kstep ?l ?x) with (krun x l). rewrite krun_writes.
    cbn [k_db k_journal k_ltx]. rewrite Hj. split.
    + apply (apply_crash_states d0 f (k_ltx d0 ++ [f]) j false Hj). apply newest_app.
    + unfold recover, rollback. cbn [k_journal]. rewrite disk_pos_reapply. unfold disk_pos, newest. cbn [k_ltx]. rewrite rev_app_distr. reflexivity.
  - right. rewrite krun_app. cbn [krun fold_left kstep]. change (fold_left kstep ?l ?x) with (krun x l).
    rewrite krun_app, krun_writes. cbn [krun fold_left kstep k_db k_journal k_ltx]. rewrite Hj. split.
    + pose proof (apply_crash_states d0 f (k_ltx d0 ++ [f]) (length (l_pages f)) true Hj (newest_app _ _)) as H.
      cbn zeta in H. rewrite firstn_all in H. exact H.
    + unfold recover, rollback. cbn [k_journal]. rewrite disk_pos_reapply. unfold disk_pos, newest. cbn [k_ltx]. rewrite rev_app_distr. reflexivity.
Qed.

(* ---------- a drop ---------- *)
Theorem drop_crash_atomic (d0 : disk) (f : ltxrec) (k : nat) :
  Consistent d0 -> l_commit f = 0 ->
  let d := krun d0 (firstn k (drop_steps f)) in
  (same_image (k_db (recover d)) (k_db d0) /\ disk_pos (recover d) = disk_pos d0) \/
  (f_size (k_db (recover d)) = 0 /\ k_journal (recover d) = None /\ disk_pos (recover d) = (l_max f, l_post f)).
Proof.
  intros HC Hc d. pose proof HC as [Hj _].
  destruct k as [|k].
  - left. unfold d. cbn [firstn krun fold_left]. split; [apply recover_consistent; exact HC|].
    unfold recover, rollback. rewrite Hj. apply disk_pos_reapply.
  - right.
    assert (k_journal d = None /\ k_ltx d = k_ltx d0 ++ [f]) as [Hjd Hl].
    { unfold d, drop_steps. destruct k as [|[|k]]; cbn [firstn krun fold_left kstep k_journal k_ltx];
        try rewrite firstn_nil; cbn [fold_left k_journal k_ltx]; split; try reflexivity; exact Hj. }
    unfold recover, rollback. rewrite Hjd. unfold reapply, newest. rewrite Hl, rev_app_distr. cbn [rev app k_db k_journal truncate f_size].
    split; [exact Hc|]. split; [exact Hjd|]. unfold disk_pos, newest. cbn [k_ltx]. rewrite ?Hl, rev_app_distr. reflexivity.
Qed.

(* ---------- a local rollback-journal commit ---------- *)
Definition writes_of (l : list cstep) : list (N * pg) :=
  flat_map (fun s => match s with KWritePage p q => [(p, q)] | _ => [] end) l.
Definition recs_of (l : list cstep) : list (N * pg) :=
  flat_map (fun s => match s with KJournalRecord p q => [(p, q)] | _ => [] end) l.

Lemma body_run b : forallb body_step b = true -> forall db recs orig ltx,
  krun {| k_db := db; k_journal := Some (recs, orig); k_ltx := ltx |} b =
  {| k_db := write_pages db (writes_of b); k_journal := Some (recs ++ recs_of b, orig); k_ltx := ltx |}.
Proof.
  induction b as [|s r IH]; intros Hb db recs orig ltx; cbn [krun fold_left writes_of recs_of flat_map write_pages].
  - rewrite app_nil_r. reflexivity.
  - cbn [forallb] in Hb. apply andb_true_iff in Hb. destruct Hb as [Hs Hr].
    change (fold_left kstep r ?x) with (krun x r).
    destruct s; cbn [body_step] in Hs; try discriminate; cbn [kstep k_journal k_db k_ltx].
    + rewrite (IH Hr). cbn [app]. rewrite <- app_assoc. reflexivity.
    + rewrite (IH Hr). cbn [app fold_left fst snd]. reflexivity.
Qed.

(* a page of the original file that has no journal record (and was not journaled earlier) is not written *)
Lemma journaled_unwritten orig p : forall b seen,
  journaled orig b seen = true -> p <= f_size orig -> ~ In p seen -> lastw p (recs_of b) = None ->
  lastw p (writes_of b) = None.
Proof.
  induction b as [|s r IH]; intros seen Hj Hp Hs Hr; [reflexivity|].
  destruct s as [o|k pre|k q|n|g| |]; cbn [journaled writes_of recs_of flat_map app lastw] in *;
    fold (recs_of r) in *; fold (writes_of r) in *; try (apply (IH seen); assumption).
  - (* record *) destruct (lastw p (recs_of r)) eqn:E; [discriminate|].
    destruct (k =? p) eqn:Ek; [discriminate|]. apply N.eqb_neq in Ek.
    apply (IH (k :: seen)); try assumption. intros [E'|E']; [congruence|contradiction].
  - (* write *) apply andb_true_iff in Hj. destruct Hj as [Hw Hj].
    rewrite (IH seen Hj Hp Hs Hr). destruct (N.eqb_spec k p) as [->|Hne]; [|reflexivity].
    exfalso. destruct (N.leb_spec p (f_size orig)); [|lia].
    apply existsb_exists in Hw. destruct Hw as [x [Hin Hx]]. apply N.eqb_eq in Hx. subst x. contradiction.
Qed.

Lemma journaled_prefix orig b rest : forall seen, journaled orig (b ++ rest) seen = true -> journaled orig b seen = true.
Proof.
  induction b as [|s r IH]; intros seen H; [reflexivity|].
  destruct s as [o|k pre|k q|n|g| |]; cbn [app journaled] in *.
  - apply IH; exact H.
  - apply IH; exact H.
  - apply andb_true_iff in H. destruct H as [A B]. rewrite A. cbn [andb]. apply IH. exact B.
  - apply IH; exact H.
  - apply IH; exact H.
  - apply IH; exact H.
  - apply IH; exact H.
Qed.

Lemma lastw_in p q l : lastw p l = Some q -> In (p, q) l.
Proof.
  induction l as [|[k v] r IH]; cbn [lastw]; [discriminate|].
  destruct (lastw p r) eqn:E; [intros H; inversion H; subst; right; apply IH; reflexivity|].
  destruct (N.eqb_spec k p) as [->|]; [intros H; inversion H; left; reflexivity|discriminate].
Qed.
Lemma in_recs_of p q b : In (p, q) (recs_of b) -> In (KJournalRecord p q) b.
Proof.
  induction b as [|s r IH]; cbn [recs_of flat_map]; [tauto|]. intros H. apply in_app_or in H. destruct H as [H|H].
  - destruct s; cbn in H; try contradiction. destruct H as [H|[]]. inversion H; subst. left; reflexivity.
  - right. apply IH. exact H.
Qed.

Section LocalCommit.
  Variables (d0 : disk) (body : list cstep) (f : ltxrec) (n1 : N).
  Let db0 := k_db d0.
  Let n0 := f_size (k_db d0).
  Let after := truncate (write_pages db0 (writes_of body)) n1.

  Hypothesis HC : Consistent d0.
  Hypothesis Hbody : forallb body_step body = true.
  (* SQLite journals a page of the original file before it overwrites it, with its original content *)
  Hypothesis Hjournaled : journaled db0 body [] = true.
  Hypothesis Hpre : forall p pre, In (KJournalRecord p pre) body -> pre = f_page db0 p.
  (* C02: the transaction file applied to the previous image gives the new image, and carries every appended page *)
  Hypothesis Hcommit : l_commit f = n1.
  Hypothesis Hfile : same_image (truncate (write_pages db0 (l_pages f)) n1) after.
  Hypothesis Hcover : forall p, n0 < p <= n1 -> lastw p (l_pages f) <> None.

  (* rolling back after any part of the body gives the original image *)
  Lemma rollback_restores b rest : body = b ++ rest -> forallb body_step b = true ->
    let d := {| k_db := write_pages db0 (writes_of b); k_journal := Some (recs_of b, n0); k_ltx := k_ltx d0 |} in
    same_image (k_db (rollback d)) db0.
  Proof.
    intros Hsplit Hb d. unfold rollback. cbn [d k_journal k_db]. split; [reflexivity|]. cbn [truncate f_size f_page].
    intros p Hp. rewrite !write_pages_page.
    rewrite lastw_filter by (intros q; cbn [fst]; apply N.leb_le; lia).
    destruct (lastw p (recs_of b)) as [pre|] eqn:E.
    - apply Hpre. rewrite Hsplit. apply in_or_app. left. apply in_recs_of, lastw_in. exact E.
    - assert (journaled db0 b [] = true) as Hjb by (apply (journaled_prefix db0 b rest); rewrite <- Hsplit; exact Hjournaled).
      rewrite (journaled_unwritten db0 p b [] Hjb); [reflexivity|unfold n0 in Hp; unfold db0; lia|intros []|exact E].
  Qed.

  Lemma consistent_size f0 : newest d0 = Some f0 -> l_commit f0 = n0.
  Proof.
    intros Hn. destruct HC as [_ [Hs _]]. unfold reapply in Hs. rewrite Hn in Hs. cbn [k_db truncate f_size] in Hs. exact Hs.
  Qed.

  (* re-applying the old newest file to anything that is the original image gives the original image *)
  Lemma reapply_old a j : same_image a db0 ->
    same_image (k_db (reapply {| k_db := a; k_journal := j; k_ltx := k_ltx d0 |})) db0.
  Proof.
    intros Ha. unfold reapply, newest. cbn [k_ltx k_db].
    destruct HC as [_ Hs]. unfold reapply, newest in Hs.
    destruct (rev (k_ltx d0)) as [|f0 r] eqn:E; [exact Ha|]. cbn [k_db] in *.
    eapply same_image_trans; [|exact Hs]. apply reapply_image. intros p Hp _.
    destruct Ha as [Hsz Hpg]. apply Hpg. rewrite Hsz.
    assert (l_commit f0 = n0) as Ec by (apply consistent_size; unfold newest; rewrite E; reflexivity).
    unfold n0 in Ec. unfold db0. lia.
  Qed.

  Theorem commit_crash_atomic (k : nat) :
    let d := krun d0 (firstn k (tx_steps n0 body f n1)) in
    (same_image (k_db (recover d)) db0 /\ disk_pos (recover d) = disk_pos d0) \/
    (same_image (k_db (recover d)) after /\ disk_pos (recover d) = (l_max f, l_post f)).
  Proof.
    intros d. pose proof HC as [Hj0 _].
    unfold tx_steps in d.
    (* k = 0 *)
    destruct k as [|k].
    { left. unfold d. cbn [firstn krun fold_left]. split; [apply recover_consistent; exact HC|].
      unfold recover, rollback. rewrite Hj0. apply disk_pos_reapply. }
    cbn [app firstn] in d.
    assert (krun d0 [KJournalBegin n0] = {| k_db := db0; k_journal := Some ([], n0); k_ltx := k_ltx d0 |}) as Ebegin by reflexivity.
    destruct (Nat.le_gt_cases k (length body)) as [Hk|Hk].
    - (* inside the body: before the rename *)
      left. set (b := firstn k body).
      assert (firstn k (body ++ [KLtxRename f; KJournalEnd; KTruncate n1]) = b) as Eb.
      { unfold b. rewrite firstn_app. replace (k - length body)%nat with 0%nat by lia. cbn [firstn]. apply app_nil_r. }
      assert (forallb body_step b = true) as Hbb.
      { unfold b. rewrite <- (firstn_skipn k body) in Hbody. rewrite forallb_app in Hbody. apply andb_true_iff in Hbody. tauto. }
      unfold d. rewrite Eb. change (KJournalBegin n0 :: b) with ([KJournalBegin n0] ++ b). rewrite krun_app, Ebegin, (body_run b Hbb).
      cbn [app]. unfold recover.
      pose proof (rollback_restores b (skipn k body) (eq_sym (firstn_skipn k body)) Hbb) as Hr. cbn zeta in Hr.
      set (dd := {| k_db := write_pages db0 (writes_of b); k_journal := Some (recs_of b, n0); k_ltx := k_ltx d0 |}) in *.
      assert (rollback dd = {| k_db := k_db (rollback dd); k_journal := None; k_ltx := k_ltx d0 |}) as Er by reflexivity.
      rewrite Er. split; [apply reapply_old; exact Hr|]. rewrite disk_pos_reapply. reflexivity.
    - (* the whole body ran, and at least the rename *)
      right.
      assert (exists m, firstn k (body ++ [KLtxRename f; KJournalEnd; KTruncate n1]) = body ++ KLtxRename f :: firstn m [KJournalEnd; KTruncate n1]) as [m Em].
      { exists (k - length body - 1)%nat. rewrite firstn_app. rewrite firstn_all2 by lia. f_equal.
        destruct (k - length body)%nat as [|x] eqn:E; [lia|]. cbn [firstn]. f_equal. f_equal. lia. }
      unfold d. rewrite Em. change (KJournalBegin n0 :: body ++ ?t) with ([KJournalBegin n0] ++ body ++ t).
      rewrite krun_app, Ebegin, krun_app, (body_run body Hbody). cbn [app].
      set (W := write_pages db0 (writes_of body)).
      assert (forall a j, (forall p, 1 <= p <= n1 -> lastw p (l_pages f) = None -> f_page a p = f_page W p \/ (p <= n0 /\ f_page a p = f_page db0 p)) ->
                same_image (k_db (reapply {| k_db := a; k_journal := j; k_ltx := k_ltx d0 ++ [f] |})) after) as Hnew.
      { intros a j Ha. unfold reapply, newest. cbn [k_ltx k_db]. rewrite rev_app_distr. cbn [rev app k_db]. rewrite Hcommit.
        split; [reflexivity|]. cbn [truncate f_size f_page after]. intros p Hp. rewrite !write_pages_page.
        destruct Hfile as [_ Hfp]. specialize (Hfp p Hp). cbn [truncate f_page after] in Hfp. rewrite !write_pages_page in Hfp.
        destruct (lastw p (l_pages f)) as [q|] eqn:El; [exact Hfp|].
        destruct (Ha p Hp El) as [E|[Hle E]]; rewrite E; [unfold W; rewrite write_pages_page; reflexivity|exact Hfp]. }
      assert (forall dd, disk_pos (recover dd) = disk_pos (rollback dd)) as Hpos by (intros dd; unfold recover; apply disk_pos_reapply).
      destruct m as [|[|m]]; cbn [firstn]; rewrite ?firstn_nil; cbn [krun fold_left kstep k_db k_journal k_ltx].
      + (* rename done, journal still hot *)
        split.
        * unfold recover. pose proof (rollback_restores body [] (eq_sym (app_nil_r body)) Hbody) as Hr. cbn zeta in Hr.
          unfold rollback in *. cbn [k_journal k_db k_ltx] in *. apply Hnew. intros p Hp El. right.
          destruct (N.le_gt_cases p n0) as [Hle|Hgt]; [|exfalso; apply (Hcover p); [lia|exact El]].
          split; [exact Hle|]. destruct Hr as [_ Hr]. apply Hr. cbn [truncate f_size]. lia.
        * rewrite Hpos. unfold rollback, disk_pos, newest. cbn [k_journal k_ltx]. rewrite rev_app_distr. reflexivity.
      + (* journal ended *)
        split.
        * unfold recover, rollback. cbn [k_journal]. apply Hnew. intros p Hp El. left. reflexivity.
        * rewrite Hpos. unfold rollback, disk_pos, newest. cbn [k_journal k_ltx]. rewrite rev_app_distr. reflexivity.
      + (* file cut to its new size *)
        split.
        * unfold recover, rollback. cbn [k_journal]. apply Hnew. intros p Hp El. left. reflexivity.
        * rewrite Hpos. unfold rollback, disk_pos, newest. cbn [k_journal k_ltx]. rewrite rev_app_distr. reflexivity.
  Qed.
End LocalCommit.

(* ---------- a replica applies a snapshot: rename, older files removed, pages, cut ---------- *)
Theorem snapshot_crash_atomic (d0 : disk) (f : ltxrec) (k : nat) :
  Consistent d0 ->
  let d := krun d0 (firstn k (snapshot_steps f)) in
  (same_image (k_db (recover d)) (k_db d0) /\ disk_pos (recover d) = disk_pos d0) \/
  (same_image (k_db (recover d)) (after_apply d0 f) /\ disk_pos (recover d) = (l_max f, l_post f)).
Proof.
  intros HC d. pose proof HC as [Hj _]. unfold snapshot_steps in d.
  destruct k as [|[|k]].
  - left. unfold d. cbn [firstn krun fold_left]. split; [apply recover_consistent; exact HC|].
    unfold recover, rollback. rewrite Hj. apply disk_pos_reapply.
  - (* only the rename *) right. unfold d. cbn [app firstn krun fold_left kstep]. rewrite Hj. split.
    + apply (apply_crash_states d0 f (k_ltx d0 ++ [f]) 0 false Hj). apply newest_app.
    + unfold recover, rollback. cbn [k_journal]. rewrite disk_pos_reapply. unfold disk_pos, newest. cbn [k_ltx]. rewrite rev_app_distr. reflexivity.
  - (* rename, older files removed, then part of [pages ++ cut] *)
    right. unfold d. cbn [app firstn]. change (KLtxRename f :: KLtxRemoveOthers :: ?t) with ([KLtxRename f; KLtxRemoveOthers] ++ t).
    rewrite krun_app. cbn [krun fold_left kstep k_db k_journal k_ltx]. rewrite rev_app_distr. cbn [rev app]. rewrite Hj.
    change (fold_left kstep ?l ?x) with (krun x l).
    set (g := fun kv : N * pg => KWritePage (fst kv) (snd kv)).
    destruct (Nat.le_gt_cases k (length (l_pages f))) as [Hk|Hk].
    + assert (firstn k (map g (l_pages f) ++ [KTruncate (l_commit f)]) = map g (firstn k (l_pages f))) as E.
      { rewrite firstn_app, map_length. replace (k - length (l_pages f))%nat with 0%nat by lia. cbn [firstn]. rewrite app_nil_r. apply firstn_map. }
      rewrite E. unfold g. rewrite krun_writes. cbn [k_db k_journal k_ltx]. split.
      * apply (apply_crash_states d0 f [f] k false Hj). reflexivity.
      * unfold recover, rollback. cbn [k_journal]. rewrite disk_pos_reapply. reflexivity.
    + rewrite firstn_all2 by (rewrite app_length, map_length; cbn [length]; lia).
      rewrite krun_app. unfold g. rewrite krun_writes. cbn [krun fold_left kstep k_db k_journal k_ltx]. split.
      * pose proof (apply_crash_states d0 f [f] (length (l_pages f)) true Hj eq_refl) as H. cbn zeta in H. rewrite firstn_all in H. exact H.
      * unfold recover, rollback. cbn [k_journal]. rewrite disk_pos_reapply. reflexivity.
Qed.

(* the recovered state is consistent again: recovery is idempotent and the node can go on *)
Lemma k_ltx_rollback d : k_ltx (rollback d) = k_ltx d.
Proof. unfold rollback. destruct (k_journal d) as [[? ?]|]; reflexivity. Qed.
Lemma k_ltx_reapply d : k_ltx (reapply d) = k_ltx d.
Proof. unfold reapply. destruct (newest d); reflexivity. Qed.
Lemma k_journal_rollback d : k_journal (rollback d) = None.
Proof. unfold rollback. destruct (k_journal d) as [[? ?]|] eqn:E; [reflexivity|exact E]. Qed.
Lemma k_journal_reapply d : k_journal (reapply d) = k_journal d.
Proof. unfold reapply. destruct (newest d); reflexivity. Qed.
Lemma newest_recover d : newest (recover d) = newest d.
Proof. unfold newest, recover. rewrite k_ltx_reapply, k_ltx_rollback. reflexivity. Qed.

Lemma recover_idempotent d : k_journal (recover d) = None /\ same_image (k_db (recover (recover d))) (k_db (recover d)).
Proof.
  assert (k_journal (recover d) = None) as Hj by (unfold recover; rewrite k_journal_reapply; apply k_journal_rollback).
  split; [exact Hj|]. unfold recover at 1. unfold rollback at 1. rewrite Hj.
  unfold reapply at 1. rewrite newest_recover.
  destruct (newest d) as [f|] eqn:Ef; [|apply same_image_refl]. cbn [k_db].
  unfold recover, reapply at 1 2.
  assert (newest (rollback d) = Some f) as En by (unfold newest; rewrite k_ltx_rollback; exact Ef).
  rewrite En. cbn [k_db].
  split; [reflexivity|]. cbn [truncate f_size f_page]. intros p Hp.
  rewrite (write_pages_page (l_pages f) (truncate (write_pages (k_db (rollback d)) (l_pages f)) (l_commit f)) p).
  cbn [truncate f_page]. destruct (lastw p (l_pages f)) eqn:El; [|reflexivity].
  rewrite write_pages_page, El. reflexivity.
Qed.
