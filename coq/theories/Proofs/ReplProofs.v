(* C06 / C01: the primary's streaming decisions and what they imply for replicas. *)
From Coq Require Import NArith List Lia ZifyN ZifyNat ZifyBool Bool Arith.
Require Import LF.Model.PageDB LF.Model.Repl LF.Proofs.ChainProofs.
Import ListNotations.
Local Open Scope N_scope.

Lemma open_ltx_spec dir t f : open_ltx dir t = Some f -> In f dir /\ l_min f = t /\ l_max f = t.
Proof.
  unfold open_ltx. intros H. apply find_some in H. destruct H as [Hin Hb].
  apply andb_true_iff in Hb. destruct Hb as [A B]. apply N.eqb_eq in A. apply N.eqb_eq in B. auto.
Qed.

(* an incremental file is only ever sent on top of exactly the position it was built from *)
Theorem send_ltx_only_if_extends ppos dir cpos f :
  stream_decide ppos dir cpos = ASendLTX f ->
  In f dir /\ l_min f = fst cpos + 1 /\ l_max f = fst cpos + 1 /\ l_pre f = snd cpos /\
  fst cpos < fst ppos /\ effective_client ppos cpos = cpos.
Proof.
  unfold stream_decide. set (c := effective_client ppos cpos).
  destruct (N.leb_spec (fst ppos) (fst c)) as [Hle|Hgt]; [discriminate|].
  destruct (N.eqb_spec (fst c + 1) 1) as [E1|E1]; [discriminate|].
  destruct (open_ltx dir (fst c + 1)) as [g|] eqn:Eo; [|discriminate].
  destruct (N.eqb_spec (l_pre g) (snd c)) as [Ep|Ep]; [|discriminate].
  intros H; inversion H; subst g. apply open_ltx_spec in Eo. destruct Eo as [Hin [Hmin Hmax]].
  assert (c = cpos) as Ec.
  { unfold c, effective_client in *. destruct (fst ppos <? fst cpos); [cbn in E1; lia|].
    destruct ((fst cpos =? fst ppos) && negb (snd cpos =? snd ppos)); [cbn in E1; lia|reflexivity]. }
  rewrite Ec in *. repeat split; assumption.
Qed.

(* divergent or stale clients get a snapshot (or nothing when the primary is empty) *)
Theorem ahead_gets_snapshot ppos dir cpos :
  fst ppos < fst cpos -> 1 <= fst ppos -> stream_decide ppos dir cpos = ASnapshot.
Proof.
  intros H H1. unfold stream_decide, effective_client. destruct (N.ltb_spec (fst ppos) (fst cpos)); [|lia]. cbn [fst snd].
  destruct (N.leb_spec (fst ppos) 0); [lia|]. reflexivity.
Qed.
Theorem same_txid_other_checksum_gets_snapshot ppos dir cpos :
  fst cpos = fst ppos -> snd cpos <> snd ppos -> 1 <= fst ppos -> stream_decide ppos dir cpos = ASnapshot.
Proof.
  intros H H2 H1. unfold stream_decide, effective_client. destruct (N.ltb_spec (fst ppos) (fst cpos)); [lia|].
  rewrite H, N.eqb_refl. destruct (N.eqb_spec (snd cpos) (snd ppos)); [congruence|]. cbn [negb andb fst snd].
  destruct (N.leb_spec (fst ppos) 0); [lia|]. reflexivity.
Qed.
Theorem empty_client_gets_snapshot ppos dir c :
  1 <= fst ppos -> stream_decide ppos dir (0, c) = ASnapshot.
Proof.
  intros H1. unfold stream_decide, effective_client. cbn [fst snd].
  destruct (N.ltb_spec (fst ppos) 0); [lia|].
  destruct ((0 =? fst ppos) && negb (c =? snd ppos)); cbn [fst snd]; (destruct (N.leb_spec (fst ppos) 0); [lia|reflexivity]).
Qed.
Theorem missing_file_gets_snapshot ppos dir cpos :
  fst cpos < fst ppos -> open_ltx dir (fst cpos + 1) = None -> stream_decide ppos dir cpos = ASnapshot.
Proof.
  intros H Ho. unfold stream_decide, effective_client. destruct (N.ltb_spec (fst ppos) (fst cpos)); [lia|].
  destruct (N.eqb_spec (fst cpos) (fst ppos)); [lia|]. cbn [andb].
  destruct (N.leb_spec (fst ppos) (fst cpos)); [lia|]. destruct (fst cpos + 1 =? 1); [reflexivity|]. rewrite Ho. reflexivity.
Qed.
Theorem pre_mismatch_gets_snapshot ppos dir cpos f :
  fst cpos < fst ppos -> open_ltx dir (fst cpos + 1) = Some f -> l_pre f <> snd cpos -> stream_decide ppos dir cpos = ASnapshot.
Proof.
  intros H Ho Hp. unfold stream_decide, effective_client. destruct (N.ltb_spec (fst ppos) (fst cpos)); [lia|].
  destruct (N.eqb_spec (fst cpos) (fst ppos)); [lia|]. cbn [andb].
  destruct (N.leb_spec (fst ppos) (fst cpos)); [lia|]. destruct (fst cpos + 1 =? 1); [reflexivity|]. rewrite Ho.
  destruct (N.eqb_spec (l_pre f) (snd cpos)); [congruence|reflexivity].
Qed.
Theorem done_iff_caught_up ppos dir cpos :
  stream_decide ppos dir cpos = ADone <-> fst ppos <= fst (effective_client ppos cpos).
Proof.
  unfold stream_decide. destruct (N.leb_spec (fst ppos) (fst (effective_client ppos cpos))) as [H|H].
  - tauto.
  - split; [|intros; lia]. destruct (_ =? 1); [discriminate|]. destruct (open_ltx _ _) as [f|]; [|discriminate].
    destruct (_ =? _); discriminate.
Qed.

(* ---- bounded convergence of the loop ---- *)
Definition last_file_ok (ppos : pos) (dir : list ltxrec) : Prop :=
  forall f, In f dir -> l_max f = fst ppos -> l_post f = snd ppos.

Lemma stream_db_bound ppos dir : last_file_ok ppos dir ->
  forall fuel cpos, (length (stream_db fuel ppos dir cpos) <= N.to_nat (fst ppos - fst (effective_client ppos cpos)) + 1)%nat.
Proof.
  intros Hok. induction fuel as [|fuel IH]; intros cpos; cbn [stream_db]; [cbn [length]; lia|].
  destruct (stream_decide ppos dir cpos) as [|f|] eqn:Ed; [cbn [length]; lia| |].
  - destruct (send_ltx_only_if_extends _ _ _ _ Ed) as [Hin [Hmin [Hmax [Hpre [Hlt Heff]]]]].
    cbn [length after_action]. specialize (IH (l_max f, l_post f)).
    assert (fst (effective_client ppos (l_max f, l_post f)) = fst cpos + 1) as E.
    { unfold effective_client. cbn [fst snd]. destruct (N.ltb_spec (fst ppos) (l_max f)); [lia|].
      destruct (N.eqb_spec (l_max f) (fst ppos)) as [Em|Em].
      - rewrite (Hok f Hin Em), N.eqb_refl. cbn. lia.
      - cbn. lia. }
    rewrite E in IH. rewrite Heff. lia.
  - cbn [length after_action]. specialize (IH ppos).
    assert (stream_db fuel ppos dir ppos = []) as E.
    { destruct fuel; [reflexivity|]. cbn [stream_db].
      assert (stream_decide ppos dir ppos = ADone) as ->; [|reflexivity].
      apply done_iff_caught_up. unfold effective_client. destruct (N.ltb_spec (fst ppos) (fst ppos)); [lia|].
      rewrite !N.eqb_refl. cbn. lia. }
    rewrite E. cbn. lia.
Qed.

(* ---- what replicas hold: images as functions page -> content ---- *)
Definition image := N -> option pg.
Definition img_eq (lock n : N) (a b : image) : Prop := forall p, 1 <= p <= n -> p <> lock -> a p = b p.

(* [delta lock f a b]: b is a with f applied (pages written, size set to the commit size) *)
Definition delta (lock : N) (f : ltxrec) (a b : image) : Prop :=
  forall p, 1 <= p <= l_commit f -> p <> lock ->
    b p = match alookup p (l_pages f) with Some q => Some q | None => a p end.

Lemma delta_det lock f a a' b b' :
  (forall p, 1 <= p <= l_commit f -> p <> lock -> alookup p (l_pages f) = None -> a p = a' p) ->
  delta lock f a b -> delta lock f a' b' -> img_eq lock (l_commit f) b b'.
Proof.
  intros Ha Hd Hd' p Hp Hl. rewrite (Hd p Hp Hl), (Hd' p Hp Hl).
  destruct (alookup p (l_pages f)) eqn:E; [reflexivity|]. apply Ha; assumption.
Qed.

(* The global ghost map "the primary's database as it stood when it committed (t, c)".
   NoCollision is the assumption that such a map exists: a position determines an image. *)
Section World.
  Variable lock : N.
  Variable world : pos -> image.

  (* a file in some node's log is a true delta of the world *)
  Definition true_delta (f : ltxrec) : Prop :=
    delta lock f (world (l_min f - 1, l_pre f)) (world (l_max f, l_post f)).

  (* a replica whose image is the world's at its position, applying a file the primary decided to send
     incrementally, again holds the world's image at its new position *)
  Theorem incremental_keeps_image ppos dir cpos f (rimg rimg' : image) :
    stream_decide ppos dir cpos = ASendLTX f ->
    (forall g, In g dir -> true_delta g) ->
    (forall p, 1 <= p -> p <> lock -> rimg p = world cpos p) ->
    delta lock f rimg rimg' ->
    img_eq lock (l_commit f) rimg' (world (l_max f, l_post f)).
  Proof.
    intros Hd Htd Hr Hdelta. destruct (send_ltx_only_if_extends _ _ _ _ Hd) as [Hin [Hmin [_ [Hpre _]]]].
    pose proof (Htd f Hin) as Hw. unfold true_delta in Hw.
    assert (l_min f - 1 = fst cpos) as E by lia. rewrite E, Hpre in Hw.
    eapply delta_det; [|exact Hdelta|exact Hw].
    intros p Hp Hl _. rewrite <- surjective_pairing. apply Hr; lia.
  Qed.
End World.
