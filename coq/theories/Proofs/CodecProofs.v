(* C18 proofs: round trips, prefixes, soundness, allocation bound. *)
From Coq Require Import NArith List Bool Arith Lia ZifyN ZifyNat.
Require Import LF.Base.Bytes LF.Gen.ConstsGen LF.Model.Codec.
Import ListNotations.
Local Open Scope N_scope.

(* ---------------- reader facts ---------------- *)
Lemma rd_ok_inv n s t s' : rd n s = ROk t s' -> concat s = t ++ concat s' /\ N.of_nat (length t) = n.
Proof.
  intros H. destruct (N.leb_spec n (N.of_nat (length (concat s)))) as [Hle|Hgt].
  - destruct (rd_enough n s Hle) as [s2 [E1 E2]]. rewrite E1 in H. inversion H; subst.
    rewrite E2, firstn_skipn. split; [reflexivity|]. rewrite firstn_length. lia.
  - rewrite rd_short in H by assumption. destruct (concat s); discriminate.
Qed.

Lemma rd_be_app k v s b : concat s = be k v ++ b -> v < 256 ^ N.of_nat k ->
  exists s', rd_be (N.of_nat k) s = ROk v s' /\ concat s' = b.
Proof.
  intros Hc Hv. destruct (rd_app (N.of_nat k) s (be k v) b Hc) as [s' [E1 E2]].
  - rewrite be_length. reflexivity.
  - exists s'. unfold rd_be. rewrite E1, of_be_be by assumption. auto.
Qed.

Lemma rd_be_ok_inv k v s s' : bytes_ok (concat s) -> rd_be (N.of_nat k) s = ROk v s' ->
  concat s = be k v ++ concat s' /\ v < 256 ^ N.of_nat k.
Proof.
  intros Hok H. unfold rd_be in H. destruct (rd (N.of_nat k) s) as [t s2| |] eqn:E; try discriminate.
  inversion H; subst. apply rd_ok_inv in E. destruct E as [Hc Hl].
  assert (length t = k) as Hk by lia.
  assert (bytes_ok t) as Hbt. { rewrite Hc in Hok. apply Forall_app in Hok. tauto. }
  split.
  - rewrite Hc. f_equal. rewrite <- Hk. symmetry. apply be_of_be. assumption.
  - rewrite <- Hk. apply of_be_lt. assumption.
Qed.

Lemma rd_be_short k s : (length (concat s) < k)%nat ->
  rd_be (N.of_nat k) s = match concat s with [] => REOF | _ => RUnexpected end.
Proof.
  intros H. unfold rd_be. rewrite rd_short by lia. destruct (concat s); reflexivity.
Qed.

Lemma avail_rd n s t s' : rd n s = ROk t s' -> avail s = n + avail s'.
Proof.
  intros H. apply rd_ok_inv in H. destruct H as [Hc Hl]. unfold avail. rewrite Hc, app_length. lia.
Qed.
Lemma avail_rd_be n s v s' : rd_be n s = ROk v s' -> avail s = n + avail s'.
Proof.
  unfold rd_be. destruct (rd n s) as [t s2| |] eqn:E; try discriminate.
  intros H; inversion H; subst. eapply avail_rd; eassumption.
Qed.

Lemma app_split {A} (a b p q : list A) : a ++ b = p ++ q ->
  (exists l, p = a ++ l /\ b = l ++ q) \/ (exists l, l <> [] /\ a = p ++ l /\ q = l ++ b).
Proof.
  revert p. induction a as [|x a IH]; intros p H.
  - left. exists p. auto.
  - destruct p as [|y p].
    + right. exists (x :: a). cbn in *. split; [discriminate|]. split; [reflexivity|]. symmetry; assumption.
    + cbn in H. inversion H; subst. destruct (IH p H2) as [[l [Hp Hb]]|[l [Hn [Ha Hq]]]].
      * left. exists l. subst. auto.
      * right. exists l. subst. auto.
Qed.

(* ---------------- one field ---------------- *)
Lemma pow4 : 256 ^ N.of_nat 4 = 2 ^ 32. Proof. reflexivity. Qed.
Lemma pow8 : 256 ^ N.of_nat 8 = 2 ^ 64. Proof. reflexivity. Qed.
Lemma n4 : 4 = N.of_nat 4. Proof. reflexivity. Qed.
Lemma n8 : 8 = N.of_nat 8. Proof. reflexivity. Qed.
Lemma n2 : 2 = N.of_nat 2. Proof. reflexivity. Qed.

Lemma decode_fields_rt raw : forall lay vs s tail,
  wf_vals lay vs -> concat s = encode_fields lay vs ++ tail ->
  exists s', decode_fields raw lay s = DOk vs s' /\ concat s' = tail.
Proof.
  induction lay as [|f lay IH]; intros vs s tail Hwf Hc.
  - destruct vs; [|destruct Hwf]. exists s. cbn in *. auto.
  - destruct vs as [|v vs]; [destruct Hwf|]. destruct Hwf as [Hv Hvs].
    cbn [encode_fields] in Hc. rewrite <- app_assoc in Hc.
    destruct f, v; cbn [wf_val] in Hv; try contradiction; cbn [encode_field] in Hc; cbn [decode_fields].
    + rewrite n4. destruct (rd_be_app 4 n s _ Hc) as [s1 [E1 E2]]; [rewrite pow4; assumption|].
      rewrite E1. destruct (IH vs s1 tail Hvs E2) as [s2 [E3 E4]]. rewrite E3. eauto.
    + rewrite n8. destruct (rd_be_app 8 n s _ Hc) as [s1 [E1 E2]]; [rewrite pow8; assumption|].
      rewrite E1. destruct (IH vs s1 tail Hvs E2) as [s2 [E3 E4]]. rewrite E3. eauto.
    + destruct Hv as [Hlen Hok]. rewrite <- app_assoc in Hc. rewrite n4.
      destruct (rd_be_app 4 _ s _ Hc) as [s1 [E1 E2]]; [rewrite pow4; assumption|].
      rewrite E1. destruct (rd_app (N.of_nat (length b)) s1 b _ E2 eq_refl) as [s2 [E3 E4]].
      rewrite E3. destruct (IH vs s2 tail Hvs E4) as [s3 [E5 E6]]. rewrite E5. eauto.
Qed.

Definition is_short (raw : bool) {A} (r : dres A) : Prop :=
  r = DUnexpected \/ (raw = true /\ r = DEOF).

Lemma short_err_is_short raw {A B} (r : rres B) : (forall v s, r <> ROk v s) -> is_short raw (@short_err A B raw r).
Proof.
  intros H. destruct r as [v s| |]; [exfalso; eapply H; reflexivity| |]; cbn.
  - destruct raw; [right; auto|left; reflexivity].
  - left; reflexivity.
Qed.

Lemma rd_be_short_not_ok k s : (length (concat s) < k)%nat -> forall v s', rd_be (N.of_nat k) s <> ROk v s'.
Proof. intros H v s'. rewrite rd_be_short by assumption. destruct (concat s); discriminate. Qed.
Lemma rd_short_not_ok n s : N.of_nat (length (concat s)) < n -> forall v s', rd n s <> ROk v s'.
Proof. intros H v s'. rewrite rd_short by assumption. destruct (concat s); discriminate. Qed.

Lemma cont_short raw (r : dres (list fval)) (v : fval) :
  is_short raw r -> is_short raw (match r with DOk vs s'' => DOk (v :: vs) s'' | DEOF => DEOF | DUnexpected => DUnexpected | DInvalid => DInvalid end : dres (list fval)).
Proof. intros [H|[H1 H2]]; subst; [left|right]; auto. Qed.

Lemma decode_fields_prefix raw : forall lay vs s p q,
  wf_vals lay vs -> encode_fields lay vs = p ++ q -> q <> [] -> concat s = p ->
  is_short raw (decode_fields raw lay s).
Proof.
  induction lay as [|f lay IH]; intros vs s p q Hwf He Hq Hc.
  - destruct vs; [|destruct Hwf]. cbn in He. destruct p; [|discriminate]. cbn in He. congruence.
  - destruct vs as [|v vs]; [destruct Hwf|]. destruct Hwf as [Hv Hvs].
    cbn [encode_fields] in He.
    destruct (app_split _ _ _ _ He) as [[l [Hp Hr]]|[l [Hl [Ha Hq']]]].
    + (* the prefix covers this field: it decodes, the rest is short *)
      rewrite Hp in Hc.
      destruct f, v; cbn [wf_val] in Hv; try contradiction; cbn [encode_field] in Hc; cbn [decode_fields].
      * rewrite n4. destruct (rd_be_app 4 n s _ Hc) as [s1 [E1 E2]]; [rewrite pow4; assumption|].
        rewrite E1. apply cont_short. eapply IH; eassumption.
      * rewrite n8. destruct (rd_be_app 8 n s _ Hc) as [s1 [E1 E2]]; [rewrite pow8; assumption|].
        rewrite E1. apply cont_short. eapply IH; eassumption.
      * destruct Hv as [Hlen Hok]. rewrite <- app_assoc in Hc. rewrite n4.
        destruct (rd_be_app 4 _ s _ Hc) as [s1 [E1 E2]]; [rewrite pow4; assumption|].
        rewrite E1. destruct (rd_app (N.of_nat (length b)) s1 b _ E2 eq_refl) as [s2 [E3 E4]].
        rewrite E3. apply cont_short. eapply IH; eassumption.
    + (* the prefix ends inside this field *)
      assert (Hlen : (length p < length (encode_field f v))%nat).
      { rewrite Ha, app_length. destruct l; [congruence|]. cbn [length]. lia. }
      destruct f, v; cbn [wf_val] in Hv; try contradiction; cbn [encode_field] in Ha, Hlen; cbn [decode_fields].
      * rewrite be_length in Hlen. rewrite n4.
        destruct (rd_be (N.of_nat 4) s) as [x sx| |] eqn:E.
        -- exfalso. eapply (rd_be_short_not_ok 4 s); [rewrite Hc; assumption|eassumption].
        -- apply short_err_is_short. discriminate.
        -- apply short_err_is_short. discriminate.
      * rewrite be_length in Hlen. rewrite n8.
        destruct (rd_be (N.of_nat 8) s) as [x sx| |] eqn:E.
        -- exfalso. eapply (rd_be_short_not_ok 8 s); [rewrite Hc; assumption|eassumption].
        -- apply short_err_is_short. discriminate.
        -- apply short_err_is_short. discriminate.
      * destruct Hv as [Hblen Hok].
        destruct (app_split _ _ _ _ Ha) as [[l2 [Hp2 Hb2]]|[l2 [Hl2 [Ha2 _]]]].
        -- (* length prefix complete, body short *)
           rewrite Hp2 in Hc, Hlen. rewrite n4.
           destruct (rd_be_app 4 _ s l2 Hc) as [s1 [E1 E2]]; [rewrite pow4; assumption|].
           rewrite E1.
           destruct (rd (N.of_nat (length b)) s1) as [x sx| |] eqn:E.
           ++ exfalso. eapply (rd_short_not_ok (N.of_nat (length b)) s1); [|eassumption].
              rewrite E2. rewrite !app_length, !be_length in Hlen. lia.
           ++ apply short_err_is_short. discriminate.
           ++ apply short_err_is_short. discriminate.
        -- (* inside the length prefix *)
           assert ((length p < 4)%nat) as H4.
           { pose proof (f_equal (@length N) Ha2) as HL.
             rewrite be_length, app_length in HL. destruct l2; [congruence|]. cbn [length] in HL. lia. }
           rewrite n4. destruct (rd_be (N.of_nat 4) s) as [x sx| |] eqn:E.
           ++ exfalso. eapply (rd_be_short_not_ok 4 s); [rewrite Hc; assumption|eassumption].
           ++ apply short_err_is_short. discriminate.
           ++ apply short_err_is_short. discriminate.
Qed.

Lemma decode_fields_sound raw : forall lay s vs s',
  bytes_ok (concat s) -> decode_fields raw lay s = DOk vs s' ->
  concat s = encode_fields lay vs ++ concat s' /\ wf_vals lay vs.
Proof.
  induction lay as [|f lay IH]; intros s vs s' Hok H.
  - cbn in H. inversion H; subst. cbn. auto.
  - cbn [decode_fields] in H. destruct f.
    + rewrite n4 in H. destruct (rd_be (N.of_nat 4) s) as [n s1| |] eqn:E;
        [|destruct raw; discriminate|destruct raw; discriminate].
      destruct (rd_be_ok_inv 4 n s s1 Hok E) as [Hc Hn].
      destruct (decode_fields raw lay s1) as [vs1 s2| | |] eqn:E2; try discriminate.
      inversion H; subst.
      assert (bytes_ok (concat s1)) as Hok1. { rewrite Hc in Hok. apply Forall_app in Hok. tauto. }
      destruct (IH s1 vs1 s' Hok1 E2) as [Hc1 Hw1].
      split; [cbn [encode_fields encode_field]; rewrite Hc, Hc1, app_assoc; reflexivity|].
      cbn. rewrite pow4 in Hn. auto.
    + rewrite n8 in H. destruct (rd_be (N.of_nat 8) s) as [n s1| |] eqn:E;
        [|destruct raw; discriminate|destruct raw; discriminate].
      destruct (rd_be_ok_inv 8 n s s1 Hok E) as [Hc Hn].
      destruct (decode_fields raw lay s1) as [vs1 s2| | |] eqn:E2; try discriminate.
      inversion H; subst.
      assert (bytes_ok (concat s1)) as Hok1. { rewrite Hc in Hok. apply Forall_app in Hok. tauto. }
      destruct (IH s1 vs1 s' Hok1 E2) as [Hc1 Hw1].
      split; [cbn [encode_fields encode_field]; rewrite Hc, Hc1, app_assoc; reflexivity|].
      cbn. rewrite pow8 in Hn. auto.
    + rewrite n4 in H. destruct (rd_be (N.of_nat 4) s) as [n s1| |] eqn:E;
        [|destruct raw; discriminate|destruct raw; discriminate].
      destruct (rd_be_ok_inv 4 n s s1 Hok E) as [Hc Hn].
      assert (bytes_ok (concat s1)) as Hok1. { rewrite Hc in Hok. apply Forall_app in Hok. tauto. }
      destruct (rd n s1) as [b s2| |] eqn:E1; [|destruct raw; discriminate|destruct raw; discriminate].
      destruct (rd_ok_inv n s1 b s2 E1) as [Hc1 Hl].
      assert (bytes_ok b /\ bytes_ok (concat s2)) as [Hokb Hok2]. { rewrite Hc1 in Hok1. apply Forall_app in Hok1. tauto. }
      destruct (decode_fields raw lay s2) as [vs1 s3| | |] eqn:E2; try discriminate.
      inversion H; subst.
      destruct (IH s2 vs1 s' Hok2 E2) as [Hc2 Hw2].
      split.
      * cbn [encode_fields encode_field]. rewrite Hc, Hc1, Hc2. rewrite <- !app_assoc. reflexivity.
      * cbn. rewrite pow4 in Hn. auto.
Qed.

(* ---------------- frames ---------------- *)
Lemma layout_typ_lt typ lay : layout_of typ = Some lay -> typ < 256 ^ N.of_nat 4.
Proof.
  unfold layout_of. intros H.
  repeat match type of H with
  | (if ?a =? ?b then _ else _) = _ => destruct (N.eqb_spec a b) as [->|_]; [vm_compute; reflexivity|]
  end. discriminate.
Qed.

Lemma frame_roundtrip typ lay vs s tail :
  layout_of typ = Some lay -> wf_vals lay vs -> concat s = encode_frame typ vs ++ tail ->
  exists s', decode_frame s = DOk (typ, vs) s' /\ concat s' = tail.
Proof.
  intros Hl Hwf Hc. unfold encode_frame in Hc. rewrite Hl, <- app_assoc in Hc.
  unfold decode_frame. rewrite n4.
  destruct (rd_be_app 4 typ s _ Hc (layout_typ_lt typ lay Hl)) as [s1 [E1 E2]].
  rewrite E1, Hl. destruct (decode_fields_rt false lay vs s1 tail Hwf E2) as [s2 [E3 E4]].
  rewrite E3. eauto.
Qed.

Lemma frame_prefix typ lay vs s p q :
  layout_of typ = Some lay -> wf_vals lay vs -> encode_frame typ vs = p ++ q -> q <> [] -> concat s = p ->
  decode_frame s = match p with [] => DEOF | _ => DUnexpected end.
Proof.
  intros Hl Hwf He Hq Hc. unfold encode_frame in He. rewrite Hl in He.
  unfold decode_frame. rewrite n4.
  destruct (app_split _ _ _ _ He) as [[l [Hp Hr]]|[l [Hln [Ha _]]]].
  - rewrite Hp in Hc |- *. destruct (rd_be_app 4 typ s l Hc (layout_typ_lt typ lay Hl)) as [s1 [E1 E2]].
    rewrite E1, Hl.
    destruct (decode_fields_prefix false lay vs s1 l q Hwf Hr Hq E2) as [H|[H _]]; [|discriminate].
    rewrite H. destruct (be 4 typ ++ l) eqn:Eb; [|reflexivity].
    apply (f_equal (@length N)) in Eb. rewrite app_length, be_length in Eb. cbn in Eb. lia.
  - assert ((length p < 4)%nat) as H4.
    { pose proof (f_equal (@length N) Ha) as HL.
      rewrite be_length, app_length in HL. destruct l; [congruence|]. cbn [length] in HL. lia. }
    rewrite rd_be_short by (rewrite Hc; assumption). rewrite Hc. destruct p; reflexivity.
Qed.

Lemma frame_sound s typ vs s' :
  bytes_ok (concat s) -> decode_frame s = DOk (typ, vs) s' ->
  concat s = encode_frame typ vs ++ concat s' /\ exists lay, layout_of typ = Some lay /\ wf_vals lay vs.
Proof.
  intros Hok H. unfold decode_frame in H. rewrite n4 in H.
  destruct (rd_be (N.of_nat 4) s) as [t s1| |] eqn:E; try discriminate.
  destruct (rd_be_ok_inv 4 t s s1 Hok E) as [Hc Ht].
  destruct (layout_of t) as [lay|] eqn:El; [|discriminate].
  destruct (decode_fields false lay s1) as [vs1 s2| | |] eqn:E2; try discriminate.
  inversion H; subst.
  assert (bytes_ok (concat s1)) as Hok1. { rewrite Hc in Hok. apply Forall_app in Hok. tauto. }
  destruct (decode_fields_sound false lay s1 vs s' Hok1 E2) as [Hc1 Hw].
  split; [|eauto]. unfold encode_frame. rewrite El, Hc, Hc1, app_assoc. reflexivity.
Qed.

(* ---------------- allocation ---------------- *)
Lemma alloc_fields_bound : forall lay s,
  alloc_fields false lay s <= 520 * N.of_nat (length lay) + 2 * avail s.
Proof.
  induction lay as [|f lay IH]; intros s; cbn [alloc_fields length]; [lia|].
  destruct f.
  - destruct (rd_be 4 s) as [n s1| |] eqn:E; try lia.
    specialize (IH s1). apply avail_rd_be in E. lia.
  - destruct (rd_be 8 s) as [n s1| |] eqn:E; try lia.
    specialize (IH s1). apply avail_rd_be in E. lia.
  - destruct (rd_be 4 s) as [n s1| |] eqn:E; try lia.
    apply avail_rd_be in E.
    destruct (rd n s1) as [b s2| |] eqn:E1.
    + specialize (IH s2). apply avail_rd in E1. lia.
    + lia.
    + lia.
Qed.

Lemma layout_len typ lay : layout_of typ = Some lay -> (length lay <= 2)%nat.
Proof.
  unfold layout_of. intros H.
  repeat match type of H with
  | (if ?c then _ else _) = _ => destruct c; [inversion H; subst; cbn; lia|]
  end. discriminate.
Qed.

Lemma alloc_frame_bound s : alloc_frame false s <= 1044 + 2 * avail s.
Proof.
  unfold alloc_frame. destruct (rd_be 4 s) as [t s1| |] eqn:E; try lia.
  destruct (layout_of t) as [lay|] eqn:El; [|lia].
  pose proof (alloc_fields_bound lay s1). pose proof (layout_len t lay El).
  apply avail_rd_be in E. lia.
Qed.

(* ---------------- position maps ---------------- *)
Lemma pos_enc_nonempty e : wf_vals pos_layout e -> (1 <= length (encode_fields pos_layout e))%nat.
Proof.
  unfold pos_layout. destruct e as [|v e]; [intros []|]. intros [Hv _].
  destruct v; cbn [wf_val] in Hv; try contradiction.
  cbn [encode_fields encode_field]. rewrite !app_length, be_length. lia.
Qed.

Lemma posents_len m : Forall (wf_vals pos_layout) m ->
  (length m <= length (concat (map (encode_fields pos_layout) m)))%nat.
Proof.
  induction 1 as [|e m He Hm IH]; cbn [map concat length]; [lia|].
  rewrite app_length. pose proof (pos_enc_nonempty e He). lia.
Qed.

Lemma decode_posents_rt : forall m fuel s tail,
  Forall (wf_vals pos_layout) m -> (length m <= fuel)%nat ->
  concat s = concat (map (encode_fields pos_layout) m) ++ tail ->
  exists s', decode_posents fuel (N.of_nat (length m)) s = DOk m s' /\ concat s' = tail.
Proof.
  induction m as [|e m IH]; intros fuel s tail Hwf Hf Hc.
  - exists s. destruct fuel; cbn in *; auto.
  - inversion Hwf as [|? ? He Hm]; subst. destruct fuel as [|fuel]; [cbn in Hf; lia|].
    cbn [decode_posents]. destruct (N.eqb_spec (N.of_nat (length (e :: m))) 0) as [E|_]; [cbn in E; lia|].
    cbn [map concat] in Hc. rewrite <- app_assoc in Hc.
    destruct (decode_fields_rt true pos_layout e s _ He Hc) as [s1 [E1 E2]]. rewrite E1.
    replace (N.of_nat (length (e :: m)) - 1) with (N.of_nat (length m)) by (cbn [length]; lia).
    destruct (IH fuel s1 tail Hm) as [s2 [E3 E4]]; [cbn in Hf; lia|assumption|].
    rewrite E3. eauto.
Qed.

Lemma posmap_roundtrip m s tail :
  Forall (wf_vals pos_layout) m -> N.of_nat (length m) < 2 ^ 32 ->
  concat s = encode_posmap m ++ tail ->
  exists s', decode_posmap s = DOk m s' /\ concat s' = tail.
Proof.
  intros Hwf Hn Hc. unfold encode_posmap in Hc. rewrite <- app_assoc in Hc.
  unfold decode_posmap. rewrite n4.
  destruct (rd_be_app 4 _ s _ Hc) as [s1 [E1 E2]]; [rewrite pow4; assumption|].
  rewrite E1. apply decode_posents_rt; [assumption| |assumption].
  rewrite E2, app_length. pose proof (posents_len m Hwf). lia.
Qed.

Definition is_err {A} (r : dres A) : Prop := forall v s, r <> DOk v s.

Lemma is_short_err raw {A} (r : dres A) : is_short raw r -> is_err r.
Proof. intros [H|[_ H]] v s; subst; discriminate. Qed.

Lemma decode_posents_prefix : forall m fuel s p q,
  Forall (wf_vals pos_layout) m ->
  concat (map (encode_fields pos_layout) m) = p ++ q -> q <> [] -> concat s = p ->
  is_err (decode_posents fuel (N.of_nat (length m)) s).
Proof.
  induction m as [|e m IH]; intros fuel s p q Hwf He Hq Hc.
  - cbn in He. destruct p; [|discriminate]. cbn in He. congruence.
  - inversion_clear Hwf as [|? ? Hwe Hm].
    destruct fuel as [|fuel]; cbn [decode_posents];
      (destruct (N.eqb_spec (N.of_nat (length (e :: m))) 0) as [E|_]; [cbn in E; lia|]);
      [intros v s'; discriminate|].
    cbn [map concat] in He.
    destruct (app_split _ _ _ _ He) as [[l [Hp Hr]]|[l [Hl [Ha _]]]].
    + rewrite Hp in Hc. destruct (decode_fields_rt true pos_layout e s l Hwe Hc) as [s1 [E1 E2]]. rewrite E1.
      replace (N.of_nat (length (e :: m)) - 1) with (N.of_nat (length m)) by (cbn [length]; lia).
      pose proof (IH fuel s1 l q Hm Hr Hq E2) as Herr.
      destruct (decode_posents fuel (N.of_nat (length m)) s1) as [es s2| | |] eqn:E3;
        intros v s'; try discriminate. exfalso. eapply Herr. reflexivity.
    + pose proof (decode_fields_prefix true pos_layout e s p l Hwe Ha Hl Hc) as Hs.
      destruct Hs as [H|[_ H]]; rewrite H; intros v s'; discriminate.
Qed.

Lemma posmap_prefix m s p q :
  Forall (wf_vals pos_layout) m -> N.of_nat (length m) < 2 ^ 32 ->
  encode_posmap m = p ++ q -> q <> [] -> concat s = p -> is_err (decode_posmap s).
Proof.
  intros Hwf Hn He Hq Hc. unfold encode_posmap in He. unfold decode_posmap. rewrite n4.
  destruct (app_split _ _ _ _ He) as [[l [Hp Hr]]|[l [Hl [Ha _]]]].
  - rewrite Hp in Hc. destruct (rd_be_app 4 _ s l Hc) as [s1 [E1 E2]]; [rewrite pow4; assumption|].
    rewrite E1. eapply decode_posents_prefix; eassumption.
  - assert ((length p < 4)%nat) as H4.
    { pose proof (f_equal (@length N) Ha) as HL.
      rewrite be_length, app_length in HL. destruct l; [congruence|]. cbn [length] in HL. lia. }
    rewrite rd_be_short by (rewrite Hc; assumption). destruct (concat s); intros v s'; discriminate.
Qed.

(* ---------------- chunked bodies ---------------- *)
Lemma max_lt : c_chunk_MaxChunkSize < 256 ^ N.of_nat 2.
Proof. vm_compute. reflexivity. Qed.
Lemma max_pos : 0 < c_chunk_MaxChunkSize.
Proof. vm_compute. reflexivity. Qed.
Lemma eof_zero : c_chunk_EOF = 0.
Proof. vm_compute. reflexivity. Qed.

Definition chunk_ok (c : list byte) : Prop := 1 <= N.of_nat (length c) <= c_chunk_MaxChunkSize.
Definition enc_chunks (cs : list (list byte)) : list byte :=
  concat (map (fun c => be 2 (N.of_nat (length c)) ++ c) cs).

Lemma split_chunks_ok : forall fuel p, Forall chunk_ok (split_chunks fuel p).
Proof.
  induction fuel as [|fuel IH]; intros p; cbn [split_chunks]; [constructor|].
  destruct p as [|x p]; [constructor|]. constructor; [|apply IH].
  unfold chunk_ok. rewrite firstn_length. pose proof max_pos. cbn [length]. lia.
Qed.

Lemma split_chunks_concat : forall fuel p, (length p < fuel)%nat -> concat (split_chunks fuel p) = p.
Proof.
  induction fuel as [|fuel IH]; intros p Hf; [lia|]. cbn [split_chunks].
  destruct p as [|x p]; [reflexivity|]. cbn [concat]. rewrite IH.
  - apply firstn_skipn.
  - rewrite skipn_length. pose proof max_pos. cbn [length] in *. lia.
Qed.

Lemma chunk_write_one_enc p : chunk_write_one p = enc_chunks (split_chunks (S (length p)) p).
Proof. reflexivity. Qed.

Lemma enc_chunks_app a b : enc_chunks (a ++ b) = enc_chunks a ++ enc_chunks b.
Proof. unfold enc_chunks. rewrite map_app, concat_app. reflexivity. Qed.

Lemma chunk_write_enc ws : exists cs, chunk_write ws = enc_chunks cs /\ Forall chunk_ok cs /\ concat cs = concat ws.
Proof.
  induction ws as [|w ws [cs [E [Hok Hc]]]].
  - exists []. cbn. auto.
  - exists (split_chunks (S (length w)) w ++ cs). unfold chunk_write in *. cbn [map concat].
    rewrite E, chunk_write_one_enc, enc_chunks_app. split; [reflexivity|]. split.
    + apply Forall_app. split; [apply split_chunks_ok|assumption].
    + rewrite concat_app, split_chunks_concat by lia. rewrite Hc. reflexivity.
Qed.

Lemma chunk_read_rt em : forall cs fuel s tail,
  Forall chunk_ok cs -> (length cs < fuel)%nat ->
  concat s = enc_chunks cs ++ chunk_close ++ tail ->
  exists s', chunk_read em fuel s = (concat cs, CClean s') /\ concat s' = tail.
Proof.
  induction cs as [|c cs IH]; intros fuel s tail Hok Hf Hc; (destruct fuel as [|fuel]; [lia|]); cbn [chunk_read].
  - cbn [enc_chunks map concat app] in Hc. unfold chunk_close in Hc. rewrite n2.
    destruct (rd_be_app 2 c_chunk_EOF s tail Hc) as [s1 [E1 E2]]; [rewrite eof_zero; cbn; lia|].
    rewrite E1, N.eqb_refl. exists s1. auto.
  - inversion_clear Hok as [|? ? Hc1 Hcs]. unfold enc_chunks in Hc. cbn [map concat] in Hc.
    rewrite <- !app_assoc in Hc. rewrite n2.
    destruct (rd_be_app 2 _ s _ Hc) as [s1 [E1 E2]].
    { unfold chunk_ok in Hc1. pose proof max_lt. lia. }
    rewrite E1. destruct (N.eqb_spec (N.of_nat (length c)) c_chunk_EOF) as [E|_].
    { unfold chunk_ok in Hc1. rewrite eof_zero in E. lia. }
    destruct (rd_app (N.of_nat (length c)) s1 c _ E2 eq_refl) as [s2 [E3 E4]]. rewrite E3.
    destruct (IH fuel s2 tail Hcs) as [s3 [E5 E6]]; [cbn in Hf; lia|exact E4|].
    rewrite E5. exists s3. cbn [concat]. auto.
Qed.

Lemma chunk_roundtrip ws s tail :
  concat s = chunk_write ws ++ chunk_close ++ tail ->
  exists s', chunk_read_all true s = (concat ws, CClean s') /\ concat s' = tail.
Proof.
  intros Hc. destruct (chunk_write_enc ws) as [cs [E [Hok Hcc]]]. rewrite E in Hc.
  unfold chunk_read_all. rewrite <- Hcc. apply chunk_read_rt; [assumption| |assumption].
  rewrite Hc, !app_length.
  assert (length cs <= length (enc_chunks cs))%nat as HL.
  { clear -Hok. induction Hok as [|c cs Hc Hcs IH]; [cbn; lia|].
    unfold enc_chunks in *. cbn [map concat length]. rewrite !app_length, be_length. lia. }
  lia.
Qed.

Lemma chunk_read_prefix : forall cs fuel s p q,
  Forall chunk_ok cs -> enc_chunks cs ++ chunk_close = p ++ q -> q <> [] -> concat s = p ->
  snd (chunk_read true fuel s) = CUnexpected.
Proof.
  induction cs as [|c cs IH]; intros fuel s p q Hok He Hq Hc; (destruct fuel as [|fuel]; [reflexivity|]); cbn [chunk_read].
  - cbn [enc_chunks map concat app] in He. unfold chunk_close in He.
    assert ((length p < 2)%nat) as H2.
    { pose proof (f_equal (@length N) He) as HL.
      rewrite be_length, app_length in HL. destruct q; [congruence|]. cbn [length] in HL. lia. }
    rewrite n2, rd_be_short by (rewrite Hc; assumption). destruct (concat s); reflexivity.
  - inversion_clear Hok as [|? ? Hc1 Hcs]. unfold enc_chunks in He. cbn [map concat] in He.
    rewrite <- !app_assoc in He. rewrite n2.
    destruct (app_split _ _ _ _ He) as [[l [Hp Hr]]|[l [Hl [Ha _]]]].
    + rewrite Hp in Hc. destruct (rd_be_app 2 _ s l Hc) as [s1 [E1 E2]].
      { unfold chunk_ok in Hc1. pose proof max_lt. lia. }
      rewrite E1. destruct (N.eqb_spec (N.of_nat (length c)) c_chunk_EOF) as [E|_].
      { unfold chunk_ok in Hc1. rewrite eof_zero in E. lia. }
      destruct (app_split _ _ _ _ Hr) as [[l2 [Hp2 Hr2]]|[l2 [Hl2 [Ha2 _]]]].
      * rewrite Hp2 in E2. destruct (rd_app (N.of_nat (length c)) s1 c l2 E2 eq_refl) as [s2 [E3 E4]]. rewrite E3.
        specialize (IH fuel s2 l2 q Hcs Hr2 Hq E4).
        destruct (chunk_read true fuel s2) as [d e]. cbn in *. assumption.
      * assert (N.of_nat (length (concat s1)) < N.of_nat (length c)) as Hsh.
        { rewrite E2, Ha2, app_length. destruct l2; [congruence|]. cbn [length]. lia. }
        rewrite rd_short by assumption. destruct (concat s1); reflexivity.
    + assert ((length p < 2)%nat) as H2.
      { pose proof (f_equal (@length N) Ha) as HL.
        rewrite be_length, app_length in HL. destruct l; [congruence|]. cbn [length] in HL. lia. }
      rewrite rd_be_short by (rewrite Hc; assumption). destruct (concat s); reflexivity.
Qed.

Lemma chunk_prefix ws s p q :
  chunk_write ws ++ chunk_close = p ++ q -> q <> [] -> concat s = p ->
  snd (chunk_read_all true s) = CUnexpected.
Proof.
  intros He Hq Hc. destruct (chunk_write_enc ws) as [cs [E [Hok _]]]. rewrite E in He.
  unfold chunk_read_all. eapply chunk_read_prefix; eassumption.
Qed.

(* ReadFullAt *)
Lemma read_full_at_ok file n off b :
  read_full_at file n off = RFAOk b <->
  (n <= N.of_nat (length (skipn (N.to_nat off) file)) /\ b = firstn (N.to_nat n) (skipn (N.to_nat off) file)).
Proof.
  unfold read_full_at. destruct (N.leb_spec n (N.of_nat (length (skipn (N.to_nat off) file)))) as [H|H].
  - split; [intros E; inversion E; auto|intros [_ ->]; reflexivity].
  - split; [destruct (skipn (N.to_nat off) file); discriminate|intros [H' _]; lia].
Qed.
