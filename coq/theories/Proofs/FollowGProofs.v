(* C01 without the no-collision premise, over the steps of C04_history (restarts of the primary excepted): the follower's
   database file holds, page for page, the primary's logical database, at the same position. *)
From Coq Require Import NArith List Lia ZifyN ZifyNat ZifyBool Bool Arith Sorted.
Require Import LF.Gen.ConstsGen LF.Model.PageDB LF.Proofs.XorLib LF.Proofs.ChecksumProofs LF.Proofs.CaptureProofs
  LF.Proofs.ChainProofs LF.Proofs.ApplyProofs
  LF.Proofs.HistoryProofs LF.Proofs.WalHistoryProofs LF.Proofs.WalCheckpointProofs LF.Proofs.SqlCheckpointProofs
  LF.Proofs.ApplyHistoryProofs LF.Proofs.OpenProofs LF.Proofs.ComposeProofs LF.Proofs.FollowProofs LF.Proofs.FollowWalProofs.
Import ListNotations.
Local Open Scope N_scope.

(* with nothing in the log the logical database is the file *)
Lemma simw_of_sim sP sR : wpages sP = [] -> Sim sP sR -> SimW sP sR.
Proof. intros Hw [A B C D E]. constructor; try assumption. intros p Hp Hnl. unfold lpage. rewrite Hw. apply E; assumption. Qed.
Lemma sim_of_simw sP sR : wpages sP = [] -> SimW sP sR -> Sim sP sR.
Proof.
  intros Hw [A B C D E]. constructor; try assumption. intros p Hp Hnl. rewrite (E p Hp Hnl). unfold lpage. rewrite Hw. reflexivity.
Qed.

(* ---- WAL-mode steps leave the dirty set alone ---- *)
Lemma dirty_fold_write : forall pages s, dirty (fold_left (fun a kv => write_db_page a (fst kv) (snd kv)) pages s) = dirty s.
Proof. induction pages as [|kv r IH]; intros s; cbn [fold_left]; [reflexivity|]. rewrite IH. reflexivity. Qed.
Lemma dirty_truncate_db s n : dirty (truncate_db s n) = dirty s.
Proof.
  unfold truncate_db, reset_after.
  destruct (clear_from_dirty_pn (length (chk_pages (with_file s (firstn (N.to_nat n) (dbfile s))))) (with_file s (firstn (N.to_nat n) (dbfile s))) n) as [A _].
  exact A.
Qed.
Lemma commit_wal_dirty s frames commit s' : op_commit_wal s frames commit = (Done, s') -> dirty s' = dirty s.
Proof.
  intros H. unfold op_commit_wal in H.
  destruct (truncated_pages _ _ _ _) as [new|]; [|discriminate].
  pose proof (checksum_same s commit new) as HS.
  destruct (checksum s commit new) as [[post|] s1]; [|discriminate]. cbn [snd] in HS.
  destruct (writeable s1); cbn [negb] in H; [|discriminate]. inversion H; subst s'. clear H.
  destruct HS as [_ [_ [_ [_ [_ [_ [_ [_ [_ [E _]]]]]]]]]]. cbn [dirty with_pos with_wal]. exact E.
Qed.
Lemma wop2_dirty s v o s' : WL s v -> run_group s (wop2_ops s o) = (0, s') -> dirty s' = dirty s.
Proof.
  intros HW H. destruct o as [fr c| |p|p q|]; cbn [wop2_ops] in H.
  - apply run_group_one in H. cbn [step] in H. apply (commit_wal_dirty s fr c s' H).
  - apply run_group_one in H. cbn [step] in H. unfold op_checkpoint in H.
    destruct (wal_committed _ _ _ _) as [pages lastc]. inversion H; subst s'. cbn [dirty with_wal].
    destruct pages as [|kv pages]; [reflexivity|]. cbn [dirty with_pos]. rewrite dirty_truncate_db. apply dirty_fold_write.
  - destruct (alookup p (wpages s)) as [q|].
    + apply run_group_one in H. cbn [step] in H. unfold op_write_page in H.
      rewrite (w_w s v HW), (w_mode s v HW) in H. cbn [negb] in H. inversion H; subst s'. reflexivity.
    + cbn [run_group] in H. inversion H; subst s'. reflexivity.
  - apply run_group_one in H. cbn [step] in H. unfold op_write_page in H.
    rewrite (w_w s v HW), (w_mode s v HW) in H. cbn [negb] in H. inversion H; subst s'. reflexivity.
  - unfold sql_ckpt_ops in H. rewrite run_group_app, (run_wal_writes _ s (w_w s v HW) (w_mode s v HW)) in H.
    cbn [run_group step] in H. unfold op_truncate in H.
    match type of H with context [negb (?a =? ?b)] => destruct (negb (a =? b)) end; cbn [ocode] in H; [inversion H|].
    unfold op_wal_header in H. inversion H; subst s'. cbn [dirty with_wal]. rewrite dirty_truncate_db. apply dirty_fold_write.
Qed.

(* ---- the way back out of WAL mode ---- *)
Lemma follow_leave sP sR v q c sP' sR' : WL sP v -> WK sP v -> wal_file sP = [] -> dirty sP = [] -> SimW sP sR -> pg_wal q = false ->
  run_group sP (leave_ops q c) = (0, sP') -> run_recv sR (new_files sP sP') = Some sR' ->
  dirty sP' = [] /\ SimW sP' sR'.
Proof.
  intros HW HK Hf Hd HS Hq H HR.
  destruct (leave_step sP v q c sP' HW HK Hf Hq H) as [_ [Hf' [_ El]]].
  pose proof (wpages_nil_of_file sP Hf) as Hwp.
  pose proof (sim_of_simw sP sR Hwp HS) as HS0.
  change (leave_ops q c) with ([OWalTruncate; OWriteJ 1 q] ++ [OCommitJournal c]) in H. rewrite run_group_app in H.
  set (sa := with_wal sP [] [] []).
  set (s1 := write_db_page (with_dirty sa (insert_sorted 1 (dirty sa))) 1 q).
  assert (E1 : run_group sP [OWalTruncate; OWriteJ 1 q] = (0, s1)).
  { cbn [run_group step]. unfold op_wal_reset. cbn [ocode]. fold sa. unfold op_write_page_j.
    change (writeable sa) with (writeable sP). rewrite (w_w sP v HW). cbn [negb ocode]. reflexivity. }
  rewrite E1 in H. apply run_group_one in H.
  assert (SM : SameM sP s1).
  { constructor.
    - intros x Hx Hnd. change (dirty s1) with (insert_sorted 1 (dirty sP)) in Hnd. rewrite Hd in Hnd. cbn [insert_sorted In] in Hnd.
      unfold s1. rewrite fpg_write by lia. destruct (N.eqb_spec x 1) as [->|_]; [tauto|reflexivity].
    - reflexivity.
    - change (dirty s1) with (insert_sorted 1 (dirty sP)). rewrite Hd. cbn [insert_sorted]. repeat constructor.
    - intros x Hx. change (dirty s1) with (insert_sorted 1 (dirty sP)) in Hx. rewrite Hd in Hx. cbn [insert_sorted In] in Hx.
      destruct Hx as [<-|[]]. lia.
    - repeat split; reflexivity. }
  destruct (follow_commit_sim sP sR s1 c sP' sR' HS0 SM H El HR) as [A B].
  split; [exact A|]. apply simw_of_sim; [apply wpages_nil_of_file; exact Hf'|exact B].
Qed.

(* ---- both nodes apply the same file ---- *)
Lemma both_apply sP sR f d1 d2 sP' sR' : SimW sP sR -> wpages sP = [] -> wf_ltx f ->
  (forall x, pageN sP < x <= l_commit f -> x <> lockpg sP -> alookup x (l_pages f) <> None) ->
  op_apply (with_dir sP d1) f true = (Done, sP') -> op_apply (with_dir sR d2) f true = (Done, sR') ->
  wal_file sP' = [] -> SimW sP' sR'.
Proof.
  intros [A B C D E] Hwp Hwf Hg HP HRr Hf'.
  destruct (apply_done _ f true sP' HP) as [Pt [Pc [Pp _]]]. destruct (apply_done _ f true sR' HRr) as [Rt [Rc [Rp _]]].
  pose proof (apply_lockpg _ f true sP' HP) as Pl. pose proof (apply_lockpg _ f true sR' HRr) as Rl. cbn [lockpg with_dir] in Pl, Rl.
  constructor; try congruence.
  intros x Hx Hnl. rewrite Pp in Hx. rewrite Pl in Hnl.
  assert (l_commit f <> 0) as Hc0 by lia.
  unfold lpage. rewrite (wpages_nil_of_file sP' Hf'). cbn [alookup].
  rewrite (apply_fpg _ f true sR' HRr Hwf Hc0 x Hx), (apply_fpg _ f true sP' HP Hwf Hc0 x Hx).
  destruct (alookup x (l_pages f)) as [q|] eqn:Ea; [reflexivity|].
  change (fpg (with_dir sR d2) x) with (fpg sR x). change (fpg (with_dir sP d1) x) with (fpg sP x).
  assert (x <= pageN sP) as Hle.
  { destruct (N.le_gt_cases x (pageN sP)); [assumption|]. exfalso. apply (Hg x); [lia|assumption|exact Ea]. }
  rewrite (E x ltac:(lia) Hnl). unfold lpage. rewrite Hwp. reflexivity.
Qed.

(* the follower's decision about a file is the primary's: they are at the same position *)
Lemma same_decision sP sR f : SimW sP sR -> extends_pos sR f = extends_pos sP f.
Proof. intros [A B C D E]. unfold extends_pos. rewrite C, D. reflexivity. Qed.

Lemma apply_not_failed s f s' : op_apply s f true = (Failed, s') -> False.
Proof.
  intros H. unfold op_apply in H.
  repeat match type of H with
  | context [let '(_, _) := ?x in _] => destruct x
  | context [match ?x with (_, _) => _ end] => destruct x
  | context [match ?x with Some _ => _ | None => _ end] => destruct x
  | context [if ?x then _ else _] => destruct x
  end; inversion H.
Qed.

Lemma apply_dirty s f fatal s' : op_apply s f fatal = (Done, s') -> dirty s' = dirty s.
Proof.
  intros H. unfold op_apply in H.
  set (s1 := fold_left (fun a kv => write_db_page a (fst kv) (snd kv)) (l_pages f) s) in *.
  assert (dirty s1 = dirty s) as E1 by apply dirty_fold_write.
  destruct (l_commit f =? 0); cbv beta iota zeta in H;
    (match type of H with context [checksum ?x ?c []] => pose proof (checksum_same x c []) as HS; destruct (checksum x c []) as [[c0|] s4] end;
     [|destruct fatal; discriminate]);
    cbn [snd] in HS; (destruct (c0 =? l_post f); [|destruct fatal; discriminate]); inversion H; subst s'; clear H;
    destruct HS as [_ [_ [_ [_ [_ [_ [_ [_ [_ [S10 _]]]]]]]]]]; cbn [dirty with_pos] in *; rewrite S10.
  - exact E1.
  - rewrite dirty_truncate_db. exact E1.
Qed.

(* the follower is sent one file that continues its position (or starts at 1): it applies it *)
Lemma follower_applies sR f sR' : (negb (is_snapshot f) && negb (extends_pos sR f)) = false ->
  run_recv sR [f] = Some sR' ->
  op_apply (with_dir sR (if is_snapshot f then [f] else ltxdir sR ++ [f])) f true = (Done, sR').
Proof.
  intros Hn H. cbn [run_recv] in H. unfold op_receive in H. rewrite Hn in H.
  destruct (op_apply _ f true) as [oc s1] eqn:E. destruct oc; try discriminate.
  - inversion H; subst. reflexivity.
  - exfalso. apply (apply_not_failed _ f s1 E).
Qed.

(* ---- the history: the primary's steps, the follower being sent what each publishes ---- *)
Definition sent (sP : st) (g : gstep) (sP' : st) : list ltxrec :=
  match g with
  | GRecv f => if refused sP f then [] else [f]                 (* the file reaches both nodes *)
  | GForward f ok => if fwd_refused sP f ok then [] else [f]    (* the forwarded transaction goes on down the stream *)
  | _ => new_files sP sP'
  end.
Definition no_restart (g : gstep) : Prop := match g with GRestart => False | _ => True end.
Definition FGInv (sP sR : st) (v : N -> N) : Prop := GInv sP v /\ dirty sP = [] /\ SimW sP sR.

Lemma ginv_nolog_cases sP v : GInv sP v -> wal_mode sP = false -> wal_file sP = [].
Proof. intros HI Hm. unfold GInv in HI. rewrite Hm in HI. apply HI. Qed.

Lemma fg_step sP sR v g sP' sR' : FGInv sP sR v -> wf_gstep sP g -> no_restart g ->
  grun sP g = Some sP' -> run_recv sR (sent sP g sP') = Some sR' -> FGInv sP' sR' (gview sP sP' g v).
Proof.
  intros [HI [Hd HS]] Hwf Hnr H HR.
  destruct (g_step sP v g sP' HI Hwf H) as [HI' El].
  split; [exact HI'|].
  destruct g as [h|zf acts c|o|q c| |f|f ok| |pages commit]; cbn [grun wf_gstep gview sent no_restart] in *.
  - (* a rollback-journal transaction that keeps the mode / the truncate *)
    destruct Hwf as [Hm Hws]. pose proof (ginv_nolog_cases sP v HI Hm) as Hf. pose proof (wpages_nil_of_file sP Hf) as Hwp.
    unfold GInv in HI. rewrite Hm in HI. destruct HI as [HJ _].
    destruct (run_group sP (hops sP h)) as [code s1] eqn:E. destruct code; [|discriminate]. inversion H; subst s1. clear H.
    destruct (follow_step sP sR h sP' sR' (conj HJ (conj Hd (sim_of_simw sP sR Hwp HS))) Hws E HR) as [HJ' [Hd' HS']].
    split; [exact Hd'|]. apply simw_of_sim; [|exact HS'].
    apply wpages_nil_of_file. apply (ginv_nolog_cases sP' _ HI' (j_mode sP' HJ')).
  - (* the switch *)
    destruct Hwf as [Hm [[Hnd [Hzf Hacts]] Hres]]. pose proof (ginv_nolog_cases sP v HI Hm) as Hf. pose proof (wpages_nil_of_file sP Hf) as Hwp.
    destruct (run_group sP (hops sP (HTx zf acts c))) as [code s1] eqn:E. destruct code; [|discriminate]. inversion H; subst s1. clear H.
    destruct (follow_tx_sim false sP sR zf acts c sP' sR' Hd Hm (sim_of_simw sP sR Hwp HS) Hzf Hacts E El HR) as [Hd' HS'].
    split; [exact Hd'|]. apply simw_of_sim; [|exact HS'].
    apply wpages_nil_of_file. rewrite (run_group_wal_file _ sP sP' (hops_jops sP (HTx zf acts c)) E). exact Hf.
  - (* WAL mode *)
    destruct Hwf as [Hm Hwo]. unfold GInv in HI. rewrite Hm in HI. destruct HI as [HW HK].
    destruct (run_group sP (wop2_ops sP o)) as [code s1] eqn:E. destruct code; [|discriminate]. inversion H; subst s1. clear H.
    split; [rewrite (wop2_dirty sP v o sP' HW E); exact Hd|].
    apply (followw_step sP sR v o sP' sR' HW HK HS Hwo E HR).
  - (* the way back *)
    destruct Hwf as [Hm [Hf Hq]]. unfold GInv in HI. rewrite Hm in HI. destruct HI as [HW HK].
    destruct (run_group sP (leave_ops q c)) as [code s1] eqn:E. destruct code; [|discriminate]. inversion H; subst s1. clear H.
    apply (follow_leave sP sR v q c sP' sR' HW HK Hf Hd HS Hq E HR).
  - contradiction.
  - (* a file from the stream reaches both *)
    destruct Hwf as [[Hwfl Hmax] [Hg [Hwm Hex]]].
    destruct (op_receive sP f) as [oc s1] eqn:E.
    assert (s1 = sP' /\ (oc = Done \/ oc = Failed)) as [-> Hoc] by (destruct oc; try discriminate; inversion H; auto).
    unfold op_receive in E. fold (refused sP f) in E. destruct (refused sP f) eqn:Er.
    + inversion E; subst. cbn [run_recv] in HR. inversion HR; subst. auto.
    + assert (oc = Done) as -> by (destruct Hoc as [->| ->]; [reflexivity|exfalso; apply (apply_not_failed _ f sP' E)]).
      assert (Hwp : wpages sP = []).
      { apply wpages_nil_of_file. destruct (wal_mode sP) eqn:Em; [apply Hwm; reflexivity|apply (ginv_nolog_cases sP v HI Em)]. }
      assert (Hn : (negb (is_snapshot f) && negb (extends_pos sR f)) = false) by (rewrite (same_decision sP sR f HS); exact Er).
      pose proof (follower_applies sR f sR' Hn HR) as ER.
      destruct (apply_fields _ f true sP' E) as [_ [F1 F0]].
      assert (Hf' : wal_file sP' = []).
      { destruct (N.eq_dec (l_commit f) 0) as [Ec|Ec]; [apply (F0 Ec)|]. destruct (F1 Ec) as [A _]. rewrite A. cbn [wal_file with_dir].
        destruct (wal_mode sP) eqn:Em; [apply Hwm; reflexivity|apply (ginv_nolog_cases sP v HI Em)]. }
      split; [rewrite (apply_dirty _ f true sP' E); exact Hd|].
      apply (both_apply sP sR f _ _ sP' sR' HS Hwp Hwfl Hg E ER Hf').
  - (* a forwarded transaction *)
    destruct Hwf as [[Hwfl Hmax] [Hg [Hwm Hex]]].
    destruct (op_forward sP f ok) as [oc s1] eqn:E.
    assert (s1 = sP' /\ (oc = Done \/ oc = Failed)) as [-> Hoc] by (destruct oc; try discriminate; inversion H; auto).
    unfold op_forward in E. unfold fwd_refused in *. destruct (extends_pos sP f) eqn:Ee; cbn [negb orb] in *.
    2:{ inversion E; subst. cbn [run_recv] in HR. inversion HR; subst. auto. }
    destruct ok; cbn [negb] in *.
    2:{ inversion E; subst. cbn [run_recv] in HR. inversion HR; subst. auto. }
    assert (oc = Done) as -> by (destruct Hoc as [->| ->]; [reflexivity|exfalso; apply (apply_not_failed _ f sP' E)]).
    assert (Hwp : wpages sP = []).
    { apply wpages_nil_of_file. destruct (wal_mode sP) eqn:Em; [apply Hwm; reflexivity|apply (ginv_nolog_cases sP v HI Em)]. }
    assert (Hn : (negb (is_snapshot f) && negb (extends_pos sR f)) = false) by (rewrite (same_decision sP sR f HS), Ee, andb_false_r; reflexivity).
    pose proof (follower_applies sR f sR' Hn HR) as ER.
    destruct (apply_fields _ f true sP' E) as [_ [F1 F0]].
    assert (Hf' : wal_file sP' = []).
    { destruct (N.eq_dec (l_commit f) 0) as [Ec|Ec]; [apply (F0 Ec)|]. destruct (F1 Ec) as [A _]. rewrite A. cbn [wal_file with_dir].
      destruct (wal_mode sP) eqn:Em; [apply Hwm; reflexivity|apply (ginv_nolog_cases sP v HI Em)]. }
    split; [rewrite (apply_dirty _ f true sP' E); exact Hd|].
    apply (both_apply sP sR f _ _ sP' sR' HS Hwp Hwfl Hg E ER Hf').
  - (* a drop: the tombstone goes down the stream *)
    destruct (op_drop sP) as [oc s1] eqn:E. destruct oc; try discriminate. inversion H; subst s1. clear H.
    destruct (ginv_basic sP v HI) as [_ Hw]. unfold op_drop in E. rewrite Hw in E. cbn [negb] in E. inversion E; subst sP'. clear E.
    set (f := mkLtx (txid sP + 1) (txid sP + 1) (chk sP) flag 0 []) in *.
    unfold new_files in HR. cbn [ltxdir with_pos] in HR. rewrite skipn_snoc in HR.
    destruct HS as [A B C D E0].
    assert (Hn : (negb (is_snapshot f) && negb (extends_pos sR f)) = false).
    { unfold extends_pos. cbn [l_min l_pre f]. rewrite C, D, !N.eqb_refl. cbn [andb negb]. apply andb_false_r. }
    pose proof (follower_applies sR f sR' Hn HR) as ER.
    destruct (apply_done _ f true sR' ER) as [Rt [Rc [Rp _]]]. pose proof (apply_lockpg _ f true sR' ER) as Rl. cbn [lockpg with_dir] in Rl.
    cbn [l_max l_post l_commit f] in Rt, Rc, Rp.
    split; [cbn [dirty with_pos with_wal]; exact Hd|].
    constructor; cbn [lockpg pageN txid chk with_pos with_wal]; try congruence.
    intros p Hp. lia.
  - (* an import: its file goes down the stream *)
    destruct Hwf as [Hpos [Hnd [Hc0 [Hl1 Hcov]]]].
    destruct (op_import sP pages commit true) as [oc s1] eqn:E. destruct oc; try discriminate. inversion H; subst s1. clear H.
    destruct (ginv_basic sP v HI) as [_ Hw]. unfold op_import in E. rewrite Hw in E. cbn [negb] in E.
    set (pages' := filter (fun kv => (fun k => negb (k =? lockpg sP)) (fst kv)) pages) in *.
    set (f := mkLtx (txid sP + 1) (txid sP + 1) (chk sP) (if commit =? 0 then 0 else import_post (lockpg sP) pages) commit pages') in *.
    set (s1 := with_dirty (with_wal (with_dir sP (ltxdir sP ++ [f])) [] [] []) []) in *.
    assert (Hwfl : wf_ltx f).
    { split; cbn [l_pages f].
      - intros p q Hin. apply filter_In in Hin. apply (Hpos p q). tauto.
      - apply keys_filter. exact Hnd. }
    assert (Hlook : forall x, x <> lockpg sP -> alookup x pages' = alookup x pages).
    { intros x Hnl. unfold pages'. rewrite (alookup_filter_key (fun k => negb (k =? lockpg sP))).
      destruct (N.eqb_spec x (lockpg sP)); [contradiction|reflexivity]. }
    destruct (apply_done s1 f true sP' E) as [Pt [Pc [Pp Pd]]]. cbn [ltxdir s1 with_dirty with_wal with_dir] in Pd.
    unfold new_files in HR. rewrite Pd, skipn_snoc in HR.
    destruct HS as [A B C D E0].
    assert (Hn : (negb (is_snapshot f) && negb (extends_pos sR f)) = false).
    { unfold extends_pos. cbn [l_min l_pre f]. rewrite C, D, !N.eqb_refl. cbn [andb negb]. apply andb_false_r. }
    pose proof (follower_applies sR f sR' Hn HR) as ER.
    destruct (apply_done _ f true sR' ER) as [Rt [Rc [Rp _]]]. cbn [l_max l_post l_commit f] in Rt, Rc, Rp, Pt, Pc, Pp.
    pose proof (apply_lockpg _ f true sR' ER) as Rl. pose proof (apply_lockpg _ f true sP' E) as Pl. cbn [lockpg with_dir s1 with_dirty with_wal] in Rl, Pl.
    destruct (apply_fields s1 f true sP' E) as [_ [F1 _]]. destruct (F1 Hc0) as [Fwf _]. change (wal_file s1) with (@nil (N * pg * N)) in Fwf.
    split; [rewrite (apply_dirty s1 f true sP' E); reflexivity|].
    constructor; try congruence.
    intros x Hx Hnl. rewrite Pp in Hx. rewrite Pl in Hnl. cbn [l_commit f] in Hx.
    unfold lpage. rewrite (wpages_nil_of_file sP' Fwf). cbn [alookup].
    rewrite (apply_fpg _ f true sR' ER Hwfl Hc0 x Hx), (apply_fpg s1 f true sP' E Hwfl Hc0 x Hx). cbn [l_pages f].
    rewrite (Hlook x Hnl). destruct (alookup x pages) as [q|] eqn:Ea; [reflexivity|]. exfalso. apply (Hcov x Hx Ea).
Qed.

Fixpoint followg (sP sR : st) (v : N -> N) (gs : list gstep) : option (st * st) :=
  match gs with
  | [] => Some (sP, sR)
  | g :: r => match grun sP g with
              | Some sP' => match run_recv sR (sent sP g sP') with
                            | Some sR' => followg sP' sR' (gview sP sP' g v) r
                            | None => None
                            end
              | None => None
              end
  end.
Fixpoint wf_fgsteps (s : st) (gs : list gstep) : Prop :=
  match gs with
  | [] => True
  | g :: r => wf_gstep s g /\ no_restart g /\ forall s', grun s g = Some s' -> wf_fgsteps s' r
  end.

Theorem followg_invariant : forall gs sP sR v sP' sR',
  FGInv sP sR v -> wf_fgsteps sP gs -> followg sP sR v gs = Some (sP', sR') ->
  exists v', FGInv sP' sR' v' /\ lockpg sP' = lockpg sP.
Proof.
  induction gs as [|g r IH]; intros sP sR v sP' sR' HI Hwf H; cbn [followg wf_fgsteps] in *.
  - inversion H; subst. exists v. auto.
  - destruct Hwf as [Hw [Hnr Hrest]]. destruct (grun sP g) as [s1|] eqn:E; [|discriminate].
    destruct (run_recv sR (sent sP g s1)) as [r1|] eqn:Er; [|discriminate].
    pose proof (fg_step sP sR v g s1 r1 HI Hw Hnr E Er) as HI1.
    destruct (g_step sP v g s1 (proj1 HI) Hw E) as [_ El1].
    destruct (IH s1 r1 _ sP' sR' HI1 (Hrest s1 eq_refl) H) as [v' [A B]]. exists v'. split; [exact A|congruence].
Qed.

(* C01 without the no-collision premise, for every history of a primary made of the steps of C04_history other than its own
   restart - rollback-journal transactions, truncates, the switch, WAL commits, checkpoints of every kind, the way back,
   files from the stream or forwarded under the halt lock, drops, imports - and a follower that is sent what each step
   publishes: the follower is at the primary's position and its database file holds the primary's logical database *)
Theorem follower_identical_g lock gs sP sR :
  1 <= lock -> wf_fgsteps (init lock) gs -> followg (init lock) (init lock) (fun _ => 0) gs = Some (sP, sR) ->
  txid sR = txid sP /\ chk sR = chk sP /\ pageN sR = pageN sP /\
  (forall p, 1 <= p <= pageN sP -> p <> lock -> fpg sR p = lpage sP p).
Proof.
  intros Hl Hwf H.
  assert (FGInv (init lock) (init lock) (fun _ => 0)) as HI0.
  { split; [unfold GInv; cbn [wal_mode init]; split; [apply j_init; exact Hl|split; reflexivity]|].
    split; [reflexivity|]. constructor; try reflexivity. }
  destruct (followg_invariant gs _ _ _ sP sR HI0 Hwf H) as [v' [[_ [_ [A B C D E]]] El]].
  change (lockpg (init lock)) with lock in El. rewrite El in E. auto.
Qed.

(* a concrete history that meets the hypotheses (the non-vacuity example of Props/C01.v) *)
Lemma follower_identical_g_example :
  let pg h n := mkPg (fl h) n false in
  let pw h n := mkPg (fl h) n true in
  let x3 a b c := fl (N.lxor (N.lxor (fl a) (fl b)) (fl c)) in
  let gs := [GJ (HTx [] [AWrite 1 (pg 11 2); AWrite 2 (pg 19 0); AFail 2; AWrite 2 (pg 12 0)] 2);
             GSwitch [] [AWrite 1 (pw 13 2)] 2;
             GW (W2Commit [(1, pw 14 3); (3, pw 33 0); (2, pw 23 0)] 3);
             GW (W2Commit [(2, pw 24 0)] 3);
             GW W2SqlRestart;
             GLeave (pg 15 3) 3;
             GJ (HTx [] [AWrite 3 (pg 36 0)] 3);
             GRecv (mkLtx 7 7 (x3 15 24 36) (x3 15 27 36) 3 [(2, pg 27 0)]);
             GRecv (mkLtx 9 9 0 0 1 []);
             GForward (mkLtx 8 8 0 0 1 []) true;
             GForward (mkLtx 8 8 (x3 15 27 36) (x3 18 27 36) 3 [(1, pg 18 3)]) true;
             GDrop;
             GImport [(1, pg 41 2); (2, pg 42 0)] 2] in
  wf_fgsteps (init 2097153) gs /\
  match followg (init 2097153) (init 2097153) (fun _ => 0) gs with
  | Some (sP, sR) => (txid sR, pageN sR, chk sR =? chk sP, map (fpg sR) [1; 2], map (lpage sP) [1; 2], length (ltxdir sR))
                     = (10, 2, true, [pg 41 2; pg 42 0], [pg 41 2; pg 42 0], 10%nat)
  | None => False
  end.
Proof.
  cbn zeta. split; [|vm_compute; reflexivity].
  Ltac gnextF s E := intros s E; vm_compute in E; inversion E; subst s; clear E.
  Ltac in_oneF H := cbn [In] in H; repeat (destruct H as [H|H]; [inversion H; subst; (reflexivity || lia)|]); destruct H.
  Ltac wf_txF := split; [constructor|]; split; [intros ? ? []|]; repeat constructor; cbn; (lia || discriminate).
  Ltac wf_commitF tac :=
    split; [reflexivity|]; split; [split; [cbn [pageN lockpg]; intros p Hp _; tac p Hp|intros q H; in_oneF H]|
                                   split; [discriminate|split; [discriminate|intros p q H; in_oneF H]]].
  Ltac grew3F p Hp := assert (p = 3) as -> by lia; eexists; cbn [In]; auto.
  Ltac nogrowF p Hp := lia.
  Ltac wf_rcvF :=
    split; [split; [split; [intros p q H; in_oneF H|unfold KeysNoDup; cbn [map fst l_pages]; repeat constructor; cbn [In]; lia]
                   |cbn [l_max]; discriminate]|];
    split; [cbn [pageN l_commit]; intros x Hx _; lia|]; split; [discriminate|left; discriminate].
  cbn [wf_fgsteps wf_gstep grun no_restart].
  split. { split; [reflexivity|]. cbn [wf_step]. wf_txF. } split; [exact I|].
  gnextF s1 E1. split. { split; [reflexivity|]. split; [wf_txF|]. intros s' E. vm_compute in E. inversion E; subst. reflexivity. } split; [exact I|].
  gnextF s2 E2. split. { wf_commitF nogrowF || wf_commitF grew3F. } split; [exact I|].
  gnextF s3 E3. split. { wf_commitF nogrowF. } split; [exact I|].
  gnextF s4 E4. split. { split; [reflexivity|exact I]. } split; [exact I|].
  gnextF s5 E5. split. { split; [reflexivity|]. split; reflexivity. } split; [exact I|].
  gnextF s6 E6. split. { split; [reflexivity|]. cbn [wf_step]. wf_txF. } split; [exact I|].
  gnextF s7 E7. split. { wf_rcvF. } split; [exact I|].
  gnextF s8 E8. split. { wf_rcvF. } split; [exact I|].
  gnextF s9 E9. split. { wf_rcvF. } split; [exact I|].
  gnextF s10 E10. split. { wf_rcvF. } split; [exact I|].
  gnextF s11 E11. split; [exact I|]. split; [exact I|].
  gnextF s12 E12. split.
  { split; [intros p q H; in_oneF H|]. split; [unfold KeysNoDup; cbn [map fst]; repeat constructor; cbn [In]; lia|].
    split; [discriminate|]. split; [cbn [lockpg]; discriminate|].
    intros x Hx. assert (x = 1 \/ x = 2) as [->| ->] by lia; discriminate. }
  split; [exact I|]. intros s13 _. exact I.
Qed.
