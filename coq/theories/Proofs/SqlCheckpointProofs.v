(* C04 along histories, continued: a checkpoint run by SQLite in WAL mode - pages of the log written into the database
   file through LiteFS - and the restart of the log that follows a complete one. *)
From Coq Require Import NArith List Lia ZifyN ZifyNat ZifyBool Bool Arith.
Require Import LF.Gen.ConstsGen LF.Model.PageDB LF.Proofs.XorLib LF.Proofs.ChecksumProofs LF.Proofs.CaptureProofs
  LF.Proofs.HistoryProofs LF.Proofs.WalHistoryProofs LF.Proofs.WalCheckpointProofs.
Import ListNotations.
Local Open Scope N_scope.

Lemma alookup_filter_key {A} (g : N -> bool) p : forall (l : list (N * A)),
  alookup p (filter (fun kv => g (fst kv)) l) = if g p then alookup p l else None.
Proof.
  induction l as [|[k v] l IH]; cbn [filter alookup fst]; [destruct (g p); reflexivity|].
  destruct (g k) eqn:Eg; cbn [alookup]; destruct (N.eqb_spec p k) as [->|Hne].
  - rewrite Eg. reflexivity.
  - exact IH.
  - rewrite IH, Eg. reflexivity.
  - exact IH.
Qed.

Lemma eff_cases s pN x : x <> lockpg s -> x <= pN ->
  eff s pN [] x = match alookup x (wal_chk s) with
                  | Some l => match last_or0 l with Some c => c | None => dbc s x end
                  | None => dbc s x
                  end.
Proof.
  intros Hnl Hle. unfold eff, page_chk. destruct (N.eqb_spec x (lockpg s)); [contradiction|].
  destruct (N.ltb_spec pN x); [lia|]. cbn [alookup].
  destruct (alookup x (wal_chk s)) as [l|]; [destruct (last_or0 l)|]; reflexivity.
Qed.

(* ---- one page of the log copied into the database file (a checkpoint that goes only part of the way) ---- *)
Lemma backfill_step s v p q s' : WL s v -> WK s v -> 1 <= p <= pageN s -> alookup p (wpages s) = Some q ->
  op_write_page s p q = (Done, s') -> WL s' v /\ WK s' v /\ lockpg s' = lockpg s.
Proof.
  intros HW HK Hp Hq H. destruct HW as [Ww Wm Wl Wc Wz Wv Wt Wk]. destruct HK as [k_scan0 k_last0 k_hash0 k_keys0 k_truth0 k_empty0 k_pos0 k_nodup0 k_in0].
  unfold op_write_page in H. rewrite Ww, Wm in H. cbn [negb] in H. inversion H; subst s'. clear H.
  destruct (write_db_page_facts s p q ltac:(lia) Wl Wc Wz) as [A1 [A2 [A3 [A4 [A5 [A6 [A7 [A8 [A9 A10]]]]]]]]].
  set (s' := write_db_page s p q) in *. cbn zeta in *.
  assert (Ek : wal_chk s' = wal_chk s) by reflexivity.
  assert (Es : wscan s' = wscan s) by reflexivity.
  assert (Ep : wpages s' = wpages s) by reflexivity.
  assert (Hcov : forall x, Cov s' x <-> Cov s x) by (intros x; unfold Cov; rewrite Ep, A4; tauto).
  split; [|split; [|exact A3]].
  - constructor.
    + congruence.
    + congruence.
    + rewrite A3. exact Wl.
    + exact A1.
    + exact A2.
    + intros x Hx Hnl. rewrite A4 in *. rewrite A3 in Hnl. pose proof (Wv x Hx Hnl) as Hv.
      rewrite eff_cases in Hv by (assumption || lia). rewrite eff_cases by (rewrite ?A3; assumption || lia). rewrite Ek.
      destruct (alookup x (wal_chk s)) as [l|]; [destruct (last_or0 l) as [c|]|]; try exact Hv;
        rewrite A9 by lia; destruct (N.eqb_spec x p) as [->|Hne]; try exact Hv;
        destruct (N.eqb_spec p (lockpg s)); try contradiction; apply (k_hash0 p q Hq); lia || assumption.
    + intros x Hx. rewrite A4 in Hx. rewrite Ek, A9 by lia. destruct (N.eqb_spec x p); [lia|]. apply Wt. assumption.
    + rewrite A8, A4, A3. exact Wk.
  - constructor.
    + rewrite Es. exact k_scan0.
    + rewrite Ep, Es, A4. exact k_last0.
    + intros x qx Hl Hle Hnl. rewrite Ep in Hl. rewrite A4 in Hle. rewrite A3 in Hnl. apply (k_hash0 x qx Hl Hle Hnl).
    + intros x Hnl Hx. rewrite A3 in Hnl. rewrite Ek in Hx. apply Hcov. apply (k_keys0 x Hnl Hx).
    + intros x Hx Hnl. rewrite A3 in Hnl. rewrite A9, A10 by assumption. destruct (N.eqb_spec x p) as [->|Hne].
      * left. destruct (N.eqb_spec p (lockpg s)); [contradiction|reflexivity].
      * destruct (k_truth0 x Hx Hnl) as [E|[Z Cv]]; [left; exact E|right; split; [exact Z|apply Hcov; exact Cv]].
    + rewrite Ep, Ek. exact k_empty0.
    + rewrite Ep. exact k_pos0.
    + rewrite Ep. exact k_nodup0.
    + intros x qx Hl Hle Hnl. rewrite Ep in Hl. rewrite A4 in Hle. rewrite A3 in Hnl. rewrite Ek. apply (k_in0 x qx Hl Hle Hnl).
Qed.

(* ... whatever version SQLite copies (readers may hold the checkpoint back at an older one): the page keeps answering from
   its WAL checksums, the cache slot and the file move together *)
Lemma backfill_any_step s v p q s' : WL s v -> WK s v -> 1 <= p <= pageN s -> alookup p (wpages s) <> None ->
  op_write_page s p q = (Done, s') -> WL s' v /\ WK s' v /\ lockpg s' = lockpg s.
Proof.
  intros HW HK Hp Hin H. destruct HW as [Ww Wm Wl Wc Wz Wv Wt Wk].
  destruct HK as [k_scan0 k_last0 k_hash0 k_keys0 k_truth0 k_empty0 k_pos0 k_nodup0 k_in0].
  unfold op_write_page in H. rewrite Ww, Wm in H. cbn [negb] in H. inversion H; subst s'. clear H.
  destruct (write_db_page_facts s p q ltac:(lia) Wl Wc Wz) as [A1 [A2 [A3 [A4 [A5 [A6 [A7 [A8 [A9 A10]]]]]]]]].
  set (s' := write_db_page s p q) in *. cbn zeta in *.
  assert (Ek : wal_chk s' = wal_chk s) by reflexivity.
  assert (Es : wscan s' = wscan s) by reflexivity.
  assert (Ep : wpages s' = wpages s) by reflexivity.
  assert (Hcov : forall x, Cov s' x <-> Cov s x) by (intros x; unfold Cov; rewrite Ep, A4; tauto).
  split; [|split; [|exact A3]].
  - constructor.
    + congruence.
    + congruence.
    + rewrite A3. exact Wl.
    + exact A1.
    + exact A2.
    + intros x Hx Hnl. rewrite A4 in *. rewrite A3 in Hnl. pose proof (Wv x Hx Hnl) as Hv.
      rewrite eff_cases in Hv by (assumption || lia). rewrite eff_cases by (rewrite ?A3; assumption || lia). rewrite Ek.
      destruct (N.eq_dec x p) as [->|Hne].
      * destruct (alookup p (wpages s)) as [qp|] eqn:Eq; [|contradiction Hin; reflexivity].
        destruct (k_in0 p qp Eq ltac:(lia) Hnl) as [l [c [El Ec]]]. rewrite El, Ec in *. exact Hv.
      * destruct (alookup x (wal_chk s)) as [l|]; [destruct (last_or0 l) as [c|]|]; try exact Hv;
          rewrite A9 by lia; destruct (N.eqb_spec x p); try contradiction; exact Hv.
    + intros x Hx. rewrite A4 in Hx. rewrite Ek, A9 by lia. destruct (N.eqb_spec x p); [lia|]. apply Wt. assumption.
    + rewrite A8, A4, A3. exact Wk.
  - constructor.
    + rewrite Es. exact k_scan0.
    + rewrite Ep, Es, A4. exact k_last0.
    + intros x qx Hl Hle Hnl. rewrite Ep in Hl. rewrite A4 in Hle. rewrite A3 in Hnl. apply (k_hash0 x qx Hl Hle Hnl).
    + intros x Hnl Hx. rewrite A3 in Hnl. rewrite Ek in Hx. apply Hcov. apply (k_keys0 x Hnl Hx).
    + intros x Hx Hnl. rewrite A3 in Hnl. rewrite A9, A10 by assumption. destruct (N.eqb_spec x p) as [->|Hne].
      * left. destruct (N.eqb_spec p (lockpg s)); [contradiction|reflexivity].
      * destruct (k_truth0 x Hx Hnl) as [E|[Z Cv]]; [left; exact E|right; split; [exact Z|apply Hcov; exact Cv]].
    + rewrite Ep, Ek. exact k_empty0.
    + rewrite Ep. exact k_pos0.
    + rewrite Ep. exact k_nodup0.
    + intros x qx Hl Hle Hnl. rewrite Ep in Hl. rewrite A4 in Hle. rewrite A3 in Hnl. rewrite Ek. apply (k_in0 x qx Hl Hle Hnl).
Qed.

(* ---- a complete checkpoint and the restart of the log: SQLite copies the last committed version of every page of the log
   within the database size into the file, cuts the file to the database size, and with the next write transaction starts
   the log over - at which LiteFS forgets its WAL bookkeeping ---- *)
Definition backfill_list (s : st) : list (N * pg) :=
  filter (fun kv => (fun k => (1 <=? k) && (k <=? pageN s)) (fst kv)) (wpages s).
Definition sql_ckpt_ops (s : st) : list op := wr_ops (backfill_list s) ++ [OTruncate (pageN s); OWalHeader].

Lemma run_wal_writes : forall l s, writeable s = true -> wal_mode s = true ->
  run_group s (wr_ops l) = (0, fold_left (fun a kv => write_db_page a (fst kv) (snd kv)) l s).
Proof.
  induction l as [|[p q] l IH]; intros s Hw Hm; cbn [wr_ops map run_group fold_left fst snd]; [reflexivity|].
  cbn [step]. unfold op_write_page. rewrite Hw, Hm. cbn [negb]. apply IH; [exact Hw|exact Hm].
Qed.

Lemma sqlckpt_step s v s' : WL s v -> WK s v -> run_group s (sql_ckpt_ops s) = (0, s') ->
  WL s' v /\ WK s' v /\ lockpg s' = lockpg s /\ txid s' = txid s /\ pageN s' = pageN s /\ wal_file s' = [] /\
  (forall p, 1 <= p <= pageN s' -> p <> lockpg s' -> file_h s' p = v p).
Proof.
  intros HW HK H. destruct HW as [Ww Wm Wl Wc Wz Wv Wt Wk]. destruct HK as [k_scan0 k_last0 k_hash0 k_keys0 k_truth0 k_empty0 k_pos0 k_nodup0 k_in0].
  unfold sql_ckpt_ops in H. rewrite run_group_app, (run_wal_writes _ s Ww Wm) in H.
  assert (HposL : forall p q, In (p, q) (backfill_list s) -> 1 <= p).
  { intros p q Hin. apply filter_In in Hin. apply (k_pos0 p q). tauto. }
  assert (HndL : KeysNoDup (backfill_list s)) by (apply keys_filter; exact k_nodup0).
  assert (HlookL : forall p, 1 <= p <= pageN s -> alookup p (backfill_list s) = alookup p (wpages s)).
  { intros p Hp. unfold backfill_list. rewrite (alookup_filter_key (fun k => (1 <=? k) && (k <=? pageN s))).
    destruct (N.leb_spec 1 p), (N.leb_spec p (pageN s)); try lia. reflexivity. }
  destruct (fold_write_facts (backfill_list s) s HposL HndL Wl Wc Wz) as [B1 [B2 [B3 [B4 [B5 [B6 [B7 [B8 [B9 B10]]]]]]]]].
  set (sa := fold_left (fun a kv => write_db_page a (fst kv) (snd kv)) (backfill_list s) s) in *. cbn zeta in *.
  cbn [run_group step] in H. unfold op_truncate in H. rewrite B4, N.eqb_refl in H. cbn [negb ocode] in H.
  unfold op_wal_header in H. inversion H; subst s'. clear H.
  assert (1 <= lockpg sa) as Hlka by (rewrite B3; exact Wl).
  destruct (truncate_db_facts sa (pageN s) B1 B2 Hlka) as [T1 [T2 [T3 [T4 [T5 [T6 [T7 [T8 [T9 T10]]]]]]]]].
  set (sb := truncate_db sa (pageN s)) in *. cbn zeta in *.
  set (sf := with_wal sb [] [] []).
  assert (Hdb : forall p, dbc sf p = dbc sb p) by reflexivity.
  assert (Hfh : forall p, file_h sf p = file_h sb p) by reflexivity.
  assert (Hlk : lockpg sf = lockpg s) by (change (lockpg sf) with (lockpg sb); congruence).
  assert (HpN : pageN sf = pageN s) by (change (pageN sf) with (pageN sb); congruence).
  assert (Hd : forall p, 1 <= p <= pageN s -> p <> lockpg s -> dbc sf p = v p /\ file_h sf p = v p).
  { intros p Hp Hnl. rewrite Hdb, Hfh, T8, T9 by lia.
    destruct (N.ltb_spec (pageN s) p); [lia|]. destruct (N.leb_spec p (pageN s)); [|lia].
    rewrite B9, B10 by lia. rewrite (HlookL p Hp). destruct (alookup p (wpages s)) as [q|] eqn:El.
    - destruct (N.eqb_spec p (lockpg s)); [contradiction|]. pose proof (k_hash0 p q El ltac:(lia) Hnl). split; assumption.
    - assert (~ Cov s p) as Hnc by (intros [Hc|Hc]; [contradiction|lia]).
      assert (alookup p (wal_chk s) = None) as Hnk.
      { destruct (alookup p (wal_chk s)) eqn:Ek; [|reflexivity]. exfalso. apply Hnc. apply (k_keys0 p Hnl). rewrite Ek. discriminate. }
      assert (dbc s p = v p) as Hv.
      { rewrite <- (Wv p Hp Hnl). unfold eff, page_chk. rewrite Hnk.
        destruct (N.eqb_spec p (lockpg s)); [contradiction|]. destruct (N.ltb_spec (pageN s) p); [lia|]. reflexivity. }
      split; [exact Hv|]. destruct (k_truth0 p ltac:(lia) Hnl) as [E|[_ Cv]]; [congruence|contradiction]. }
  split; [|split; [|split; [exact Hlk|split; [change (txid sf) with (txid sb); congruence|split; [exact HpN|split; [reflexivity|]]]]]].
  - constructor.
    + change (writeable sf) with (writeable sb). congruence.
    + change (wal_mode sf) with (wal_mode sb). congruence.
    + rewrite Hlk. exact Wl.
    + exact T1.
    + exact T2.
    + intros p Hp Hnl. rewrite HpN in *. rewrite Hlk in Hnl.
      unfold eff, page_chk. change (wal_chk sf) with (@nil (N * list N)). rewrite Hlk.
      destruct (N.eqb_spec p (lockpg s)); [contradiction|]. destruct (N.ltb_spec (pageN s) p); [lia|]. cbn [alookup fst].
      change (db_page_chk sf p) with (dbc sf p). apply (Hd p Hp Hnl).
    + intros p Hp. rewrite HpN in Hp. left. rewrite Hdb, T8 by lia. destruct (N.ltb_spec (pageN s) p); [reflexivity|lia].
    + change (chk sf) with (chk sb). rewrite HpN, Hlk. congruence.
  - constructor.
    + reflexivity.
    + intros Hn. contradiction Hn. reflexivity.
    + intros p q Hl. discriminate.
    + intros x _ Hx. contradiction Hx. reflexivity.
    + intros x Hx Hnl. rewrite Hlk in Hnl. left. destruct (N.le_gt_cases x (pageN s)) as [Hle|Hgt].
      * destruct (Hd x ltac:(lia) Hnl) as [A Bq]. congruence.
      * rewrite Hdb, Hfh, T8, T9 by lia. destruct (N.ltb_spec (pageN s) x); [|lia]. destruct (N.leb_spec x (pageN s)); [lia|reflexivity].
    + reflexivity.
    + intros p q [].
    + constructor.
    + intros p q Hl. discriminate.
  - intros p Hp Hnl. rewrite HpN in Hp. rewrite Hlk in Hnl. apply (Hd p Hp Hnl).
Qed.

(* ---- histories: WAL commits, LiteFS checkpoints, partial SQLite checkpoints, complete ones with the restart of the log ---- *)
Inductive wop2 :=
| W2Commit (fr : list (N * pg)) (c : N)
| W2Checkpoint                              (* LiteFS's own *)
| W2Backfill (p : N)                        (* SQLite copies the log's version of page p into the database file *)
| W2BackfillOld (p : N) (q : pg)            (* ... or an older version q of it (readers hold the checkpoint back) *)
| W2SqlRestart.                             (* SQLite copies everything, cuts the file, starts the log over *)
Definition wop2_ops (s : st) (o : wop2) : list op :=
  match o with
  | W2Commit fr c => [OCommitWal fr c]
  | W2Checkpoint => [OCheckpoint]
  | W2Backfill p => match alookup p (wpages s) with Some q => [OWrite p q] | None => [] end
  | W2BackfillOld p q => [OWrite p q]
  | W2SqlRestart => sql_ckpt_ops s
  end.
Definition wop2_view (lock : N) (o : wop2) (v : N -> N) : N -> N :=
  match o with W2Commit fr c => overlay lock fr c v | _ => v end.
Definition wf_wop2 (s : st) (o : wop2) : Prop :=
  match o with
  | W2Commit fr c => wf_wal2 s fr c
  | W2Backfill p => 1 <= p <= pageN s
  | W2BackfillOld p q => 1 <= p <= pageN s /\ alookup p (wpages s) <> None       (* a page of the database that is in the log *)
  | _ => True
  end.
Fixpoint run_wops2 (s : st) (v : N -> N) (os : list wop2) : option (st * (N -> N)) :=
  match os with
  | [] => Some (s, v)
  | o :: r => match run_group s (wop2_ops s o) with (0, s') => run_wops2 s' (wop2_view (lockpg s) o v) r | _ => None end
  end.
Fixpoint wf_wops2 (s : st) (os : list wop2) : Prop :=
  match os with
  | [] => True
  | o :: r => wf_wop2 s o /\ forall s', run_group s (wop2_ops s o) = (0, s') -> wf_wops2 s' r
  end.

Theorem wal_full_history_invariant : forall os s v s' v',
  WL s v -> WK s v -> wf_wops2 s os -> run_wops2 s v os = Some (s', v') -> WL s' v' /\ WK s' v' /\ lockpg s' = lockpg s.
Proof.
  induction os as [|o r IH]; intros s v s' v' HW HK Hwf H; cbn [run_wops2 wf_wops2] in *.
  - inversion H; subst. auto.
  - destruct Hwf as [Hw Hrest]. destruct (run_group s (wop2_ops s o)) as [code s1] eqn:E. destruct code; [|discriminate].
    assert (WL s1 (wop2_view (lockpg s) o v) /\ WK s1 (wop2_view (lockpg s) o v) /\ lockpg s1 = lockpg s) as [HW1 [HK1 El1]].
    { destruct o as [fr c| |p|p q|]; cbn [wop2_ops wop2_view wf_wop2] in *.
      - apply run_group_one in E. cbn [step] in E.
        destruct (w_step s v fr c s1 HW (proj1 Hw) E) as [A [Bq _]]. split; [exact A|]. split; [|exact Bq].
        apply (k_step s v fr c s1 HW HK Hw E).
      - apply run_group_one in E. cbn [step] in E. destruct (ckpt_step s v s1 HW HK E) as [A [Bq [C _]]]. auto.
      - destruct (alookup p (wpages s)) as [q|] eqn:El.
        + apply run_group_one in E. cbn [step] in E. apply (backfill_step s v p q s1 HW HK Hw El E).
        + cbn [run_group] in E. inversion E; subst. auto.
      - apply run_group_one in E. cbn [step] in E. apply (backfill_any_step s v p q s1 HW HK (proj1 Hw) (proj2 Hw) E).
      - destruct (sqlckpt_step s v s1 HW HK E) as [A [Bq [C _]]]. auto. }
    destruct (IH s1 _ s' v' HW1 HK1 (Hrest s1 eq_refl) H) as [HW' [HK' El']]. split; [exact HW'|]. split; [exact HK'|congruence].
Qed.

Theorem wal_full_history_checksum lock hs zf acts c os s1 s2 s' v' :
  1 <= lock -> wf_hist (init lock) hs -> run_hsteps (init lock) hs = Some s1 ->
  wf_tx_any s1 zf acts -> run_group s1 (hops s1 (HTx zf acts c)) = (0, s2) -> wal_mode s2 = true ->
  wf_wops2 s2 os -> run_wops2 s2 (file_h s2) os = Some (s', v') ->
  chk s' = scratch (fun p => if p =? lock then 0 else v' p) (pageN s') /\
  (forall p, 1 <= p <= pageN s' -> p <> lock -> eff s' (pageN s') [] p = v' p) /\
  (wal_file s' = [] -> forall p, 1 <= p <= pageN s' -> p <> lock -> file_h s' p = v' p) /\ lockpg s' = lock.
Proof.
  intros Hl Hwf H1 Hsw H2 Hm Hww H3.
  destruct (journal_history_invariant hs (init lock) s1 (j_init lock Hl) Hwf H1) as [HJ El1].
  change (lockpg (init lock)) with lock in El1.
  pose proof (run_hsteps_wal_file hs (init lock) s1 H1) as Hf1. change (wal_file (init lock)) with (@nil (N * pg * N)) in Hf1.
  pose proof (run_group_wal_file _ s1 s2 (hops_jops s1 (HTx zf acts c)) H2) as Hf2. rewrite Hf1 in Hf2.
  destruct (tx_step_any s1 zf acts c s2 HJ Hsw H2 Hm) as [HB [Hk [Et [_ El2]]]].
  assert (WL s2 (file_h s2)) as HW by (apply wl_entry; [assumption|assumption|assumption|lia]).
  pose proof (wk_entry s2 HB Hf2 Hk) as HK.
  destruct (wal_full_history_invariant os s2 (file_h s2) s' v' HW HK Hww H3) as [HW' [HK' El']].
  assert (lockpg s' = lock) as El by congruence.
  split; [|split; [|split; [|exact El]]].
  - destruct HW'. rewrite El in *. assumption.
  - destruct HW'. rewrite El in *. assumption.
  - intros Hf p Hp Hnl. apply (wk_file s' v' HW' HK'); [|assumption|rewrite El; assumption].
    unfold wpages, wscan. rewrite Hf. reflexivity.
Qed.

(* a concrete history that meets the hypotheses (the non-vacuity example of Props/C04.v) *)
Lemma wal_full_history_example :
  let pg h := mkPg (fl h) 0 false in
  let pw h := mkPg (fl h) 0 true in
  let hs := [HTx [] [AWrite 1 (pg 11); AWrite 2 (pg 12)] 2] in
  let sw := [AWrite 1 (pw 13)] in
  let os := [W2Commit [(2, pw 22); (3, pw 33); (2, pw 23)] 3; W2BackfillOld 2 (pw 22); W2Backfill 2; W2Commit [(1, pw 14)] 2; W2SqlRestart;
             W2Commit [(3, pw 35); (1, pw 15)] 3; W2Checkpoint] in
  exists s1 s2,
    wf_hist (init 2097153) hs /\ run_hsteps (init 2097153) hs = Some s1 /\
    wf_tx_any s1 [] sw /\ run_group s1 (hops s1 (HTx [] sw 2)) = (0, s2) /\ wal_mode s2 = true /\
    wf_wops2 s2 os /\
    match run_wops2 s2 (file_h s2) os with
    | Some (s', v') => (txid s', pageN s', chk s' =? fl (N.lxor (N.lxor (fl 15) (fl 23)) (fl 35)), length (wal_file s'),
                        map (file_h s') [1; 2; 3]) = (5, 3, true, 0%nat, [fl 15; fl 23; fl 35])
    | None => False
    end.
Proof.
  cbn zeta. eexists. eexists.
  split. { cbn [wf_hist wf_step]. split; [|intros; exact I]. split; [constructor|]. split; [intros ? ? []|].
           repeat constructor; cbn; lia. }
  split. { vm_compute. reflexivity. }
  split. { split; [constructor|]. split; [intros ? ? []|]. constructor; [|constructor]. split; [lia|discriminate]. }
  split. { vm_compute. reflexivity. }
  split. { reflexivity. }
  split; [|vm_compute; reflexivity].
  Ltac one_of3 H := cbn [In] in H; repeat (destruct H as [H|H]; [inversion H; subst; (reflexivity || lia)|]); destruct H.
  Ltac wal3 tac := split; [split; [cbn [pageN lockpg]; intros p Hp _; tac p Hp|intros q H; one_of3 H]|
                           split; [discriminate|split; [discriminate|intros p q H; one_of3 H]]].
  Ltac grown3b p Hp := assert (p = 3) as -> by lia; eexists; cbn [In]; auto.
  Ltac nogrowthb p Hp := lia.
  Ltac next s E := intros s E; vm_compute in E; inversion E; subst s; clear E.
  cbn [wf_wops2 wf_wop2]. split. { wal3 grown3b. }
  next sa0 Ea0. split. { split; [cbn [pageN]; lia|vm_compute; discriminate]. }
  next sa Ea. split. { cbn [pageN]. lia. }
  next sb Eb. split. { wal3 nogrowthb. }
  next sc Ec. split; [exact I|].
  next sd Ed. split. { wal3 grown3b. }
  next se Ee. split; [exact I|].
  intros sf _. exact I.
Qed.
