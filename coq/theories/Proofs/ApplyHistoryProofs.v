(* C04 on a replica: along every history of received transaction files the per-page cache is the database file's, and every
   position the replica takes is the from-scratch checksum of its database file. *)
From Coq Require Import NArith List Lia ZifyN ZifyNat ZifyBool Bool Arith.
Require Import LF.Gen.ConstsGen LF.Model.PageDB LF.Proofs.XorLib LF.Proofs.ChecksumProofs LF.Proofs.CaptureProofs
  LF.Proofs.HistoryProofs LF.Proofs.WalHistoryProofs LF.Proofs.WalCheckpointProofs.
Import ListNotations.
Local Open Scope N_scope.

Lemma clear_from_wal_chk : forall fuel s i, wal_chk (clear_from s fuel i) = wal_chk s.
Proof.
  induction fuel as [|fuel IH]; intros s i; cbn [clear_from]; [reflexivity|].
  destruct (i <? lenN (chk_pages s)); [rewrite IH|]; reflexivity.
Qed.
Lemma fold_write_wal_chk : forall pages s,
  wal_chk (fold_left (fun a kv => write_db_page a (fst kv) (snd kv)) pages s) = wal_chk s.
Proof. induction pages as [|kv r IH]; intros s; cbn [fold_left]; [reflexivity|]. rewrite IH. reflexivity. Qed.

(* between applies: no WAL bookkeeping; the cache is the file's everywhere; nothing beyond the database size *)
Record RB (s : st) : Prop := {
  r_lk1 : 1 <= lockpg s; r_cache : CacheOK s; r_lz : LockZero s; r_nowal : wal_chk s = [];
  r_truth : forall p, 1 <= p -> p <> lockpg s -> dbc s p = file_h s p;
  r_tail : forall p, pageN s < p -> dbc s p = 0 /\ file_h s p = 0
}.

Definition wf_ltx (f : ltxrec) : Prop :=
  (forall p q, In (p, q) (l_pages f) -> 1 <= p) /\ KeysNoDup (l_pages f).

(* ApplyLTXNoLock from any state whose cache is truthful where the file leaves pages alone: afterwards the cache is the
   file's everywhere and the position's checksum is the file's from-scratch checksum *)
Lemma apply_core s f fatal s' :
  1 <= lockpg s -> CacheOK s -> LockZero s -> wal_chk s = [] -> wf_ltx f ->
  (forall x, 1 <= x <= l_commit f -> x <> lockpg s -> alookup x (l_pages f) = None -> dbc s x = file_h s x) ->
  op_apply s f fatal = (Done, s') ->
  RB s' /\ lockpg s' = lockpg s /\ txid s' = l_max f /\ pageN s' = l_commit f /\ chk s' = l_post f /\
  chk s' = scratch (fun p => if p =? lockpg s' then 0 else file_h s' p) (pageN s').
Proof.
  intros Rl Rc Rz Rw [Hpos Hnd] Rt H. unfold op_apply in H.
  destruct (fold_write_facts (l_pages f) s Hpos Hnd Rl Rc Rz) as [B1 [B2 [B3 [B4 [B5 [B6 [B7 [B8 [B9 B10]]]]]]]]].
  pose proof (fold_write_wal_chk (l_pages f) s) as Bw.
  set (s1 := fold_left (fun a kv => write_db_page a (fst kv) (snd kv)) (l_pages f) s) in *. cbn zeta in *.
  (* after the page writes the cache is still the file's *)
  assert (Ht1 : forall x, 1 <= x <= l_commit f -> x <> lockpg s -> dbc s1 x = file_h s1 x).
  { intros x Hx Hnl. rewrite B9, B10 by lia. destruct (alookup x (l_pages f)) eqn:El.
    - destruct (N.eqb_spec x (lockpg s)); [contradiction|reflexivity].
    - apply Rt; assumption. }
  destruct (N.eqb_spec (l_commit f) 0) as [Ec|Ec].
  - (* a tombstone: the database goes away *)
    cbv beta iota zeta in H.
    set (s2 := mkSt (writeable s1) (lockpg s1) [] (pageN s1) (wal_mode s1) [] [] (wal_chk s1) (wal_latest s1) []
                    (dirty s1) (txid s1) (chk s1) (ltxdir s1)) in *.
    rewrite Ec in H. unfold checksum in H. cbn [N.eqb] in H.
    destruct (flag =? l_post f) eqn:Ep; [|destruct fatal; discriminate]. apply N.eqb_eq in Ep.
    inversion H; subst s'. clear H. cbn [lockpg txid pageN chk with_pos s2].
    assert (Hz : forall p, dbc s2 p = 0) by (intros p; unfold dbc, db_page_chk, nthN; cbn [chk_pages s2]; destruct (N.to_nat (p - 1)); reflexivity).
    assert (Hfz : forall p, file_h s2 p = 0) by (intros p; unfold file_h, file_pg; cbn [dbfile s2]; destruct (N.to_nat (p - 1)); reflexivity).
    split; [|split; [exact B3|split; [reflexivity|split; [symmetry; exact Ec|split; [reflexivity|]]]]].
    + constructor.
      * cbn [lockpg with_pos s2]. rewrite B3. exact Rl.
      * intros b Hb. unfold lenN in Hb. cbn in Hb. lia.
      * apply Hz.
      * cbn [wal_chk with_pos s2]. rewrite Bw. exact Rw.
      * intros p _ _. change (dbc s2 p = file_h s2 p). rewrite Hz, Hfz. reflexivity.
      * intros p _. change (dbc s2 p = 0 /\ file_h s2 p = 0). split; [apply Hz|apply Hfz].
    + rewrite <- Ep. reflexivity.
  - cbv beta iota zeta in H.
    destruct (truncate_db_facts s1 (l_commit f) B1 B2 ltac:(rewrite B3; exact Rl)) as [T1 [T2 [T3 [T4 [T5 [T6 [T7 [T8 [T9 _]]]]]]]]].
    assert (Tw : wal_chk (truncate_db s1 (l_commit f)) = wal_chk s1) by (unfold truncate_db, reset_after; rewrite clear_from_wal_chk; reflexivity).
    set (s2 := truncate_db s1 (l_commit f)) in *. cbn zeta in *.
    set (wal2 := match alookup 1 (l_pages f) with Some q => pg_wal q | None => wal_mode s end) in *.
    set (s3 := with_pos s2 (l_commit f) wal2 (txid s2) (chk s2) (ltxdir s2)) in *.
    assert (HP : Pre s3 (l_commit f) []).
    { constructor; [exact T1| |exact T2]. intros p Hp _ _. change (dbc s2 p = 0). rewrite T8 by lia.
      destruct (N.ltb_spec (l_commit f) p); [reflexivity|lia]. }
    pose proof (checksum_same s3 (l_commit f) []) as HS. pose proof (checksum_cacheok s3 (l_commit f) [] T1) as HC4.
    destruct (checksum s3 (l_commit f) []) as [[c|] s4] eqn:Eck; [|destruct fatal; discriminate]. cbn [snd] in HS, HC4.
    pose proof (checksum_is_scratch s3 (l_commit f) [] c s4 HP Eck) as Hc.
    destruct (c =? l_post f) eqn:Ep; [|destruct fatal; discriminate]. apply N.eqb_eq in Ep.
    inversion H; subst s'. clear H.
    pose proof (dbc_samebut s3 s4 HS) as Hd4.
    destruct HS as [_ [S2 [S3 [_ [_ [_ [S7 _]]]]]]].
    set (sf := with_pos s4 (l_commit f) wal2 (l_max f) (l_post f) (ltxdir s4)).
    assert (Hlk : lockpg sf = lockpg s) by (change (lockpg sf) with (lockpg s4); rewrite S2; change (lockpg s3) with (lockpg s2); congruence).
    assert (Hdb : forall p, dbc sf p = dbc s2 p) by (intros p; change (dbc sf p) with (dbc s4 p); rewrite Hd4; reflexivity).
    assert (Hfh : forall p, file_h sf p = file_h s2 p) by (intros p; unfold file_h, file_pg; change (dbfile sf) with (dbfile s4); rewrite S3; reflexivity).
    assert (Hwc : wal_chk sf = []) by (change (wal_chk sf) with (wal_chk s4); rewrite S7; change (wal_chk s3) with (wal_chk s2); rewrite Tw, Bw; exact Rw).
    assert (Htr : forall p, 1 <= p -> p <> lockpg s -> dbc sf p = file_h sf p).
    { intros p Hp Hnl. rewrite Hdb, Hfh, T8, T9 by assumption.
      destruct (N.ltb_spec (l_commit f) p), (N.leb_spec p (l_commit f)); try lia. apply Ht1; [lia|assumption]. }
    split; [|split; [exact Hlk|split; [reflexivity|split; [reflexivity|split; [reflexivity|]]]]].
    + constructor.
      * rewrite Hlk. exact Rl.
      * exact HC4.
      * unfold LockZero. rewrite Hlk, Hdb. unfold LockZero in T2. rewrite T3, B3 in T2. exact T2.
      * exact Hwc.
      * intros p Hp Hnl. rewrite Hlk in Hnl. apply Htr; assumption.
      * intros p Hp. change (pageN sf) with (l_commit f) in Hp. rewrite Hdb, Hfh, T8, T9 by lia.
        destruct (N.ltb_spec (l_commit f) p), (N.leb_spec p (l_commit f)); try lia; split; reflexivity.
    + change (chk sf) with (l_post f). change (pageN sf) with (l_commit f). rewrite Hlk, <- Ep, Hc.
      apply scratch_ext. intros p Hp. unfold eff, page_chk.
      change (lockpg s3) with (lockpg s2). rewrite T3, B3.
      destruct (N.eqb_spec p (lockpg s)) as [_|Hnl]; [reflexivity|].
      destruct (N.ltb_spec (l_commit f) p); [lia|]. cbn [alookup].
      change (wal_chk s3) with (wal_chk s2). rewrite Tw, Bw, Rw. cbn [alookup fst].
      change (db_page_chk s3 p) with (dbc s2 p). rewrite <- Hdb. apply Htr; [lia|assumption].
Qed.

Lemma rb_apply s f fatal s' : RB s -> wf_ltx f -> op_apply s f fatal = (Done, s') ->
  RB s' /\ lockpg s' = lockpg s /\ txid s' = l_max f /\ pageN s' = l_commit f /\ chk s' = l_post f /\
  chk s' = scratch (fun p => if p =? lockpg s' then 0 else file_h s' p) (pageN s').
Proof.
  intros [Rl Rc Rz Rw Rt Rtl] Hwf H. apply (apply_core s f fatal s' Rl Rc Rz Rw Hwf); [|exact H].
  intros x Hx Hnl _. apply Rt; [lia|assumption].
Qed.

(* ---- histories of received files ---- *)
Record RBC (s : st) : Prop := {
  rc_rb : RB s;
  rc_chk : txid s <> 0 -> chk s = scratch (fun p => if p =? lockpg s then 0 else file_h s p) (pageN s)
}.
Lemma rb_with_dir s d : RB s -> RB (with_dir s d).
Proof. intros [A B C D E F]. constructor; assumption. Qed.

(* what a replica does with a file from the stream: refuse it (wrong position; nothing changes) or apply it *)
Lemma receive_cases s f oc s' : op_receive s f = (oc, s') ->
  (oc = Failed /\ s' = s) \/ op_apply (with_dir s (if is_snapshot f then [f] else ltxdir s ++ [f])) f true = (oc, s') /\ oc <> Failed.
Proof.
  unfold op_receive. destruct (negb (is_snapshot f) && negb (extends_pos s f)).
  - intros H. inversion H; subst. left. auto.
  - intros H. right. split; [exact H|]. unfold op_apply in H.
    repeat match type of H with
    | context [let '(_, _) := ?x in _] => destruct x
    | context [match ?x with (_, _) => _ end] => destruct x
    | context [match ?x with Some _ => _ | None => _ end] => destruct x
    | context [if ?x then _ else _] => destruct x
    end; inversion H; subst; discriminate.
Qed.

Definition wf_file (f : ltxrec) : Prop := wf_ltx f /\ l_max f <> 0.
Fixpoint run_recv (s : st) (fs : list ltxrec) : option st :=
  match fs with
  | [] => Some s
  | f :: r => match op_receive s f with
              | (Done, s') | (Failed, s') => run_recv s' r          (* applied, or refused with nothing changed *)
              | _ => None                                            (* the process exits *)
              end
  end.

Lemma rbc_receive s f oc s' : RBC s -> wf_file f -> op_receive s f = (oc, s') -> oc = Done \/ oc = Failed ->
  RBC s' /\ lockpg s' = lockpg s.
Proof.
  intros [HR Hc] [Hwf Hm] H Hoc. destruct (receive_cases s f oc s' H) as [[_ ->]|[Ha Hnf]].
  - split; [constructor; assumption|reflexivity].
  - destruct Hoc as [E|E]; subst oc; [|contradiction].
    destruct (rb_apply _ f true s' (rb_with_dir s _ HR) Hwf Ha) as [HR' [El [Et [_ [_ Ek]]]]].
    split; [|exact El]. constructor; [exact HR'|]. intros _. exact Ek.
Qed.

Theorem replica_history_invariant : forall fs s s',
  RBC s -> Forall wf_file fs -> run_recv s fs = Some s' -> RBC s' /\ lockpg s' = lockpg s.
Proof.
  induction fs as [|f r IH]; intros s s' HR Hwf H; cbn [run_recv] in H.
  - inversion H; subst. auto.
  - inversion Hwf as [|? ? Hf Hr]; subst. destruct (op_receive s f) as [oc s1] eqn:E.
    assert (oc = Done \/ oc = Failed) as Hoc by (destruct oc; try discriminate; auto).
    destruct (rbc_receive s f oc s1 HR Hf E Hoc) as [HR1 El1].
    assert (run_recv s1 r = Some s') as H' by (destruct oc; try discriminate; exact H).
    destruct (IH s1 s' HR1 Hr H') as [HR' El']. split; [exact HR'|congruence].
Qed.

Lemma rbc_init lock : 1 <= lock -> RBC (init lock).
Proof.
  intros Hl. constructor; [constructor|]; cbn; try reflexivity; try assumption.
  - intros b Hb. unfold lenN in Hb. cbn in Hb. lia.
  - unfold LockZero, dbc, db_page_chk, nthN. cbn. destruct (N.to_nat (lock - 1)); reflexivity.
  - intros p _ _. unfold dbc, db_page_chk, nthN, file_h, file_pg. cbn. destruct (N.to_nat (p - 1)); reflexivity.
  - intros p _. unfold dbc, db_page_chk, nthN, file_h, file_pg. cbn. destruct (N.to_nat (p - 1)); auto.
  - intros H. contradiction H. reflexivity.
Qed.

(* C04 on a replica, for every sequence of files it is sent, from an empty node: whenever it has taken a position, the
   position's checksum is the from-scratch checksum of its database file, and the per-page cache is the file's *)
Theorem replica_history_checksum lock fs s' :
  1 <= lock -> Forall wf_file fs -> run_recv (init lock) fs = Some s' ->
  (txid s' <> 0 -> chk s' = scratch (fun p => if p =? lock then 0 else file_h s' p) (pageN s')) /\
  (forall p, 1 <= p -> p <> lock -> dbc s' p = file_h s' p) /\ lockpg s' = lock.
Proof.
  intros Hl Hwf H. destruct (replica_history_invariant fs (init lock) s' (rbc_init lock Hl) Hwf H) as [[HR Hc] El].
  change (lockpg (init lock)) with lock in El. destruct HR. rewrite El in *. auto.
Qed.

(* a concrete history that meets the hypotheses (the non-vacuity example of Props/C04.v): the files a primary wrote - create 2
   pages; grow to 5 writing only pages 1 and 5; shrink to 3 - and a stray file that does not continue the position *)
Lemma replica_history_example :
  let pg h := mkPg (fl h) 0 false in
  let hs := [HTx [] [AWrite 1 (pg 11); AWrite 2 (pg 12)] 2;
             HTx [(3, pg 33); (4, pg 44)] [AWrite 1 (pg 21); AWrite 5 (pg 55)] 5;
             HTx [] [AWrite 2 (pg 92)] 3; HTrunc 3] in
  exists s1, run_hsteps (init 2097153) hs = Some s1 /\
    let fs := ltxdir s1 ++ [mkLtx 9 9 0 0 1 []] in
    Forall wf_file fs /\
    match run_recv (init 2097153) fs with
    | Some s' => (txid s', pageN s', chk s' =? chk s1, chk s' =? fl (N.lxor (N.lxor 21 92) 33), lenN (dbfile s')) = (3, 3, true, true, 3)
    | None => False
    end.
Proof.
  cbn zeta. eexists. split; [vm_compute; reflexivity|]. cbn zeta. split; [|vm_compute; reflexivity].
  cbn [ltxdir app].
  repeat (apply Forall_cons || apply Forall_nil);
    (split; [split; [intros p q H; cbn [In l_pages] in H; repeat (destruct H as [H|H]; [inversion H; subst; lia|]); destruct H
                    |unfold KeysNoDup; cbn [map fst l_pages]; repeat constructor; cbn [In]; lia]
            |cbn [l_max]; discriminate]).
Qed.
