(* C16 over histories: after every history of C04_history's steps, a completed import of a whole image followed by an
   export returns exactly the imported pages at a position that is the node's previous one plus one and whose checksum is
   the from-scratch checksum of the imported image. *)
From Coq Require Import NArith List Lia ZifyN ZifyNat ZifyBool Bool Arith.
Require Import LF.Gen.ConstsGen LF.Model.PageDB LF.Proofs.XorLib LF.Proofs.ChecksumProofs LF.Proofs.CaptureProofs
  LF.Proofs.ApplyProofs LF.Proofs.HistoryProofs LF.Proofs.WalHistoryProofs LF.Proofs.WalCheckpointProofs
  LF.Proofs.SqlCheckpointProofs LF.Proofs.ApplyHistoryProofs LF.Proofs.OpenProofs LF.Proofs.ComposeProofs.
Import ListNotations.
Local Open Scope N_scope.

Lemma import_wal_latest s pages commit s' :
  op_import s pages commit true = (Done, s') -> 0 < commit ->
  (forall kv, In kv pages -> 1 <= fst kv) -> NoDup (map fst pages) -> wal_latest s' = [].
Proof.
  intros H Hc Hk Hnd. unfold op_import in H. destruct (writeable s); cbn [negb] in H; [|discriminate].
  set (pages' := filter (fun kv => negb (fst kv =? lockpg s)) pages) in *.
  set (post := if commit =? 0 then 0 else import_post (lockpg s) pages) in *.
  set (f := mkLtx (txid s + 1) (txid s + 1) (chk s) post commit pages') in *.
  set (s1 := with_dirty (with_wal (with_dir s (ltxdir s ++ [f])) [] [] []) []) in *.
  assert (forall kv, In kv (l_pages f) -> 1 <= fst kv) as Hk'.
  { intros kv Hin. cbn [l_pages f] in Hin. apply filter_In in Hin. apply Hk. tauto. }
  assert (NoDup (map fst (l_pages f))) as Hnd'.
  { cbn [l_pages f]. unfold pages'. clear -Hnd. induction pages as [|kv r IH]; cbn [filter map]; [constructor|].
    cbn [map] in Hnd. inversion Hnd as [|? ? Hn Hnd']; subst. destruct (negb (fst kv =? lockpg s)); cbn [map]; [|apply IH; assumption].
    constructor; [|apply IH; assumption]. intros Hin. apply Hn. apply in_map_iff in Hin. destruct Hin as [y [Ey Hy]].
    apply filter_In in Hy. apply in_map_iff. exists y. tauto. }
  destruct (apply_file s1 f true s' H Hc Hk' Hnd') as [_ [_ Ewl]]. rewrite Ewl. reflexivity.
Qed.

Theorem g_history_import_export lock gs s v pages commit s' :
  1 <= lock -> wf_gsteps (init lock) gs -> run_gsteps (init lock) (fun _ => 0) gs = Some (s, v) ->
  wf_import s pages commit -> grun s (GImport pages commit) = Some s' ->
  txid s' = txid s + 1 /\ pageN s' = commit /\ snd (op_export s') = (txid s', chk s') /\
  (forall p, 1 <= p <= commit -> p <> lock -> read_page s' p = alookup p pages) /\
  chk s' = scratch (fun p => if p =? lock then 0 else match alookup p pages with Some q => pg_h q | None => 0 end) commit.
Proof.
  intros Hl Hwf Hrun Hwi Hg.
  assert (GInv (init lock) (fun _ => 0)) as HI0 by (unfold GInv; cbn [wal_mode init]; split; [apply j_init; exact Hl|split; reflexivity]).
  destruct (g_history_invariant gs _ _ s v HI0 Hwf Hrun) as [HI El]. change (lockpg (init lock)) with lock in El.
  cbn [grun] in Hg. destruct (op_import s pages commit true) as [oc sx] eqn:E. destruct oc; try discriminate. inversion Hg; subst sx. clear Hg.
  destruct (import_step s v pages commit s' HI Hwi E) as [HI' El']. rewrite El in El'.
  destruct Hwi as [Hpos [Hnd [Hc0 [Hl1 Hcov]]]].
  assert (0 < commit) as Hcp by lia.
  assert (Hk : forall kv, In kv pages -> 1 <= fst kv) by (intros [p q] Hin; exact (Hpos p q Hin)).
  destruct (import_exact s pages commit s' E Hcp Hk Hnd) as [f [_ [_ [_ [_ [_ [Ht [_ [Hp Hr]]]]]]]]].
  pose proof (import_wal_latest s pages commit s' E Hcp Hk Hnd) as Ewl.
  assert (Hread : forall p, 1 <= p <= commit -> p <> lock -> read_page s' p = alookup p pages).
  { intros p Hp' Hnl. destruct (alookup p pages) as [q|] eqn:Ea; [|exfalso; exact (Hcov p Hp' Ea)].
    apply Hr; [apply alookup_in; exact Ea|rewrite El; exact Hnl|lia]. }
  split; [exact Ht|]. split; [exact Hp|]. split; [reflexivity|]. split; [exact Hread|].
  assert (chk s' = scratch (fun p => if p =? lock then 0 else file_h s' p) (pageN s')) as Hchk.
  { unfold GInv in HI'. destruct (wal_mode s') eqn:Em.
    - destruct HI' as [HW _]. destruct HW. rewrite El' in *. assumption.
    - destruct HI' as [HJ _]. destruct HJ. rewrite El' in *.
      match goal with Hx : txid s' <> 0 -> _ |- _ => apply Hx end. lia. }
  rewrite Hchk, Hp. apply scratch_ext. intros p Hp'. destruct (p =? lock) eqn:Epl; [reflexivity|]. apply N.eqb_neq in Epl.
  unfold file_h. pose proof (Hread p Hp' Epl) as R. unfold read_page in R. rewrite Ewl in R. cbn [alookup] in R. rewrite R. reflexivity.
Qed.

Lemma wf_gsteps_app : forall a s b, wf_gsteps s (a ++ b) ->
  wf_gsteps s a /\ (forall v s' v', run_gsteps s v a = Some (s', v') -> wf_gsteps s' b).
Proof.
  induction a as [|g r IH]; intros s b H; cbn [app wf_gsteps run_gsteps] in *.
  - split; [exact I|]. intros v s' v' E. inversion E; subst. exact H.
  - destruct H as [Hg Hr]. split.
    + split; [exact Hg|]. intros s1 E1. exact (proj1 (IH s1 b (Hr s1 E1))).
    + intros v s' v' E. destruct (grun s g) as [s1|] eqn:E1; [|discriminate].
      exact (proj2 (IH s1 b (Hr s1 eq_refl)) _ s' v' E).
Qed.

(* the history of Props/C04.v's example up to its drop; then the import of a two-page image into the dropped database *)
Definition import_example_history : list gstep :=
  let pg h n := mkPg (fl h) n false in
  let pw h n := mkPg (fl h) n true in
  let x3 a b c := fl (N.lxor (N.lxor (fl a) (fl b)) (fl c)) in
  [GJ (HTx [] [AWrite 1 (pg 11 2); AWrite 2 (pg 19 0); AFail 2; AWrite 2 (pg 12 0)] 2);
   GRestart;
   GSwitch [] [AWrite 1 (pw 13 2)] 2;
   GW (W2Commit [(1, pw 14 3); (3, pw 33 0); (2, pw 23 0)] 3);
   GRestart;
   GW (W2Commit [(2, pw 24 0)] 3);
   GW W2SqlRestart;
   GLeave (pg 15 3) 3;
   GJ (HTx [] [AWrite 3 (pg 36 0)] 3);
   GRecv (mkLtx 7 7 (x3 15 24 36) (x3 15 27 36) 3 [(2, pg 27 0)]);
   GRecv (mkLtx 9 9 0 0 1 []);
   GForward (mkLtx 8 8 0 0 1 []) true;
   GForward (mkLtx 8 8 (x3 15 27 36) (x3 18 27 36) 3 [(1, pg 18 3)]) true;
   GDrop].
Definition import_example_image : list (N * pg) := [(1, mkPg (fl 41) 2 false); (2, mkPg (fl 42) 0 false)].

Lemma import_history_example :
  wf_gsteps (init 2097153) import_example_history /\
  match run_gsteps (init 2097153) (fun _ => 0) import_example_history with
  | Some (s, _) =>
      wf_import s import_example_image 2 /\
      match grun s (GImport import_example_image 2) with
      | Some s' => (txid s, txid s', pageN s', map (read_page s') [1; 2], chk s' =? fl (N.lxor (fl 41) (fl 42)))
                   = (9, 10, 2, [Some (mkPg (fl 41) 2 false); Some (mkPg (fl 42) 0 false)], true)
      | None => False
      end
  | None => False
  end.
Proof.
  pose proof g_history_example as H. cbn zeta in H. destruct H as [Hwf _].
  match type of Hwf with wf_gsteps _ ?l =>
    change l with (import_example_history ++ [GImport import_example_image 2]) in Hwf end.
  apply wf_gsteps_app in Hwf. destruct Hwf as [Ha Hb]. split; [exact Ha|].
  assert (Hc : match run_gsteps (init 2097153) (fun _ => 0) import_example_history with
               | Some (s, _) => match grun s (GImport import_example_image 2) with
                                | Some s' => (txid s, txid s', pageN s', map (read_page s') [1; 2], chk s' =? fl (N.lxor (fl 41) (fl 42)))
                                             = (9, 10, 2, [Some (mkPg (fl 41) 2 false); Some (mkPg (fl 42) 0 false)], true)
                                | None => False end
               | None => False end) by (vm_compute; reflexivity).
  destruct (run_gsteps (init 2097153) (fun _ => 0) import_example_history) as [[s v]|] eqn:E; [|exact Hc].
  split; [|exact Hc]. pose proof (Hb _ s v E) as Hw. cbn [wf_gsteps wf_gstep] in Hw. exact (proj1 Hw).
Qed.

(* the whole example history of Props/C04.v, for the examples of Props/C09.v *)
Lemma full_history_example_log :
  let gs := import_example_history ++ [GImport import_example_image 2] in
  wf_gsteps (init 2097153) gs /\
  match run_gsteps (init 2097153) (fun _ => 0) gs with
  | Some (s', _) => match rev (ltxdir s') with
                    | f :: _ => (wal_mode s', l_max f, l_post f =? fl (N.lxor (fl 41) (fl 42)), txid s') = (false, 10, true, 10)
                    | [] => False
                    end
  | None => False
  end.
Proof.
  cbn zeta. split; [|vm_compute; reflexivity].
  pose proof g_history_example as H. cbn zeta in H. destruct H as [Hwf _]. exact Hwf.
Qed.
