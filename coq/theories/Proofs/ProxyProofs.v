From Coq Require Import NArith List Bool Lia.
Require Import LF.Model.Proxy.
Import ListNotations.
Local Open Scope N_scope.

Lemma poll_true want obs : poll want obs = true <-> exists pre p post, obs = pre ++ p :: post /\ want <= p /\ forall x, In x pre -> x < want.
Proof.
  induction obs as [|p r IH]; cbn [poll].
  - split; [discriminate|]. intros [pre [p [post [E _]]]]. destruct pre; discriminate.
  - destruct (N.leb_spec want p) as [Hle|Hgt].
    + split; [|reflexivity]. intros _. exists [], p, r. split; [reflexivity|]. split; [assumption|]. intros x [].
    + rewrite IH. split.
      * intros [pre [q [post [E [Hq Hpre]]]]]. exists (p :: pre), q, post. split; [cbn; congruence|]. split; [assumption|].
        intros x [->|Hx]; [assumption|apply Hpre; assumption].
      * intros [pre [q [post [E [Hq Hpre]]]]]. destruct pre as [|a pre]; cbn in E; inversion E; subst; [lia|].
        exists pre, q, post. split; [reflexivity|]. split; [assumption|]. intros x Hx. apply Hpre. right; assumption.
Qed.

(* a read carrying a non-zero cookie, with the tracked database present, is forwarded only at an
   observation that has reached the cookie; otherwise it ends in a gateway time-out *)
Theorem read_waits q ro obs after :
  r_passthrough q = false -> (r_is_get q && r_health_path q) = false ->
  r_read_method q = true -> r_always_forward q = false -> r_cookie q <> 0 ->
  (proxy_decide q ro true obs after = Forward false None /\
     exists pre p post, obs = pre ++ p :: post /\ r_cookie q <= p /\ forall x, In x pre -> x < r_cookie q) \/
  (proxy_decide q ro true obs after = GatewayTimeout /\ forall x, In x obs -> x < r_cookie q).
Proof.
  intros Hp Hh Hr Ha Hc. unfold proxy_decide. rewrite Hp, Hh, Hr, Ha. cbn [negb andb].
  destruct (N.eqb_spec (r_cookie q) 0); [congruence|]. cbn [negb].
  destruct (poll (r_cookie q) obs) eqn:E.
  - left. split; [reflexivity|]. apply poll_true. assumption.
  - right. split; [reflexivity|]. intros x Hx.
    destruct (N.lt_ge_cases x (r_cookie q)) as [Hlt|Hge]; [assumption|].
    exfalso. assert (poll (r_cookie q) obs = true); [|congruence].
    clear E. induction obs as [|p r IH]; [destruct Hx|]. cbn [poll]. destruct (N.leb_spec (r_cookie q) p); [reflexivity|].
    destruct Hx as [->|Hx]; [lia|apply IH; assumption].
Qed.

(* a write (or always-forward path) arriving at a node that is not the primary is never forwarded to the
   local application, unless the path is a configured passthrough *)
Theorem replica_write_never_forwarded q ro dbp obs after :
  r_passthrough q = false -> ro <> RPrimary ->
  (r_read_method q = false \/ r_always_forward q = true) ->
  (r_is_get q && r_health_path q) = false ->
  proxy_decide q ro dbp obs after = Replay \/ proxy_decide q ro dbp obs after = NoPrimary503.
Proof.
  intros Hp Hro Hw Hh. unfold proxy_decide. rewrite Hp, Hh.
  assert (r_read_method q && negb (r_always_forward q) = false) as ->.
  { destruct Hw as [->| ->]; [reflexivity|]. cbn. apply andb_false_r. }
  destruct ro; [congruence|left; reflexivity|right; reflexivity].
Qed.

(* the cookie issued after a write on the primary is the position read after the upstream response *)
Theorem cookie_after_write q dbp obs after :
  r_passthrough q = false -> r_read_method q = false -> r_is_get q = false ->
  proxy_decide q RPrimary dbp obs after = Forward false (if dbp then Some after else None).
Proof.
  intros Hp Hr Hg. unfold proxy_decide. rewrite Hp, Hr, Hg. cbn [andb negb]. destruct dbp; reflexivity.
Qed.

(* reads without a usable cookie are forwarded immediately, in every role *)
Theorem read_without_cookie_forwarded q ro dbp obs after :
  r_passthrough q = false -> (r_is_get q && r_health_path q) = false -> r_read_method q = true -> r_always_forward q = false ->
  (r_cookie q = 0 \/ dbp = false) -> proxy_decide q ro dbp obs after = Forward false None.
Proof.
  intros Hp Hh Hr Ha Hc. unfold proxy_decide. rewrite Hp, Hh, Hr, Ha. cbn [negb andb].
  destruct (N.eqb_spec (r_cookie q) 0); [reflexivity|]. destruct Hc as [?| ->]; [congruence|reflexivity].
Qed.
