(* C15: drop, tombstone apply, restart after drop, recreation. *)
From Coq Require Import NArith List Lia ZifyN ZifyNat ZifyBool Bool Arith.
Require Import LF.Gen.ConstsGen LF.Model.PageDB LF.Proofs.XorLib LF.Proofs.ChecksumProofs LF.Proofs.CaptureProofs LF.Proofs.ChainProofs.
Import ListNotations.
Local Open Scope N_scope.

Definition tombstone (f : ltxrec) : Prop := l_commit f = 0 /\ l_pages f = [] /\ l_post f = flag.

Lemma drop_exact s s' :
  op_drop s = (Done, s') ->
  exists f, ltxdir s' = ltxdir s ++ [f] /\ tombstone f /\ l_min f = txid s + 1 /\ l_max f = txid s + 1 /\ l_pre f = chk s /\
            txid s' = txid s + 1 /\ chk s' = flag /\ pageN s' = 0 /\ dbfile s' = [] /\ wal_file s' = [] /\ wal_mode s' = false.
Proof.
  unfold op_drop. destruct (writeable s); cbn [negb]; intros H; [|discriminate]. inversion H; subst s'.
  eexists. cbn. repeat split; reflexivity.
Qed.

(* applying a tombstone (on a replica at the position it extends, or at restart) *)
Lemma apply_tombstone s f fatal :
  tombstone f -> exists s', op_apply s f fatal = (Done, s') /\
    txid s' = l_max f /\ chk s' = flag /\ pageN s' = 0 /\ dbfile s' = [] /\ wal_file s' = [] /\ ltxdir s' = ltxdir s.
Proof.
  intros [Hc [Hp Hpost]]. unfold op_apply. rewrite Hc, Hp, Hpost. cbn [fold_left N.eqb].
  unfold checksum. cbn [N.eqb]. rewrite N.eqb_refl. eexists. split; [reflexivity|]. cbn. repeat split; reflexivity.
Qed.

Theorem receive_tombstone s f :
  tombstone f -> is_snapshot f = false -> extends_pos s f = true ->
  exists s', op_receive s f = (Done, s') /\ txid s' = l_max f /\ chk s' = flag /\ pageN s' = 0 /\ dbfile s' = [] /\ wal_file s' = [].
Proof.
  intros Ht Hs He. unfold op_receive. rewrite Hs, He. cbn [negb andb].
  destruct (apply_tombstone (with_dir s (ltxdir s ++ [f])) f true Ht) as [s' [E [A [B [C [D [F _]]]]]]].
  exists s'. repeat split; assumption.
Qed.

(* restart on a directory whose newest file is a tombstone *)
Lemma open_after_tombstone s d f :
  dbfile s = [] -> wal_file s = [] -> ltxdir s = d ++ [f] -> tombstone f ->
  exists s'', op_open s = (Done, s'') /\ txid s'' = l_max f /\ chk s'' = flag /\ pageN s'' = 0 /\ dbfile s'' = [] /\ ltxdir s'' = ltxdir s.
Proof.
  intros H1 H2 H3 Ht. unfold op_open, op_checkpoint, file_hdr. cbn [dbfile wal_file]. rewrite H1, H2.
  cbn [wal_committed with_wal dbfile ltxdir lockpg].
  cbn [firstn map app repeat N.to_nat length Nat.sub lenN].
  rewrite H3, rev_app_distr. cbn [rev app].
  match goal with |- context [op_apply ?x f false] => destruct (apply_tombstone x f false Ht) as [s2 [E [A [B [C [D [_ G]]]]]]] end.
  exists s2. split; [exact E|]. cbn [ltxdir] in G. repeat split; try assumption.
Qed.

(* restart right after a drop reproduces the dropped state *)
Theorem drop_survives_restart s s' :
  op_drop s = (Done, s') ->
  exists s'', op_open s' = (Done, s'') /\ txid s'' = txid s' /\ chk s'' = flag /\ pageN s'' = 0 /\ dbfile s'' = [] /\ ltxdir s'' = ltxdir s'.
Proof.
  intros H. destruct (drop_exact s s' H) as [f [Ed [Ht [Emin [Emax [Epre [Etx [Echk [EpN [Efile [Ewal Emode]]]]]]]]]]].
  destruct (open_after_tombstone s' (ltxdir s) f Efile Ewal Ed Ht) as [s2 [E [A [B [C [D G]]]]]].
  exists s2. repeat split; try assumption. congruence.
Qed.

(* a database recreated after a drop continues the TXID sequence with the empty pre-checksum *)
Theorem recreate_continues s commit s' :
  chk s = flag -> op_commit_journal s commit = (Done, s') ->
  exists f, ltxdir s' = ltxdir s ++ [f] /\ l_min f = txid s + 1 /\ l_max f = txid s + 1 /\ l_pre f = flag /\ txid s' = txid s + 1.
Proof.
  intros Hc H. destruct (commit_journal_file s commit s' H) as [f [E1 [E2 [E3 [E4 _]]]]].
  exists f. repeat split; try assumption; try congruence.
  clear -H. unfold op_commit_journal in H. destruct (writeable s); cbn [negb] in H; [|discriminate].
  destruct (journal_pages _ _ _) as [[pages|] sj]; [|discriminate]. destruct (checksum _ _ _) as [[post|] s2]; [|discriminate].
  inversion H; subst. reflexivity.
Qed.
