(* C10: with the lock hand-over that takes READ before releasing WRITE, every interleaving gives the image
   of the captured position; with Export's order there is a schedule that gives a mixture. *)
From Coq Require Import NArith List Bool Lia Arith.
Require Import LF.Model.PageDB LF.Model.Snapshot.
Import ListNotations.
Local Open Scope N_scope.

Lemma alookup_app {A} p (a b : list (N * A)) :
  alookup p (a ++ b) = match alookup p a with Some q => Some q | None => alookup p b end.
Proof.
  induction a as [|[k v] r IH]; cbn [app alookup]; [reflexivity|]. destruct (p =? k); [reflexivity|exact IH].
Qed.

(* ghost consistency: what a connection sees is the image of the current position, older images never change *)
Definition G (s : sst) : Prop := forall p, view s p = s_hist s (s_pos s) p.
Definition Hd (s : sst) (a b c d : bool) : Prop :=
  s_held s SLShared = a /\ s_held s SLWrite = b /\ s_held s SLCkpt = c /\ s_held s SLRead = d.

Lemma oev_keeps_reader s o :
  s_held (oev_exec s o) = s_held s /\ s_cpos (oev_exec s o) = s_cpos s /\ s_cwal (oev_exec s o) = s_cwal s /\ s_out (oev_exec s o) = s_out s.
Proof. unfold oev_exec. destruct (negb (oev_allowed s o)); [tauto|]. destruct o; cbn; tauto. Qed.

Lemma oev_G s o : G s -> G (oev_exec s o).
Proof.
  intros HG. unfold oev_exec. destruct (negb (oev_allowed s o)) eqn:Ea; [exact HG|].
  destruct o as [w| |w]; unfold G, view in *; cbn [newpos s_file s_wal s_pos s_hist]; intros p.
  - rewrite Nat.eqb_refl, alookup_app. unfold fupd, view. destruct (alookup p w); reflexivity.
  - cbn. apply HG.
  - assert (s_wal s = []) as Hr by (cbn [oev_allowed] in Ea; apply negb_false_iff, andb_true_iff in Ea; destruct Ea as [_ Ea]; destruct (s_wal s); [reflexivity|discriminate]).
    rewrite Nat.eqb_refl. unfold fupd, view. rewrite Hr. cbn [alookup]. destruct (alookup p w); reflexivity.
Qed.
Lemma oev_hist_old s o n : (n <= s_pos s)%nat -> s_hist (oev_exec s o) n = s_hist s n /\ (s_pos s <= s_pos (oev_exec s o))%nat.
Proof.
  intros Hn. unfold oev_exec. destruct (negb (oev_allowed s o)); [split; [reflexivity|lia]|].
  destruct o; cbn [newpos s_hist s_pos]; try (split; [reflexivity|lia]);
    (split; [destruct (Nat.eqb_spec n (S (s_pos s))); [lia|reflexivity]|lia]).
Qed.

(* ---------- the safe hand-over ---------- *)
Section Safe.
  Variable pages : list N.
  Let tail := [SRelease SLCkpt; SRelease SLRead; SRelease SLShared].

  (* the captured view: what the reader will read for page p as long as the file does not change *)
  Definition capeq (s : sst) (n : nat) (cw : list (N * pg)) : Prop :=
    forall p, match alookup p cw with Some q => q | None => s_file s p end = s_hist s n p.

  Inductive Ph : list sstep -> sst -> Prop :=
  | Ph0 s : G s -> s_cpos s = None -> s_cwal s = None -> s_out s = [] -> Hd s false false false false ->
            Ph (safe_script pages) s
  | Ph1 s : G s -> s_cpos s = None -> s_cwal s = None -> s_out s = [] -> Hd s true false false false ->
            Ph ([SAcquire SLWrite; SCapturePos; SCaptureWal; SAcquire SLCkpt; SAcquire SLRead; SRelease SLWrite] ++ reads pages ++ tail) s
  | Ph2 s : G s -> s_cpos s = None -> s_cwal s = None -> s_out s = [] -> Hd s true true false false ->
            Ph ([SCapturePos; SCaptureWal; SAcquire SLCkpt; SAcquire SLRead; SRelease SLWrite] ++ reads pages ++ tail) s
  | Ph3 s : G s -> s_cpos s = Some (s_pos s) -> s_cwal s = None -> s_out s = [] -> Hd s true true false false ->
            Ph ([SCaptureWal; SAcquire SLCkpt; SAcquire SLRead; SRelease SLWrite] ++ reads pages ++ tail) s
  | Ph4 s n cw c d : G s -> s_cpos s = Some n -> s_cwal s = Some cw -> (n <= s_pos s)%nat -> capeq s n cw -> s_out s = [] ->
            Hd s true true c d -> (c = false -> d = false) ->
            Ph ((if c then [] else [SAcquire SLCkpt]) ++ (if d then [] else [SAcquire SLRead]) ++ [SRelease SLWrite] ++ reads pages ++ tail) s
  | Ph5 s n cw rest : G s -> s_cpos s = Some n -> s_cwal s = Some cw -> (n <= s_pos s)%nat -> capeq s n cw -> out_is_image s ->
            Hd s true false true true ->
            Ph (reads rest ++ tail) s
  | Ph6 s rem : G s -> out_is_image s -> (forall n, s_cpos s = Some n -> (n <= s_pos s)%nat) -> (exists k, rem = skipn k tail) -> Ph rem s.

  Hypothesis Hwf : True.

  Lemma Ph_oev rem s o : Ph rem s -> Ph rem (oev_exec s o).
  Proof.
    intros H. destruct (oev_keeps_reader s o) as [Eh [Ec [Ew Eo]]].
    assert (forall a b c d, Hd s a b c d -> Hd (oev_exec s o) a b c d) as HdK by (unfold Hd; rewrite Eh; tauto).
    inversion H; subst.
    - apply Ph0; try (rewrite ?Ec, ?Ew, ?Eo; assumption); [apply oev_G; assumption|auto].
    - apply Ph1; try (rewrite ?Ec, ?Ew, ?Eo; assumption); [apply oev_G; assumption|auto].
    - apply Ph2; try (rewrite ?Ec, ?Ew, ?Eo; assumption); [apply oev_G; assumption|auto].
    - (* position captured, WRITE held: nobody commits, nothing rewrites the file *)
      match goal with Hh : Hd s true true false false |- _ => destruct Hh as [Hs [Hw _]] end.
      assert (oev_exec s o = s) as ->; [|exact H].
      unfold oev_exec. destruct o; cbn [oev_allowed]; rewrite ?Hw, ?Hs; reflexivity.
    - (* WRITE held *)
      match goal with Hh : Hd s true true c d |- _ => destruct Hh as [Hs [Hw _]] end.
      assert (oev_exec s o = s) as ->; [|exact H].
      unfold oev_exec. destruct o; cbn [oev_allowed]; rewrite ?Hw, ?Hs; reflexivity.
    - (* SHARED and READ held: commits may append frames, the file stays *)
      match goal with Hh : Hd s true false true true |- _ => destruct Hh as [Hs [Hw [Hc Hrd]]] end.
      destruct (oev_hist_old s o n ltac:(assumption)) as [Hh Hp].
      apply (Ph5 (oev_exec s o) n cw rest).
      * apply oev_G; assumption.
      * rewrite Ec; assumption.
      * rewrite Ew; assumption.
      * lia.
      * (* capeq: the file is unchanged *)
        unfold capeq in *. intros p. rewrite Hh.
        assert (s_file (oev_exec s o) = s_file s) as ->; [|auto].
        unfold oev_exec. destruct o; cbn [oev_allowed]; rewrite ?Hw, ?Hs, ?Hc, ?Hrd; cbn; reflexivity.
      * unfold out_is_image in *. rewrite Ec, Eo.
        match goal with Hc' : s_cpos s = Some n |- _ => rewrite Hc' in * end. intros p q Hin. rewrite Hh. auto.
      * apply HdK. unfold Hd. tauto.
    - match goal with Hle : forall n, s_cpos s = Some n -> (n <= s_pos s)%nat |- _ => rename Hle into Hpos end.
      apply Ph6; [apply oev_G; assumption| | |assumption].
      + unfold out_is_image in *. rewrite Ec, Eo. destruct (s_cpos s) as [n|] eqn:En; [|assumption].
        intros p q Hin. destruct (oev_hist_old s o n (Hpos n eq_refl)) as [Hh _]. rewrite Hh. auto.
      + rewrite Ec. intros n En. destruct (oev_hist_old s o n (Hpos n En)) as [_ Hp]. specialize (Hpos n En). lia.
  Qed.

  Lemma hold_Hd s l b : forall a1 a2 a3 a4, Hd s a1 a2 a3 a4 ->
    Hd (set_held s (hold s l b))
       (match l with SLShared => b | _ => a1 end) (match l with SLWrite => b | _ => a2 end)
       (match l with SLCkpt => b | _ => a3 end) (match l with SLRead => b | _ => a4 end).
  Proof. intros a1 a2 a3 a4 [H1 [H2 [H3 H4]]]. unfold Hd, set_held, hold. cbn [s_held]. destruct l; tauto. Qed.

  (* one step of the reader moves to the next phase *)
  Lemma Ph_step st rest s : Ph (st :: rest) s -> Ph rest (sstep_exec s st).
  Proof.
    intros H. inversion H as [s0 HG Hc Hw Ho Hh Erem|s0 HG Hc Hw Ho Hh Erem|s0 HG Hc Hw Ho Hh Erem|s0 HG Hc Hw Ho Hh Erem
                             |s0 n cw c d HG Hc Hw Hle Hce Ho Hh Hcd Erem|s0 n cw rs HG Hc Hw Hle Hce Ho Hh Erem|s0 rem HG Ho Hpos [k Ek] Erem]; subst s0.
    - (* acquire SHARED *) unfold safe_script in Erem. cbn [app] in Erem. inversion Erem; subst. apply Ph1; try assumption.
      apply (hold_Hd s SLShared true _ _ _ _ Hh).
    - cbn [app] in Erem. inversion Erem; subst. apply Ph2; try assumption. apply (hold_Hd s SLWrite true _ _ _ _ Hh).
    - cbn [app] in Erem. inversion Erem; subst. apply Ph3; try assumption; reflexivity.
    - (* capture of the frame offsets, in the same state as the position *)
      cbn [app] in Erem. inversion Erem; subst.
      apply (Ph4 _ (s_pos s) (s_wal s) false false); cbn [sstep_exec s_cpos s_cwal s_pos s_file s_hist s_out]; try assumption; try reflexivity; try lia;
        try tauto; try (unfold capeq; cbn [s_file s_hist]; intros p; apply HG).
    - (* taking CKPT, READ, releasing WRITE *)
      destruct c, d; cbn [app] in Erem; inversion Erem; subst.
      + (* release WRITE: reading starts *)
        apply (Ph5 _ n cw pages); cbn [sstep_exec set_held s_cpos s_cwal s_pos s_file s_hist s_out]; try assumption.
        * unfold out_is_image. cbn. rewrite Hc, Ho. intros p q [].
        * apply (hold_Hd s SLWrite false _ _ _ _ Hh).
      + (* acquire READ *)
        apply (Ph4 _ n cw true true); cbn [sstep_exec set_held s_cpos s_cwal s_pos s_file s_hist s_out]; try assumption; [|tauto].
        apply (hold_Hd s SLRead true _ _ _ _ Hh).
      + specialize (Hcd eq_refl). discriminate.
      + (* acquire CKPT *)
        apply (Ph4 _ n cw true false); cbn [sstep_exec set_held s_cpos s_cwal s_pos s_file s_hist s_out]; try assumption; [|discriminate].
        apply (hold_Hd s SLCkpt true _ _ _ _ Hh).
    - (* a read, or the first release *)
      destruct rs as [|p rs]; cbn [reads map app] in Erem; inversion Erem; subst.
      + apply Ph6; cbn [sstep_exec set_held s_cpos s_pos s_out]; try assumption.
        * intros m Em. rewrite Hc in Em. inversion Em; subst. exact Hle.
        * exists 1%nat. reflexivity.
      + apply (Ph5 _ n cw rs); cbn [sstep_exec s_cpos s_cwal s_pos s_file s_hist s_out s_held]; try assumption.
        unfold out_is_image in *. cbn [s_cpos s_out s_hist]. rewrite Hc in *. rewrite Hw. intros p' q' Hin.
        apply in_app_or in Hin. destruct Hin as [Hin|[Hin|[]]]; [auto|]. inversion Hin; subst. apply Hce.
    - (* releases at the end *)
      destruct k as [|[|[|k]]]; cbn [skipn tail] in Ek; try (rewrite skipn_nil in Ek); try discriminate Ek; inversion Ek; subst.
      + apply Ph6; cbn [sstep_exec set_held s_cpos s_pos s_out]; try assumption. exists 1%nat. reflexivity.
      + apply Ph6; cbn [sstep_exec set_held s_cpos s_pos s_out]; try assumption. exists 2%nat. reflexivity.
      + apply Ph6; cbn [sstep_exec set_held s_cpos s_pos s_out]; try assumption. exists 3%nat. reflexivity.
  Qed.

  Lemma exec_Ph sc : forall rem s, Ph rem s -> Ph (snd (exec s rem sc)) (fst (exec s rem sc)).
  Proof.
    induction sc as [|e r IH]; intros rem s H; cbn [exec]; [exact H|].
    destruct e as [|o].
    - destruct rem as [|st rest]; [apply IH; exact H|]. apply IH. apply Ph_step. exact H.
    - apply IH. apply Ph_oev. exact H.
  Qed.

  Lemma Ph_out rem s : Ph rem s -> out_is_image s.
  Proof.
    intros H. inversion H; subst; try assumption;
      unfold out_is_image; match goal with Ho : s_out s = [] |- _ => rewrite Ho end; destruct (s_cpos s); try reflexivity; intros p q [].
  Qed.

  (* for every image, every schedule of other connections' commits and checkpoints and every point at which
     it is cut, whatever the reader has produced is the image of the position it captured *)
  Theorem safe_handover_atomic img sc :
    out_is_image (fst (exec (init_sst img) (safe_script pages) sc)).
  Proof.
    apply (Ph_out (snd (exec (init_sst img) (safe_script pages) sc))). apply exec_Ph. apply Ph0; try reflexivity.
    - unfold G, view. cbn. reflexivity.
    - unfold Hd. cbn. tauto.
  Qed.
End Safe.

(* ---------- the guard of the model on the lock table of C11 ---------- *)
Require Import LF.Base.RWBase LF.Gen.RWMutexGen LF.Model.Locks LF.Proofs.RWMutexProofs LF.Proofs.LocksProofs.
(* while the reader g holds lock l (shared or exclusive), another owner's exclusive request on l is refused
   and changes nothing: this is what [oev_allowed] encodes *)
Lemma reader_lock_blocks_exclusive t l g h : TInv t -> gst (t l) g <> Unlocked -> h <> g ->
  exists t', t_trylock t l h = Some (false, t') /\ forall k, gst (t' l) k = gst (t l) k.
Proof.
  intros HT Hg Hne. destruct (trylock_facts t l h HT) as [b [t' [E [_ [_ [Ho [Ht Hf]]]]]]].
  destruct b.
  - exfalso. destruct (Ht eq_refl) as [_ Hu]. apply Hg. apply Hu. intros Heq. apply Hne. symmetry. exact Heq.
  - exists t'. split; [exact E|]. intros k. destruct (Nat.eq_dec k h) as [->|Hk]; [apply Hf; reflexivity|apply Ho; exact Hk].
Qed.

(* ---------- Export's order: a schedule that gives a mixture ---------- *)
Definition pgA : pg := mkPg 1 0 false.
Definition pgB : pg := mkPg 2 0 false.
Definition bad_schedule : list sched :=
  [RStep; RStep; RStep; RStep; RStep;                  (* SHARED, WRITE, position, offsets, WRITE released *)
   REv (OWalCommit [(2, pgB)]); REv OCkpt;            (* the window: a commit, then a checkpoint *)
   RStep; RStep; RStep; RStep].                        (* CKPT, READ, read page 1, read page 2 *)
Lemma export_window_refuted :
  let s := fst (exec (init_sst (fun _ => pgA)) (export_script [1; 2]) bad_schedule) in
  s_cpos s = Some 0%nat /\ s_out s = [(1, pgA); (2, pgB)] /\ s_hist s 0%nat 2 = pgA /\ ~ out_is_image s.
Proof.
  cbn. repeat split. unfold out_is_image. cbn. intros H. specialize (H 2 pgB (or_intror (or_introl eq_refl))). discriminate H.
Qed.
(* the same schedule on the safe hand-over: the checkpoint is refused while the reader holds WRITE / READ *)
Lemma safe_on_bad_schedule :
  let s := fst (exec (init_sst (fun _ => pgA)) (safe_script [1; 2]) (bad_schedule ++ [RStep])) in
  s_out s = [(1, pgA); (2, pgA)].
Proof. reflexivity. Qed.
(* WriteSnapshotTo's self-check turns the mixture into an error: a snapshot that passes it carries, page by
   page, the checksums of the captured position *)
Lemma self_check_sound s n : s_cpos s = Some n -> self_check s = true ->
  forall p q, In (p, q) (s_out s) -> pg_h q = pg_h (s_hist s n p).
Proof.
  unfold self_check. intros -> H p q Hin. rewrite forallb_forall in H. specialize (H (p, q) Hin). apply N.eqb_eq in H. exact H.
Qed.
Lemma self_check_rejects_bad_schedule :
  self_check (fst (exec (init_sst (fun _ => pgA)) (export_script [1; 2]) bad_schedule)) = false.
Proof. reflexivity. Qed.

(* Tie A: the order of the model's [export_script] IS the order in which db.go Export takes its locks and
   captures (Gen/LockScriptsGen.v, regenerated on every run); WriteSnapshotTo is the same followed by the release
   of CKPT before the page loop *)
Require Import LF.Gen.LockScriptsGen.
Lemma export_script_is_generated : abstract gen_export 0 = export_prefix.
Proof. reflexivity. Qed.
Lemma snapshot_script_is_generated : abstract gen_snapshot 0 = export_prefix ++ [SRelease SLCkpt].
Proof. reflexivity. Qed.
Lemma export_script_prefix pages : exists rest, export_script pages = export_prefix ++ rest.
Proof. eexists. reflexivity. Qed.
