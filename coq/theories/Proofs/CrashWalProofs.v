(* C05, WAL mode: every crash point of a WAL commit and of a checkpoint recovers to the image before or after. *)
From Coq Require Import NArith List Bool Lia ZifyN ZifyNat ZifyBool Arith.
Require Import LF.Model.PageDB LF.Model.Crash LF.Model.CrashWal LF.Proofs.CrashProofs.
Import ListNotations.
Local Open Scope N_scope.

(* ---------- the committed part of a frame list ---------- *)
Definition all_committed (fr : list wframe) : Prop := committed fr [] [] = fr.
Definition uncommitted (fr : list wframe) : Prop := forall f, In f fr -> w_commit f = 0.

Lemma committed_acc fr : forall acc cur, exists rest, committed fr acc cur = acc ++ rest.
Proof.
  induction fr as [|f r IH]; intros acc cur; cbn [committed]; [exists []; rewrite app_nil_r; reflexivity|].
  destruct (w_commit f =? 0).
  - apply IH.
  - destruct (IH (acc ++ cur ++ [f]) []) as [rest E]. rewrite E. exists ((cur ++ [f]) ++ rest). rewrite <- !app_assoc. reflexivity.
Qed.
Lemma committed_shift fr : forall acc cur, committed fr acc cur = acc ++ committed fr [] cur.
Proof.
  induction fr as [|f r IH]; intros acc cur; cbn [committed]; [rewrite app_nil_r; reflexivity|].
  destruct (w_commit f =? 0); [apply IH|].
  rewrite (IH (acc ++ cur ++ [f]) []), (IH ([] ++ cur ++ [f]) []). cbn [app]. rewrite <- !app_assoc. reflexivity.
Qed.
Lemma committed_uncommitted fr : uncommitted fr -> forall cur, committed fr [] cur = [].
Proof.
  induction fr as [|f r IH]; intros H cur; cbn [committed]; [reflexivity|].
  rewrite (H f (or_introl eq_refl)), N.eqb_refl. apply IH. intros g Hg. apply H. right. exact Hg.
Qed.
(* frames of one transaction: uncommitted body, then a commit frame *)
Lemma committed_tx body c : uncommitted body -> w_commit c <> 0 -> forall cur, committed (body ++ [c]) [] cur = cur ++ body ++ [c].
Proof.
  induction body as [|f r IH]; intros Hb Hc cur; cbn [app committed].
  - destruct (N.eqb_spec (w_commit c) 0); [contradiction|]. cbn [app committed]. reflexivity.
  - rewrite (Hb f (or_introl eq_refl)), N.eqb_refl. rewrite IH; [rewrite <- app_assoc; reflexivity| |exact Hc].
    intros g Hg. apply Hb. right. exact Hg.
Qed.
(* the scan that [committed] performs, with its leftover *)
Fixpoint scan (fr acc cur : list wframe) : list wframe * list wframe :=
  match fr with
  | [] => (acc, cur)
  | f :: r => if w_commit f =? 0 then scan r acc (cur ++ [f]) else scan r (acc ++ cur ++ [f]) []
  end.
Lemma committed_scan fr : forall acc cur, committed fr acc cur = fst (scan fr acc cur).
Proof. induction fr as [|f r IH]; intros acc cur; cbn [committed scan]; [reflexivity|]. destruct (w_commit f =? 0); apply IH. Qed.
Lemma scan_app a : forall b acc cur, scan (a ++ b) acc cur = scan b (fst (scan a acc cur)) (snd (scan a acc cur)).
Proof. induction a as [|f r IH]; intros b acc cur; cbn [app scan]; [reflexivity|]. destruct (w_commit f =? 0); apply IH. Qed.
Lemma scan_total fr : forall acc cur, fst (scan fr acc cur) ++ snd (scan fr acc cur) = acc ++ cur ++ fr.
Proof.
  induction fr as [|f r IH]; intros acc cur; cbn [scan fst snd]; [rewrite app_nil_r; reflexivity|].
  destruct (w_commit f =? 0); rewrite IH; rewrite <- ?app_assoc; reflexivity.
Qed.
Lemma all_committed_scan fr : all_committed fr -> scan fr [] [] = (fr, []).
Proof.
  unfold all_committed. rewrite committed_scan. intros H. pose proof (scan_total fr [] []) as T. cbn [app] in T.
  destruct (scan fr [] []) as [a c]. cbn [fst snd] in *. subst a.
  assert (c = []) as -> by (apply (app_inv_head fr); rewrite app_nil_r; exact T). reflexivity.
Qed.
(* committed frames followed by one more transaction: everything is committed *)
Lemma committed_extend fr0 body c : all_committed fr0 -> uncommitted body -> w_commit c <> 0 ->
  committed (fr0 ++ body ++ [c]) [] [] = fr0 ++ body ++ [c].
Proof.
  intros H0 Hb Hc. rewrite committed_scan, scan_app, (all_committed_scan fr0 H0). cbn [fst snd].
  rewrite <- committed_scan, committed_shift, committed_tx by assumption. reflexivity.
Qed.
(* ... followed by part of a transaction that has not reached its commit frame: only the old ones *)
Lemma committed_partial fr0 part : all_committed fr0 -> uncommitted part -> committed (fr0 ++ part) [] [] = fr0.
Proof.
  intros H0 Hp. rewrite committed_scan, scan_app, (all_committed_scan fr0 H0). cbn [fst snd].
  rewrite <- committed_scan, committed_shift, committed_uncommitted by assumption. apply app_nil_r.
Qed.

Lemma last_commit_size_snoc fr c : w_commit c <> 0 -> last_commit_size (fr ++ [c]) = w_commit c.
Proof.
  intros Hc. unfold last_commit_size. rewrite fold_left_app. cbn [fold_left].
  destruct (N.eqb_spec (w_commit c) 0); [contradiction|reflexivity].
Qed.
Lemma frame_writes_app a b : frame_writes (a ++ b) = frame_writes a ++ frame_writes b.
Proof. unfold frame_writes. apply map_app. Qed.

(* re-applying a file whose commit size is the image's size: equal images in, equal images out *)
Lemma reapply_same (a b : file) (f : ltxrec) : same_image a b -> l_commit f = f_size b ->
  same_image (truncate (write_pages a (l_pages f)) (l_commit f)) (truncate (write_pages b (l_pages f)) (l_commit f)).
Proof.
  intros [Hs Hp] Hc. apply reapply_image. intros p Hpp _. apply Hp. rewrite Hs, <- Hc. exact Hpp.
Qed.

(* pages of the committed log on top of the file, whatever cut happened in between *)
Lemma checkpoint_db_page db fr p : fr <> [] -> all_committed fr ->
  f_page (checkpoint_db db fr) p = f_page (write_pages db (frame_writes fr)) p.
Proof.
  intros Hne Hc. unfold checkpoint_db. rewrite Hc. destruct fr; [contradiction|]. reflexivity.
Qed.

Lemma checkpoint_db_eq db fr : fr <> [] -> all_committed fr ->
  checkpoint_db db fr = truncate (write_pages db (frame_writes fr)) (last_commit_size fr).
Proof. intros Hne Hc. unfold checkpoint_db. rewrite Hc. destruct fr; [contradiction|reflexivity]. Qed.

Record WConsistent (d : wdisk) (img : file) (x0 : wltx) (sa0 : N) (fr0 : list wframe) : Prop := {
  wc_newest : wnewest d = Some x0;
  wc_wal : wd_wal d = Some (sa0, fr0);
  wc_committed : all_committed fr0;
  wc_view : same_image (checkpoint_db (wd_db d) fr0) img;        (* what a connection sees *)
  wc_reapply : same_image (truncate (write_pages img (l_pages (x_ltx x0))) (l_commit (x_ltx x0))) img;
  wc_end : sa0 = x_salt x0 -> x_end x0 = length fr0;             (* the log ends where the newest file says *)
  wc_fresh : sa0 <> x_salt x0 -> fr0 = []                        (* a log of a new generation has nothing yet *)
}.

Lemma wrun_frames d fs : forall sa fr, wd_wal d = Some (sa, fr) ->
  wrun d (map WFrame fs) = {| wd_db := wd_db d; wd_wal := Some (sa, fr ++ fs); wd_ltx := wd_ltx d |}.
Proof.
  revert d. induction fs as [|f r IH]; intros d sa fr Hw; cbn [map wrun fold_left].
  - rewrite app_nil_r, <- Hw. destruct d; reflexivity.
  - change (fold_left wstep_exec ?l ?x) with (wrun x l). rewrite (IH _ sa (fr ++ [f])).
    + cbn [wstep_exec wd_db wd_ltx]. rewrite <- app_assoc. reflexivity.
    + cbn [wstep_exec wd_wal]. rewrite Hw. reflexivity.
Qed.
Lemma wrun_app d a b : wrun d (a ++ b) = wrun (wrun d a) b.
Proof. unfold wrun. apply fold_left_app. Qed.

Section WalCommit.
  Variables (d0 : wdisk) (img0 : file) (x0 : wltx) (sa0 : N) (fr0 : list wframe).
  Variables (body : list wframe) (c : wframe) (f : ltxrec).
  Let frames := body ++ [c].
  Let n1 := w_commit c.
  Let img1 := truncate (write_pages img0 (frame_writes frames)) n1.
  Let x := {| x_ltx := f; x_salt := sa0; x_end := length fr0 + length frames |}.

  Hypothesis HC : WConsistent d0 img0 x0 sa0 fr0.
  Hypothesis Hbody : uncommitted body.
  Hypothesis Hcommit : n1 <> 0.
  Hypothesis Hf_commit : l_commit f = n1.
  (* C03: the transaction file applied to the previous image gives the new image; appended pages are written *)
  Hypothesis Hfile : same_image (truncate (write_pages img0 (l_pages f)) n1) img1.
  Hypothesis Hgrow : forall p, f_size img0 < p <= n1 -> lastw p (frame_writes frames) <> None.

  Lemma old_recovers part : uncommitted part ->
    let d := {| wd_db := wd_db d0; wd_wal := Some (sa0, fr0 ++ part); wd_ltx := wd_ltx d0 |} in
    same_image (wd_db (wrecover d)) img0 /\ wdisk_pos (wrecover d) = wdisk_pos d0.
  Proof.
    intros Hp d. destruct HC as [Hn Hw Hc Hv Hr He Hfr].
    assert (wnewest d = Some x0) as Hn' by exact Hn.
    unfold wrecover. rewrite Hn'. cbn [wd_db wd_ltx].
    assert (same_image (match sync_wal d with Some (_, fr) => checkpoint_db (wd_db d0) fr | None => wd_db d0 end) img0) as H1.
    { unfold sync_wal. rewrite Hn'. cbn [wd_wal d].
      destruct (N.eqb_spec sa0 (x_salt x0)) as [E|E].
      - rewrite (He E), firstn_app, firstn_all, Nat.sub_diag. cbn [firstn]. rewrite app_nil_r. exact Hv.
      - rewrite (Hfr E) in Hv. cbn [checkpoint_db committed] in Hv. exact Hv. }
    split.
    - eapply same_image_trans; [|exact Hr]. apply reapply_same; [exact H1|].
      destruct Hr as [Hs _]. cbn [truncate f_size] in Hs. exact Hs.
    - unfold wdisk_pos. cbn [wd_ltx]. unfold wnewest. cbn [wd_ltx]. reflexivity.
  Qed.

  Lemma uncommitted_firstn k : uncommitted (firstn k body).
  Proof.
    intros g Hg. apply Hbody. rewrite <- (firstn_skipn k body). apply in_or_app. left. exact Hg.
  Qed.

  Theorem wal_commit_crash_atomic (k : nat) :
    let d := wrun d0 (firstn k (wal_tx_steps frames x)) in
    (same_image (wd_db (wrecover d)) img0 /\ wdisk_pos (wrecover d) = wdisk_pos d0) \/
    (same_image (wd_db (wrecover d)) img1 /\ wdisk_pos (wrecover d) = (l_max f, l_post f)).
  Proof.
    intros d. pose proof HC as [Hn Hw Hc Hv Hr He Hfr]. unfold wal_tx_steps in d.
    destruct (Nat.le_gt_cases k (length body)) as [Hk|Hk].
    - (* part of the body: no commit frame yet *)
      left. assert (firstn k (map WFrame frames ++ [WLtxRename x]) = map WFrame (firstn k body)) as E.
      { rewrite firstn_app, map_length. unfold frames. rewrite app_length. cbn [length].
        replace (k - (length body + 1))%nat with 0%nat by lia. cbn [firstn]. rewrite app_nil_r, firstn_map.
        rewrite firstn_app. replace (k - length body)%nat with 0%nat by lia. cbn [firstn]. rewrite app_nil_r. reflexivity. }
      unfold d. rewrite E, (wrun_frames d0 _ sa0 fr0 Hw). apply old_recovers. apply uncommitted_firstn.
    - destruct (Nat.eq_dec k (S (length body))) as [Ek|Ek].
      + (* all frames, commit frame included, but the file is not renamed yet: the log is cut back *)
        left. assert (firstn k (map WFrame frames ++ [WLtxRename x]) = map WFrame frames) as E.
        { rewrite firstn_app, map_length. unfold frames. rewrite app_length. cbn [length].
          replace (k - (length body + 1))%nat with 0%nat by lia. cbn [firstn]. rewrite app_nil_r.
          apply firstn_all2. rewrite map_length, app_length. cbn [length]. lia. }
        unfold d. rewrite E, (wrun_frames d0 _ sa0 fr0 Hw).
        (* same argument as old_recovers, with the cut removing the whole new transaction *)
        set (dd := {| wd_db := wd_db d0; wd_wal := Some (sa0, fr0 ++ frames); wd_ltx := wd_ltx d0 |}).
        assert (wnewest dd = Some x0) as Hn' by exact Hn.
        unfold wrecover. rewrite Hn'. cbn [wd_db wd_ltx dd].
        assert (same_image (match sync_wal dd with Some (_, fr) => checkpoint_db (wd_db d0) fr | None => wd_db d0 end) img0) as H1.
        { unfold sync_wal. rewrite Hn'. cbn [wd_wal dd].
          destruct (N.eqb_spec sa0 (x_salt x0)) as [E'|E'].
          - rewrite (He E'), firstn_app, firstn_all, Nat.sub_diag. cbn [firstn]. rewrite app_nil_r. exact Hv.
          - rewrite (Hfr E') in Hv. cbn [checkpoint_db committed] in Hv. exact Hv. }
        split.
        * eapply same_image_trans; [|exact Hr]. apply reapply_same; [exact H1|].
          destruct Hr as [Hs _]. cbn [truncate f_size] in Hs. exact Hs.
        * unfold wdisk_pos, wnewest. cbn [wd_ltx]. reflexivity.
      + (* the file is renamed *)
        right. assert (firstn k (map WFrame frames ++ [WLtxRename x]) = map WFrame frames ++ [WLtxRename x]) as E.
        { apply firstn_all2. rewrite app_length, map_length. unfold frames. rewrite app_length. cbn [length]. lia. }
        unfold d. rewrite E, wrun_app, (wrun_frames d0 _ sa0 fr0 Hw). cbn [wrun fold_left wstep_exec wd_db wd_wal wd_ltx].
        set (dd := {| wd_db := wd_db d0; wd_wal := Some (sa0, fr0 ++ frames); wd_ltx := wd_ltx d0 ++ [x] |}).
        assert (wnewest dd = Some x) as Hn' by (unfold wnewest, dd; cbn [wd_ltx]; rewrite rev_app_distr; reflexivity).
        unfold wrecover. rewrite Hn'. cbn [wd_db wd_ltx dd x_ltx x].
        assert (sync_wal dd = Some (sa0, fr0 ++ frames)) as Hsync.
        { unfold sync_wal. rewrite Hn'. cbn [wd_wal dd x_salt x_end x]. rewrite N.eqb_refl.
          rewrite firstn_all2; [reflexivity|rewrite app_length; lia]. }
        rewrite Hsync.
        assert (all_committed (fr0 ++ frames)) as Hall by (unfold all_committed, frames; apply committed_extend; assumption).
        (* the file after the checkpoint is the new image *)
        assert (same_image (checkpoint_db (wd_db d0) (fr0 ++ frames)) img1) as HB.
        { unfold checkpoint_db. rewrite Hall.
          destruct (fr0 ++ frames) as [|g gs] eqn:Eg; [unfold frames in Eg; destruct fr0, body; discriminate|]. rewrite <- Eg.
          assert (last_commit_size (fr0 ++ frames) = n1) as ->.
          { unfold frames. rewrite app_assoc. apply last_commit_size_snoc. exact Hcommit. }
          split; [reflexivity|]. cbn [truncate f_size f_page img1]. intros p Hp.
          rewrite frame_writes_app, write_pages_app, !write_pages_page.
          destruct (lastw p (frame_writes frames)) as [q|] eqn:El; [reflexivity|].
          (* not written by the new transaction: the old view *)
          destruct (N.le_gt_cases p (f_size img0)) as [Hle|Hgt]; [|exfalso; apply (Hgrow p); [lia|exact El]].
          destruct Hv as [Hvs Hvp]. specialize (Hvp p).
          destruct fr0 as [|g0 gs0] eqn:E0.
          - cbn [frame_writes map lastw]. cbn [checkpoint_db committed] in Hvp, Hvs. apply Hvp. rewrite Hvs. lia.
          - rewrite <- E0 in *. rewrite (checkpoint_db_page (wd_db d0) fr0 p) in Hvp by (try assumption; rewrite E0; discriminate).
            rewrite write_pages_page in Hvp. apply Hvp. rewrite Hvs. lia. }
        split.
        * rewrite Hf_commit. split; [reflexivity|]. cbn [truncate f_size f_page]. intros p Hp. rewrite write_pages_page.
          destruct Hfile as [_ Hfp]. specialize (Hfp p Hp). cbn [truncate f_page] in Hfp. rewrite write_pages_page in Hfp.
          destruct (lastw p (l_pages f)) as [q|]; [exact Hfp|].
          destruct HB as [HBs HBp]. apply HBp. rewrite HBs. cbn [img1 truncate f_size]. exact Hp.
        * unfold wdisk_pos, wnewest. cbn [wd_ltx]. rewrite rev_app_distr. reflexivity.
  Qed.
End WalCommit.

(* ---------- a checkpoint (by the application or by LiteFS) ---------- *)
Lemma wrun_ckpt_pages d ps : wrun d (map (fun kv => WCkptPage (fst kv) (snd kv)) ps) =
  {| wd_db := write_pages (wd_db d) ps; wd_wal := wd_wal d; wd_ltx := wd_ltx d |}.
Proof.
  revert d. induction ps as [|[k q] r IH]; intros d; cbn [map wrun fold_left]; [destruct d; reflexivity|].
  change (fold_left wstep_exec ?l ?x) with (wrun x l). rewrite IH. cbn [wstep_exec wd_db wd_wal wd_ltx write_pages fold_left fst snd]. reflexivity.
Qed.

Section Checkpoint.
  Variables (d0 : wdisk) (img0 : file) (x0 : wltx) (sa0 : N) (fr0 : list wframe).
  Variables (pages : list (N * pg)) (restart : option N).
  Let view := checkpoint_db (wd_db d0) fr0.
  Let size := f_size view.

  Hypothesis HC : WConsistent d0 img0 x0 sa0 fr0.
  Hypothesis Hne : fr0 <> [].
  (* the checkpoint copies committed content: every copied page is what a connection sees for it, and every page
     the log overrides is copied *)
  Hypothesis Hsound : forall p q, In (p, q) pages -> f_page view p = q.
  Hypothesis Hcomplete : forall p, 1 <= p <= size -> lastw p (frame_writes fr0) <> None -> lastw p pages <> None.

  Lemma view_page p : f_page view p = match lastw p (frame_writes fr0) with Some q => q | None => f_page (wd_db d0) p end.
  Proof. unfold view. destruct HC as [_ _ Hc _ _ _ _]. rewrite checkpoint_db_page by assumption. apply write_pages_page. Qed.

  (* a file in which every page is the old one or the one a connection sees: checkpointing the log over it gives the view *)
  Lemma ckpt_over db' : (forall p, lastw p (frame_writes fr0) = None -> f_page db' p = f_page (wd_db d0) p) ->
    same_image (checkpoint_db db' fr0) view.
  Proof.
    intros H. destruct HC as [_ _ Hc _ _ _ _]. unfold view. rewrite !checkpoint_db_eq by assumption.
    split; [reflexivity|]. cbn [truncate f_size f_page]. intros p _. rewrite !write_pages_page.
    destruct (lastw p (frame_writes fr0)) eqn:El; [reflexivity|]. apply H. exact El.
  Qed.

  Lemma partial_copy_ok j p : lastw p (frame_writes fr0) = None ->
    f_page (write_pages (wd_db d0) (firstn j pages)) p = f_page (wd_db d0) p.
  Proof.
    intros El. rewrite write_pages_page. destruct (lastw p (firstn j pages)) as [q|] eqn:E; [|reflexivity].
    apply lastw_in in E. assert (In (p, q) pages) as Hin by (rewrite <- (firstn_skipn j pages); apply in_or_app; left; exact E).
    rewrite <- (Hsound p q Hin), view_page, El. reflexivity.
  Qed.

  Theorem checkpoint_crash_safe (k : nat) :
    let d := wrun d0 (firstn k (ckpt_steps pages size restart)) in
    same_image (wd_db (wrecover d)) img0 /\ wdisk_pos (wrecover d) = wdisk_pos d0.
  Proof.
    intros d. pose proof HC as [Hn Hw Hc Hv Hr He Hfr].
    (* whatever the prefix: the transaction files are untouched, and the file + log still give the view *)
    assert (wd_ltx d = wd_ltx d0 /\
            same_image (match sync_wal d with Some (_, fr) => checkpoint_db (wd_db d) fr | None => wd_db d end) view) as [Hl H1].
    { unfold d, ckpt_steps. set (g := fun kv : N * pg => WCkptPage (fst kv) (snd kv)).
      destruct (Nat.le_gt_cases k (length pages)) as [Hk|Hk].
      - (* some pages copied *)
        assert (firstn k (map g pages ++ [WCkptTruncate size] ++ match restart with Some sa => [WRestart sa] | None => [] end) = map g (firstn k pages)) as E.
        { rewrite firstn_app, map_length. replace (k - length pages)%nat with 0%nat by lia. cbn [firstn]. rewrite app_nil_r. apply firstn_map. }
        rewrite E. unfold g. rewrite wrun_ckpt_pages. cbn [wd_ltx wd_db]. split; [reflexivity|].
        unfold sync_wal, wnewest. cbn [wd_ltx wd_wal wd_db]. unfold wnewest in Hn. rewrite Hn, Hw.
        destruct (N.eqb_spec sa0 (x_salt x0)) as [E'|E'].
        + rewrite (He E'), firstn_all. apply ckpt_over. intros p El. apply partial_copy_ok. exact El.
        + exfalso. apply Hne. apply Hfr. exact E'.
      - (* all pages copied and the file cut; perhaps the log restarted *)
        assert (exists m, firstn k (map g pages ++ [WCkptTruncate size] ++ match restart with Some sa => [WRestart sa] | None => [] end) =
                          map g pages ++ WCkptTruncate size :: firstn m (match restart with Some sa => [WRestart sa] | None => [] end)) as [m E].
        { exists (k - length pages - 1)%nat. rewrite firstn_app, map_length. rewrite firstn_all2 by (rewrite map_length; lia). f_equal.
          destruct (k - length pages)%nat as [|y] eqn:Ey; [lia|]. cbn [app firstn]. f_equal. f_equal. lia. }
        rewrite E, wrun_app. unfold g. rewrite wrun_ckpt_pages. cbn [wrun fold_left wstep_exec wd_db wd_wal wd_ltx].
        set (full := truncate (write_pages (wd_db d0) pages) size).
        assert (same_image full view) as Hfull.
        { split; [reflexivity|]. cbn [full truncate f_size f_page]. intros p Hp. rewrite write_pages_page, view_page.
          destruct (lastw p pages) as [q|] eqn:Ep.
          - apply lastw_in in Ep. rewrite <- (Hsound p q Ep), view_page. reflexivity.
          - destruct (lastw p (frame_writes fr0)) eqn:El; [|reflexivity]. exfalso. apply (Hcomplete p Hp); [rewrite El; discriminate|exact Ep]. }
        destruct (firstn m match restart with Some sa => [WRestart sa] | None => [] end) as [|s1 rest] eqn:Em.
        + cbn [fold_left wd_ltx wd_db]. split; [reflexivity|].
          unfold sync_wal, wnewest. cbn [wd_ltx wd_wal wd_db]. unfold wnewest in Hn. rewrite Hn, Hw.
          destruct (N.eqb_spec sa0 (x_salt x0)) as [E'|E']; [|exfalso; apply Hne, Hfr, E'].
          rewrite (He E'), firstn_all. apply ckpt_over. intros p El. unfold full. cbn [truncate f_page].
          rewrite write_pages_page. destruct (lastw p pages) as [q|] eqn:Ep; [|reflexivity].
          apply lastw_in in Ep. rewrite <- (Hsound p q Ep), view_page, El. reflexivity.
        + (* restarted: an empty log of a new generation *)
          destruct restart as [sa|]; [|destruct m; discriminate Em].
          destruct m; [discriminate Em|]. cbn [firstn] in Em. inversion Em; subst s1 rest. rewrite firstn_nil.
          cbn [fold_left wstep_exec wd_ltx wd_db wd_wal]. split; [reflexivity|].
          unfold sync_wal, wnewest. cbn [wd_ltx wd_wal wd_db]. unfold wnewest in Hn. rewrite Hn.
          destruct (sa =? x_salt x0); [rewrite firstn_nil; cbn [checkpoint_db committed]|]; exact Hfull. }
    unfold wrecover. assert (wnewest d = Some x0) as Hn' by (unfold wnewest in *; rewrite Hl; exact Hn). rewrite Hn'. cbn [wd_db wd_ltx].
    split.
    - eapply same_image_trans; [|exact Hr]. apply reapply_same.
      + eapply same_image_trans; [exact H1|exact Hv].
      + destruct Hr as [Hs _]. cbn [truncate f_size] in Hs. exact Hs.
    - unfold wdisk_pos, wnewest. cbn [wd_ltx]. rewrite Hl. reflexivity.
  Qed.
End Checkpoint.

(* ---------- a drop of a WAL-mode database ---------- *)
Theorem wal_drop_crash_atomic (d0 : wdisk) (img0 : file) (x0 : wltx) (sa0 : N) (fr0 : list wframe) (x : wltx) (k : nat) :
  WConsistent d0 img0 x0 sa0 fr0 -> l_commit (x_ltx x) = 0 ->
  let d := wrun d0 (firstn k (wdrop_steps x)) in
  (same_image (wd_db (wrecover d)) img0 /\ wdisk_pos (wrecover d) = wdisk_pos d0) \/
  (f_size (wd_db (wrecover d)) = 0 /\ wd_wal (wrecover d) = None /\ wdisk_pos (wrecover d) = (l_max (x_ltx x), l_post (x_ltx x))).
Proof.
  intros HC Hc d.
  destruct k as [|k].
  - left. unfold d. cbn [firstn wrun fold_left].
    pose proof (old_recovers d0 img0 x0 sa0 fr0 HC [] (fun g Hg => match Hg with end)) as H. cbn zeta in H.
    rewrite app_nil_r in H. destruct HC as [_ Hw _ _ _ _ _].
    replace d0 with {| wd_db := wd_db d0; wd_wal := Some (sa0, fr0); wd_ltx := wd_ltx d0 |} at 1 3 by (rewrite <- Hw; destruct d0; reflexivity).
    exact H.
  - right.
    assert (wd_ltx d = wd_ltx d0 ++ [x]) as Hl.
    { unfold d, wdrop_steps. destruct k as [|[|k]]; cbn [firstn wrun fold_left wstep_exec wd_ltx];
        try rewrite firstn_nil; cbn [fold_left wd_ltx]; reflexivity. }
    assert (wnewest d = Some x) as Hn by (unfold wnewest; rewrite Hl, rev_app_distr; reflexivity).
    unfold wrecover. rewrite Hn. cbn [wd_db wd_wal wd_ltx truncate f_size]. split; [exact Hc|]. split; [reflexivity|].
    unfold wdisk_pos, wnewest. cbn [wd_ltx]. rewrite ?Hl, rev_app_distr. reflexivity.
Qed.
