(* C04, the histories put together: rollback-journal mode, the switch into WAL mode, WAL mode with every kind of
   checkpoint, the way back, and restarts anywhere - one invariant, one theorem. *)
From Coq Require Import NArith List Lia ZifyN ZifyNat ZifyBool Bool Arith.
Require Import LF.Gen.ConstsGen LF.Model.PageDB LF.Proofs.XorLib LF.Proofs.ChecksumProofs LF.Proofs.CaptureProofs
  LF.Proofs.ChainProofs LF.Proofs.ApplyProofs
  LF.Proofs.HistoryProofs LF.Proofs.WalHistoryProofs LF.Proofs.WalCheckpointProofs LF.Proofs.SqlCheckpointProofs
  LF.Proofs.ApplyHistoryProofs LF.Proofs.OpenProofs.
Import ListNotations.
Local Open Scope N_scope.

(* ---- WAL mode with nothing in the log: the database file is the logical database, LiteFS's state is what it is between
   rollback-journal transactions ---- *)
Lemma wk_jb s v : WL s v -> WK s v -> wpages s = [] ->
  JB s /\ wal_chk s = [] /\ (forall p, 1 <= p <= pageN s -> p <> lockpg s -> file_h s p = v p).
Proof.
  intros HW HK Ep. pose proof (wk_file s v HW HK Ep) as Hf.
  destruct HW as [Ww Wm Wl Wc Wz Wv Wt Wk]. destruct HK as [k_scan0 k_last0 k_hash0 k_keys0 k_truth0 k_empty0 k_pos0 k_nodup0 k_in0].
  pose proof (k_empty0 Ep) as Hk0.
  assert (Hd : forall p, 1 <= p <= pageN s -> p <> lockpg s -> dbc s p = v p).
  { intros p Hp Hnl. rewrite <- (Wv p Hp Hnl). rewrite eff_cases by (assumption || lia). rewrite Hk0. reflexivity. }
  split; [|split; [exact Hk0|exact Hf]].
  constructor; try assumption.
  - intros p Hp Hnl. rewrite (Hd p Hp Hnl), (Hf p Hp Hnl). reflexivity.
  - intros p Hp. destruct (Wt p Hp) as [Z|Hx]; [exact Z|]. rewrite Hk0 in Hx. contradiction Hx. reflexivity.
  - intros _. rewrite Wk. apply scratch_ext. intros p Hp. destruct (N.eqb_spec p (lockpg s)); [reflexivity|].
    symmetry. apply Hf; assumption.
Qed.

Lemma jb_mid s : JB s -> Mid false s s.
Proof.
  intros [A B C D E F G]. constructor; try assumption; try reflexivity; [|discriminate].
  intros x Hx Hnl. destruct (N.le_gt_cases x (pageN s)) as [Hle|Hgt]; [left; apply E; [lia|assumption]|right; split; [lia|apply F; lia]].
Qed.

(* ---- the way back out of WAL mode: with the log empty SQLite removes it, rewrites page 1 with the rollback-journal
   versions under a rollback journal (while the header still says WAL), and commits ---- *)
Definition leave_ops (q : pg) (c : N) : list op := [OWalTruncate; OWriteJ 1 q; OCommitJournal c].

Lemma leave_step s v q c s' : WL s v -> WK s v -> wal_file s = [] -> pg_wal q = false ->
  run_group s (leave_ops q c) = (0, s') -> J s' /\ wal_file s' = [] /\ wal_chk s' = [] /\ lockpg s' = lockpg s.
Proof.
  intros HW HK Hf Hq H.
  assert (Ep : wpages s = []) by (unfold wpages, wscan; rewrite Hf; reflexivity).
  destruct (wk_jb s v HW HK Ep) as [HB [Hk _]].
  unfold leave_ops in H. cbn [run_group step] in H. unfold op_wal_reset in H. cbn [ocode] in H.
  set (sa := with_wal s [] [] []) in *.
  assert (HBa : JB sa) by (destruct HB as [A B C D E F G]; constructor; assumption).
  pose proof (jb_mid sa HBa) as M0.
  destruct (mid_write_j false sa sa 1 q M0 ltac:(lia) ltac:(discriminate)) as [M1 E1].
  destruct (op_write_page_j sa 1 q) as [oc s1] eqn:Ew. cbn [fst snd] in *. subst oc. cbn [ocode] in H.
  assert (Hp1 : file_pg s1 1 = Some q).
  { unfold op_write_page_j in Ew. destruct (negb (writeable sa)); [discriminate|]. inversion Ew; subst s1.
    unfold file_pg, write_db_page. cbn [dbfile set_page_chk with_file with_dirty]. change (N.to_nat (1 - 1)) with 0%nat.
    destruct (dbfile sa); reflexivity. }
  assert (Hwf1 : wal_file s1 = []).
  { unfold op_write_page_j in Ew. destruct (negb (writeable sa)); [discriminate|]. inversion Ew; subst s1. reflexivity. }
  assert (Hne : dbfile s1 <> []).
  { unfold file_pg in Hp1. change (N.to_nat (1 - 1)) with 0%nat in Hp1. destruct (dbfile s1); [discriminate|discriminate]. }
  destruct (writeable s1 && (pageN s1 =? 0) && match dbfile s1 with [] => true | _ :: _ => false end) eqn:Einv.
  { exfalso. apply andb_true_iff in Einv. destruct Einv as [_ Einv]. destruct (dbfile s1); [contradiction|discriminate]. }
  destruct (op_commit_journal s1 c) as [oc s2] eqn:Ec. destruct oc; cbn [ocode] in H; try (inversion H; fail).
  inversion H; subst s2. clear H.
  destruct (mid_commit false sa s1 c s' M1 Ec) as [HB' _].
  destruct (commit_journal_fields s1 c s' Ec) as [_ [F2 [F3 [F4 F5]]]].
  destruct (commit_journal_file s1 c s' Ec) as [f [_ [_ [_ [_ [_ [_ [_ [_ Ef]]]]]]]]].
  assert (Hm : wal_mode s' = false).
  { destruct (wal_mode s') eqn:Em; [|reflexivity]. destruct (F3 eq_refl) as [q' [Hq' Hw']]. rewrite Hp1 in Hq'. inversion Hq'; subst q'. congruence. }
  split; [|split; [rewrite F5; exact Hwf1|split; [exact F4|rewrite F2; apply (m_lock false sa s1 M1)]]].
  apply (jb_j s' HB' Hm). intros q' Hq'. unfold file_pg in Hq', Hp1. rewrite Ef in Hq'. rewrite Hp1 in Hq'. inversion Hq'; subst. exact Hq.
Qed.

(* ---- a restart anywhere ---- *)
Lemma clear_from_misc : forall m s i,
  writeable (clear_from s m i) = writeable s /\ wal_mode (clear_from s m i) = wal_mode s.
Proof.
  induction m as [|m IH]; intros s i; cbn [clear_from]; [auto|].
  destruct (i <? lenN (chk_pages s)); [|auto]. destruct (IH (set_page_chk s (i + 1) 0) (i + 1)) as [A B]. rewrite A, B. auto.
Qed.
Lemma fold_write_misc : forall pages s,
  let s' := fold_left (fun a kv => write_db_page a (fst kv) (snd kv)) pages s in
  writeable s' = writeable s /\ wal_file s' = wal_file s /\ wal_mode s' = wal_mode s.
Proof.
  induction pages as [|kv r IH]; intros s; cbn [fold_left]; [auto|].
  destruct (IH (write_db_page s (fst kv) (snd kv))) as [A [B C]]. cbn zeta. rewrite A, B, C. auto.
Qed.
Lemma truncate_db_misc s n :
  writeable (truncate_db s n) = writeable s /\ wal_mode (truncate_db s n) = wal_mode s /\ wal_file (truncate_db s n) = wal_file s.
Proof.
  unfold truncate_db, reset_after. rewrite clear_from_wal_file.
  destruct (clear_from_misc (length (chk_pages (with_file s (firstn (N.to_nat n) (dbfile s))))) (with_file s (firstn (N.to_nat n) (dbfile s))) n) as [A B].
  rewrite A, B. auto.
Qed.

Lemma apply_fields s f fatal s' : op_apply s f fatal = (Done, s') ->
  writeable s' = writeable s /\
  (l_commit f <> 0 -> wal_file s' = wal_file s /\
                      wal_mode s' = match alookup 1 (l_pages f) with Some q => pg_wal q | None => wal_mode s end) /\
  (l_commit f = 0 -> wal_file s' = [] /\ wal_mode s' = false /\ dbfile s' = []).
Proof.
  intros H. unfold op_apply in H.
  destruct (fold_write_misc (l_pages f) s) as [B1 [B2 B3]].
  set (s1 := fold_left (fun a kv => write_db_page a (fst kv) (snd kv)) (l_pages f) s) in *. cbn zeta in *.
  destruct (N.eqb_spec (l_commit f) 0) as [Ec|Ec]; cbv beta iota zeta in H.
  - match type of H with context [checksum ?x ?c []] => pose proof (checksum_same x c []) as HS; destruct (checksum x c []) as [[c0|] s4] end;
      [|destruct fatal; discriminate].
    cbn [snd] in HS. destruct (c0 =? l_post f); [|destruct fatal; discriminate]. inversion H; subst s'. clear H.
    destruct HS as [S1 [_ [S3 [_ [_ [_ [_ [_ [S9 _]]]]]]]]].
    cbn [writeable wal_file wal_mode dbfile with_pos] in *.
    split; [congruence|]. split; [intros Hn; contradiction|]. intros _. split; [exact S9|]. split; [reflexivity|exact S3].
  - destruct (truncate_db_misc s1 (l_commit f)) as [T1 [T2 T3]].
    match type of H with context [checksum ?x ?c []] => pose proof (checksum_same x c []) as HS; destruct (checksum x c []) as [[c0|] s4] end;
      [|destruct fatal; discriminate].
    cbn [snd] in HS. destruct (c0 =? l_post f); [|destruct fatal; discriminate]. inversion H; subst s'. clear H.
    destruct HS as [S1 [_ [_ [_ [_ [_ [_ [_ [S9 _]]]]]]]]].
    cbn [writeable wal_file wal_mode with_pos] in *.
    split; [congruence|]. split; [|intros E0; contradiction]. intros _. split; [congruence|reflexivity].
Qed.

(* the journal mode follows what page 1 of the database file says *)
Definition ModeIsPage1 (s : st) : Prop := forall q, file_pg s 1 = Some q -> wal_mode s = pg_wal q.

Lemma apply_page1 s f fatal s' : op_apply s f fatal = (Done, s') -> wf_ltx f -> ModeIsPage1 s ->
  (dbfile s <> [] \/ alookup 1 (l_pages f) <> None) -> ModeIsPage1 s'.
Proof.
  intros H [Hpos Hnd] HM Hex q Hq. destruct (apply_fields s f fatal s' H) as [_ [F1 F0]].
  destruct (N.eq_dec (l_commit f) 0) as [Ec|Ec].
  - destruct (F0 Ec) as [_ [_ Ed]]. unfold file_pg in Hq. rewrite Ed in Hq. destruct (N.to_nat (1 - 1)); discriminate.
  - destruct (F1 Ec) as [_ Em]. rewrite Em.
    assert (Hk : forall kv, In kv (l_pages f) -> 1 <= fst kv) by (intros [p0 q0] Hin; apply (Hpos p0 q0 Hin)).
    destruct (apply_file s f fatal s' H ltac:(lia) Hk Hnd) as [A [B _]].
    destruct (alookup 1 (l_pages f)) as [q1|] eqn:E1.
    + apply alookup_in in E1. rewrite (A 1 q1 E1 ltac:(lia)) in Hq. inversion Hq; subst. reflexivity.
    + destruct Hex as [Hne|Hc]; [|contradiction Hc; reflexivity].
      assert (~ In 1 (map fst (l_pages f))) as Hnin.
      { intros Hin. apply in_map_iff in Hin. destruct Hin as [[k qk] [Ek Hin]]. cbn [fst] in Ek. subst k.
        apply (in_alookup_nodup 1 qk _ Hnd) in Hin. congruence. }
      rewrite (B 1 ltac:(lia) Hnin) in Hq.
      * apply HM. exact Hq.
      * unfold lenN. destruct (dbfile s); [contradiction|]. cbn [length]. lia.
Qed.

Lemma writeable_checkpoint s : writeable (snd (op_checkpoint s)) = writeable s.
Proof.
  unfold op_checkpoint. destruct (wal_committed _ _ _ _) as [pages lastc]. cbn [snd writeable with_wal].
  destruct pages as [|kv pages]; [reflexivity|]. cbn [writeable with_pos].
  destruct (truncate_db_misc (fold_left (fun a kv0 => write_db_page a (fst kv0) (snd kv0)) (kv :: pages) s) lastc) as [A _]. rewrite A.
  destruct (fold_write_misc (kv :: pages) s) as [B _]. exact B.
Qed.

Lemma open_recomputed_misc s :
  writeable (open_recomputed s) = writeable s /\ wal_file (open_recomputed s) = [] /\ ModeIsPage1 (open_recomputed s).
Proof.
  unfold open_recomputed.
  destruct (match file_hdr s with Some (n, w) => (n, w) | None => (0, false) end) as [pN0 wal0].
  match goal with |- context [op_checkpoint ?x] => pose proof (writeable_checkpoint x) as Ew; destruct (op_checkpoint x) as [o1 s1] end.
  cbn [snd writeable] in Ew.
  destruct (match file_hdr s1 with Some (n, w) => (n, w) | None => (0, false) end) as [pN1 wal1] eqn:Eh.
  cbn zeta. split; [exact Ew|]. split; [reflexivity|].
  intros q Hq. unfold file_pg in Hq. cbn [dbfile wal_mode] in *. change (N.to_nat (1 - 1)) with 0%nat in Hq.
  unfold file_hdr in Eh. destruct (dbfile s1) as [|p0 r0]; [discriminate|]. cbn in Hq. inversion Hq; subst. inversion Eh; subst. reflexivity.
Qed.

(* the rollback-journal part of a history leaves no WAL checksums behind *)
Lemma jop_nochk s o s' : jop o -> step s o = (Done, s') -> wal_chk s = [] -> wal_chk s' = [].
Proof.
  destruct o; cbn [jop]; try contradiction; intros _ H Hk; cbn [step] in H.
  - unfold op_write_page in H. destruct (negb (writeable s)); [discriminate|]. inversion H; subst. destruct (wal_mode s); exact Hk.
  - unfold op_truncate in H. destruct (negb (n =? pageN s)); [discriminate|]. inversion H; subst.
    unfold truncate_db, reset_after. rewrite clear_from_wal_chk. exact Hk.
  - destruct (writeable s && (pageN s =? 0) && match dbfile s with [] => true | _ :: _ => false end).
    + unfold op_invalidate_journal in H. inversion H; subst. exact Hk.
    + destruct (commit_journal_fields s commit s' H) as [_ [_ [_ [E _]]]]. exact E.
  - inversion H; subst. exact Hk.
  - unfold op_zero_fill in H. inversion H; subst. exact Hk.
Qed.
Lemma run_group_nochk : forall ops s s', Forall jop ops -> run_group s ops = (0, s') -> wal_chk s = [] -> wal_chk s' = [].
Proof.
  induction ops as [|o r IH]; intros s s' Hj H Hk; cbn [run_group] in H; [inversion H; subst; exact Hk|].
  inversion Hj as [|? ? Ho Hr]; subst. destruct (step s o) as [oc s1] eqn:E.
  destruct oc; cbn [ocode] in H; try (inversion H; fail).
  apply (IH s1 s' Hr H). apply (jop_nochk s o s1 Ho E Hk).
Qed.

(* ---- one invariant for both journal modes ---- *)
Definition GInv (s : st) (v : N -> N) : Prop :=
  if wal_mode s then WL s v /\ WK s v else J s /\ wal_file s = [] /\ wal_chk s = [].

Lemma ginv_basic s v : GInv s v -> 1 <= lockpg s /\ writeable s = true.
Proof.
  unfold GInv. destruct (wal_mode s); intros [A _]; [destruct A|destruct A]; auto.
Qed.

Lemma rb_jb s : RB s -> writeable s = true ->
  (txid s <> 0 -> chk s = scratch (fun p => if p =? lockpg s then 0 else file_h s p) (pageN s)) -> JB s.
Proof.
  intros [A B C D E F] Hw Hc. constructor; try assumption.
  - intros p Hp Hnl. apply E; [lia|assumption].
  - intros p Hp. apply (F p Hp).
Qed.

Definition wf_restart (s : st) : Prop :=
  exists f rest, rev (ltxdir s) = f :: rest /\ wf_file f /\
    (forall x, pageN (open_recomputed s) < x <= l_commit f -> x <> lockpg s -> alookup x (l_pages f) <> None) /\
    (dbfile (open_recomputed s) <> [] \/ alookup 1 (l_pages f) <> None).

Lemma restart_step s s' : 1 <= lockpg s -> writeable s = true -> wf_restart s -> op_open s = (Done, s') ->
  GInv s' (file_h s') /\ lockpg s' = lockpg s.
Proof.
  intros Hlk Hw [f [rest [Hr [[Hwf Hmax] [Hg Hex]]]]] H.
  destruct (open_checksum s f rest s' Hlk Hr Hwf Hg H) as [HR [El [Et [_ [_ Hc]]]]].
  rewrite op_open_eq, ltxdir_open_recomputed, Hr in H.
  destruct (open_recomputed_misc s) as [Ow [Of Om]].
  destruct (apply_fields _ f false s' H) as [Fw [F1 F0]].
  pose proof (apply_page1 _ f false s' H Hwf Om Hex) as HM.
  assert (Hwf' : wal_file s' = []).
  { destruct (N.eq_dec (l_commit f) 0) as [Ec|Ec]; [apply (F0 Ec)|]. destruct (F1 Ec) as [A _]. rewrite A. exact Of. }
  assert (HB : JB s') by (apply (rb_jb s' HR); [congruence|intros _; exact Hc]).
  split; [|exact El]. unfold GInv. destruct (wal_mode s') eqn:Em.
  - split; [apply wl_entry; [exact HB|exact Em|apply (r_nowal s' HR)|congruence]|].
    apply wk_entry; [exact HB|exact Hwf'|apply (r_nowal s' HR)].
  - split; [|split; [exact Hwf'|apply (r_nowal s' HR)]]. apply (jb_j s' HB Em). intros q Hq. rewrite <- (HM q Hq). exact Em.
Qed.

(* ---- a file from the stream (the node is a replica for the moment): refused, or placed and applied ---- *)
Definition wf_recv (s : st) (f : ltxrec) : Prop :=
  wf_file f /\
  (forall x, pageN s < x <= l_commit f -> x <> lockpg s -> alookup x (l_pages f) <> None) /\
  (wal_mode s = true -> wal_file s = []) /\                       (* in WAL mode: after a checkpoint *)
  (dbfile s <> [] \/ alookup 1 (l_pages f) <> None).
Definition refused (s : st) (f : ltxrec) : bool := negb (is_snapshot f) && negb (extends_pos s f).

Lemma jb_with_dir s d : JB s -> JB (with_dir s d).
Proof. intros [A B C D E F G]. constructor; assumption. Qed.

Lemma recv_step s v f oc s' : GInv s v -> wf_recv s f -> op_receive s f = (oc, s') -> oc = Done \/ oc = Failed ->
  GInv s' (if refused s f then v else file_h s') /\ lockpg s' = lockpg s.
Proof.
  intros HI [[Hwf Hmax] [Hg [Hwm Hex]]] H Hoc. unfold op_receive in H. fold (refused s f) in H.
  destruct (refused s f) eqn:Er.
  { inversion H; subst. split; [exact HI|reflexivity]. }
  destruct Hoc as [E|E]; subst oc.
  2:{ exfalso. unfold op_apply in H.
      repeat match type of H with
      | context [let '(_, _) := ?x in _] => destruct x
      | context [match ?x with (_, _) => _ end] => destruct x
      | context [match ?x with Some _ => _ | None => _ end] => destruct x
      | context [if ?x then _ else _] => destruct x
      end; inversion H. }
  (* what both journal modes provide *)
  assert (JB s /\ wal_chk s = [] /\ wal_file s = [] /\ (wal_mode s = false -> forall q, file_pg s 1 = Some q -> pg_wal q = false))
    as [HB [Hk [Hf Hp1]]].
  { unfold GInv in HI. destruct (wal_mode s) eqn:Em.
    - destruct HI as [HW HK]. pose proof (Hwm eq_refl) as Hf0.
      assert (Ep : wpages s = []) by (unfold wpages, wscan; rewrite Hf0; reflexivity).
      destruct (wk_jb s v HW HK Ep) as [HB0 [Hk0 _]]. split; [exact HB0|]. split; [exact Hk0|]. split; [exact Hf0|discriminate].
    - destruct HI as [HJ [Hf0 Hk0]]. split; [destruct HJ; constructor; assumption|]. split; [exact Hk0|]. split; [exact Hf0|].
      intros _. apply (j_p1 s HJ). }
  set (sd := with_dir s (if is_snapshot f then [f] else ltxdir s ++ [f])) in *.
  pose proof (jb_with_dir s (if is_snapshot f then [f] else ltxdir s ++ [f]) HB) as HBd. fold sd in HBd.
  destruct (apply_core sd f true s') as [HR [El [Et [_ [_ Hc]]]]]; try assumption.
  - apply (b_lk1 sd HBd).
  - apply (b_cache sd HBd).
  - apply (b_lz sd HBd).
  - intros x Hx Hnl Hnone. destruct (N.le_gt_cases x (pageN s)) as [Hle|Hgt].
    + apply (b_truth s HB); [lia|exact Hnl].
    + exfalso. apply (Hg x); [lia|exact Hnl|exact Hnone].
  - destruct (apply_fields sd f true s' H) as [Fw [F1 F0]].
    assert (Hwf' : wal_file s' = []).
    { destruct (N.eq_dec (l_commit f) 0) as [Ec|Ec]; [apply (F0 Ec)|]. destruct (F1 Ec) as [A _]. rewrite A. exact Hf. }
    assert (HB' : JB s') by (apply (rb_jb s' HR); [rewrite Fw; apply (b_w s HB)|intros _; exact Hc]).
    split; [|exact El]. unfold GInv. destruct (wal_mode s') eqn:Em.
    + split; [apply wl_entry; [exact HB'|exact Em|apply (r_nowal s' HR)|congruence]|].
      apply wk_entry; [exact HB'|exact Hwf'|apply (r_nowal s' HR)].
    + split; [|split; [exact Hwf'|apply (r_nowal s' HR)]]. apply (jb_j s' HB' Em).
      intros q Hq. destruct (N.eq_dec (l_commit f) 0) as [Ec|Ec].
      * destruct (F0 Ec) as [_ [_ Ed]]. unfold file_pg in Hq. rewrite Ed in Hq. destruct (N.to_nat (1 - 1)); discriminate.
      * destruct (F1 Ec) as [_ Em']. destruct Hwf as [Hpos Hnd].
        assert (Hkk : forall kv, In kv (l_pages f) -> 1 <= fst kv) by (intros [p0 q0] Hin; apply (Hpos p0 q0 Hin)).
        destruct (apply_file sd f true s' H ltac:(lia) Hkk Hnd) as [A [B _]].
        destruct (alookup 1 (l_pages f)) as [q1|] eqn:E1.
        -- apply alookup_in in E1. rewrite (A 1 q1 E1 ltac:(lia)) in Hq. inversion Hq; subst. congruence.
        -- destruct Hex as [Hne|Hcx]; [|contradiction Hcx; reflexivity].
           assert (~ In 1 (map fst (l_pages f))) as Hnin.
           { intros Hin. apply in_map_iff in Hin. destruct Hin as [[k qk] [Ek Hin]]. cbn [fst] in Ek. subst k.
             apply (in_alookup_nodup 1 qk _ Hnd) in Hin. congruence. }
           rewrite (B 1 ltac:(lia) Hnin) in Hq.
           ++ apply (Hp1 (eq_sym Em')). exact Hq.
           ++ change (dbfile sd) with (dbfile s). unfold lenN. destruct (dbfile s); [contradiction|]. cbn [length]. lia.
Qed.

(* ---- a transaction forwarded by a replica that holds the halt lock (handlePostTx): it has to continue the position and
   its body has to verify; then it is placed and applied like a file from the stream ---- *)
Definition fwd_refused (s : st) (f : ltxrec) (body_ok : bool) : bool := negb (extends_pos s f) || negb body_ok.
Lemma forward_step s v f ok oc s' : GInv s v -> wf_recv s f -> op_forward s f ok = (oc, s') -> oc = Done \/ oc = Failed ->
  GInv s' (if fwd_refused s f ok then v else file_h s') /\ lockpg s' = lockpg s.
Proof.
  intros HI Hwf H Hoc. unfold op_forward in H. unfold fwd_refused.
  destruct (extends_pos s f) eqn:Ee; cbn [negb orb] in *; [|inversion H; subst; auto].
  destruct ok; cbn [negb] in *; [|inversion H; subst; auto].
  assert (op_receive s f = (oc, s')) as Hr by (unfold op_receive; rewrite Ee, andb_false_r; exact H).
  destruct (recv_step s v f oc s' HI Hwf Hr Hoc) as [A B]. unfold refused in A. rewrite Ee, andb_false_r in A. auto.
Qed.

(* ---- the database is dropped ---- *)
Lemma ginv_cache s v : GInv s v -> CacheOK s /\ LockZero s.
Proof. unfold GInv. destruct (wal_mode s); intros [A _]; destruct A; auto. Qed.

Lemma drop_step s v s' : GInv s v -> op_drop s = (Done, s') -> GInv s' (file_h s') /\ lockpg s' = lockpg s.
Proof.
  intros HI H. destruct (ginv_basic s v HI) as [Hlk Hw]. unfold op_drop in H. rewrite Hw in H. cbn [negb] in H.
  inversion H; subst s'. clear H. split; [|reflexivity]. unfold GInv. cbn [wal_mode with_pos].
  split; [|split; reflexivity]. constructor; cbn [writeable wal_mode lockpg pageN txid chk with_pos with_wal]; try assumption; try reflexivity.
  - intros b Hb. unfold lenN in Hb. cbn in Hb. lia.
  - unfold LockZero, dbc, db_page_chk, nthN. cbn. destruct (N.to_nat (lockpg s - 1)); reflexivity.
  - intros p Hp. lia.
  - intros p _. unfold dbc, db_page_chk, nthN. cbn. destruct (N.to_nat (p - 1)); reflexivity.
  - intros q Hq. unfold file_pg in Hq. cbn in Hq. destruct (N.to_nat (1 - 1)); discriminate.
Qed.

(* ---- an import: a whole database image replaces the database ---- *)
Definition wf_import (s : st) (pages : list (N * pg)) (commit : N) : Prop :=
  (forall p q, In (p, q) pages -> 1 <= p) /\ KeysNoDup pages /\ commit <> 0 /\ lockpg s <> 1 /\
  (forall x, 1 <= x <= commit -> alookup x pages <> None).            (* the image has every page *)

Lemma import_step s v pages commit s' : GInv s v -> wf_import s pages commit ->
  op_import s pages commit true = (Done, s') -> GInv s' (file_h s') /\ lockpg s' = lockpg s.
Proof.
  intros HI [Hpos [Hnd [Hc0 [Hl1 Hcov]]]] H. destruct (ginv_basic s v HI) as [Hlk Hw]. destruct (ginv_cache s v HI) as [HC HL].
  unfold op_import in H. rewrite Hw in H. cbn [negb] in H.
  set (pages' := filter (fun kv => (fun k => negb (k =? lockpg s)) (fst kv)) pages) in *.
  set (f := mkLtx (txid s + 1) (txid s + 1) (chk s) (if commit =? 0 then 0 else import_post (lockpg s) pages) commit pages') in *.
  set (s1 := with_dirty (with_wal (with_dir s (ltxdir s ++ [f])) [] [] []) []) in *.
  assert (Hwf : wf_ltx f).
  { split; cbn [l_pages f].
    - intros p q Hin. apply filter_In in Hin. apply (Hpos p q). tauto.
    - apply keys_filter. exact Hnd. }
  assert (Hlook : forall x, x <> lockpg s -> alookup x pages' = alookup x pages).
  { intros x Hnl. unfold pages'. rewrite (alookup_filter_key (fun k => negb (k =? lockpg s))).
    destruct (N.eqb_spec x (lockpg s)); [contradiction|reflexivity]. }
  destruct (apply_core s1 f true s') as [HR [El [Et [_ [_ Hc]]]]]; try assumption; try reflexivity.
  - intros x Hx Hnl Hnone. exfalso. cbn [l_pages l_commit f] in *. change (lockpg s1) with (lockpg s) in Hnl.
    rewrite (Hlook x Hnl) in Hnone. apply (Hcov x Hx Hnone).
  - change (lockpg s1) with (lockpg s) in El. cbn [l_max l_commit f] in *.
    destruct (apply_fields s1 f true s' H) as [Fw [F1 _]]. destruct (F1 Hc0) as [Fwf Fm]. cbn [l_pages f] in Fm.
    change (wal_file s1) with (@nil (N * pg * N)) in Fwf. change (writeable s1) with (writeable s) in Fw.
    assert (HB' : JB s') by (apply (rb_jb s' HR); [congruence|intros _; exact Hc]).
    split; [|exact El]. unfold GInv. destruct (wal_mode s') eqn:Em.
    + split; [apply wl_entry; [exact HB'|exact Em|apply (r_nowal s' HR)|lia]|].
      apply wk_entry; [exact HB'|exact Fwf|apply (r_nowal s' HR)].
    + split; [|split; [exact Fwf|apply (r_nowal s' HR)]]. apply (jb_j s' HB' Em).
      intros q Hq. destruct Hwf as [Hpos' Hnd'].
      assert (Hkk : forall kv, In kv (l_pages f) -> 1 <= fst kv) by (intros [p0 q0] Hin; apply (Hpos' p0 q0 Hin)).
      destruct (apply_file s1 f true s' H ltac:(cbn [l_commit f]; lia) Hkk Hnd') as [A _]. cbn [l_pages l_commit f] in A.
      assert (1 <> lockpg s) as Hn1 by congruence.
      destruct (alookup 1 pages') as [q1|] eqn:E1.
      * apply alookup_in in E1. rewrite (A 1 q1 E1 ltac:(lia)) in Hq. inversion Hq; subst. congruence.
      * exfalso. rewrite (Hlook 1 Hn1) in E1. apply (Hcov 1 ltac:(lia) E1).
Qed.

(* ---- the steps of a history ---- *)
Inductive gstep :=
| GJ (h : hstep)                                    (* rollback-journal mode: a transaction that keeps the mode; the truncate *)
| GSwitch (zf : list (N * pg)) (acts : list act) (c : N)   (* the transaction that takes the database into WAL mode *)
| GW (o : wop2)                                     (* WAL mode: a commit, a checkpoint of any kind *)
| GLeave (q : pg) (c : N)                           (* the way back: the log removed, page 1 rewritten under a rollback journal *)
| GRestart                                          (* LiteFS restarts: Open *)
| GRecv (f : ltxrec)                                (* a transaction file arrives on the stream: refused, or applied *)
| GForward (f : ltxrec) (body_ok : bool)            (* a replica holding the halt lock forwards a transaction *)
| GDrop                                             (* the database is dropped *)
| GImport (pages : list (N * pg)) (commit : N).     (* a database image is imported over whatever is there *)
Definition grun (s : st) (g : gstep) : option st :=
  match g with
  | GJ h => match run_group s (hops s h) with (0, s') => Some s' | _ => None end
  | GSwitch zf acts c => match run_group s (hops s (HTx zf acts c)) with (0, s') => Some s' | _ => None end
  | GW o => match run_group s (wop2_ops s o) with (0, s') => Some s' | _ => None end
  | GLeave q c => match run_group s (leave_ops q c) with (0, s') => Some s' | _ => None end
  | GRestart => match op_open s with (Done, s') => Some s' | _ => None end
  | GRecv f => match op_receive s f with (Done, s') | (Failed, s') => Some s' | _ => None end
  | GForward f ok => match op_forward s f ok with (Done, s') | (Failed, s') => Some s' | _ => None end
  | GDrop => match op_drop s with (Done, s') => Some s' | _ => None end
  | GImport pages commit => match op_import s pages commit true with (Done, s') => Some s' | _ => None end
  end.
(* the logical database after the step: in WAL mode the overlay; otherwise the file *)
Definition gview (s s' : st) (g : gstep) (v : N -> N) : N -> N :=
  match g with
  | GW o => wop2_view (lockpg s) o v
  | GRecv f => if refused s f then v else file_h s'
  | GForward f ok => if fwd_refused s f ok then v else file_h s'
  | _ => file_h s'
  end.
Definition wf_gstep (s : st) (g : gstep) : Prop :=
  match g with
  | GJ h => wal_mode s = false /\ wf_step s h
  | GSwitch zf acts c => wal_mode s = false /\ wf_tx_any s zf acts /\
                         forall s', run_group s (hops s (HTx zf acts c)) = (0, s') -> wal_mode s' = true
  | GW o => wal_mode s = true /\ wf_wop2 s o
  | GLeave q c => wal_mode s = true /\ wal_file s = [] /\ pg_wal q = false
  | GRestart => wf_restart s
  | GRecv f => wf_recv s f
  | GForward f _ => wf_recv s f
  | GDrop => True
  | GImport pages commit => wf_import s pages commit
  end.
Fixpoint run_gsteps (s : st) (v : N -> N) (gs : list gstep) : option (st * (N -> N)) :=
  match gs with
  | [] => Some (s, v)
  | g :: r => match grun s g with Some s' => run_gsteps s' (gview s s' g v) r | None => None end
  end.
Fixpoint wf_gsteps (s : st) (gs : list gstep) : Prop :=
  match gs with
  | [] => True
  | g :: r => wf_gstep s g /\ forall s', grun s g = Some s' -> wf_gsteps s' r
  end.


Lemma g_step s v g s' : GInv s v -> wf_gstep s g -> grun s g = Some s' -> GInv s' (gview s s' g v) /\ lockpg s' = lockpg s.
Proof.
  intros HI Hwf H. destruct (ginv_basic s v HI) as [Hlk Hw]. destruct g as [h|zf acts c|o|q c| |f|f ok| |pages commit]; cbn [grun wf_gstep gview] in *.
  - destruct Hwf as [Hm Hws]. unfold GInv in HI. rewrite Hm in HI. destruct HI as [HJ [Hf Hk]].
    destruct (run_group s (hops s h)) as [code s1] eqn:E. destruct code; [|discriminate]. inversion H; subst s1. clear H.
    destruct (j_step s h s' HJ Hws E) as [HJ' El]. split; [|exact El].
    unfold GInv. rewrite (j_mode s' HJ'). split; [exact HJ'|].
    split; [rewrite (run_group_wal_file _ s s' (hops_jops s h) E); exact Hf|apply (run_group_nochk _ s s' (hops_jops s h) E Hk)].
  - destruct Hwf as [Hm [Hws Hres]]. unfold GInv in HI. rewrite Hm in HI. destruct HI as [HJ [Hf _]].
    destruct (run_group s (hops s (HTx zf acts c))) as [code s1] eqn:E. destruct code; [|discriminate]. inversion H; subst s1. clear H.
    pose proof (Hres s' eq_refl) as Hm'.
    destruct (tx_step_any s zf acts c s' HJ Hws E Hm') as [HB [Hk [Et [_ El]]]]. split; [|exact El].
    pose proof (run_group_wal_file _ s s' (hops_jops s (HTx zf acts c)) E) as Hf'. rewrite Hf in Hf'.
    unfold GInv. rewrite Hm'. split; [apply wl_entry; [assumption|assumption|assumption|lia]|apply wk_entry; assumption].
  - destruct Hwf as [Hm Hwo]. unfold GInv in HI. rewrite Hm in HI. destruct HI as [HW HK].
    destruct (run_group s (wop2_ops s o)) as [code s1] eqn:E. destruct code; [|discriminate]. inversion H; subst s1. clear H.
    destruct (wal_full_history_invariant [o] s v s' (wop2_view (lockpg s) o v) HW HK) as [HW' [HK' El]].
    + cbn [wf_wops2]. split; [exact Hwo|intros; exact I].
    + cbn [run_wops2]. rewrite E. reflexivity.
    + split; [|exact El]. unfold GInv. rewrite (w_mode s' _ HW'). split; assumption.
  - destruct Hwf as [Hm [Hf Hq]]. unfold GInv in HI. rewrite Hm in HI. destruct HI as [HW HK].
    destruct (run_group s (leave_ops q c)) as [code s1] eqn:E. destruct code; [|discriminate]. inversion H; subst s1. clear H.
    destruct (leave_step s v q c s' HW HK Hf Hq E) as [HJ' [Hf' [Hk' El]]]. split; [|exact El].
    unfold GInv. rewrite (j_mode s' HJ'). split; [assumption|split; assumption].
  - destruct (op_open s) as [oc s1] eqn:E. destruct oc; try discriminate. inversion H; subst s1. clear H.
    apply (restart_step s s' Hlk Hw Hwf E).
  - destruct (op_receive s f) as [oc s1] eqn:E.
    assert (oc = Done \/ oc = Failed) as Hoc by (destruct oc; try discriminate; auto).
    assert (s1 = s') as -> by (destruct oc; try discriminate; inversion H; reflexivity).
    apply (recv_step s v f oc s' HI Hwf E Hoc).
  - destruct (op_forward s f ok) as [oc s1] eqn:E.
    assert (oc = Done \/ oc = Failed) as Hoc by (destruct oc; try discriminate; auto).
    assert (s1 = s') as -> by (destruct oc; try discriminate; inversion H; reflexivity).
    apply (forward_step s v f ok oc s' HI Hwf E Hoc).
  - destruct (op_drop s) as [oc s1] eqn:E. destruct oc; try discriminate. inversion H; subst s1. clear H.
    apply (drop_step s v s' HI E).
  - destruct (op_import s pages commit true) as [oc s1] eqn:E. destruct oc; try discriminate. inversion H; subst s1. clear H.
    apply (import_step s v pages commit s' HI Hwf E).
Qed.

Theorem g_history_invariant : forall gs s v s' v',
  GInv s v -> wf_gsteps s gs -> run_gsteps s v gs = Some (s', v') -> GInv s' v' /\ lockpg s' = lockpg s.
Proof.
  induction gs as [|g r IH]; intros s v s' v' HI Hwf H; cbn [run_gsteps wf_gsteps] in *.
  - inversion H; subst. auto.
  - destruct Hwf as [Hw Hrest]. destruct (grun s g) as [s1|] eqn:E; [|discriminate].
    destruct (g_step s v g s1 HI Hw E) as [HI1 El1].
    destruct (IH s1 _ s' v' HI1 (Hrest s1 eq_refl) H) as [HI' El']. split; [exact HI'|congruence].
Qed.

(* C04 for every history from an empty node made of these steps, in any order the journal mode allows: once something was
   committed, the position's checksum is the from-scratch checksum of the logical database - in rollback-journal mode the
   database file, in WAL mode the file at the switch (or at the last restart) overlaid with the frames - and LiteFS's
   per-page answer is that database's entry *)
Theorem g_history_checksum lock gs s' v' :
  1 <= lock -> wf_gsteps (init lock) gs -> run_gsteps (init lock) (fun _ => 0) gs = Some (s', v') ->
  lockpg s' = lock /\
  (wal_mode s' = false -> (txid s' <> 0 -> chk s' = scratch (fun p => if p =? lock then 0 else file_h s' p) (pageN s')) /\
                          (forall p, 1 <= p <= pageN s' -> p <> lock -> dbc s' p = file_h s' p)) /\
  (wal_mode s' = true -> chk s' = scratch (fun p => if p =? lock then 0 else v' p) (pageN s') /\
                         (forall p, 1 <= p <= pageN s' -> p <> lock -> eff s' (pageN s') [] p = v' p) /\
                         (wal_file s' = [] -> forall p, 1 <= p <= pageN s' -> p <> lock -> file_h s' p = v' p)).
Proof.
  intros Hl Hwf H.
  assert (GInv (init lock) (fun _ => 0)) as HI0 by (unfold GInv; cbn [wal_mode init]; split; [apply j_init; exact Hl|split; reflexivity]).
  destruct (g_history_invariant gs (init lock) _ s' v' HI0 Hwf H) as [HI El]. change (lockpg (init lock)) with lock in El.
  split; [exact El|]. unfold GInv in HI. split; intros Hm; rewrite Hm in HI.
  - destruct HI as [HJ _]. destruct HJ. rewrite El in *. split; assumption.
  - destruct HI as [HW HK]. split; [|split].
    + destruct HW. rewrite El in *. assumption.
    + destruct HW. rewrite El in *. assumption.
    + intros Hf p Hp Hnl. apply (wk_file s' v' HW HK); [|assumption|rewrite El; assumption].
      unfold wpages, wscan. rewrite Hf. reflexivity.
Qed.

(* a concrete history that meets the hypotheses (the non-vacuity example of Props/C04.v): create the database; restart;
   switch to WAL mode; a WAL transaction that grows the database; restart with the log in place; another transaction; a
   complete SQLite checkpoint with the restart of the log; back to rollback-journal mode; a rollback-journal transaction; a
   file from the stream applied, a stray one refused; a forwarded transaction refused, one applied; a drop; an
   import *)
Lemma g_history_example :
  let pg h n := mkPg (fl h) n false in
  let pw h n := mkPg (fl h) n true in
  let x3 a b c := fl (N.lxor (N.lxor (fl a) (fl b)) (fl c)) in
  let gs := [GJ (HTx [] [AWrite 1 (pg 11 2); AWrite 2 (pg 19 0); AFail 2; AWrite 2 (pg 12 0)] 2);
             GRestart;
             GSwitch [] [AWrite 1 (pw 13 2)] 2;
             GW (W2Commit [(1, pw 14 3); (3, pw 33 0); (2, pw 23 0)] 3);
             GRestart;
             GW (W2Commit [(2, pw 24 0)] 3);
             GW W2SqlRestart;
             GLeave (pg 15 3) 3;
             GJ (HTx [] [AWrite 3 (pg 36 0)] 3);
             GRecv (mkLtx 7 7 (x3 15 24 36) (x3 15 27 36) 3 [(2, pg 27 0)]);
             GRecv (mkLtx 9 9 0 0 1 []);
             GForward (mkLtx 8 8 0 0 1 []) true;
             GForward (mkLtx 8 8 (x3 15 27 36) (x3 18 27 36) 3 [(1, pg 18 3)]) true;
             GDrop;
             GImport [(1, pg 41 2); (2, pg 42 0)] 2] in
  wf_gsteps (init 2097153) gs /\
  match run_gsteps (init 2097153) (fun _ => 0) gs with
  | Some (s', v') => (wal_mode s', txid s', pageN s', chk s' =? fl (N.lxor (fl 41) (fl 42)), lenN (dbfile s'),
                      map (file_h s') [1; 2; 3]) = (false, 10, 2, true, 2, [fl 41; fl 42; 0])
  | None => False
  end.
Proof.
  cbn zeta. split; [|vm_compute; reflexivity].
  Ltac gnext s E := intros s E; vm_compute in E; inversion E; subst s; clear E.
  Ltac in_one H := cbn [In] in H; repeat (destruct H as [H|H]; [inversion H; subst; (reflexivity || lia)|]); destruct H.
  Ltac wf_tx := split; [constructor|]; split; [intros ? ? []|]; repeat constructor; cbn; (lia || discriminate).
  Ltac wf_rst :=
    eexists; eexists; split; [vm_compute; reflexivity|];
    split; [split; [split; [intros p q H; in_one H|unfold KeysNoDup; cbn [map fst l_pages]; repeat constructor; cbn [In]; lia]
                   |cbn [l_max]; discriminate]|];
    split; [intros x Hx _; exfalso;
            match type of Hx with (?a < _ <= ?b) =>
              let a' := eval vm_compute in a in let b' := eval vm_compute in b in
              replace a with a' in Hx by (vm_compute; reflexivity); replace b with b' in Hx by (vm_compute; reflexivity) end; lia
           |left; intros Hd; vm_compute in Hd; discriminate].
  Ltac wf_commit tac :=
    split; [reflexivity|]; split; [split; [cbn [pageN lockpg]; intros p Hp _; tac p Hp|intros q H; in_one H]|
                                   split; [discriminate|split; [discriminate|intros p q H; in_one H]]].
  Ltac grew3 p Hp := assert (p = 3) as -> by lia; eexists; cbn [In]; auto.
  Ltac nogrow p Hp := lia.
  cbn [wf_gsteps wf_gstep grun].
  split. { split; [reflexivity|]. cbn [wf_step]. wf_tx. }
  gnext s1 E1. split. { wf_rst. }
  gnext s2 E2. split. { split; [reflexivity|]. split; [wf_tx|]. intros s' E. vm_compute in E. inversion E; subst. reflexivity. }
  gnext s3 E3. split. { wf_commit nogrow || wf_commit grew3. }
  gnext s4 E4. split. { wf_rst. }
  gnext s5 E5. split. { wf_commit nogrow. }
  gnext s6 E6. split. { split; [reflexivity|exact I]. }
  gnext s7 E7. split. { split; [reflexivity|]. split; reflexivity. }
  gnext s8 E8. split. { split; [reflexivity|]. cbn [wf_step]. wf_tx. }
  Ltac wf_rcv :=
    split; [split; [split; [intros p q H; in_one H|unfold KeysNoDup; cbn [map fst l_pages]; repeat constructor; cbn [In]; lia]
                   |cbn [l_max]; discriminate]|];
    split; [cbn [pageN l_commit]; intros x Hx _; lia|]; split; [discriminate|left; discriminate].
  gnext s9 E9. split. { wf_rcv. }
  gnext s10 E10. split. { wf_rcv. }
  gnext s11 E11. split. { wf_rcv. }
  gnext s11b E11b. split. { wf_rcv. }
  gnext s12 E12. split; [exact I|].
  gnext s13 E13. split.
  { split; [intros p q H; in_one H|]. split; [unfold KeysNoDup; cbn [map fst]; repeat constructor; cbn [In]; lia|].
    split; [discriminate|]. split; [cbn [lockpg]; discriminate|].
    intros x Hx. assert (x = 1 \/ x = 2) as [->| ->] by lia; discriminate. }
  intros s14 _. exact I.
Qed.
