(* C05 over histories: after every history of C04_history's steps a restart (Open on the files as they are - the process
   died on a quiescent node, or was stopped) that completes is at the position the node had: the chain ends at the node's
   position (ChainHistoryProofs) and Open ends at the newest file's (OpenProofs). *)
From Coq Require Import NArith List Lia ZifyN ZifyNat ZifyBool Bool Arith.
Require Import LF.Gen.ConstsGen LF.Model.PageDB LF.Proofs.XorLib LF.Proofs.ChecksumProofs LF.Proofs.CaptureProofs
  LF.Proofs.ChainProofs LF.Proofs.HistoryProofs LF.Proofs.WalHistoryProofs LF.Proofs.WalCheckpointProofs
  LF.Proofs.SqlCheckpointProofs LF.Proofs.ApplyHistoryProofs LF.Proofs.OpenProofs LF.Proofs.ComposeProofs
  LF.Proofs.ChainHistoryProofs LF.Proofs.ImportHistoryProofs.
Import ListNotations.
Local Open Scope N_scope.

Theorem g_history_restart_position lock gs s v s' :
  1 <= lock -> wf_gsteps (init lock) gs -> run_gsteps (init lock) (fun _ => 0) gs = Some (s, v) ->
  wf_restart s -> grun s GRestart = Some s' ->
  txid s' = txid s /\ chk s' = chk s /\
  chk s' = scratch (fun p => if p =? lock then 0 else file_h s' p) (pageN s') /\
  (forall p, 1 <= p <= pageN s' -> p <> lock -> dbc s' p = file_h s' p) /\
  Chain s'.
Proof.
  intros Hl Hwf Hrun Hwr Hg.
  assert (GInv (init lock) (fun _ => 0)) as HI0 by (unfold GInv; cbn [wal_mode init]; split; [apply j_init; exact Hl|split; reflexivity]).
  destruct (g_history_invariant gs _ _ s v HI0 Hwf Hrun) as [HI El]. change (lockpg (init lock)) with lock in El.
  pose proof (g_history_chain lock gs s v Hrun) as HC.
  pose proof (g_chain_step s GRestart s' HC Hg) as HC'.
  cbn [grun] in Hg. destruct (op_open s) as [oc sx] eqn:E. destruct oc; try discriminate. inversion Hg; subst sx. clear Hg.
  destruct Hwr as [f [rest [Hr [[Hwfl Hmax] [Hgrow Hex]]]]].
  assert (1 <= lockpg s) as Hlk by (rewrite El; exact Hl).
  destruct (open_checksum s f rest s' Hlk Hr Hwfl Hgrow E) as [HR [El' [Et [Ep [Ec Hs]]]]].
  destruct HC as [_ He]. unfold ends_at in He. rewrite Hr in He. destruct He as [A B].
  rewrite El', El in Hs.
  split; [congruence|]. split; [congruence|]. split; [exact Hs|]. split; [|exact HC'].
  intros p Hp Hnl. apply (r_truth s' HR); [lia|rewrite El', El; exact Hnl].
Qed.

(* the first four steps of Props/C04.v's example history (create with a failed finalisation, restart, switch to WAL mode, a
   WAL transaction that grows the database - its frames are in the log), then the restart that is its fifth step *)
Definition restart_example_history : list gstep :=
  let pg h n := mkPg (fl h) n false in
  let pw h n := mkPg (fl h) n true in
  [GJ (HTx [] [AWrite 1 (pg 11 2); AWrite 2 (pg 19 0); AFail 2; AWrite 2 (pg 12 0)] 2);
   GRestart;
   GSwitch [] [AWrite 1 (pw 13 2)] 2;
   GW (W2Commit [(1, pw 14 3); (3, pw 33 0); (2, pw 23 0)] 3)].
Definition restart_example_rest : list gstep :=
  let pg h n := mkPg (fl h) n false in
  let pw h n := mkPg (fl h) n true in
  let x3 a b c := fl (N.lxor (N.lxor (fl a) (fl b)) (fl c)) in
  [GRestart;
   GW (W2Commit [(2, pw 24 0)] 3);
   GW W2SqlRestart;
   GLeave (pg 15 3) 3;
   GJ (HTx [] [AWrite 3 (pg 36 0)] 3);
   GRecv (mkLtx 7 7 (x3 15 24 36) (x3 15 27 36) 3 [(2, pg 27 0)]);
   GRecv (mkLtx 9 9 0 0 1 []);
   GForward (mkLtx 8 8 0 0 1 []) true;
   GForward (mkLtx 8 8 (x3 15 27 36) (x3 18 27 36) 3 [(1, pg 18 3)]) true;
   GDrop;
   GImport [(1, pg 41 2); (2, pg 42 0)] 2].

Lemma restart_history_example :
  wf_gsteps (init 2097153) restart_example_history /\
  match run_gsteps (init 2097153) (fun _ => 0) restart_example_history with
  | Some (s, _) =>
      wf_restart s /\
      match grun s GRestart with
      | Some s' => (wal_mode s, match wal_file s with [] => false | _ => true end, txid s, lenN (dbfile s),
                    txid s', chk s' =? chk s, wal_file s', lenN (dbfile s'), pageN s')
                   = (true, true, 3, 2, 3, true, [], 3, 3)
      | None => False
      end
  | None => False
  end.
Proof.
  pose proof g_history_example as H. cbn zeta in H. destruct H as [Hwf _].
  match type of Hwf with wf_gsteps _ ?l =>
    change l with (restart_example_history ++ restart_example_rest) in Hwf end.
  apply wf_gsteps_app in Hwf. destruct Hwf as [Ha Hb]. split; [exact Ha|].
  assert (Hc : match run_gsteps (init 2097153) (fun _ => 0) restart_example_history with
               | Some (s, _) => match grun s GRestart with
                                | Some s' => (wal_mode s, match wal_file s with [] => false | _ => true end, txid s, lenN (dbfile s),
                                              txid s', chk s' =? chk s, wal_file s', lenN (dbfile s'), pageN s')
                                             = (true, true, 3, 2, 3, true, [], 3, 3)
                                | None => False end
               | None => False end) by (vm_compute; reflexivity).
  destruct (run_gsteps (init 2097153) (fun _ => 0) restart_example_history) as [[s v]|] eqn:E; [|exact Hc].
  split; [|exact Hc]. pose proof (Hb _ s v E) as Hw. unfold restart_example_rest in Hw. cbn [wf_gsteps wf_gstep] in Hw. exact (proj1 Hw).
Qed.
