(* C01 without the no-collision premise, the primary's own restart: the newest transaction file agrees with the logical
   database (LastAgree, kept by every step), so Open - checkpoint, recompute, re-apply that file - leaves the logical database
   and the position alone; the follower, which is sent nothing, still holds it. *)
From Coq Require Import NArith List Lia ZifyN ZifyNat ZifyBool Bool Arith Sorted.
Require Import LF.Gen.ConstsGen LF.Model.PageDB LF.Proofs.XorLib LF.Proofs.ChecksumProofs LF.Proofs.CaptureProofs
  LF.Proofs.ChainProofs LF.Proofs.ApplyProofs
  LF.Proofs.HistoryProofs LF.Proofs.WalHistoryProofs LF.Proofs.WalCheckpointProofs LF.Proofs.SqlCheckpointProofs
  LF.Proofs.ApplyHistoryProofs LF.Proofs.OpenProofs LF.Proofs.ComposeProofs LF.Proofs.FollowProofs LF.Proofs.FollowWalProofs
  LF.Proofs.FollowGProofs.
Import ListNotations.
Local Open Scope N_scope.

(* the newest file names the node's position and size, and its pages are the logical database's *)
Definition LastAgree (s : st) : Prop :=
  forall f rest, rev (ltxdir s) = f :: rest ->
    l_commit f = pageN s /\ l_max f = txid s /\ l_post f = chk s /\
    forall p q, In (p, q) (l_pages f) -> 1 <= p <= l_commit f -> lpage s p = q.

Lemma last_agree_quiet s s' : LastAgree s -> ltxdir s' = ltxdir s -> pageN s' = pageN s -> txid s' = txid s -> chk s' = chk s ->
  (forall x, 1 <= x <= pageN s -> lpage s' x = lpage s x) -> LastAgree s'.
Proof.
  intros HL Hd Hp Ht Hc Hlp f rest Hr. rewrite Hd in Hr. destruct (HL f rest Hr) as [A [B [C D]]].
  split; [congruence|]. split; [congruence|]. split; [congruence|].
  intros p q Hin Hpq. rewrite Hlp by lia. apply (D p q Hin Hpq).
Qed.

Lemma last_of_snoc {A} (l : list A) (f g : A) rest : rev (l ++ [f]) = g :: rest -> g = f.
Proof. rewrite rev_unit. intros H. inversion H. reflexivity. Qed.

(* ---- the finalisation of a journal ---- *)
Lemma commit_last_agree sP s2 c s' : SameM sP s2 -> wal_file s2 = [] -> LastAgree sP ->
  step s2 (OCommitJournal c) = (Done, s') -> LastAgree s'.
Proof.
  intros [Ss Sp Sso Spo [Ft [Fc [Fd Fl]]]] Hf HL H. cbn [step] in H.
  destruct (writeable s2 && (pageN s2 =? 0) && match dbfile s2 with [] => true | _ :: _ => false end) eqn:Einv.
  - unfold op_invalidate_journal in H. inversion H; subst s'. clear H.
    apply andb_true_iff in Einv. destruct Einv as [Einv _]. apply andb_true_iff in Einv. destruct Einv as [_ Ep]. apply N.eqb_eq in Ep.
    intros f rest Hr. cbn [ltxdir with_dirty] in Hr. rewrite Fd in Hr. destruct (HL f rest Hr) as [A [B [C D]]].
    cbn [pageN txid chk with_dirty]. split; [congruence|]. split; [congruence|]. split; [congruence|].
    intros p q Hin Hpq. exfalso. rewrite A, <- Sp, Ep in Hpq. lia.
  - destruct (commit_journal_file s2 c s' H) as [f [E1 [E2 [E3 [E4 [E5 [E6 [E7 [E8 E9]]]]]]]]].
    destruct (commit_journal_fields s2 c s' H) as [_ [_ [_ [_ F5]]]].
    assert (Hpos' : txid s' = txid s2 + 1 /\ pageN s' = c).
    { clear -H. unfold op_commit_journal in H. destruct (writeable s2); cbn [negb] in H; [|discriminate].
      destruct (journal_pages _ _ _) as [[pages|] sj]; [|discriminate].
      destruct (checksum _ _ _) as [[post|] sx]; [|discriminate]. inversion H; subst. cbn. auto. }
    destruct Hpos' as [Etx Epn].
    intros g rest Hr. rewrite E1 in Hr. apply last_of_snoc in Hr. subst g.
    split; [congruence|]. split; [congruence|]. split; [exact E5|].
    intros p q Hin Hpq. unfold lpage. rewrite (wpages_nil_of_file s' ltac:(rewrite F5; exact Hf)). cbn [alookup].
    unfold fpg. rewrite E9. apply fpg_file_pg. apply (E8 p q Hin).
Qed.

(* ---- both kinds of apply ---- *)
Lemma apply_last_agree s d f s' : wf_ltx f -> ltxdir (with_dir s d) = d -> (exists rest, rev d = f :: rest) ->
  op_apply (with_dir s d) f true = (Done, s') -> wal_file s' = [] -> LastAgree s'.
Proof.
  intros [Hpos Hnd] _ [rest0 Hd] H Hf g rest Hr.
  destruct (apply_done _ f true s' H) as [At [Ac [Ap Ad]]]. cbn [ltxdir with_dir] in Ad. rewrite Ad, Hd in Hr. inversion Hr; subst g rest.
  split; [congruence|]. split; [congruence|]. split; [congruence|].
  intros p q Hin Hpq. unfold lpage. rewrite (wpages_nil_of_file s' Hf). cbn [alookup].
  assert (l_commit f <> 0) as Hc0 by lia.
  rewrite (apply_fpg _ f true s' H (conj Hpos Hnd) Hc0 p Hpq). rewrite (in_alookup_nodup p q _ Hnd Hin). reflexivity.
Qed.

(* ---- the checkpoint inside Open ---- *)
Lemma checkpoint_fpg s : (forall p q, In (p, q) (wpages s) -> 1 <= p) -> KeysNoDup (wpages s) ->
  forall x, 1 <= x -> (wpages s = [] \/ x <= snd (wscan s)) -> fpg (snd (op_checkpoint s)) x = lpage s x.
Proof.
  intros Hpos Hnd x Hx Hc. unfold op_checkpoint. rewrite wal_committed_scan. fold (wscan s). fold (wpages s).
  destruct (wpages s) as [|x0 r0] eqn:Ep.
  - cbn [snd]. unfold lpage. rewrite Ep. reflexivity.
  - destruct Hc as [Hc|Hc]; [discriminate|]. rewrite <- Ep in *. clear Ep x0 r0. cbn [snd].
    unfold fpg at 1. cbn [dbfile with_wal with_pos].
    fold (fpg (truncate_db (fold_left (fun a kv => write_db_page a (fst kv) (snd kv)) (wpages s) s) (snd (wscan s))) x).
    rewrite fpg_truncate_db by lia. destruct (N.leb_spec x (snd (wscan s))); [|lia].
    rewrite fpg_fold_write by (assumption || lia). reflexivity.
Qed.

Definition open_s0 (s : st) : st :=
  let '(pN0, wal0) := match file_hdr s with Some (n, w) => (n, w) | None => (0, false) end in
  mkSt (writeable s) (lockpg s) (dbfile s) pN0 wal0 [] [] [] [] (wal_file s) [] 0 0 (ltxdir s).
Lemma open_recomputed_fpg s x : fpg (open_recomputed s) x = fpg (snd (op_checkpoint (open_s0 s))) x.
Proof.
  unfold open_recomputed, open_s0.
  destruct (match file_hdr s with Some (n, w) => (n, w) | None => (0, false) end) as [pN0 wal0].
  match goal with |- context [op_checkpoint ?x] => destruct (op_checkpoint x) as [o1 s1] end.
  destruct (match file_hdr s1 with Some (n, w) => (n, w) | None => (0, false) end) as [pN1 wal1].
  reflexivity.
Qed.
Lemma open_s0_log s : wpages (open_s0 s) = wpages s /\ wscan (open_s0 s) = wscan s /\ forall x, lpage (open_s0 s) x = lpage s x.
Proof.
  unfold open_s0. destruct (match file_hdr s with Some (n, w) => (n, w) | None => (0, false) end) as [pN0 wal0].
  split; [reflexivity|]. split; [reflexivity|]. intros x. reflexivity.
Qed.
Lemma open_recomputed_dirty s : dirty (open_recomputed s) = [].
Proof.
  unfold open_recomputed.
  destruct (match file_hdr s with Some (n, w) => (n, w) | None => (0, false) end) as [pN0 wal0].
  match goal with |- context [op_checkpoint ?x] => destruct (op_checkpoint x) as [o1 s1] end.
  destruct (match file_hdr s1 with Some (n, w) => (n, w) | None => (0, false) end) as [pN1 wal1].
  reflexivity.
Qed.

(* ---- the primary restarts; the follower is sent nothing ---- *)
Lemma follow_restart sP sR v sP' : FGInv sP sR v -> LastAgree sP -> wf_restart sP -> op_open sP = (Done, sP') ->
  FGInv sP' sR (file_h sP') /\ LastAgree sP' /\ new_files sP sP' = [].
Proof.
  intros [HI [Hd HS]] HL Hwf H.
  destruct (ginv_basic sP v HI) as [Hlk Hw].
  destruct (restart_step sP sP' Hlk Hw Hwf H) as [HI' El].
  destruct Hwf as [f [rest [Hr [[Hwfl Hmax] [Hg Hex]]]]].
  destruct (HL f rest Hr) as [Lc [Lm [Lp Lpages]]].
  destruct (open_checksum sP f rest sP' Hlk Hr Hwfl Hg H) as [_ [_ [Et [Ep [Ec _]]]]].
  rewrite op_open_eq, ltxdir_open_recomputed, Hr in H.
  destruct (apply_done _ f false sP' H) as [_ [_ [_ Ad]]]. rewrite ltxdir_open_recomputed in Ad.
  destruct (open_recomputed_misc sP) as [_ [Of _]].
  destruct (apply_fields _ f false sP' H) as [_ [F1 F0]].
  assert (Hf' : wal_file sP' = []).
  { destruct (N.eq_dec (l_commit f) 0) as [E0|E0]; [apply (F0 E0)|]. destruct (F1 E0) as [A _]. rewrite A. exact Of. }
  (* the log as the checkpoint inside Open finds it *)
  assert (Hk : (forall p q, In (p, q) (wpages sP) -> 1 <= p) /\ KeysNoDup (wpages sP) /\ (wpages sP <> [] -> snd (wscan sP) = pageN sP)).
  { unfold GInv in HI. destruct (wal_mode sP) eqn:Em.
    - destruct HI as [_ HK]. destruct HK as [k_scan0 k_last0 k_hash0 k_keys0 k_truth0 k_empty0 k_pos0 k_nodup0 k_in0]. auto.
    - destruct HI as [_ [Hf0 _]]. rewrite (wpages_nil_of_file sP Hf0). split; [intros p q []|]. split; [constructor|]. intros Hn. contradiction. }
  destruct Hk as [Kpos [Knd Klast]].
  assert (Hlp : forall x, 1 <= x <= pageN sP -> lpage sP' x = lpage sP x).
  { intros x Hx. unfold lpage at 1. rewrite (wpages_nil_of_file sP' Hf'). cbn [alookup].
    assert (l_commit f <> 0) as Hc0 by lia.
    destruct Hwfl as [Hpos Hnd].
    rewrite (apply_fpg _ f false sP' H (conj Hpos Hnd) Hc0 x ltac:(lia)).
    destruct (alookup x (l_pages f)) as [q|] eqn:Ea.
    - apply alookup_in in Ea. symmetry. apply (Lpages x q Ea). lia.
    - rewrite open_recomputed_fpg. destruct (open_s0_log sP) as [Ew [Es Elp]].
      rewrite checkpoint_fpg; [apply Elp|rewrite Ew; exact Kpos|rewrite Ew; exact Knd|lia|].
      rewrite Ew, Es. destruct (wpages sP) eqn:Ewp; [left; reflexivity|right]. rewrite Klast by discriminate. lia. }
  assert (HL' : LastAgree sP').
  { apply (last_agree_quiet sP sP' HL Ad); [congruence|congruence|congruence|exact Hlp]. }
  split; [|split; [exact HL'|unfold new_files; rewrite Ad; apply skipn_same]].
  split; [exact HI'|]. split; [rewrite (apply_dirty _ f false sP' H); apply open_recomputed_dirty|].
  destruct HS as [A B C D E]. constructor; try congruence.
  intros p Hp Hnl. rewrite Ep, Lc in Hp. rewrite El in Hnl. rewrite (Hlp p Hp). apply E; assumption.
Qed.

Lemma body_jops s zf acts : Forall jop (zf_ops zf ++ act_ops (pageN s) acts).
Proof.
  pose proof (hops_jops s (HTx zf acts 0)) as H. cbn [hops] in H. apply Forall_app in H. destruct H as [A B].
  apply Forall_app in B. destruct B as [B _]. apply Forall_app. split; assumption.
Qed.

(* ---- every other step keeps LastAgree ---- *)
Lemma last_agree_step sP sR v g sP' : FGInv sP sR v -> LastAgree sP -> wf_gstep sP g -> no_restart g ->
  grun sP g = Some sP' -> LastAgree sP'.
Proof.
  intros [HI [Hd HS]] HL Hwf Hnr H.
  destruct g as [h|zf acts c|o|q c| |f|f ok| |pages commit]; cbn [grun wf_gstep no_restart] in *.
  - (* a rollback-journal transaction / the truncate *)
    destruct Hwf as [Hm Hws]. pose proof (ginv_nolog_cases sP v HI Hm) as Hf.
    destruct (run_group sP (hops sP h)) as [code s1] eqn:E. destruct code; [|discriminate]. inversion H; subst s1. clear H.
    destruct h as [zf acts c|n]; cbn [hops wf_step] in *.
    + destruct Hws as [Hnd [Hzf Hacts]]. rewrite app_assoc, run_group_app in E.
      destruct (run_group sP (zf_ops zf ++ act_ops (pageN sP) acts)) as [code s2] eqn:E2. destruct code; [|inversion E].
      pose proof (body_ops_ok true sP zf acts (fun p q Hin => proj1 (Hzf p q Hin)) Hacts) as Hb.
      pose proof (same_run sP _ sP s2 Hb (same_start sP Hd) Hm E2) as SM.
      assert (wal_file s2 = []) as Hf2.
      { rewrite (run_group_wal_file _ sP s2 (body_jops sP zf acts) E2). exact Hf. }
      apply run_group_one in E. apply (commit_last_agree sP s2 c sP' SM Hf2 HL E).
    + apply run_group_one in E. cbn [step] in E. unfold GInv in HI. rewrite Hm in HI. destruct HI as [HJ _].
      destruct (j_truncate sP n sP' HJ E) as [_ [Et Ep]].
      unfold op_truncate in E. destruct (N.eqb_spec n (pageN sP)) as [->|Hne]; cbn [negb] in E; [|discriminate]. inversion E; subst sP'.
      apply (last_agree_quiet sP _ HL); [apply ltxdir_truncate_db|exact Ep|exact Et|apply (pos_truncate_db sP (pageN sP))|].
      intros x Hx. unfold lpage. change (wpages (truncate_db sP (pageN sP))) with (wpages sP) || idtac.
      assert (wal_file (truncate_db sP (pageN sP)) = wal_file sP) as Ewf by apply truncate_db_misc.
      rewrite (wpages_nil_of_file _ ltac:(rewrite Ewf; exact Hf)), (wpages_nil_of_file sP Hf). cbn [alookup].
      rewrite fpg_truncate_db by lia. destruct (N.leb_spec x (pageN sP)); [reflexivity|lia].
  - (* the switch *)
    destruct Hwf as [Hm [[Hnd [Hzf Hacts]] Hres]]. pose proof (ginv_nolog_cases sP v HI Hm) as Hf.
    destruct (run_group sP (hops sP (HTx zf acts c))) as [code s1] eqn:E. destruct code; [|discriminate]. inversion H; subst s1. clear H.
    cbn [hops] in E. rewrite app_assoc, run_group_app in E.
    destruct (run_group sP (zf_ops zf ++ act_ops (pageN sP) acts)) as [code s2] eqn:E2. destruct code; [|inversion E].
    pose proof (body_ops_ok false sP zf acts Hzf Hacts) as Hb.
    pose proof (same_run sP _ sP s2 Hb (same_start sP Hd) Hm E2) as SM.
    assert (wal_file s2 = []) as Hf2.
    { rewrite (run_group_wal_file _ sP s2 (body_jops sP zf acts) E2). exact Hf. }
    apply run_group_one in E. apply (commit_last_agree sP s2 c sP' SM Hf2 HL E).
  - (* WAL mode *)
    destruct Hwf as [Hm Hwo]. unfold GInv in HI. rewrite Hm in HI. destruct HI as [HW HK].
    destruct (run_group sP (wop2_ops sP o)) as [code s1] eqn:E. destruct code; [|discriminate]. inversion H; subst s1. clear H.
    destruct (wal_full_history_invariant [o] sP v sP' (wop2_view (lockpg sP) o v) HW HK) as [HW' [_ El]].
    { cbn [wf_wops2]. split; [exact Hwo|intros; exact I]. }
    { cbn [run_wops2]. rewrite E. reflexivity. }
    destruct o as [fr c| |p|p q|]; cbn [wop2_ops wf_wop2] in *.
    + apply run_group_one in E. cbn [step] in E. destruct Hwo as [[Hg Hp1] [Hne [Hc0 Hpos]]].
      pose proof (commit_wpages_lookup sP v fr c sP' HW HK Hne Hc0 E) as Hlook.
      destruct (commit_wal_file sP fr c sP' E) as [f [E1 [E2 [E3 [E4 [E5 [E6 [E7 [E8 [E9 E10]]]]]]]]]].
      intros g rest Hr. rewrite E1 in Hr. apply last_of_snoc in Hr. subst g.
      split; [congruence|]. split; [congruence|]. split; [exact E5|].
      intros p q Hin Hpq. rewrite E7 in Hin. apply tx_pages_in in Hin. destruct Hin as [_ [_ Hl]].
      unfold lpage. rewrite Hlook, Hl. reflexivity.
    + apply run_group_one in E. cbn [step] in E.
      destruct (ckpt_step sP v sP' HW HK E) as [_ [_ [_ [Et [Ep _]]]]]. destruct (pos_checkpoint sP Done sP' E) as [_ [Ec Ed]].
      apply (last_agree_quiet sP sP' HL Ed Ep Et Ec). intros x Hx. apply (lpage_checkpoint sP v sP' HW HK E x Hx).
    + destruct (alookup p (wpages sP)) as [q|] eqn:Eq.
      * apply run_group_one in E. cbn [step] in E. unfold op_write_page in E.
        rewrite (w_w sP v HW), (w_mode sP v HW) in E. cbn [negb] in E. inversion E; subst sP'.
        apply (last_agree_quiet sP _ HL); try reflexivity. intros x Hx. apply lpage_backfill; [rewrite Eq; discriminate|lia|lia].
      * cbn [run_group] in E. inversion E; subst sP'. exact HL.
    + destruct Hwo as [Hp Hin]. apply run_group_one in E. cbn [step] in E. unfold op_write_page in E.
      rewrite (w_w sP v HW), (w_mode sP v HW) in E. cbn [negb] in E. inversion E; subst sP'.
      apply (last_agree_quiet sP _ HL); try reflexivity. intros x Hx. apply lpage_backfill; [exact Hin|lia|lia].
    + destruct (sqlckpt_step sP v sP' HW HK E) as [HW2 [_ [El2 [Et [Ep _]]]]]. destruct (lpage_sqlckpt sP v sP' HW HK E) as [Ed Hlp].
      assert (chk sP' = chk sP) as Ec by (rewrite (w_chk sP' v HW2), (w_chk sP v HW), El2, Ep; reflexivity).
      apply (last_agree_quiet sP sP' HL Ed Ep Et Ec Hlp).
  - (* the way back *)
    destruct Hwf as [Hm [Hf Hq]]. unfold GInv in HI. rewrite Hm in HI. destruct HI as [HW HK].
    destruct (run_group sP (leave_ops q c)) as [code s1] eqn:E. destruct code; [|discriminate]. inversion H; subst s1. clear H.
    change (leave_ops q c) with ([OWalTruncate; OWriteJ 1 q] ++ [OCommitJournal c]) in E. rewrite run_group_app in E.
    set (sa := with_wal sP [] [] []).
    set (s1 := write_db_page (with_dirty sa (insert_sorted 1 (dirty sa))) 1 q).
    assert (E1 : run_group sP [OWalTruncate; OWriteJ 1 q] = (0, s1)).
    { cbn [run_group step]. unfold op_wal_reset. cbn [ocode]. fold sa. unfold op_write_page_j.
      change (writeable sa) with (writeable sP). rewrite (w_w sP v HW). cbn [negb ocode]. reflexivity. }
    rewrite E1 in E. apply run_group_one in E.
    assert (SM : SameM sP s1).
    { constructor.
      - intros x Hx Hnd. change (dirty s1) with (insert_sorted 1 (dirty sP)) in Hnd. rewrite Hd in Hnd. cbn [insert_sorted In] in Hnd.
        unfold s1. rewrite fpg_write by lia. destruct (N.eqb_spec x 1) as [->|_]; [tauto|reflexivity].
      - reflexivity.
      - change (dirty s1) with (insert_sorted 1 (dirty sP)). rewrite Hd. cbn [insert_sorted]. repeat constructor.
      - intros x Hx. change (dirty s1) with (insert_sorted 1 (dirty sP)) in Hx. rewrite Hd in Hx. cbn [insert_sorted In] in Hx.
        destruct Hx as [<-|[]]. lia.
      - repeat split; reflexivity. }
    apply (commit_last_agree sP s1 c sP' SM ltac:(reflexivity) HL E).
  - contradiction.
  - (* a file from the stream *)
    destruct Hwf as [[Hwfl Hmax] [Hg [Hwm Hex]]].
    destruct (op_receive sP f) as [oc s1] eqn:E.
    assert (s1 = sP' /\ (oc = Done \/ oc = Failed)) as [-> Hoc] by (destruct oc; try discriminate; inversion H; auto).
    unfold op_receive in E. fold (refused sP f) in E. destruct (refused sP f) eqn:Er.
    + inversion E; subst. exact HL.
    + assert (oc = Done) as -> by (destruct Hoc as [->| ->]; [reflexivity|exfalso; apply (apply_not_failed _ f sP' E)]).
      destruct (apply_fields _ f true sP' E) as [_ [F1 F0]].
      assert (Hf' : wal_file sP' = []).
      { destruct (N.eq_dec (l_commit f) 0) as [Ec|Ec]; [apply (F0 Ec)|]. destruct (F1 Ec) as [A _]. rewrite A. cbn [wal_file with_dir].
        destruct (wal_mode sP) eqn:Em; [apply Hwm; reflexivity|apply (ginv_nolog_cases sP v HI Em)]. }
      apply (apply_last_agree sP (if is_snapshot f then [f] else ltxdir sP ++ [f]) f sP' Hwfl eq_refl); [|exact E|exact Hf'].
      destruct (is_snapshot f); [exists []; reflexivity|exists (rev (ltxdir sP)); apply rev_unit].
  - (* a forwarded transaction *)
    destruct Hwf as [[Hwfl Hmax] [Hg [Hwm Hex]]].
    destruct (op_forward sP f ok) as [oc s1] eqn:E.
    assert (s1 = sP' /\ (oc = Done \/ oc = Failed)) as [-> Hoc] by (destruct oc; try discriminate; inversion H; auto).
    unfold op_forward in E. destruct (extends_pos sP f) eqn:Ee; cbn [negb] in E; [|inversion E; subst; exact HL].
    destruct ok; cbn [negb] in E; [|inversion E; subst; exact HL].
    assert (oc = Done) as -> by (destruct Hoc as [->| ->]; [reflexivity|exfalso; apply (apply_not_failed _ f sP' E)]).
    destruct (apply_fields _ f true sP' E) as [_ [F1 F0]].
    assert (Hf' : wal_file sP' = []).
    { destruct (N.eq_dec (l_commit f) 0) as [Ec|Ec]; [apply (F0 Ec)|]. destruct (F1 Ec) as [A _]. rewrite A. cbn [wal_file with_dir].
      destruct (wal_mode sP) eqn:Em; [apply Hwm; reflexivity|apply (ginv_nolog_cases sP v HI Em)]. }
    apply (apply_last_agree sP (if is_snapshot f then [f] else ltxdir sP ++ [f]) f sP' Hwfl eq_refl); [|exact E|exact Hf'].
    destruct (is_snapshot f); [exists []; reflexivity|exists (rev (ltxdir sP)); apply rev_unit].
  - (* a drop *)
    destruct (op_drop sP) as [oc s1] eqn:E. destruct oc; try discriminate. inversion H; subst s1. clear H.
    destruct (ginv_basic sP v HI) as [_ Hw]. unfold op_drop in E. rewrite Hw in E. cbn [negb] in E. inversion E; subst sP'. clear E.
    intros g rest Hr. cbn [ltxdir with_pos] in Hr. apply last_of_snoc in Hr. subst g.
    cbn [l_commit l_max l_post l_pages pageN txid chk with_pos]. repeat split; try reflexivity. intros p q [].
  - (* an import *)
    destruct Hwf as [Hpos [Hnd [Hc0 [Hl1 Hcov]]]].
    destruct (op_import sP pages commit true) as [oc s1] eqn:E. destruct oc; try discriminate. inversion H; subst s1. clear H.
    destruct (ginv_basic sP v HI) as [_ Hw]. unfold op_import in E. rewrite Hw in E. cbn [negb] in E.
    set (pages' := filter (fun kv => negb (fst kv =? lockpg sP)) pages) in *.
    set (f := mkLtx (txid sP + 1) (txid sP + 1) (chk sP) (if commit =? 0 then 0 else import_post (lockpg sP) pages) commit pages') in *.
    set (s1 := with_dirty (with_wal (with_dir sP (ltxdir sP ++ [f])) [] [] []) []) in *.
    assert (Hwfl : wf_ltx f).
    { split; cbn [l_pages f].
      - intros p q Hin. apply filter_In in Hin. apply (Hpos p q). tauto.
      - apply keys_filter. exact Hnd. }
    destruct (apply_fields s1 f true sP' E) as [_ [F1 _]]. destruct (F1 Hc0) as [Fwf _]. change (wal_file s1) with (@nil (N * pg * N)) in Fwf.
    destruct (apply_done s1 f true sP' E) as [At [Ac [Ap Ad]]]. cbn [ltxdir s1 with_dirty with_wal with_dir] in Ad.
    intros g rest Hr. rewrite Ad in Hr. apply last_of_snoc in Hr. subst g.
    split; [congruence|]. split; [congruence|]. split; [congruence|].
    intros p q Hin Hpq. unfold lpage. rewrite (wpages_nil_of_file sP' Fwf). cbn [alookup].
    rewrite (apply_fpg s1 f true sP' E Hwfl Hc0 p Hpq). destruct Hwfl as [_ Hnd']. rewrite (in_alookup_nodup p q _ Hnd' Hin). reflexivity.
Qed.

(* ---- every step, the primary's restart included ---- *)
Lemma fg2_step sP sR v g sP' sR' : FGInv sP sR v -> LastAgree sP -> wf_gstep sP g ->
  grun sP g = Some sP' -> run_recv sR (sent sP g sP') = Some sR' ->
  FGInv sP' sR' (gview sP sP' g v) /\ LastAgree sP'.
Proof.
  intros HI HL Hwf H HR.
  assert (no_restart g \/ g = GRestart) as [Hnr| ->] by (destruct g; cbn; auto).
  - split; [apply (fg_step sP sR v g sP' sR' HI Hwf Hnr H HR)|apply (last_agree_step sP sR v g sP' HI HL Hwf Hnr H)].
  - cbn [grun wf_gstep gview sent] in *. destruct (op_open sP) as [oc s1] eqn:E. destruct oc; try discriminate. inversion H; subst s1. clear H.
    destruct (follow_restart sP sR v sP' HI HL Hwf E) as [A [B C]]. rewrite C in HR. cbn [run_recv] in HR. inversion HR; subst sR'. auto.
Qed.

Theorem followg_all_invariant : forall gs sP sR v sP' sR',
  FGInv sP sR v -> LastAgree sP -> wf_gsteps sP gs -> followg sP sR v gs = Some (sP', sR') ->
  exists v', FGInv sP' sR' v' /\ lockpg sP' = lockpg sP.
Proof.
  induction gs as [|g r IH]; intros sP sR v sP' sR' HI HL Hwf H; cbn [followg wf_gsteps] in *.
  - inversion H; subst. exists v. auto.
  - destruct Hwf as [Hw Hrest]. destruct (grun sP g) as [s1|] eqn:E; [|discriminate].
    destruct (run_recv sR (sent sP g s1)) as [r1|] eqn:Er; [|discriminate].
    destruct (fg2_step sP sR v g s1 r1 HI HL Hw E Er) as [HI1 HL1].
    destruct (g_step sP v g s1 (proj1 HI) Hw E) as [_ El1].
    destruct (IH s1 r1 _ sP' sR' HI1 HL1 (Hrest s1 eq_refl) H) as [v' [A B]]. exists v'. split; [exact A|congruence].
Qed.

(* C01 without the no-collision premise, for every history of a primary made of the steps of C04_history - its own restarts
   included - and a follower that is sent what each step publishes *)
Theorem follower_identical_all lock gs sP sR :
  1 <= lock -> wf_gsteps (init lock) gs -> followg (init lock) (init lock) (fun _ => 0) gs = Some (sP, sR) ->
  txid sR = txid sP /\ chk sR = chk sP /\ pageN sR = pageN sP /\
  (forall p, 1 <= p <= pageN sP -> p <> lock -> fpg sR p = lpage sP p).
Proof.
  intros Hl Hwf H.
  assert (FGInv (init lock) (init lock) (fun _ => 0)) as HI0.
  { split; [unfold GInv; cbn [wal_mode init]; split; [apply j_init; exact Hl|split; reflexivity]|].
    split; [reflexivity|]. constructor; try reflexivity. }
  assert (LastAgree (init lock)) as HL0 by (intros f rest Hr; cbn in Hr; discriminate).
  destruct (followg_all_invariant gs _ _ _ sP sR HI0 HL0 Hwf H) as [v' [[_ [_ [A B C D E]]] El]].
  change (lockpg (init lock)) with lock in El. rewrite El in E. auto.
Qed.

(* a concrete history that meets the hypotheses (the non-vacuity example of Props/C01.v): the history of C04_history's example,
   with the primary restarting twice *)
Lemma follower_identical_all_example :
  let pg h n := mkPg (fl h) n false in
  let pw h n := mkPg (fl h) n true in
  let x3 a b c := fl (N.lxor (N.lxor (fl a) (fl b)) (fl c)) in
  let gs := [GJ (HTx [] [AWrite 1 (pg 11 2); AWrite 2 (pg 19 0); AFail 2; AWrite 2 (pg 12 0)] 2);
             GRestart;
             GSwitch [] [AWrite 1 (pw 13 2)] 2;
             GW (W2Commit [(1, pw 14 3); (3, pw 33 0); (2, pw 23 0)] 3);
             GRestart;
             GW (W2Commit [(2, pw 24 0)] 3);
             GW W2SqlRestart;
             GLeave (pg 15 3) 3;
             GJ (HTx [] [AWrite 3 (pg 36 0)] 3);
             GRecv (mkLtx 7 7 (x3 15 24 36) (x3 15 27 36) 3 [(2, pg 27 0)]);
             GRecv (mkLtx 9 9 0 0 1 []);
             GForward (mkLtx 8 8 0 0 1 []) true;
             GForward (mkLtx 8 8 (x3 15 27 36) (x3 18 27 36) 3 [(1, pg 18 3)]) true;
             GDrop;
             GImport [(1, pg 41 2); (2, pg 42 0)] 2] in
  wf_gsteps (init 2097153) gs /\
  match followg (init 2097153) (init 2097153) (fun _ => 0) gs with
  | Some (sP, sR) => (txid sR, pageN sR, chk sR =? chk sP, map (fpg sR) [1; 2], map (lpage sP) [1; 2], length (ltxdir sR))
                     = (10, 2, true, [pg 41 2; pg 42 0], [pg 41 2; pg 42 0], 10%nat)
  | None => False
  end.
Proof.
  cbn zeta. split; [|vm_compute; reflexivity].
  pose proof g_history_example as H. cbn zeta in H. destruct H as [Hwf _]. exact Hwf.
Qed.
