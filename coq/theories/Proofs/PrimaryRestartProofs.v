(* C05 over histories, the primary alone: the newest file agrees with the logical database (LastAgree of
   FollowRestartProofs.v) along every history of C04_history's steps - no follower needed - hence a restart that completes
   leaves position, size and every logical page as they were. *)
From Coq Require Import NArith List Lia ZifyN ZifyNat ZifyBool Bool Arith Sorted.
Require Import LF.Gen.ConstsGen LF.Model.PageDB LF.Proofs.XorLib LF.Proofs.ChecksumProofs LF.Proofs.CaptureProofs
  LF.Proofs.ChainProofs LF.Proofs.ApplyProofs
  LF.Proofs.HistoryProofs LF.Proofs.WalHistoryProofs LF.Proofs.WalCheckpointProofs LF.Proofs.SqlCheckpointProofs
  LF.Proofs.ApplyHistoryProofs LF.Proofs.OpenProofs LF.Proofs.ComposeProofs LF.Proofs.FollowProofs LF.Proofs.FollowWalProofs
  LF.Proofs.FollowGProofs LF.Proofs.FollowRestartProofs.
Import ListNotations.
Local Open Scope N_scope.

(* ---- nothing is left in the dirty set between steps ---- *)
Lemma commit_journal_dirty s c s' : op_commit_journal s c = (Done, s') -> dirty s' = [].
Proof.
  unfold op_commit_journal. destruct (negb (writeable s)); [discriminate|].
  destruct (journal_pages _ c _) as [[pages|] sj]; [|discriminate].
  match goal with |- context [checksum ?a ?b ?d] => destruct (checksum a b d) as [[post|] s2] end; [|discriminate].
  intros H. inversion H; subst s'. reflexivity.
Qed.
Lemma step_commit_dirty s c s' : step s (OCommitJournal c) = (Done, s') -> dirty s' = [].
Proof.
  cbn [step]. destruct (writeable s && (pageN s =? 0) && match dbfile s with [] => true | _ :: _ => false end).
  - unfold op_invalidate_journal. intros H. inversion H; subst s'. reflexivity.
  - apply commit_journal_dirty.
Qed.
Lemma run_group_last_commit ops c s s' : run_group s (ops ++ [OCommitJournal c]) = (0, s') -> dirty s' = [].
Proof.
  rewrite run_group_app. destruct (run_group s ops) as [code s2]. destruct code; [|intros H; inversion H].
  intros H. apply run_group_one in H. exact (step_commit_dirty s2 c s' H).
Qed.

Lemma dirty_step s v g s' : GInv s v -> dirty s = [] -> wf_gstep s g -> grun s g = Some s' -> dirty s' = [].
Proof.
  intros HI Hd Hwf H. destruct g as [h|zf acts c|o|q c| |f|f ok| |pages commit]; cbn [grun wf_gstep] in H, Hwf.
  - destruct (run_group s (hops s h)) as [code s1] eqn:E. destruct code; [|discriminate]. inversion H; subst s1.
    destruct h as [zf acts c|n]; cbn [hops] in E.
    + rewrite app_assoc in E. exact (run_group_last_commit _ c s s' E).
    + apply run_group_one in E. cbn [step] in E. unfold op_truncate in E. destruct (negb (n =? pageN s)); [discriminate|].
      inversion E; subst s'. rewrite dirty_truncate_db. exact Hd.
  - destruct (run_group s (hops s (HTx zf acts c))) as [code s1] eqn:E. destruct code; [|discriminate]. inversion H; subst s1.
    cbn [hops] in E. rewrite app_assoc in E. exact (run_group_last_commit _ c s s' E).
  - destruct (run_group s (wop2_ops s o)) as [code s1] eqn:E. destruct code; [|discriminate]. inversion H; subst s1.
    destruct Hwf as [Hm _]. unfold GInv in HI. rewrite Hm in HI. destruct HI as [HW _]. rewrite (wop2_dirty s v o s' HW E). exact Hd.
  - destruct (run_group s (leave_ops q c)) as [code s1] eqn:E. destruct code; [|discriminate]. inversion H; subst s1.
    unfold leave_ops in E. change [OWalTruncate; OWriteJ 1 q; OCommitJournal c] with ([OWalTruncate; OWriteJ 1 q] ++ [OCommitJournal c]) in E.
    exact (run_group_last_commit _ c s s' E).
  - destruct (op_open s) as [oc s1] eqn:E. destruct oc; try discriminate. inversion H; subst s1.
    rewrite op_open_eq in E. destruct (rev (ltxdir (open_recomputed s))) as [|f rest].
    + inversion E; subst s'. apply open_recomputed_dirty.
    + rewrite (apply_dirty _ f false s' E). apply open_recomputed_dirty.
  - destruct (op_receive s f) as [oc s1] eqn:E. destruct oc; try discriminate; inversion H; subst s1.
    + unfold op_receive in E. destruct (negb (is_snapshot f) && negb (extends_pos s f)); [discriminate|].
      rewrite (apply_dirty _ f true s' E). exact Hd.
    + destruct (receive_cases s f Failed s' E) as [[_ Es]|[_ Hn]]; [subst s'; exact Hd|congruence].
  - destruct (op_forward s f ok) as [oc s1] eqn:E. destruct oc; try discriminate; inversion H; subst s1.
    + unfold op_forward in E. destruct (negb (extends_pos s f)); [discriminate|]. destruct (negb ok); [discriminate|].
      rewrite (apply_dirty _ f true s' E). exact Hd.
    + unfold op_forward in E. destruct (negb (extends_pos s f)); [inversion E; subst s'; exact Hd|].
      destruct (negb ok); [inversion E; subst s'; exact Hd|].
      exfalso. unfold op_apply in E. destruct (l_commit f =? 0);
      match type of E with context [checksum ?a ?b ?d] => destruct (checksum a b d) as [[c0|] s4] end;
      try (destruct (c0 =? l_post f)); discriminate.
  - destruct (op_drop s) as [oc s1] eqn:E. destruct oc; try discriminate. inversion H; subst s1.
    unfold op_drop in E. destruct (negb (writeable s)); [discriminate|]. inversion E; subst s'. cbn [dirty with_pos with_wal]. exact Hd.
  - destruct (op_import s pages commit true) as [oc s1] eqn:E. destruct oc; try discriminate. inversion H; subst s1.
    unfold op_import in E. destruct (negb (writeable s)); [discriminate|]. cbn [negb] in E.
    rewrite (apply_dirty _ _ true s' E). reflexivity.
Qed.

(* ---- LastAgree along the steps, the primary alone (the proof of FollowRestartProofs.last_agree_step never used the follower) ---- *)
Lemma last_agree_step0 sP v g sP' : GInv sP v -> dirty sP = [] -> LastAgree sP -> wf_gstep sP g -> no_restart g ->
  grun sP g = Some sP' -> LastAgree sP'.
Proof.
  intros HI Hd HL Hwf Hnr H.
  destruct g as [h|zf acts c|o|q c| |f|f ok| |pages commit]; cbn [grun wf_gstep no_restart] in *.
  - (* a rollback-journal transaction / the truncate *)
    destruct Hwf as [Hm Hws]. pose proof (ginv_nolog_cases sP v HI Hm) as Hf.
    destruct (run_group sP (hops sP h)) as [code s1] eqn:E. destruct code; [|discriminate]. inversion H; subst s1. clear H.
    destruct h as [zf acts c|n]; cbn [hops wf_step] in *.
    + destruct Hws as [Hnd [Hzf Hacts]]. rewrite app_assoc, run_group_app in E.
      destruct (run_group sP (zf_ops zf ++ act_ops (pageN sP) acts)) as [code s2] eqn:E2. destruct code; [|inversion E].
      pose proof (body_ops_ok true sP zf acts (fun p q Hin => proj1 (Hzf p q Hin)) Hacts) as Hb.
      pose proof (same_run sP _ sP s2 Hb (same_start sP Hd) Hm E2) as SM.
      assert (wal_file s2 = []) as Hf2.
      { rewrite (run_group_wal_file _ sP s2 (body_jops sP zf acts) E2). exact Hf. }
      apply run_group_one in E. apply (commit_last_agree sP s2 c sP' SM Hf2 HL E).
    + apply run_group_one in E. cbn [step] in E. unfold GInv in HI. rewrite Hm in HI. destruct HI as [HJ _].
      destruct (j_truncate sP n sP' HJ E) as [_ [Et Ep]].
      unfold op_truncate in E. destruct (N.eqb_spec n (pageN sP)) as [->|Hne]; cbn [negb] in E; [|discriminate]. inversion E; subst sP'.
      apply (last_agree_quiet sP _ HL); [apply ltxdir_truncate_db|exact Ep|exact Et|apply (pos_truncate_db sP (pageN sP))|].
      intros x Hx. unfold lpage. change (wpages (truncate_db sP (pageN sP))) with (wpages sP) || idtac.
      assert (wal_file (truncate_db sP (pageN sP)) = wal_file sP) as Ewf by apply truncate_db_misc.
      rewrite (wpages_nil_of_file _ ltac:(rewrite Ewf; exact Hf)), (wpages_nil_of_file sP Hf). cbn [alookup].
      rewrite fpg_truncate_db by lia. destruct (N.leb_spec x (pageN sP)); [reflexivity|lia].
  - (* the switch *)
    destruct Hwf as [Hm [[Hnd [Hzf Hacts]] Hres]]. pose proof (ginv_nolog_cases sP v HI Hm) as Hf.
    destruct (run_group sP (hops sP (HTx zf acts c))) as [code s1] eqn:E. destruct code; [|discriminate]. inversion H; subst s1. clear H.
    cbn [hops] in E. rewrite app_assoc, run_group_app in E.
    destruct (run_group sP (zf_ops zf ++ act_ops (pageN sP) acts)) as [code s2] eqn:E2. destruct code; [|inversion E].
    pose proof (body_ops_ok false sP zf acts Hzf Hacts) as Hb.
    pose proof (same_run sP _ sP s2 Hb (same_start sP Hd) Hm E2) as SM.
    assert (wal_file s2 = []) as Hf2.
    { rewrite (run_group_wal_file _ sP s2 (body_jops sP zf acts) E2). exact Hf. }
    apply run_group_one in E. apply (commit_last_agree sP s2 c sP' SM Hf2 HL E).
  - (* WAL mode *)
    destruct Hwf as [Hm Hwo]. unfold GInv in HI. rewrite Hm in HI. destruct HI as [HW HK].
    destruct (run_group sP (wop2_ops sP o)) as [code s1] eqn:E. destruct code; [|discriminate]. inversion H; subst s1. clear H.
    destruct (wal_full_history_invariant [o] sP v sP' (wop2_view (lockpg sP) o v) HW HK) as [HW' [_ El]].
    { cbn [wf_wops2]. split; [exact Hwo|intros; exact I]. }
    { cbn [run_wops2]. rewrite E. reflexivity. }
    destruct o as [fr c| |p|p q|]; cbn [wop2_ops wf_wop2] in *.
    + apply run_group_one in E. cbn [step] in E. destruct Hwo as [[Hg Hp1] [Hne [Hc0 Hpos]]].
      pose proof (commit_wpages_lookup sP v fr c sP' HW HK Hne Hc0 E) as Hlook.
      destruct (commit_wal_file sP fr c sP' E) as [f [E1 [E2 [E3 [E4 [E5 [E6 [E7 [E8 [E9 E10]]]]]]]]]].
      intros g rest Hr. rewrite E1 in Hr. apply last_of_snoc in Hr. subst g.
      split; [congruence|]. split; [congruence|]. split; [exact E5|].
      intros p q Hin Hpq. rewrite E7 in Hin. apply tx_pages_in in Hin. destruct Hin as [_ [_ Hl]].
      unfold lpage. rewrite Hlook, Hl. reflexivity.
    + apply run_group_one in E. cbn [step] in E.
      destruct (ckpt_step sP v sP' HW HK E) as [_ [_ [_ [Et [Ep _]]]]]. destruct (pos_checkpoint sP Done sP' E) as [_ [Ec Ed]].
      apply (last_agree_quiet sP sP' HL Ed Ep Et Ec). intros x Hx. apply (lpage_checkpoint sP v sP' HW HK E x Hx).
    + destruct (alookup p (wpages sP)) as [q|] eqn:Eq.
      * apply run_group_one in E. cbn [step] in E. unfold op_write_page in E.
        rewrite (w_w sP v HW), (w_mode sP v HW) in E. cbn [negb] in E. inversion E; subst sP'.
        apply (last_agree_quiet sP _ HL); try reflexivity. intros x Hx. apply lpage_backfill; [rewrite Eq; discriminate|lia|lia].
      * cbn [run_group] in E. inversion E; subst sP'. exact HL.
    + destruct Hwo as [Hp Hin]. apply run_group_one in E. cbn [step] in E. unfold op_write_page in E.
      rewrite (w_w sP v HW), (w_mode sP v HW) in E. cbn [negb] in E. inversion E; subst sP'.
      apply (last_agree_quiet sP _ HL); try reflexivity. intros x Hx. apply lpage_backfill; [exact Hin|lia|lia].
    + destruct (sqlckpt_step sP v sP' HW HK E) as [HW2 [_ [El2 [Et [Ep _]]]]]. destruct (lpage_sqlckpt sP v sP' HW HK E) as [Ed Hlp].
      assert (chk sP' = chk sP) as Ec by (rewrite (w_chk sP' v HW2), (w_chk sP v HW), El2, Ep; reflexivity).
      apply (last_agree_quiet sP sP' HL Ed Ep Et Ec Hlp).
  - (* the way back *)
    destruct Hwf as [Hm [Hf Hq]]. unfold GInv in HI. rewrite Hm in HI. destruct HI as [HW HK].
    destruct (run_group sP (leave_ops q c)) as [code s1] eqn:E. destruct code; [|discriminate]. inversion H; subst s1. clear H.
    change (leave_ops q c) with ([OWalTruncate; OWriteJ 1 q] ++ [OCommitJournal c]) in E. rewrite run_group_app in E.
    set (sa := with_wal sP [] [] []).
    set (s1 := write_db_page (with_dirty sa (insert_sorted 1 (dirty sa))) 1 q).
    assert (E1 : run_group sP [OWalTruncate; OWriteJ 1 q] = (0, s1)).
    { cbn [run_group step]. unfold op_wal_reset. cbn [ocode]. fold sa. unfold op_write_page_j.
      change (writeable sa) with (writeable sP). rewrite (w_w sP v HW). cbn [negb ocode]. reflexivity. }
    rewrite E1 in E. apply run_group_one in E.
    assert (SM : SameM sP s1).
    { constructor.
      - intros x Hx Hnd. change (dirty s1) with (insert_sorted 1 (dirty sP)) in Hnd. rewrite Hd in Hnd. cbn [insert_sorted In] in Hnd.
        unfold s1. rewrite fpg_write by lia. destruct (N.eqb_spec x 1) as [->|_]; [tauto|reflexivity].
      - reflexivity.
      - change (dirty s1) with (insert_sorted 1 (dirty sP)). rewrite Hd. cbn [insert_sorted]. repeat constructor.
      - intros x Hx. change (dirty s1) with (insert_sorted 1 (dirty sP)) in Hx. rewrite Hd in Hx. cbn [insert_sorted In] in Hx.
        destruct Hx as [<-|[]]. lia.
      - repeat split; reflexivity. }
    apply (commit_last_agree sP s1 c sP' SM ltac:(reflexivity) HL E).
  - contradiction.
  - (* a file from the stream *)
    destruct Hwf as [[Hwfl Hmax] [Hg [Hwm Hex]]].
    destruct (op_receive sP f) as [oc s1] eqn:E.
    assert (s1 = sP' /\ (oc = Done \/ oc = Failed)) as [-> Hoc] by (destruct oc; try discriminate; inversion H; auto).
    unfold op_receive in E. fold (refused sP f) in E. destruct (refused sP f) eqn:Er.
    + inversion E; subst. exact HL.
    + assert (oc = Done) as -> by (destruct Hoc as [->| ->]; [reflexivity|exfalso; apply (apply_not_failed _ f sP' E)]).
      destruct (apply_fields _ f true sP' E) as [_ [F1 F0]].
      assert (Hf' : wal_file sP' = []).
      { destruct (N.eq_dec (l_commit f) 0) as [Ec|Ec]; [apply (F0 Ec)|]. destruct (F1 Ec) as [A _]. rewrite A. cbn [wal_file with_dir].
        destruct (wal_mode sP) eqn:Em; [apply Hwm; reflexivity|apply (ginv_nolog_cases sP v HI Em)]. }
      apply (apply_last_agree sP (if is_snapshot f then [f] else ltxdir sP ++ [f]) f sP' Hwfl eq_refl); [|exact E|exact Hf'].
      destruct (is_snapshot f); [exists []; reflexivity|exists (rev (ltxdir sP)); apply rev_unit].
  - (* a forwarded transaction *)
    destruct Hwf as [[Hwfl Hmax] [Hg [Hwm Hex]]].
    destruct (op_forward sP f ok) as [oc s1] eqn:E.
    assert (s1 = sP' /\ (oc = Done \/ oc = Failed)) as [-> Hoc] by (destruct oc; try discriminate; inversion H; auto).
    unfold op_forward in E. destruct (extends_pos sP f) eqn:Ee; cbn [negb] in E; [|inversion E; subst; exact HL].
    destruct ok; cbn [negb] in E; [|inversion E; subst; exact HL].
    assert (oc = Done) as -> by (destruct Hoc as [->| ->]; [reflexivity|exfalso; apply (apply_not_failed _ f sP' E)]).
    destruct (apply_fields _ f true sP' E) as [_ [F1 F0]].
    assert (Hf' : wal_file sP' = []).
    { destruct (N.eq_dec (l_commit f) 0) as [Ec|Ec]; [apply (F0 Ec)|]. destruct (F1 Ec) as [A _]. rewrite A. cbn [wal_file with_dir].
      destruct (wal_mode sP) eqn:Em; [apply Hwm; reflexivity|apply (ginv_nolog_cases sP v HI Em)]. }
    apply (apply_last_agree sP (if is_snapshot f then [f] else ltxdir sP ++ [f]) f sP' Hwfl eq_refl); [|exact E|exact Hf'].
    destruct (is_snapshot f); [exists []; reflexivity|exists (rev (ltxdir sP)); apply rev_unit].
  - (* a drop *)
    destruct (op_drop sP) as [oc s1] eqn:E. destruct oc; try discriminate. inversion H; subst s1. clear H.
    destruct (ginv_basic sP v HI) as [_ Hw]. unfold op_drop in E. rewrite Hw in E. cbn [negb] in E. inversion E; subst sP'. clear E.
    intros g rest Hr. cbn [ltxdir with_pos] in Hr. apply last_of_snoc in Hr. subst g.
    cbn [l_commit l_max l_post l_pages pageN txid chk with_pos]. repeat split; try reflexivity. intros p q [].
  - (* an import *)
    destruct Hwf as [Hpos [Hnd [Hc0 [Hl1 Hcov]]]].
    destruct (op_import sP pages commit true) as [oc s1] eqn:E. destruct oc; try discriminate. inversion H; subst s1. clear H.
    destruct (ginv_basic sP v HI) as [_ Hw]. unfold op_import in E. rewrite Hw in E. cbn [negb] in E.
    set (pages' := filter (fun kv => negb (fst kv =? lockpg sP)) pages) in *.
    set (f := mkLtx (txid sP + 1) (txid sP + 1) (chk sP) (if commit =? 0 then 0 else import_post (lockpg sP) pages) commit pages') in *.
    set (s1 := with_dirty (with_wal (with_dir sP (ltxdir sP ++ [f])) [] [] []) []) in *.
    assert (Hwfl : wf_ltx f).
    { split; cbn [l_pages f].
      - intros p q Hin. apply filter_In in Hin. apply (Hpos p q). tauto.
      - apply keys_filter. exact Hnd. }
    destruct (apply_fields s1 f true sP' E) as [_ [F1 _]]. destruct (F1 Hc0) as [Fwf _]. change (wal_file s1) with (@nil (N * pg * N)) in Fwf.
    destruct (apply_done s1 f true sP' E) as [At [Ac [Ap Ad]]]. cbn [ltxdir s1 with_dirty with_wal with_dir] in Ad.
    intros g rest Hr. rewrite Ad in Hr. apply last_of_snoc in Hr. subst g.
    split; [congruence|]. split; [congruence|]. split; [congruence|].
    intros p q Hin Hpq. unfold lpage. rewrite (wpages_nil_of_file sP' Fwf). cbn [alookup].
    rewrite (apply_fpg s1 f true sP' E Hwfl Hc0 p Hpq). destruct Hwfl as [_ Hnd']. rewrite (in_alookup_nodup p q _ Hnd' Hin). reflexivity.
Qed.

(* ---- the restart itself (FollowRestartProofs.follow_restart without the follower) ---- *)
Lemma restart_keeps sP v sP' : GInv sP v -> LastAgree sP -> wf_restart sP -> op_open sP = (Done, sP') ->
  txid sP' = txid sP /\ chk sP' = chk sP /\ pageN sP' = pageN sP /\ ltxdir sP' = ltxdir sP /\ wal_file sP' = [] /\
  (forall x, 1 <= x <= pageN sP -> lpage sP' x = lpage sP x) /\ LastAgree sP'.
Proof.
  intros HI HL Hwf H.
  destruct (ginv_basic sP v HI) as [Hlk Hw].
  destruct Hwf as [f [rest [Hr [[Hwfl Hmax] [Hg Hex]]]]].
  destruct (HL f rest Hr) as [Lc [Lm [Lp Lpages]]].
  destruct (open_checksum sP f rest sP' Hlk Hr Hwfl Hg H) as [_ [_ [Et [Ep [Ec _]]]]].
  rewrite op_open_eq, ltxdir_open_recomputed, Hr in H.
  destruct (apply_done _ f false sP' H) as [_ [_ [_ Ad]]]. rewrite ltxdir_open_recomputed in Ad.
  destruct (open_recomputed_misc sP) as [_ [Of _]].
  destruct (apply_fields _ f false sP' H) as [_ [F1 F0]].
  assert (Hf' : wal_file sP' = []).
  { destruct (N.eq_dec (l_commit f) 0) as [E0|E0]; [apply (F0 E0)|]. destruct (F1 E0) as [A _]. rewrite A. exact Of. }
  assert (Hk : (forall p q, In (p, q) (wpages sP) -> 1 <= p) /\ KeysNoDup (wpages sP) /\ (wpages sP <> [] -> snd (wscan sP) = pageN sP)).
  { unfold GInv in HI. destruct (wal_mode sP) eqn:Em.
    - destruct HI as [_ HK]. destruct HK as [k_scan0 k_last0 k_hash0 k_keys0 k_truth0 k_empty0 k_pos0 k_nodup0 k_in0]. auto.
    - destruct HI as [_ [Hf0 _]]. rewrite (wpages_nil_of_file sP Hf0). split; [intros p q []|]. split; [constructor|]. intros Hn. contradiction. }
  destruct Hk as [Kpos [Knd Klast]].
  assert (Hlp : forall x, 1 <= x <= pageN sP -> lpage sP' x = lpage sP x).
  { intros x Hx. unfold lpage at 1. rewrite (wpages_nil_of_file sP' Hf'). cbn [alookup].
    assert (l_commit f <> 0) as Hc0 by lia.
    destruct Hwfl as [Hpos Hnd].
    rewrite (apply_fpg _ f false sP' H (conj Hpos Hnd) Hc0 x ltac:(lia)).
    destruct (alookup x (l_pages f)) as [q|] eqn:Ea.
    - apply alookup_in in Ea. symmetry. apply (Lpages x q Ea). lia.
    - rewrite open_recomputed_fpg. destruct (open_s0_log sP) as [Ew [Es Elp]].
      rewrite checkpoint_fpg; [apply Elp|rewrite Ew; exact Kpos|rewrite Ew; exact Knd|lia|].
      rewrite Ew, Es. destruct (wpages sP) eqn:Ewp; [left; reflexivity|right]. rewrite Klast by discriminate. lia. }
  assert (HL' : LastAgree sP').
  { apply (last_agree_quiet sP sP' HL Ad); [congruence|congruence|congruence|exact Hlp]. }
  split; [congruence|]. split; [congruence|]. split; [congruence|]. split; [exact Ad|]. split; [exact Hf'|]. split; [exact Hlp|exact HL'].
Qed.

(* ---- the invariant of a primary's history ---- *)
Definition PInv (s : st) (v : N -> N) : Prop := GInv s v /\ dirty s = [] /\ LastAgree s.

Lemma p_step s v g s' : PInv s v -> wf_gstep s g -> grun s g = Some s' -> PInv s' (gview s s' g v).
Proof.
  intros [HI [Hd HL]] Hwf H.
  destruct (g_step s v g s' HI Hwf H) as [HI' _].
  split; [exact HI'|]. split; [exact (dirty_step s v g s' HI Hd Hwf H)|].
  assert (no_restart g \/ g = GRestart) as [Hnr| ->] by (destruct g; cbn; auto).
  - exact (last_agree_step0 s v g s' HI Hd HL Hwf Hnr H).
  - cbn [grun wf_gstep] in *. destruct (op_open s) as [oc s1] eqn:E. destruct oc; try discriminate. inversion H; subst s1.
    destruct (restart_keeps s v s' HI HL Hwf E) as [_ [_ [_ [_ [_ [_ A]]]]]]. exact A.
Qed.

Theorem p_history_invariant : forall gs s v s' v',
  PInv s v -> wf_gsteps s gs -> run_gsteps s v gs = Some (s', v') -> PInv s' v'.
Proof.
  induction gs as [|g r IH]; intros s v s' v' HP Hwf H; cbn [run_gsteps wf_gsteps] in *.
  - inversion H; subst. exact HP.
  - destruct Hwf as [Hw Hrest]. destruct (grun s g) as [s1|] eqn:E; [|discriminate].
    exact (IH s1 _ s' v' (p_step s v g s1 HP Hw E) (Hrest s1 eq_refl) H).
Qed.

(* after every history, a restart that completes leaves the position, the size, the log directory and every logical page
   (the log's last committed version of it, else the file's) as they were; the log file is checkpointed away *)
Theorem g_history_restart_keeps_database lock gs s v s' :
  1 <= lock -> wf_gsteps (init lock) gs -> run_gsteps (init lock) (fun _ => 0) gs = Some (s, v) ->
  wf_restart s -> grun s GRestart = Some s' ->
  txid s' = txid s /\ chk s' = chk s /\ pageN s' = pageN s /\ ltxdir s' = ltxdir s /\ wal_file s' = [] /\
  (forall p, 1 <= p <= pageN s -> lpage s' p = lpage s p).
Proof.
  intros Hl Hwf Hrun Hwr Hg.
  assert (PInv (init lock) (fun _ => 0)) as HP0.
  { split; [unfold GInv; cbn [wal_mode init]; split; [apply j_init; exact Hl|split; reflexivity]|].
    split; [reflexivity|]. intros f rest Hr. cbn in Hr. discriminate. }
  destruct (p_history_invariant gs _ _ s v HP0 Hwf Hrun) as [HI [_ HL]].
  cbn [grun] in Hg. destruct (op_open s) as [oc sx] eqn:E. destruct oc; try discriminate. inversion Hg; subst sx.
  destruct (restart_keeps s v s' HI HL Hwr E) as [A [B [C [D [F [G _]]]]]]. auto 10.
Qed.

Require Import LF.Proofs.RestartHistoryProofs.
Lemma restart_database_example :
  let pw h n := mkPg (fl h) n true in
  wf_gsteps (init 2097153) restart_example_history /\
  match run_gsteps (init 2097153) (fun _ => 0) restart_example_history with
  | Some (s, _) =>
      wf_restart s /\
      match grun s GRestart with
      | Some s' => (map (lpage s) [1; 2; 3], map (lpage s') [1; 2; 3], map (fpg s) [1; 2], lenN (dbfile s), map (fpg s') [1; 2; 3])
                   = ([pw 14 3; pw 23 0; pw 33 0], [pw 14 3; pw 23 0; pw 33 0], [pw 13 2; mkPg (fl 12) 0 false], 2, [pw 14 3; pw 23 0; pw 33 0])
      | None => False
      end
  | None => False
  end.
Proof.
  cbn zeta. destruct restart_history_example as [Ha Hb]. split; [exact Ha|].
  assert (Hc : match run_gsteps (init 2097153) (fun _ => 0) restart_example_history with
               | Some (s, _) => match grun s GRestart with
                                | Some s' => (map (lpage s) [1; 2; 3], map (lpage s') [1; 2; 3], map (fpg s) [1; 2], lenN (dbfile s), map (fpg s') [1; 2; 3])
                                             = ([mkPg (fl 14) 3 true; mkPg (fl 23) 0 true; mkPg (fl 33) 0 true], [mkPg (fl 14) 3 true; mkPg (fl 23) 0 true; mkPg (fl 33) 0 true],
                                                [mkPg (fl 13) 2 true; mkPg (fl 12) 0 false], 2, [mkPg (fl 14) 3 true; mkPg (fl 23) 0 true; mkPg (fl 33) 0 true])
                                | None => False end
               | None => False end) by (vm_compute; reflexivity).
  destruct (run_gsteps (init 2097153) (fun _ => 0) restart_example_history) as [[s v]|]; [|exact Hc].
  destruct Hb as [Hw _]. split; [exact Hw|exact Hc].
Qed.

(* capture, read off the log: after every history the newest file has the database's size and position, and every page it
   names is the logical database's version of that page *)
Theorem g_history_last_agree lock gs s v f rest :
  1 <= lock -> wf_gsteps (init lock) gs -> run_gsteps (init lock) (fun _ => 0) gs = Some (s, v) ->
  rev (ltxdir s) = f :: rest ->
  l_commit f = pageN s /\ l_max f = txid s /\ l_post f = chk s /\
  forall p q, In (p, q) (l_pages f) -> 1 <= p <= l_commit f -> lpage s p = q.
Proof.
  intros Hl Hwf Hrun Hr.
  assert (PInv (init lock) (fun _ => 0)) as HP0.
  { split; [unfold GInv; cbn [wal_mode init]; split; [apply j_init; exact Hl|split; reflexivity]|].
    split; [reflexivity|]. intros f0 rest0 Hr0. cbn in Hr0. discriminate. }
  destruct (p_history_invariant gs _ _ s v HP0 Hwf Hrun) as [_ [_ HL]]. exact (HL f rest Hr).
Qed.

Require Import LF.Proofs.ImportHistoryProofs.
Lemma last_agree_example :
  let pw h n := mkPg (fl h) n true in
  wf_gsteps (init 2097153) restart_example_history /\
  match run_gsteps (init 2097153) (fun _ => 0) restart_example_history with
  | Some (s, _) => match rev (ltxdir s) with
                   | f :: _ => (l_min f, l_max f, l_commit f, l_pages f, map (lpage s) [1; 2; 3], pageN s)
                               = (3, 3, 3, [(1, pw 14 3); (2, pw 23 0); (3, pw 33 0)], [pw 14 3; pw 23 0; pw 33 0], 3)
                   | [] => False
                   end
  | None => False
  end.
Proof.
  cbn zeta. pose proof restart_history_example as H. destruct H as [A _]. split; [exact A|vm_compute; reflexivity].
Qed.
