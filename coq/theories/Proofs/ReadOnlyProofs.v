(* C07: on a node without write authority no application-level operation changes the database. *)
From Coq Require Import NArith List Bool Lia ZifyN ZifyNat ZifyBool Arith.
Require Import LF.Model.PageDB LF.Model.ReadOnly LF.Proofs.ChecksumProofs.
Import ListNotations.
Local Open Scope N_scope.

(* a node that writes no WAL of its own: nothing committed in a wal file, no wal bookkeeping *)
Definition quiet (s : st) : Prop :=
  writeable s = false /\ wal_latest s = [] /\ wal_file s = [] /\ wal_chk s = [].

Lemma export_pages_ext s s' : (forall p, read_page s' p = read_page s p) ->
  forall n p, export_pages s' p n = export_pages s p n.
Proof. intros H n. induction n as [|n IH]; intros p; cbn [export_pages]; [reflexivity|]. rewrite H, IH. reflexivity. Qed.

Lemma view_ext s s' :
  (forall p, read_page s' p = read_page s p) -> pageN s' = pageN s -> txid s' = txid s -> chk s' = chk s ->
  ltxdir s' = ltxdir s -> wal_mode s' = wal_mode s -> view s' = view s.
Proof.
  intros Hr Hp Ht Hc Hl Hw. unfold view, op_export. cbn [fst snd]. rewrite Hp, Ht, Hc, Hl, Hw.
  rewrite (export_pages_ext s s' Hr). reflexivity.
Qed.
Lemma view_samebut s s' : SameBut s s' -> view s' = view s.
Proof.
  unfold SameBut. intros [_ [_ [Hf [Hp [Hw [_ [_ [Hl [_ [_ [Ht [Hc Hd]]]]]]]]]]]].
  apply view_ext; try assumption. intros p. unfold read_page, file_pg. rewrite Hl, Hf. reflexivity.
Qed.
Lemma quiet_samebut s s' : SameBut s s' -> quiet s -> quiet s'.
Proof.
  unfold SameBut, quiet. intros [Hw [_ [_ [_ [_ [_ [Hc [Hl [Hf _]]]]]]]]] [A [B [C D]]]. repeat split; congruence.
Qed.

(* clearing / resetting page checksums touches nothing the view reads *)
Lemma set_page_chk_fields s p v :
  let s' := set_page_chk s p v in
  writeable s' = writeable s /\ dbfile s' = dbfile s /\ pageN s' = pageN s /\ wal_mode s' = wal_mode s /\
  wal_chk s' = wal_chk s /\ wal_latest s' = wal_latest s /\ wal_file s' = wal_file s /\ txid s' = txid s /\
  chk s' = chk s /\ ltxdir s' = ltxdir s.
Proof. unfold set_page_chk. cbn. repeat split; reflexivity. Qed.
Lemma clear_from_fields fuel : forall s i,
  let s' := clear_from s fuel i in
  writeable s' = writeable s /\ dbfile s' = dbfile s /\ pageN s' = pageN s /\ wal_mode s' = wal_mode s /\
  wal_chk s' = wal_chk s /\ wal_latest s' = wal_latest s /\ wal_file s' = wal_file s /\ txid s' = txid s /\
  chk s' = chk s /\ ltxdir s' = ltxdir s.
Proof.
  induction fuel as [|f IH]; intros s i; cbn [clear_from]; [repeat split; reflexivity|].
  destruct (i <? lenN (chk_pages s)); [|repeat split; reflexivity].
  specialize (IH (set_page_chk s (i + 1) 0) (i + 1)). cbn zeta in IH.
  destruct (set_page_chk_fields s (i + 1) 0) as [A1 [A2 [A3 [A4 [A5 [A6 [A7 [A8 [A9 A10]]]]]]]]].
  destruct IH as [B1 [B2 [B3 [B4 [B5 [B6 [B7 [B8 [B9 B10]]]]]]]]].
  repeat split; congruence.
Qed.

Lemma nth_error_firstn {A} (l : list A) n i : (i < n)%nat -> nth_error (firstn n l) i = nth_error l i.
Proof.
  revert n i. induction l as [|x l IH]; intros n i H; [destruct n, i; reflexivity|].
  destruct n; [lia|]. destruct i; cbn; [reflexivity|]. apply IH. lia.
Qed.

(* one application-level operation on a quiet node *)
Lemma readonly_step s o : quiet s -> app_op o = true ->
  view (snd (step s o)) = view s /\ quiet (snd (step s o)) /\ (mutating o = true -> fst (step s o) <> Done).
Proof.
  intros Hq Ha. pose proof Hq as [Hw [Hl [Hf Hc]]].
  destruct o as [p q|n|c| | | |fr c| | | |b|f|pages commit ok|ages backup hwm|c2|pj qj|pz qz]; cbn [app_op] in Ha; try discriminate; cbn [step mutating].
  - (* OWrite *) unfold op_write_page. rewrite Hw. cbn. repeat split; try assumption. intros _; discriminate.
  - (* OTruncate *) unfold op_truncate. destruct (N.eqb_spec n (pageN s)) as [E|E]; cbn [negb fst snd].
    2:{ repeat split; try assumption. intros H; discriminate H. }
    subst n. unfold truncate_db, reset_after.
    set (s1 := with_file s (firstn (N.to_nat (pageN s)) (dbfile s))).
    destruct (clear_from_fields (length (chk_pages s1)) s1 (pageN s)) as [B1 [B2 [B3 [B4 [B5 [B6 [B7 [B8 [B9 B10]]]]]]]]].
    split; [|split; [|intros H; discriminate H]].
    + unfold view, op_export. cbn [fst snd]. rewrite B3, B8, B9, B10, B4. cbn [s1 with_file pageN txid chk ltxdir wal_mode].
      f_equal. f_equal. f_equal. f_equal.
      assert (forall n p, (N.to_nat p - 1 + n <= N.to_nat (pageN s))%nat -> 1 <= p ->
                export_pages (clear_from s1 (length (chk_pages s1)) (pageN s)) p n = export_pages s p n) as H.
      { induction n as [|n IH]; intros p Hb Hp; cbn [export_pages]; [reflexivity|]. f_equal; [|apply IH; lia].
        unfold read_page, file_pg. rewrite B6, B2. cbn [s1 with_file wal_latest dbfile]. rewrite Hl. cbn [alookup].
        apply nth_error_firstn. lia. }
      apply H; lia.
    + unfold quiet. rewrite B1, B6, B7, B5. cbn [s1 with_file writeable wal_latest wal_file wal_chk]. tauto.
  - (* OCommitJournal *) rewrite Hw. cbn [andb]. unfold op_commit_journal. rewrite Hw. cbn. repeat split; try assumption. intros _; discriminate.
  - (* OInvalidateJournal *) unfold op_invalidate_journal. cbn [fst snd]. split; [apply view_ext; try reflexivity; intros p; reflexivity|].
    split; [unfold quiet, with_dirty; cbn; tauto|intros H; discriminate H].
  - (* OWalHeader *) unfold op_wal_header, with_wal. cbn [fst snd]. split; [|split; [|intros H; discriminate H]].
    + apply view_ext; try reflexivity. intros p. unfold read_page, file_pg. cbn. rewrite Hl. reflexivity.
    + unfold quiet. cbn. tauto.
  - (* OWalTruncate *) unfold op_wal_reset, with_wal. cbn [fst snd]. split; [|split; [|intros H; discriminate H]].
    + apply view_ext; try reflexivity. intros p. unfold read_page, file_pg. cbn. rewrite Hl. reflexivity.
    + unfold quiet. cbn. tauto.
  - (* OCommitWal: the checksum runs, then the gate exits *) unfold op_commit_wal.
    destruct (truncated_pages _ _ _ _) as [new|]; [|cbn; repeat split; try assumption; intros _; discriminate].
    pose proof (checksum_same s c new) as Hs. destruct (checksum s c new) as [[post|] s1]; cbn [snd] in Hs.
    + assert (writeable s1 = false) as Hw1 by (destruct Hs as [E _]; congruence). rewrite Hw1. cbn [negb fst snd].
      split; [apply view_samebut; exact Hs|]. split; [eapply quiet_samebut; eassumption|intros _; discriminate].
    + cbn [fst snd]. split; [apply view_samebut; exact Hs|]. split; [eapply quiet_samebut; eassumption|intros _; discriminate].
  - (* OCheckpoint: nothing committed in the wal file *) unfold op_checkpoint. rewrite Hf. cbn [wal_committed fst snd].
    split; [|split; [|intros H; discriminate H]].
    + apply view_ext; try reflexivity. intros p. unfold read_page, file_pg. cbn. rewrite Hl. reflexivity.
    + unfold quiet. cbn. tauto.
  - (* ODrop *) unfold op_drop. rewrite Hw. cbn. repeat split; try assumption. intros _; discriminate.
  - (* OImport *) unfold op_import. rewrite Hw. cbn. repeat split; try assumption. intros _; discriminate.
  - (* OCommitJournalFail *) cbn [fst snd]. repeat split; try assumption. intros H; discriminate H.
  - (* OWriteJ *) unfold op_write_page_j. rewrite Hw. cbn. repeat split; try assumption. intros _; discriminate.
Qed.

(* any sequence of application-level operations *)
Theorem readonly_run ops : forall s, quiet s -> forallb app_op ops = true ->
  view (run_all s ops) = view s /\ quiet (run_all s ops).
Proof.
  induction ops as [|o r IH]; intros s Hq Ha; cbn [run_all]; [tauto|].
  cbn [forallb] in Ha. apply andb_true_iff in Ha. destruct Ha as [Ho Hr].
  destruct (readonly_step s o Hq Ho) as [Hv [Hq' _]]. destruct (IH _ Hq' Hr) as [Hv' Hq'']. split; [congruence|exact Hq''].
Qed.
(* ... and each mutating one among them is refused *)
Theorem readonly_refused ops : forall s, quiet s -> forallb app_op ops = true ->
  forall i o, nth_error ops i = Some o -> mutating o = true -> nth_error (outcomes s ops) i <> Some Done.
Proof.
  induction ops as [|o r IH]; intros s Hq Ha i o' Hn Hm; [destruct i; discriminate|].
  cbn [forallb] in Ha. apply andb_true_iff in Ha. destruct Ha as [Ho Hr].
  destruct (readonly_step s o Hq Ho) as [_ [Hq' Hd]]. destruct i as [|i]; cbn [nth_error outcomes] in *.
  - inversion Hn; subst. intros E. inversion E as [E']. exact (Hd Hm E').
  - eapply IH; eassumption.
Qed.

(* a commit step that begins after write authority is lost publishes nothing: whatever the state *)
Lemma late_commit_refused s o : writeable s = false ->
  match o with OCommitJournal _ | OCommitWal _ _ | ODrop | OImport _ _ _ => True | _ => False end ->
  fst (step s o) <> Done /\ txid (snd (step s o)) = txid s /\ chk (snd (step s o)) = chk s /\ ltxdir (snd (step s o)) = ltxdir s.
Proof.
  intros Hw. destruct o as [p q|n|c| | | |fr c| | | |b|f|pages commit ok|ages backup hwm|c2|pj qj|pz qz]; intros Hm; try contradiction; clear Hm; cbn [step].
  - unfold op_commit_journal. rewrite Hw. cbn. repeat split; discriminate || reflexivity.
  - unfold op_commit_wal. destruct (truncated_pages _ _ _ _) as [new|]; [|cbn; repeat split; discriminate || reflexivity].
    pose proof (checksum_same s c new) as Hs. destruct (checksum s c new) as [[post|] s1]; cbn [snd] in Hs;
      destruct Hs as [E [_ [_ [_ [_ [_ [_ [_ [_ [_ [Et [Ec Ed]]]]]]]]]]]].
    + rewrite E, Hw. cbn. repeat split; try discriminate; assumption.
    + cbn. repeat split; try discriminate; assumption.
  - unfold op_drop. rewrite Hw. cbn. repeat split; discriminate || reflexivity.
  - unfold op_import. rewrite Hw. cbn. repeat split; discriminate || reflexivity.
Qed.

(* ---- handlers ---- *)
Lemma writes_get_eacces h pr ss hw : In h [HWriteDB; HWriteJournal; HWriteWAL] -> answer_of h false pr ss hw = AAccess.
Proof. cbn. intros [<-|[<-|[<-|[]]]]; reflexivity. Qed.
Lemma nothing_that_changes_succeeds h ss hw : changes_database h = true -> answer_of h false false ss hw <> AOk.
Proof. destruct h, hw; cbn; try discriminate; intros _; discriminate. Qed.
