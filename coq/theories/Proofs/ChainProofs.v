(* C09: the transaction log is one contiguous chain ending at the current position. *)
From Coq Require Import NArith List Lia ZifyN ZifyNat ZifyBool Bool Arith.
Require Import LF.Gen.ConstsGen LF.Model.PageDB LF.Proofs.XorLib LF.Proofs.ChecksumProofs LF.Proofs.CaptureProofs.
Import ListNotations.
Local Open Scope N_scope.

Lemma linked_cons f r : linked (f :: r) <->
  match r with g :: _ => l_min g = l_max f + 1 /\ l_pre g = l_post f /\ linked r | [] => True end.
Proof. destruct r; cbn; tauto. Qed.

Lemma linked_app_one : forall d f, linked d ->
  match rev d with g :: _ => l_min f = l_max g + 1 /\ l_pre f = l_post g | [] => True end ->
  linked (d ++ [f]).
Proof.
  induction d as [|a d IH]; intros f Hl Hlast; [exact I|].
  cbn [app]. apply linked_cons. apply linked_cons in Hl. destruct d as [|b d].
  - cbn [app]. cbn [rev app] in Hlast. destruct Hlast as [A B]. repeat split; assumption || exact I.
  - cbn [app]. destruct Hl as [A [Bq C]]. split; [assumption|]. split; [assumption|].
    apply (IH f C). cbn [rev] in Hlast |- *. destruct (rev d ++ [b]) as [|g l] eqn:E.
    + destruct (rev d); discriminate.
    + cbn [app] in Hlast. exact Hlast.
Qed.

Lemma ends_at_app d f : ends_at (d ++ [f]) (l_max f) (l_post f).
Proof. unfold ends_at. rewrite rev_app_distr. cbn. auto. Qed.

(* appending the file of a new local transaction *)
Lemma chain_append s s' f :
  Chain s -> ltxdir s' = ltxdir s ++ [f] -> l_min f = txid s + 1 -> l_pre f = chk s ->
  txid s' = l_max f -> chk s' = l_post f -> Chain s'.
Proof.
  intros [Hl He] Ed Em Ep Et Ec. unfold Chain. rewrite Ed, Et, Ec. split; [|apply ends_at_app].
  apply linked_app_one; [assumption|]. unfold ends_at in He. destruct (rev (ltxdir s)) as [|g l]; [exact I|].
  destruct He as [A B]. split; congruence.
Qed.

Theorem chain_commit_journal s commit s' : Chain s -> op_commit_journal s commit = (Done, s') -> Chain s'.
Proof.
  intros HC H. destruct (commit_journal_file s commit s' H) as [f [E1 [E2 [E3 [E4 [E5 _]]]]]].
  assert (txid s' = txid s + 1) as Et.
  { clear -H. unfold op_commit_journal in H. destruct (writeable s); cbn [negb] in H; [|discriminate].
    destruct (journal_pages _ _ _) as [[pages|] sj]; [|discriminate]. destruct (checksum _ _ _) as [[post|] s2]; [|discriminate].
    inversion H; subst. reflexivity. }
  eapply chain_append; eauto; congruence.
Qed.

Theorem chain_commit_wal s frames commit s' : Chain s -> op_commit_wal s frames commit = (Done, s') -> Chain s'.
Proof.
  intros HC H. destruct (commit_wal_file s frames commit s' H) as [f [E1 [E2 [E3 [E4 [E5 [E6 [E7 [E8 _]]]]]]]]].
  eapply chain_append; eauto; congruence.
Qed.

Theorem chain_drop s s' : Chain s -> op_drop s = (Done, s') -> Chain s'.
Proof.
  intros HC H. unfold op_drop in H. destruct (writeable s); cbn [negb] in H; [|discriminate]. inversion H; subst s'.
  eapply chain_append with (f := mkLtx (txid s + 1) (txid s + 1) (chk s) flag 0 []); eauto.
Qed.

(* ---- apply ---- *)
Lemma ltxdir_fold_write pages : forall s, ltxdir (fold_left (fun a kv => write_db_page a (fst kv) (snd kv)) pages s) = ltxdir s.
Proof. induction pages as [|kv r IH]; intros s; cbn [fold_left]; [reflexivity|]. rewrite IH. reflexivity. Qed.
Lemma ltxdir_clear_from : forall m s i, ltxdir (clear_from s m i) = ltxdir s.
Proof.
  induction m as [|m IH]; intros s i; cbn [clear_from]; [reflexivity|].
  destruct (i <? lenN (chk_pages s)); [|reflexivity]. rewrite IH. reflexivity.
Qed.
Lemma ltxdir_truncate_db s n : ltxdir (truncate_db s n) = ltxdir s.
Proof. unfold truncate_db, reset_after. rewrite ltxdir_clear_from. reflexivity. Qed.

Lemma apply_done s f fatal s' :
  op_apply s f fatal = (Done, s') ->
  txid s' = l_max f /\ chk s' = l_post f /\ pageN s' = l_commit f /\ ltxdir s' = ltxdir s.
Proof.
  unfold op_apply. intros H.
  set (s1 := fold_left (fun a kv => write_db_page a (fst kv) (snd kv)) (l_pages f) s) in *.
  assert (ltxdir s1 = ltxdir s) as E1 by (unfold s1; apply ltxdir_fold_write).
  destruct (l_commit f =? 0) eqn:Ec.
  - match type of H with context [checksum ?x ?c []] => pose proof (checksum_same x c []) as HS; destruct (checksum x c []) as [[c0|] s4] end;
      [|destruct fatal; discriminate].
    cbn [snd] in HS. destruct (c0 =? l_post f); [|destruct fatal; discriminate]. inversion H; subst s'. cbn.
    destruct HS as [_ [_ [_ [_ [_ [_ [_ [_ [_ [_ [_ [_ Ed]]]]]]]]]]]]. cbn [ltxdir with_pos with_wal with_file] in Ed. repeat split; congruence.
  - match type of H with context [checksum ?x ?c []] => pose proof (checksum_same x c []) as HS; destruct (checksum x c []) as [[c0|] s4] end;
      [|destruct fatal; discriminate].
    cbn [snd] in HS. destruct (c0 =? l_post f); [|destruct fatal; discriminate]. inversion H; subst s'. cbn.
    destruct HS as [_ [_ [_ [_ [_ [_ [_ [_ [_ [_ [_ [_ Ed]]]]]]]]]]]]. cbn [ltxdir with_pos] in Ed.
    rewrite ltxdir_truncate_db in Ed. repeat split; congruence.
Qed.

(* a file received on the stream *)
Theorem chain_receive s f s' : Chain s -> op_receive s f = (Done, s') -> Chain s'.
Proof.
  intros [Hl He] H. unfold op_receive in H.
  destruct (negb (is_snapshot f) && negb (extends_pos s f)) eqn:Hc; [discriminate|].
  apply apply_done in H. destruct H as [Et [Ec [_ Ed]]]. cbn [ltxdir with_dir] in Ed.
  unfold Chain. rewrite Ed, Et, Ec. destruct (is_snapshot f) eqn:Es.
  - split; [exact I|]. unfold ends_at. cbn. auto.
  - cbn [negb andb] in Hc. apply negb_false_iff in Hc. unfold extends_pos in Hc. apply andb_true_iff in Hc.
    destruct Hc as [A B]. apply N.eqb_eq in A. apply N.eqb_eq in B.
    split; [|apply ends_at_app]. apply linked_app_one; [assumption|].
    unfold ends_at in He. destruct (rev (ltxdir s)) as [|g l]; [exact I|]. destruct He as [C D]. split; congruence.
Qed.

(* a received snapshot replaces the whole chain *)
Theorem snapshot_replaces_chain s f s' :
  is_snapshot f = true -> op_receive s f = (Done, s') -> ltxdir s' = [f].
Proof.
  intros Hs H. unfold op_receive in H. rewrite Hs in H. cbn [negb andb] in H.
  apply apply_done in H. destruct H as [_ [_ [_ Ed]]]. exact Ed.
Qed.

(* a file that does not extend the exact position is refused without any change *)
Theorem receive_rejects s f :
  is_snapshot f = false -> extends_pos s f = false -> op_receive s f = (Failed, s).
Proof. intros H1 H2. unfold op_receive. rewrite H1, H2. reflexivity. Qed.
Theorem forward_rejects s f ok :
  extends_pos s f = false -> op_forward s f ok = (Failed, s).
Proof. intros H2. unfold op_forward. rewrite H2. reflexivity. Qed.
Theorem forward_rejects_corrupt s f : op_forward s f false = (Failed, s).
Proof. unfold op_forward. destruct (negb (extends_pos s f)); reflexivity. Qed.
(* a whole-database file is only taken by a database that is still at position 0 *)
Theorem forward_whole_db_only_at_zero s f ok s' :
  is_snapshot f = true -> op_forward s f ok = (Done, s') -> txid s = 0 /\ l_pre f = chk s.
Proof.
  intros Hs H. unfold op_forward in H. destruct (extends_pos s f) eqn:E; cbn [negb] in H; [|discriminate].
  unfold extends_pos in E. apply andb_true_iff in E. destruct E as [E1 E2].
  unfold is_snapshot in Hs. apply N.eqb_eq in Hs, E1, E2. split; [lia|exact E2].
Qed.
Lemma forward_accepts_spec s f ok : forward_accepts (txid s) (chk s) (l_min f) (l_pre f) = 0 -> op_forward s f ok = (Failed, s).
Proof.
  unfold forward_accepts. intros H. apply forward_rejects. unfold extends_pos.
  destruct ((l_min f =? txid s + 1) && (l_pre f =? chk s)); [discriminate|reflexivity].
Qed.

(* ---- retention ---- *)
Definition removable (old : ltxrec -> bool) (backup : bool) (hwm : N) (f : ltxrec) : bool :=
  old f && (negb backup || (l_max f <? hwm)).

Lemma last_cons_ne {A} (x : A) l z : l <> [] -> last (x :: l) z = last l z.
Proof. destruct l; [congruence|reflexivity]. Qed.

Lemma retention_last old backup hwm : forall d, d <> [] -> last (retention d old backup hwm) (mkLtx 0 0 0 0 0 []) = last d (mkLtx 0 0 0 0 0 []) /\ retention d old backup hwm <> [].
Proof.
  induction d as [|f r IH]; intros Hne; [congruence|]. cbn [retention]. destruct r as [|g r'].
  - split; [reflexivity|discriminate].
  - destruct (IH ltac:(discriminate)) as [A Bn]. fold (removable old backup hwm f). destruct (removable old backup hwm f).
    + split; [|assumption]. rewrite A. symmetry. apply last_cons_ne. discriminate.
    + split; [|discriminate]. rewrite (last_cons_ne f _ _ Bn), A. symmetry. apply last_cons_ne. discriminate.
Qed.

Lemma retention_keeps old backup hwm f : forall d, In f d -> removable old backup hwm f = false -> In f (retention d old backup hwm).
Proof.
  induction d as [|a r IH]; intros Hin Hk; [destruct Hin|]. cbn [retention]. destruct r as [|g r'].
  - exact Hin.
  - fold (removable old backup hwm a). destruct Hin as [->|Hin].
    + rewrite Hk. left; reflexivity.
    + destruct (removable old backup hwm a); [|right]; apply IH; assumption.
Qed.

(* never a file the backup service has not confirmed *)
Theorem retention_respects_hwm old hwm f d :
  In f d -> hwm <= l_max f -> In f (retention d old true hwm).
Proof.
  intros Hin Hh. apply retention_keeps; [assumption|]. unfold removable. cbn [negb orb].
  destruct (N.ltb_spec (l_max f) hwm); [lia|]. apply andb_false_r.
Qed.

Lemma retention_subset old backup hwm f : forall d, In f (retention d old backup hwm) -> In f d.
Proof.
  induction d as [|a r IH]; intros Hin; [destruct Hin|]. cbn [retention] in Hin. destruct r as [|g r'].
  - exact Hin.
  - fold (removable old backup hwm a) in Hin. destruct (removable old backup hwm a).
    + right. apply IH. assumption.
    + destruct Hin as [->|Hin]; [left; reflexivity|right; apply IH; assumption].
Qed.

(* when removability is downward closed along the directory order (modification times do not
   decrease with the TXID, the high-water mark is a TXID bound), a sweep removes a prefix *)
Definition prefix_closed (rem : ltxrec -> bool) (d : list ltxrec) : Prop :=
  forall d1 f d2, d = d1 ++ f :: d2 -> rem f = false -> forall g, In g d2 -> rem g = false.

Lemma retention_suffix old backup hwm : forall d,
  prefix_closed (removable old backup hwm) d -> exists k, retention d old backup hwm = skipn k d.
Proof.
  induction d as [|f r IH]; intros Hpc; [exists 0%nat; reflexivity|]. cbn [retention]. destruct r as [|g r'].
  - exists 0%nat. reflexivity.
  - fold (removable old backup hwm f). destruct (removable old backup hwm f) eqn:Er.
    + destruct IH as [k Hk].
      * intros d1 x d2 E Hx y Hy. apply (Hpc (f :: d1) x d2); [cbn; congruence|assumption|assumption].
      * exists (S k). exact Hk.
    + exists 0%nat. cbn [skipn]. f_equal.
      assert (forall d, (forall x, In x d -> removable old backup hwm x = false) -> retention d old backup hwm = d) as Hid.
      { induction d as [|a d' IHd]; intros Hall; [reflexivity|]. cbn [retention]. destruct d' as [|b d'']; [reflexivity|].
        fold (removable old backup hwm a). rewrite (Hall a) by (left; reflexivity). f_equal. apply IHd. intros x Hx. apply Hall. right; assumption. }
      apply Hid. intros x Hx. apply (Hpc [] f (g :: r')); [reflexivity|assumption|assumption].
Qed.

Lemma linked_skipn : forall k d, linked d -> linked (skipn k d).
Proof.
  induction k as [|k IH]; intros d Hl; [exact Hl|]. destruct d as [|f r]; [exact I|]. cbn [skipn]. apply IH.
  apply linked_cons in Hl. destruct r as [|g r]; [exact I|]. destruct Hl as [_ [_ Hl]]. exact Hl.
Qed.

Lemma last_rev {A} (d : list A) x : d <> [] -> rev d = last d x :: rev (removelast d).
Proof.
  intros Hne. rewrite (app_removelast_last x Hne) at 1. rewrite rev_app_distr. reflexivity.
Qed.

Theorem chain_retention s old backup hwm s' :
  Chain s -> prefix_closed (removable old backup hwm) (ltxdir s) ->
  op_retention s old backup hwm = (Done, s') -> Chain s'.
Proof.
  intros [Hl He] Hpc H. inversion H; subst s'. unfold Chain. cbn [ltxdir txid chk with_dir].
  destruct (retention_suffix old backup hwm (ltxdir s) Hpc) as [k Hk]. split.
  - rewrite Hk. apply linked_skipn. assumption.
  - destruct (ltxdir s) as [|f r] eqn:Ed; [exact He|].
    destruct (retention_last old backup hwm (f :: r) ltac:(discriminate)) as [A Bn].
    unfold ends_at in *. set (z := mkLtx 0 0 0 0 0 []) in *.
    rewrite (last_rev _ z Bn). rewrite (last_rev (f :: r) z ltac:(discriminate)) in He. rewrite A. exact He.
Qed.

Lemma last_indep {A} (l : list A) z z' : l <> [] -> last l z = last l z'.
Proof.
  induction l as [|x l IH]; intros H; [congruence|]. destruct l as [|y l]; [reflexivity|].
  cbn [last] in *. apply IH. discriminate.
Qed.

(* retention never removes the newest file *)
Theorem retention_keeps_newest old backup hwm d z :
  d <> [] -> last (retention d old backup hwm) z = last d z.
Proof.
  intros Hne. destruct (retention_last old backup hwm d Hne) as [A Bn].
  rewrite (last_indep _ z (mkLtx 0 0 0 0 0 []) Bn), (last_indep d z (mkLtx 0 0 0 0 0 []) Hne). exact A.
Qed.

(* restart: the position is re-derived from the newest file *)
Theorem chain_open s s' : linked (ltxdir s) -> op_open s = (Done, s') -> Chain s'.
Proof.
  intros Hl H. unfold op_open in H.
  destruct (match file_hdr s with Some (n, w) => (n, w) | None => (0, false) end) as [pN0 wal0].
  match type of H with context [op_checkpoint ?x] => destruct (op_checkpoint x) as [o1 s1] eqn:Eck end.
  assert (ltxdir s1 = ltxdir s) as Ed1.
  { unfold op_checkpoint in Eck. destruct (wal_committed _ _ _ _) as [pages lastc]. inversion Eck; subst. cbn [ltxdir with_wal].
    destruct pages as [|kv pages]; [reflexivity|]. cbn [ltxdir with_pos]. rewrite ltxdir_truncate_db, ltxdir_fold_write. reflexivity. }
  destruct (match file_hdr s1 with Some (n, w) => (n, w) | None => (0, false) end) as [pN1 wal1].
  cbn zeta in H. cbn [ltxdir] in H. rewrite Ed1 in H.
  destruct (rev (ltxdir s)) as [|f l] eqn:Er.
  - inversion H; subst s'. unfold Chain. cbn [ltxdir txid chk]. split; [assumption|]. unfold ends_at. rewrite Er. reflexivity.
  - apply apply_done in H. destruct H as [Et [Ec [_ Ed]]]. cbn [ltxdir] in Ed.
    unfold Chain. rewrite Ed, Et, Ec. split; [assumption|]. unfold ends_at. rewrite Er. auto.
Qed.

(* ---- every operation of the model keeps the chain ---- *)
Lemma pos_fold_write pages : forall s,
  let s' := fold_left (fun a kv => write_db_page a (fst kv) (snd kv)) pages s in
  txid s' = txid s /\ chk s' = chk s /\ ltxdir s' = ltxdir s.
Proof.
  induction pages as [|kv r IH]; intros s; cbn [fold_left]; [auto|].
  destruct (IH (write_db_page s (fst kv) (snd kv))) as [A [B C]]. rewrite A, B, C. auto.
Qed.
Lemma pos_clear_from : forall m s i,
  txid (clear_from s m i) = txid s /\ chk (clear_from s m i) = chk s /\ ltxdir (clear_from s m i) = ltxdir s.
Proof.
  induction m as [|m IH]; intros s i; cbn [clear_from]; [auto|].
  destruct (i <? lenN (chk_pages s)); [|auto]. destruct (IH (set_page_chk s (i + 1) 0) (i + 1)) as [A [B C]]. rewrite A, B, C. auto.
Qed.
Lemma pos_truncate_db s n : txid (truncate_db s n) = txid s /\ chk (truncate_db s n) = chk s /\ ltxdir (truncate_db s n) = ltxdir s.
Proof.
  unfold truncate_db, reset_after.
  destruct (pos_clear_from (length (chk_pages (with_file s (firstn (N.to_nat n) (dbfile s))))) (with_file s (firstn (N.to_nat n) (dbfile s))) n) as [A [Bq C]].
  rewrite A, Bq, C. auto.
Qed.

Lemma pos_checkpoint s o s' : op_checkpoint s = (o, s') -> txid s' = txid s /\ chk s' = chk s /\ ltxdir s' = ltxdir s.
Proof.
  unfold op_checkpoint. destruct (wal_committed _ _ _ _) as [pages lastc]. intros H; inversion H; subst. cbn [txid chk ltxdir with_wal].
  destruct pages as [|kv pages]; [auto|]. cbn [txid chk ltxdir with_pos].
  destruct (pos_truncate_db (fold_left (fun a kv0 => write_db_page a (fst kv0) (snd kv0)) (kv :: pages) s) lastc) as [A [B C]].
  destruct (pos_fold_write (kv :: pages) s) as [D [E F]]. cbn zeta in D, E, F. repeat split; congruence.
Qed.

Theorem chain_import s pages commit ok s' : Chain s -> op_import s pages commit ok = (Done, s') -> Chain s'.
Proof.
  intros [Hl He] H. unfold op_import in H. destruct (writeable s); cbn [negb] in H; [|discriminate].
  destruct ok; cbn [negb] in H; [|discriminate].
  apply apply_done in H. destruct H as [Et [Ec [_ Ed]]]. cbn [ltxdir with_dirty with_wal with_dir] in Ed.
  unfold Chain. rewrite Ed, Et, Ec. split; [|apply ends_at_app].
  apply linked_app_one; [assumption|]. unfold ends_at in He. cbn [l_min l_pre]. destruct (rev (ltxdir s)) as [|g l]; [exact I|].
  destruct He as [A B]. split; congruence.
Qed.

Definition ok_op (s : st) (o : op) : Prop :=
  match o with
  | ORetention ages backup hwm =>
      let tagged := combine (map l_max (ltxdir s)) ages in
      prefix_closed (removable (fun f => match alookup (l_max f) tagged with Some b => b | None => false end) backup hwm) (ltxdir s)
  | _ => True
  end.

Theorem chain_step s o s' : Chain s -> ok_op s o -> step s o = (Done, s') -> Chain s'.
Proof.
  intros HC Hok H. destruct o; cbn [step] in H.
  - (* OWrite *) unfold op_write_page in H. destruct (writeable s); cbn [negb] in H; [|discriminate].
    inversion H; subst s'. destruct HC as [A Bq]. split; destruct (wal_mode s); assumption.
  - (* OTruncate *) destruct (truncate_spec s n s' Done H) as [_ [_ [A [Bq C]]]]. destruct HC as [D E]. unfold Chain. rewrite A, Bq, C. auto.
  - destruct (writeable s && (pageN s =? 0) && match dbfile s with [] => true | _ => false end);
      [inversion H; subst; exact HC|eapply chain_commit_journal; eassumption].
  - inversion H; subst. exact HC.
  - inversion H; subst. exact HC.
  - inversion H; subst. exact HC.
  - eapply chain_commit_wal; eassumption.
  - destruct (pos_checkpoint s Done s' H) as [A [Bq C]]. destruct HC as [D E]. unfold Chain. rewrite A, Bq, C. auto.
  - apply chain_open with (s := s); [exact (proj1 HC)|assumption].
  - eapply chain_drop; eassumption.
  - inversion H; subst. exact HC.
  - eapply chain_receive; eassumption.
  - eapply chain_retention; [exact HC|exact Hok|exact H].
  - eapply chain_import; eassumption.
  - inversion H; subst. exact HC.
  - (* OWriteJ *) unfold op_write_page_j in H. destruct (writeable s); cbn [negb] in H; [|discriminate].
    inversion H; subst s'. destruct HC as [A Bq]. split; assumption.
  - (* OZeroFill *) unfold op_zero_fill in H. inversion H; subst s'. destruct HC as [A Bq]. split; assumption.
Qed.

Lemma chain_init lock : Chain (init lock).
Proof. unfold Chain, init. cbn. split; [exact I|reflexivity]. Qed.

(* all histories: as long as every operation completes and retention sweeps see monotone ages *)
Fixpoint run_ops (s : st) (ops : list op) : option st :=
  match ops with
  | [] => Some s
  | o :: r => match step s o with (Done, s') => run_ops s' r | _ => None end
  end.
Fixpoint all_ok (s : st) (ops : list op) : Prop :=
  match ops with
  | [] => True
  | o :: r => ok_op s o /\ match step s o with (Done, s') => all_ok s' r | _ => True end
  end.
Theorem chain_invariant lock ops s : all_ok (init lock) ops -> run_ops (init lock) ops = Some s -> Chain s.
Proof.
  generalize (chain_init lock). generalize (init lock). intros s0 HC. revert s0 HC.
  induction ops as [|o r IH]; intros s0 HC Hok H; cbn [run_ops all_ok] in *.
  - inversion H; subst. exact HC.
  - destruct Hok as [Ho Hr]. destruct (step s0 o) as [oc s1] eqn:Es. destruct oc; try discriminate.
    apply (IH s1); [eapply chain_step; eassumption|assumption|assumption].
Qed.

Theorem receive_checked_rejects_corrupt s f : op_receive_checked s f false = (Failed, s).
Proof. unfold op_receive_checked. destruct (negb (is_snapshot f) && negb (extends_pos s f)); reflexivity. Qed.
Theorem receive_checked_rejects_nonextending s f ok :
  is_snapshot f = false -> extends_pos s f = false -> op_receive_checked s f ok = (Failed, s).
Proof. intros H1 H2. unfold op_receive_checked. rewrite H1, H2. reflexivity. Qed.

