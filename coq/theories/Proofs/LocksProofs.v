(* C11 proofs over the lock table: internal write lock excludes, CKPT gating, parse ranges. *)
From Coq Require Import NArith ZArith List Lia Bool Arith.
Require Import LF.Gen.LockScriptsGen.
Require Import LF.Base.RWBase LF.Gen.RWMutexGen LF.Gen.ConstsGen LF.Model.RWMutex LF.Proofs.RWMutexProofs LF.Model.Locks.
Import ListNotations.

Definition lk_eq_dec : forall a b : lk, {a = b} + {a <> b}.
Proof. decide equality. Defined.

Definition TInv (t : table) : Prop := forall l, Inv (t l).

Lemma tinit_inv : TInv tinit.
Proof. intros l. apply inv_init. Qed.

Lemma lk_eqb_eq a b : lk_eqb a b = true <-> a = b.
Proof. destruct a, b; cbn; split; congruence. Qed.
Lemma lk_eqb_refl a : lk_eqb a a = true.
Proof. apply lk_eqb_eq. reflexivity. Qed.
Lemma tset_same t l w : tset t l w l = w.
Proof. unfold tset. rewrite lk_eqb_refl. reflexivity. Qed.
Lemma tset_other t l w l' : l' <> l -> tset t l w l' = t l'.
Proof. unfold tset. intros H. destruct (lk_eqb l' l) eqn:E; [apply lk_eqb_eq in E; congruence|reflexivity]. Qed.
Lemma tset_inv t l w : TInv t -> Inv w -> TInv (tset t l w).
Proof. intros HT HW l'. unfold tset. destruct (lk_eqb l' l); [assumption|apply HT]. Qed.

(* under the invariant an exclusive holder is alone *)
Lemma excl_alone w g : Inv w -> gst w g = Exclusive -> forall h, h <> g -> gst w h = Unlocked.
Proof.
  intros HI Hg h Hh. apply gstate_cases.
  - apply (inv_excl_noshared w HI g Hg).
  - intros Hx. apply Hh. apply (inv_excl_unique w HI h g Hx Hg).
Qed.

(* primitive steps: result, invariant, effect on the acting guard and on everybody else *)
Lemma trylock_facts t l g : TInv t ->
  exists b t', t_trylock t l g = Some (b, t') /\ TInv t' /\
    (forall l', l' <> l -> t' l' = t l') /\ (forall h, h <> g -> gst (t' l) h = gst (t l) h) /\
    (b = true -> gst (t' l) g = Exclusive /\ others_unlocked (gst (t l)) g) /\
    (b = false -> gst (t' l) g = gst (t l) g /\ ~ others_unlocked (gst (t l)) g).
Proof.
  intros HT. unfold t_trylock. destruct (tryLock_ok (t l) g (HT l)) as [b [w' [E [S I]]]]. rewrite E.
  exists b, (tset t l w'). split; [reflexivity|]. split; [apply tset_inv; assumption|].
  split; [intros l' Hl; apply tset_other; assumption|]. rewrite tset_same. cbn in S.
  destruct S as [[Hr [Ho Hs]]|[Hr [Ho Hs]]]; inversion Hr; subst b.
  - split; [intros h Hh; rewrite Hs; apply upd_other; assumption|].
    split; [intros _; split; [rewrite Hs; apply upd_same|assumption]|discriminate].
  - split; [intros h Hh; apply Hs|]. split; [discriminate|intros _; split; [apply Hs|assumption]].
Qed.

Lemma tryrlock_facts t l g : TInv t ->
  exists b t', t_tryrlock t l g = Some (b, t') /\ TInv t' /\
    (forall l', l' <> l -> t' l' = t l') /\ (forall h, h <> g -> gst (t' l) h = gst (t l) h) /\
    (b = true -> gst (t' l) g = Shared /\ others_not_excl (gst (t l)) g) /\
    (b = false -> gst (t' l) g = gst (t l) g /\ ~ others_not_excl (gst (t l)) g).
Proof.
  intros HT. unfold t_tryrlock. destruct (tryRLock_ok (t l) g (HT l)) as [b [w' [E [S I]]]]. rewrite E.
  exists b, (tset t l w'). split; [reflexivity|]. split; [apply tset_inv; assumption|].
  split; [intros l' Hl; apply tset_other; assumption|]. rewrite tset_same. cbn in S.
  destruct S as [[Hr [Ho Hs]]|[Hr [Ho Hs]]]; inversion Hr; subst b.
  - split; [intros h Hh; rewrite Hs; apply upd_other; assumption|].
    split; [intros _; split; [rewrite Hs; apply upd_same|assumption]|discriminate].
  - split; [intros h Hh; apply Hs|]. split; [discriminate|intros _; split; [apply Hs|assumption]].
Qed.

Lemma unlock_facts t l g : TInv t ->
  exists t', t_unlock t l g = Some t' /\ TInv t' /\
    (forall l', l' <> l -> t' l' = t l') /\ (forall h, h <> g -> gst (t' l) h = gst (t l) h) /\ gst (t' l) g = Unlocked.
Proof.
  intros HT. unfold t_unlock. destruct (unlock_ok (t l) g (HT l)) as [w' [E [S I]]]. rewrite E.
  exists (tset t l w'). split; [reflexivity|]. split; [apply tset_inv; assumption|].
  split; [intros l' Hl; apply tset_other; assumption|]. rewrite tset_same. cbn in S. destruct S as [_ Hs].
  split; [intros h Hh; rewrite Hs; apply upd_other; assumption|rewrite Hs; apply upd_same].
Qed.

(* ---- scripts ---- *)
Inductive akind := KR | KX | KU.
Definition act_lock (a : act) : lk := match a with AR l | AX l | AU l => l end.
Definition act_kind (a : act) : akind := match a with AR _ => KR | AX _ => KX | AU _ => KU end.
Fixpoint last_act (s : list act) (l : lk) : option akind :=
  match s with
  | [] => None
  | a :: r => match last_act r l with
              | Some k => Some k
              | None => if lk_eqb (act_lock a) l then Some (act_kind a) else None
              end
  end.
Definition kind_state (k : akind) : gstate := match k with KR => Shared | KX => Exclusive | KU => Unlocked end.

Lemma run_script_facts : forall s t g b t', TInv t -> run_script t g s = Some (b, t') ->
  TInv t' /\ (forall l h, h <> g -> gst (t' l) h = gst (t l) h) /\
  (b = true -> forall l, gst (t' l) g = match last_act s l with Some k => kind_state k | None => gst (t l) g end).
Proof.
  induction s as [|a r IH]; intros t g b t' HT H; cbn [run_script] in H.
  - inversion H; subst. split; [assumption|]. split; [reflexivity|]. intros _ l. reflexivity.
  - assert (Hgen : forall t1 (bb : bool), TInv t1 -> (forall l', l' <> act_lock a -> t1 l' = t l') ->
               (forall h, h <> g -> gst (t1 (act_lock a)) h = gst (t (act_lock a)) h) ->
               (bb = true -> gst (t1 (act_lock a)) g = kind_state (act_kind a)) ->
               (if bb then run_script t1 g r else Some (false, t1)) = Some (b, t') ->
               TInv t' /\ (forall l h, h <> g -> gst (t' l) h = gst (t l) h) /\
               (b = true -> forall l, gst (t' l) g = match last_act (a :: r) l with Some k => kind_state k | None => gst (t l) g end)).
    { intros t1 bb HT1 Hoth Hh Hg Hrun.
      assert (Hothers1 : forall l h, h <> g -> gst (t1 l) h = gst (t l) h).
      { intros l h Hne. destruct (lk_eqb l (act_lock a)) eqn:El; [apply lk_eqb_eq in El; subst l; apply Hh; assumption|].
        rewrite Hoth; [reflexivity|]. intros Eq. subst l. rewrite lk_eqb_refl in El. discriminate. }
      destruct bb.
      - destruct (IH t1 g b t' HT1 Hrun) as [A [Bq C]]. split; [assumption|]. split.
        + intros l h Hne. rewrite Bq by assumption. apply Hothers1. assumption.
        + intros Hb l. rewrite (C Hb l). cbn [last_act]. destruct (last_act r l) as [k|]; [reflexivity|].
          destruct (lk_eqb (act_lock a) l) eqn:El.
          * apply lk_eqb_eq in El. subst l. apply Hg. reflexivity.
          * rewrite Hoth; [reflexivity|]. intros Eq. subst l. rewrite lk_eqb_refl in El. discriminate.
      - inversion Hrun; subst. split; [assumption|]. split; [exact Hothers1|discriminate]. }
    destruct a as [l0|l0|l0]; cbn [act_lock act_kind kind_state] in Hgen.
    + destruct (tryrlock_facts t l0 g HT) as [bb [t1 [E [HT1 [Ho [Hh [Ht Hf]]]]]]]. rewrite E in H.
      apply (Hgen t1 bb HT1 Ho Hh); [intros Hb; apply (Ht Hb)|destruct bb; exact H].
    + destruct (trylock_facts t l0 g HT) as [bb [t1 [E [HT1 [Ho [Hh [Ht Hf]]]]]]]. rewrite E in H.
      apply (Hgen t1 bb HT1 Ho Hh); [intros Hb; apply (Ht Hb)|destruct bb; exact H].
    + destruct (unlock_facts t l0 g HT) as [t1 [E [HT1 [Ho [Hh Hu]]]]]. rewrite E in H.
      apply (Hgen t1 true HT1 Ho Hh); [intros _; exact Hu|exact H].
Qed.

Lemma unlock_all_facts : forall ls t g, TInv t ->
  exists t', unlock_all t g ls = Some t' /\ TInv t' /\ (forall l h, h <> g -> gst (t' l) h = gst (t l) h) /\
             (forall l, In l ls -> gst (t' l) g = Unlocked) /\ (forall l, ~ In l ls -> gst (t' l) g = gst (t l) g).
Proof.
  induction ls as [|l0 r IH]; intros t g HT; cbn [unlock_all].
  - exists t. split; [reflexivity|]. split; [assumption|]. split; [reflexivity|]. split; [intros l0 []|reflexivity].
  - destruct (unlock_facts t l0 g HT) as [t1 [E [HT1 [Ho [Hh Hu]]]]]. rewrite E.
    destruct (IH t1 g HT1) as [t2 [E2 [HT2 [Hoth [Hin Hnin]]]]]. exists t2. split; [assumption|]. split; [assumption|].
    assert (Hothers1 : forall l h, h <> g -> gst (t1 l) h = gst (t l) h).
    { intros l h Hne. destruct (lk_eqb l l0) eqn:El; [apply lk_eqb_eq in El; subst l; apply Hh; assumption|].
      rewrite Ho; [reflexivity|]. intros Eq. subst l. rewrite lk_eqb_refl in El. discriminate. }
    split; [intros l h Hne; rewrite Hoth by assumption; apply Hothers1; assumption|]. split.
    + intros l [->|Hl]; [|apply Hin; assumption].
      destruct (in_dec lk_eq_dec l r) as [Hi|Hi]; [apply Hin; assumption|].
      rewrite Hnin by assumption. exact Hu.
    + intros l Hn. cbn [In] in Hn. rewrite Hnin by tauto. rewrite Ho; [reflexivity|]. intros Eq; subst l; tauto.
Qed.

(* ---- the internal write lock ---- *)
Definition excl_held (t : table) (g : gid) (l : lk) : Prop :=
  gst (t l) g = Exclusive /\ forall h, h <> g -> gst (t l) h = Unlocked.

Theorem internal_write_excludes t g wal t' :
  TInv t -> (forall l, gst (t l) g = Unlocked) ->
  try_acquire_write t g wal = Some (true, t') ->
  TInv t' /\ (forall l h, h <> g -> gst (t' l) h = gst (t l) h) /\
  (wal = false -> excl_held t' g LReserved /\ excl_held t' g LPending /\ excl_held t' g LShared) /\
  (wal = true -> excl_held t' g LWrite /\ excl_held t' g LCkpt /\ excl_held t' g LRecover /\
                 excl_held t' g LRead0 /\ excl_held t' g LRead1 /\ excl_held t' g LRead2 /\ excl_held t' g LRead3 /\ excl_held t' g LRead4 /\
                 gst (t' LShared) g = Shared /\ gst (t' LDMS) g = Shared).
Proof.
  intros HT Hfresh H. unfold try_acquire_write in H.
  destruct (run_script t g (write_script wal)) as [[b t1]|] eqn:E; [|discriminate].
  destruct (run_script_facts _ _ _ _ _ HT E) as [HT1 [Hoth Hg]].
  destruct b.
  2:{ destruct (unlock_all t1 g all_locks); discriminate. }
  inversion H; subst t'. specialize (Hg eq_refl).
  split; [assumption|]. split; [assumption|].
  assert (Hx : forall l, gst (t1 l) g = Exclusive -> excl_held t1 g l).
  { intros l Hl. split; [assumption|]. apply excl_alone; [apply HT1|assumption]. }
  split; intros ->; repeat split; try (apply Hx; rewrite Hg; reflexivity); try (rewrite Hg; reflexivity);
    try (apply excl_alone; [apply HT1|rewrite Hg; reflexivity]).
Qed.

(* all-or-nothing: a failed attempt leaves the internal guard set fully released and nobody else touched *)
Theorem internal_write_all_or_nothing t g wal t' :
  TInv t -> try_acquire_write t g wal = Some (false, t') ->
  TInv t' /\ (forall l h, h <> g -> gst (t' l) h = gst (t l) h) /\ (forall l, gst (t' l) g = Unlocked).
Proof.
  intros HT H. unfold try_acquire_write in H.
  destruct (run_script t g (write_script wal)) as [[b t1]|] eqn:E; [|discriminate].
  destruct (run_script_facts _ _ _ _ _ HT E) as [HT1 [Hoth _]].
  destruct b; [discriminate|].
  destruct (unlock_all_facts all_locks t1 g HT1) as [t2 [E2 [HT2 [Hoth2 [Hin _]]]]]. rewrite E2 in H. inversion H; subst t'.
  split; [assumption|]. split.
  - intros l h Hne. rewrite Hoth2 by assumption. apply Hoth. assumption.
  - intros l. apply Hin. destruct l; cbn; tauto.
Qed.

(* never stuck: under the invariant no assert of the generated RWMutex model fires *)
Theorem internal_write_total t g wal : TInv t -> exists b t', try_acquire_write t g wal = Some (b, t').
Proof.
  intros HT. unfold try_acquire_write.
  assert (forall s t0, TInv t0 -> exists b t1, run_script t0 g s = Some (b, t1)) as Htot.
  { induction s as [|a r IH]; intros t0 HT0; cbn [run_script]; [eauto|].
    destruct a as [l|l|l].
    - destruct (tryrlock_facts t0 l g HT0) as [bb [t1 [E [HT1 _]]]]. rewrite E. destruct bb; [apply IH; assumption|eauto].
    - destruct (trylock_facts t0 l g HT0) as [bb [t1 [E [HT1 _]]]]. rewrite E. destruct bb; [apply IH; assumption|eauto].
    - destruct (unlock_facts t0 l g HT0) as [t1 [E [HT1 _]]]. rewrite E. apply IH; assumption. }
  destruct (Htot (write_script wal) t HT) as [b [t1 E]]. rewrite E.
  destruct b; [eauto|]. destruct (run_script_facts _ _ _ _ _ HT E) as [HT1 _].
  destruct (unlock_all_facts all_locks t1 g HT1) as [t2 [E2 _]]. rewrite E2. eauto.
Qed.

(* while a guard holds a lock exclusively, every attempt by another owner on that lock is refused,
   and no operation of another owner can change that guard *)
Theorem held_blocks_others t l g h :
  TInv t -> gst (t l) g = Exclusive -> h <> g ->
  (exists t', t_trylock t l h = Some (false, t') /\ forall l' k, gst (t' l') k = gst (t l') k) /\
  (exists t', t_tryrlock t l h = Some (false, t') /\ forall l' k, gst (t' l') k = gst (t l') k).
Proof.
  intros HT Hg Hne. split.
  - destruct (trylock_facts t l h HT) as [b [t' [E [_ [Ho [Hh [Ht Hf]]]]]]]. destruct b.
    + destruct (Ht eq_refl) as [_ Hou]. specialize (Hou g ltac:(congruence)). congruence.
    + exists t'. split; [assumption|]. intros l' k. destruct (lk_eq_dec l' l) as [->|Hl]; [|rewrite Ho by assumption; reflexivity].
      destruct (Nat.eq_dec k h) as [->|Hk]; [apply (Hf eq_refl)|apply Hh; assumption].
  - destruct (tryrlock_facts t l h HT) as [b [t' [E [_ [Ho [Hh [Ht Hf]]]]]]]. destruct b.
    + destruct (Ht eq_refl) as [_ Hou]. exfalso. apply (Hou g ltac:(congruence)). assumption.
    + exists t'. split; [assumption|]. intros l' k. destruct (lk_eq_dec l' l) as [->|Hl]; [|rewrite Ho by assumption; reflexivity].
      destruct (Nat.eq_dec k h) as [->|Hk]; [apply (Hf eq_refl)|apply Hh; assumption].
Qed.

(* ---- requests over several locks: granted or refused as a whole ---- *)
Lemma gstate_eqb_eq a b : gstate_eqb a b = true <-> a = b.
Proof. destruct a, b; cbn; split; congruence. Qed.

Definition Restorable (t : table) (g : gid) (l : lk) (p : gstate) : Prop :=
  gst (t l) g = p \/ p = Unlocked \/ (p = Shared /\ gst (t l) g = Exclusive) \/
  (p = Exclusive /\ gst (t l) g = Shared /\ forall h, h <> g -> gst (t l) h = Unlocked).

Lemma restore_one_ok t g l p : TInv t -> Restorable t g l p ->
  exists t', restore_one t g l p = Some t' /\ TInv t' /\ (forall l', l' <> l -> t' l' = t l') /\
             (forall h, h <> g -> gst (t' l) h = gst (t l) h) /\ gst (t' l) g = p.
Proof.
  intros HT HR. unfold restore_one. destruct (gstate_eqb (gst (t l) g) p) eqn:Eq.
  - apply gstate_eqb_eq in Eq. exists t. split; [reflexivity|]. split; [assumption|]. split; [reflexivity|]. split; [reflexivity|assumption].
  - assert (gst (t l) g <> p) as Hne by (intros E; apply gstate_eqb_eq in E; congruence).
    destruct HR as [E|[->|[[-> Hx]|[-> [Hs Ho]]]]]; [contradiction| | |].
    + destruct (unlock_facts t l g HT) as [t' [E [HT' [Ho [Hh Hu]]]]]. rewrite E. exists t'. split; [reflexivity|]. split; [assumption|]. split; [assumption|]. split; assumption.
    + destruct (tryrlock_facts t l g HT) as [b [t' [E [HT' [Ho [Hh [Ht Hf]]]]]]]. rewrite E. exists t'.
      split; [reflexivity|]. split; [assumption|]. split; [assumption|]. split; [assumption|].
      destruct b; [apply Ht; reflexivity|].
      exfalso. destruct (Hf eq_refl) as [_ Hn]. apply Hn. intros h Hh'. rewrite (excl_alone (t l) g (HT l) Hx h Hh'). discriminate.
    + destruct (trylock_facts t l g HT) as [b [t' [E [HT' [Ho' [Hh [Ht Hf]]]]]]]. rewrite E. exists t'.
      split; [reflexivity|]. split; [assumption|]. split; [assumption|]. split; [assumption|].
      destruct b; [apply Ht; reflexivity|].
      exfalso. destruct (Hf eq_refl) as [_ Hn]. apply Hn. exact Ho.
Qed.

Lemma restore_guards_ok : forall done t g, TInv t -> NoDup (map fst done) ->
  (forall l p, In (l, p) done -> Restorable t g l p) ->
  exists t', restore_guards t g done = Some t' /\ TInv t' /\
    (forall l h, h <> g -> gst (t' l) h = gst (t l) h) /\
    (forall l p, In (l, p) done -> gst (t' l) g = p) /\
    (forall l, ~ In l (map fst done) -> t' l = t l).
Proof.
  induction done as [|[l p] r IH]; intros t g HT Hnd HR; cbn [restore_guards].
  - exists t. split; [reflexivity|]. split; [assumption|]. split; [reflexivity|]. split; [intros l p []|reflexivity].
  - cbn [map fst] in Hnd. inversion Hnd as [|? ? Hnotin Hnd']; subst.
    destruct (restore_one_ok t g l p HT (HR l p (or_introl eq_refl))) as [t1 [E [HT1 [Ho [Hh Hp]]]]]. rewrite E.
    assert (forall l' p', In (l', p') r -> Restorable t1 g l' p') as HR1.
    { intros l' p' Hin. assert (l' <> l) as Hne. { intros ->. apply Hnotin. apply in_map_iff. exists (l, p'). auto. }
      unfold Restorable. rewrite (Ho l' Hne). apply HR. right; assumption. }
    destruct (IH t1 g HT1 Hnd' HR1) as [t2 [E2 [HT2 [Hoth [Hin Hnin]]]]]. rewrite E2. exists t2.
    split; [reflexivity|]. split; [assumption|]. split; [|split].
    + intros l' h Hne. rewrite Hoth by assumption.
      destruct (lk_eq_dec l' l) as [->|Hl]; [apply Hh; assumption|rewrite Ho by assumption; reflexivity].
    + intros l' p' [Heq|Hin'].
      * injection Heq as <- <-. rewrite (Hnin l Hnotin). exact Hp.
      * apply Hin; assumption.
    + intros l' Hn. cbn [map fst In] in Hn. rewrite Hnin by tauto. apply Ho. intros ->. tauto.
Qed.

Lemma nodup_app_l {A} (a b : list A) : NoDup (a ++ b) -> NoDup a.
Proof. induction a as [|x a IH]; cbn; intros H; [constructor|]. inversion H; subst. constructor; [rewrite in_app_iff in *; tauto|auto]. Qed.
Lemma nodup_app_disj {A} (a b : list A) x : NoDup (a ++ b) -> In x a -> In x b -> False.
Proof.
  induction a as [|y a IH]; cbn; intros H Ha Hb; [destruct Ha|]. inversion H; subst.
  destruct Ha as [->|Ha]; [rewrite in_app_iff in *; tauto|eauto].
Qed.

(* refusal: the table goes back, for every owner and every lock, to the guard states of [t0] *)
Lemma refuse_facts t g done t0 r (acq : gstate) :
  TInv t -> NoDup (map fst done) ->
  (forall l p, In (l, p) done -> Restorable t g l p /\ p = gst (t0 l) g) ->
  (forall l, ~ In l (map fst done) -> gst (t l) g = gst (t0 l) g) ->
  (forall l h, h <> g -> gst (t l) h = gst (t0 l) h) ->
  refuse t g done = Some r ->
  fst r = false /\ TInv (snd r) /\ (forall l h, gst (snd r l) h = gst (t0 l) h).
Proof.
  intros HT Hnd H1 H2 H3 H. unfold refuse in H.
  destruct (restore_guards_ok done t g HT Hnd (fun l p Hin => proj1 (H1 l p Hin))) as [t' [E [HT' [Hoth [Hin Hnin]]]]].
  rewrite E in H. inversion H; subst r. cbn [fst snd]. split; [reflexivity|]. split; [assumption|].
  intros l h. destruct (Nat.eq_dec h g) as [->|Hne]; [|rewrite Hoth by assumption; apply H3; assumption].
  destruct (in_dec lk_eq_dec l (map fst done)) as [Hi|Hi].
  - apply in_map_iff in Hi. destruct Hi as [[l' p] [El Hi]]. cbn in El. subst l'.
    rewrite (Hin l p Hi). apply (proj2 (H1 l p Hi)).
  - rewrite (Hnin l Hi). apply H2. assumption.
Qed.

Lemma try_locks_from_facts : forall ls t g done t0 b t',
  TInv t -> NoDup (map fst done ++ ls) ->
  (forall l p, In (l, p) done -> gst (t l) g = Exclusive /\ p = gst (t0 l) g) ->
  (forall l, ~ In l (map fst done) -> gst (t l) g = gst (t0 l) g) ->
  (forall l h, h <> g -> gst (t l) h = gst (t0 l) h) ->
  try_locks_from t g ls done = Some (b, t') ->
  TInv t' /\ (forall l h, h <> g -> gst (t' l) h = gst (t0 l) h) /\
  (b = false -> forall l h, gst (t' l) h = gst (t0 l) h).
Proof.
  assert (Hres : forall t g done t0, (forall l p, In (l, p) done -> gst (t l) g = Exclusive /\ p = gst (t0 l) g) ->
             forall l p, In (l, p) done -> Restorable t g l p /\ p = gst (t0 l) g).
  { intros t g done t0 H l p Hin. destruct (H l p Hin) as [Hx Hp]. split; [|assumption]. unfold Restorable.
    destruct p; [right; left; reflexivity|right; right; left; auto|left; assumption]. }
  induction ls as [|l r IH]; intros t g done t0 b t' HT Hnd H1 H2 H3 H; cbn [try_locks_from] in H.
  - inversion H; subst. split; [assumption|]. split; [assumption|]. discriminate.
  - destruct (lk_eqb l LCkpt && negb (gstate_eqb (state (t LWrite)) Unlocked) && negb (gstate_eqb (gst (t LWrite) g) Exclusive)).
    + destruct (refuse_facts t g done t0 (b, t') Exclusive HT (nodup_app_l _ _ Hnd) (Hres _ _ _ _ H1) H2 H3 H) as [Hb [HT' Hall]].
      cbn [fst snd] in *. split; [assumption|]. split; [intros; apply Hall|intros _; exact Hall].
    + destruct (trylock_facts t l g HT) as [bb [t1 [E [HT1 [Ho [Hh [Ht Hf]]]]]]]. rewrite E in H.
      assert (Hl : ~ In l (map fst done)) by (intros Hi; apply (nodup_app_disj _ _ l Hnd Hi); left; reflexivity).
      assert (Hd : forall l' p, In (l', p) done -> l' <> l).
      { intros l' p Hin ->. apply Hl. apply in_map_iff. exists (l, p). auto. }
      assert (H3' : forall l' h, h <> g -> gst (t1 l') h = gst (t0 l') h).
      { intros l' h Hne. rewrite <- H3 by assumption. destruct (lk_eq_dec l' l) as [->|Hn]; [apply Hh; assumption|rewrite Ho by assumption; reflexivity]. }
      destruct bb.
      * apply (IH t1 g (done ++ [(l, gst (t l) g)]) t0 b t' HT1); try assumption.
        -- rewrite map_app. cbn [map fst]. rewrite <- app_assoc. exact Hnd.
        -- intros l' p Hin. apply in_app_iff in Hin. destruct Hin as [Hin|[Heq|[]]].
           ++ rewrite (Ho l' (Hd l' p Hin)). apply H1. assumption.
           ++ inversion Heq; subst. split; [apply Ht; reflexivity|apply H2; assumption].
        -- intros l' Hn. rewrite map_app, in_app_iff in Hn. cbn [map fst In] in Hn.
           assert (l' <> l) as Hne by (intros ->; tauto). rewrite (Ho l' Hne). apply H2. tauto.
      * assert (H1' : forall l' p, In (l', p) done -> gst (t1 l') g = Exclusive /\ p = gst (t0 l') g).
        { intros l' p Hin. rewrite (Ho l' (Hd l' p Hin)). apply H1. assumption. }
        assert (H2' : forall l', ~ In l' (map fst done) -> gst (t1 l') g = gst (t0 l') g).
        { intros l' Hn. destruct (lk_eq_dec l' l) as [->|Hne]; [rewrite (proj1 (Hf eq_refl)); apply H2; assumption|rewrite (Ho l' Hne); apply H2; assumption]. }
        destruct (refuse_facts t1 g done t0 (b, t') Exclusive HT1 (nodup_app_l _ _ Hnd) (Hres _ _ _ _ H1') H2' H3' H) as [Hb [HT' Hall]].
        cbn [fst snd] in *. split; [assumption|]. split; [intros; apply Hall|intros _; exact Hall].
Qed.

Lemma try_locks_others : forall ls t g b t', TInv t -> NoDup ls -> try_locks t g ls = Some (b, t') ->
  TInv t' /\ forall l h, h <> g -> gst (t' l) h = gst (t l) h.
Proof.
  intros ls t g b t' HT Hnd H. unfold try_locks in H.
  destruct (try_locks_from_facts ls t g [] t b t' HT Hnd) as [A [B _]]; auto. intros l p [].
Qed.
(* a refused request changes nothing: every owner's state on every lock is what it was *)
Theorem try_locks_refused_changes_nothing : forall ls t g t', TInv t -> NoDup ls -> try_locks t g ls = Some (false, t') ->
  forall l h, gst (t' l) h = gst (t l) h.
Proof.
  intros ls t g t' HT Hnd H. unfold try_locks in H.
  destruct (try_locks_from_facts ls t g [] t false t' HT Hnd) as [_ [_ C]]; auto. intros l p [].
Qed.

Lemma try_rlocks_from_facts : forall ls t g done t0 b t',
  TInv t -> NoDup (map fst done ++ ls) ->
  (forall l p, In (l, p) done -> gst (t l) g = Shared /\ p = gst (t0 l) g /\ p <> Exclusive) ->
  (forall l, ~ In l (map fst done) -> gst (t l) g = gst (t0 l) g) ->
  (forall l h, h <> g -> gst (t l) h = gst (t0 l) h) ->
  try_rlocks_from t g ls done = Some (b, t') ->
  TInv t' /\ (forall l h, h <> g -> gst (t' l) h = gst (t0 l) h) /\
  (b = false -> forall l h, gst (t' l) h = gst (t0 l) h) /\
  (b = true -> forall l, gst (t' l) g = if gstate_eqb (gst (t0 l) g) Exclusive then Exclusive
                                      else if in_dec lk_eq_dec l (map fst done ++ ls) then Shared else gst (t0 l) g).
Proof.
  assert (Hres : forall t g done t0,
             (forall l p, In (l, p) done -> gst (t l) g = Shared /\ p = gst (t0 l) g /\ p <> Exclusive) ->
             forall l p, In (l, p) done -> Restorable t g l p /\ p = gst (t0 l) g).
  { intros t g done t0 H l p Hin. destruct (H l p Hin) as [Hs [Hp Hx]]. split; [|assumption]. unfold Restorable.
    destruct p; [right; left; reflexivity|left; assumption|congruence]. }
  induction ls as [|l r IH]; intros t g done t0 b t' HT Hnd H1 H2 H3 H; cbn [try_rlocks_from] in H.
  - inversion H; subst. split; [assumption|]. split; [assumption|]. split; [discriminate|]. intros _ l. rewrite app_nil_r.
    destruct (in_dec lk_eq_dec l (map fst done)) as [Hi|Hi].
    + apply in_map_iff in Hi. destruct Hi as [[l' p] [El Hi]]. cbn in El. subst l'. destruct (H1 l p Hi) as [Hs [Hp Hx]].
      rewrite <- Hp. destruct p; cbn [gstate_eqb]; congruence.
    + rewrite (H2 l Hi). destruct (gst (t0 l) g); reflexivity.
  - assert (Hl : ~ In l (map fst done)) by (intros Hi; apply (nodup_app_disj _ _ l Hnd Hi); left; reflexivity).
    destruct (gstate_eqb (gst (t l) g) Exclusive) eqn:Ex.
    + apply gstate_eqb_eq in Ex.
      destruct (IH t g done t0 b t' HT (NoDup_remove_1 _ _ _ Hnd) H1 H2 H3 H) as [A [B [C D]]].
      split; [assumption|]. split; [assumption|]. split; [assumption|]. intros Hb l'. rewrite (D Hb l').
      destruct (gstate_eqb (gst (t0 l') g) Exclusive) eqn:E0; [reflexivity|].
      destruct (in_dec lk_eq_dec l' (map fst done ++ r)) as [Hi|Hi], (in_dec lk_eq_dec l' (map fst done ++ l :: r)) as [Hj|Hj]; try reflexivity.
      * exfalso. apply Hj. apply in_app_iff in Hi. apply in_app_iff. destruct Hi; [left|right; right]; assumption.
      * apply in_app_iff in Hj. destruct Hj as [Hj|[->|Hj]]; [exfalso; apply Hi, in_app_iff; tauto| |exfalso; apply Hi, in_app_iff; tauto].
        rewrite <- (H2 l' Hl), Ex in E0. discriminate.
    + assert (Hnx : gst (t l) g <> Exclusive) by (intros E; apply gstate_eqb_eq in E; congruence).
      destruct (tryrlock_facts t l g HT) as [bb [t1 [E [HT1 [Ho [Hh [Ht Hf]]]]]]]. rewrite E in H.
      assert (Hd : forall l' p, In (l', p) done -> l' <> l).
      { intros l' p Hin ->. apply Hl. apply in_map_iff. exists (l, p). auto. }
      assert (H3' : forall l' h, h <> g -> gst (t1 l') h = gst (t0 l') h).
      { intros l' h Hne. rewrite <- H3 by assumption. destruct (lk_eq_dec l' l) as [->|Hn]; [apply Hh; assumption|rewrite Ho by assumption; reflexivity]. }
      destruct bb.
      * destruct (IH t1 g (done ++ [(l, gst (t l) g)]) t0 b t' HT1) as [A [B [C D]]]; try assumption.
        -- rewrite map_app. cbn [map fst]. rewrite <- app_assoc. exact Hnd.
        -- intros l' p Hin. apply in_app_iff in Hin. destruct Hin as [Hin|[Heq|[]]].
           ++ rewrite (Ho l' (Hd l' p Hin)). apply H1. assumption.
           ++ inversion Heq; subst. split; [apply Ht; reflexivity|]. split; [apply H2; assumption|assumption].
        -- intros l' Hn. rewrite map_app, in_app_iff in Hn. cbn [map fst In] in Hn.
           assert (l' <> l) as Hne by (intros ->; tauto). rewrite (Ho l' Hne). apply H2. tauto.
        -- split; [assumption|]. split; [assumption|]. split; [assumption|]. intros Hb l'. rewrite (D Hb l').
           destruct (gstate_eqb (gst (t0 l') g) Exclusive); [reflexivity|].
           rewrite map_app. cbn [map fst]. rewrite <- app_assoc. reflexivity.
      * assert (H1' : forall l' p, In (l', p) done -> gst (t1 l') g = Shared /\ p = gst (t0 l') g /\ p <> Exclusive).
        { intros l' p Hin. rewrite (Ho l' (Hd l' p Hin)). apply H1. assumption. }
        assert (H2' : forall l', ~ In l' (map fst done) -> gst (t1 l') g = gst (t0 l') g).
        { intros l' Hn. destruct (lk_eq_dec l' l) as [->|Hne]; [rewrite (proj1 (Hf eq_refl)); apply H2; assumption|rewrite (Ho l' Hne); apply H2; assumption]. }
        destruct (refuse_facts t1 g done t0 (b, t') Shared HT1 (nodup_app_l _ _ Hnd) (Hres _ _ _ _ H1') H2' H3' H) as [Hb [HT' Hall]].
        cbn [fst snd] in *. split; [assumption|]. split; [intros; apply Hall|]. split; [intros _; exact Hall|]. intros ->. discriminate.
Qed.
Lemma downgrade_all_facts : forall ls t g, TInv t -> (forall l, In l ls -> gst (t l) g = Exclusive) -> NoDup ls ->
  exists t', downgrade_all t g ls = Some t' /\ TInv t' /\ (forall l h, h <> g -> gst (t' l) h = gst (t l) h) /\
             (forall l, gst (t' l) g = if in_dec lk_eq_dec l ls then Shared else gst (t l) g).
Proof.
  induction ls as [|l r IH]; intros t g HT Hx Hnd; cbn [downgrade_all].
  - exists t. split; [reflexivity|]. split; [assumption|]. split; reflexivity.
  - inversion Hnd as [|? ? Hnotin Hnd']; subst.
    destruct (tryrlock_facts t l g HT) as [bb [t1 [E [HT1 [Ho [Hh [Ht Hf]]]]]]]. rewrite E.
    assert (bb = true) as ->.
    { destruct bb; [reflexivity|]. exfalso. destruct (Hf eq_refl) as [_ Hn]. apply Hn. intros h Hne.
      rewrite (excl_alone (t l) g (HT l) (Hx l (or_introl eq_refl)) h Hne). discriminate. }
    destruct (IH t1 g HT1) as [t2 [E2 [HT2 [Hoth Hg]]]]; [|assumption|].
    { intros l' Hin. assert (l' <> l) by (intros ->; contradiction). rewrite (Ho l') by assumption. apply Hx. right; assumption. }
    exists t2. split; [assumption|]. split; [assumption|]. split.
    + intros l' h Hne. rewrite Hoth by assumption. destruct (lk_eq_dec l' l) as [->|Hn]; [apply Hh; assumption|rewrite Ho by assumption; reflexivity].
    + intros l'. rewrite Hg. destruct (in_dec lk_eq_dec l' r) as [Hi|Hi], (in_dec lk_eq_dec l' (l :: r)) as [Hj|Hj]; try reflexivity.
      * exfalso. apply Hj. right; assumption.
      * destruct Hj as [<-|Hj]; [apply Ht; reflexivity|contradiction].
      * assert (l' <> l) by (intros ->; apply Hj; left; reflexivity). rewrite (Ho l') by assumption. reflexivity.
Qed.
Lemma try_rlocks_facts : forall ls t g b t', TInv t -> NoDup ls -> try_rlocks t g ls = Some (b, t') ->
  TInv t' /\ (forall l h, h <> g -> gst (t' l) h = gst (t l) h) /\
  (b = false -> forall l h, gst (t' l) h = gst (t l) h) /\
  (b = true -> forall l, gst (t' l) g = if in_dec lk_eq_dec l ls then Shared else gst (t l) g).
Proof.
  intros ls t g b t' HT Hnd H. unfold try_rlocks in H.
  destruct (try_rlocks_from t g ls []) as [[b1 t1]|] eqn:E1; [|discriminate].
  destruct (try_rlocks_from_facts ls t g [] t b1 t1 HT Hnd) as [A [B [C D]]]; auto. { intros l p []. }
  destruct b1.
  - specialize (D eq_refl). cbn [map app] in D.
    set (ex := filter (fun l => gstate_eqb (gst (t l) g) Exclusive) ls) in *.
    destruct (downgrade_all_facts ex t1 g A) as [t2 [E2 [HT2 [Hoth Hg]]]].
    { intros l Hin. apply filter_In in Hin. destruct Hin as [_ Hx]. rewrite (D l), Hx. reflexivity. }
    { apply NoDup_filter. assumption. }
    rewrite E2 in H. inversion H; subst b t'. split; [assumption|]. split; [intros l h Hne; rewrite Hoth by assumption; apply B; assumption|].
    split; [discriminate|]. intros _ l. rewrite Hg, (D l).
    destruct (in_dec lk_eq_dec l ex) as [Hi|Hi].
    + apply filter_In in Hi. destruct Hi as [Hi _]. destruct (in_dec lk_eq_dec l ls); [reflexivity|contradiction].
    + destruct (gstate_eqb (gst (t l) g) Exclusive) eqn:Ex; [|reflexivity].
      destruct (in_dec lk_eq_dec l ls) as [Hj|Hj]; [exfalso; apply Hi, filter_In; auto|apply gstate_eqb_eq in Ex; congruence].
  - inversion H; subst b t'. split; [assumption|]. split; [assumption|]. split; [assumption|discriminate].
Qed.
Lemma try_rlocks_others : forall ls t g b t', TInv t -> NoDup ls -> try_rlocks t g ls = Some (b, t') ->
  TInv t' /\ forall l h, h <> g -> gst (t' l) h = gst (t l) h.
Proof. intros ls t g b t' HT Hnd H. destruct (try_rlocks_facts ls t g b t' HT Hnd H) as [A [B _]]. auto. Qed.
Theorem try_rlocks_refused_changes_nothing : forall ls t g t', TInv t -> NoDup ls -> try_rlocks t g ls = Some (false, t') ->
  forall l h, gst (t' l) h = gst (t l) h.
Proof. intros ls t g t' HT Hnd H. destruct (try_rlocks_facts ls t g false t' HT Hnd H) as [_ [_ [C _]]]. auto. Qed.
(* a granted shared request leaves the requester with every lock of the range shared - also the ones it held
   exclusively (downgrade) - and nothing else of its own changed *)
Theorem try_rlocks_granted : forall ls t g t', TInv t -> NoDup ls -> try_rlocks t g ls = Some (true, t') ->
  forall l, gst (t' l) g = if in_dec lk_eq_dec l ls then Shared else gst (t l) g.
Proof. intros ls t g t' HT Hnd H. destruct (try_rlocks_facts ls t g true t' HT Hnd H) as [_ [_ [_ D]]]. auto. Qed.

(* ---- CKPT gating ---- *)
Lemma ckpt_gating_from : forall ls t g done t', TInv t -> try_locks_from t g ls done = Some (true, t') -> In LCkpt ls ->
  forall h, h <> g -> gst (t LWrite) h = Unlocked.
Proof.
  induction ls as [|l0 r IH]; intros t g done t' HT H Hin h Hne; [destruct Hin|]. cbn [try_locks_from] in H.
  destruct (lk_eqb l0 LCkpt && negb (gstate_eqb (state (t LWrite)) Unlocked) && negb (gstate_eqb (gst (t LWrite) g) Exclusive)) eqn:Hgate.
  { unfold refuse in H. destruct (restore_guards t g done); discriminate. }
  destruct (trylock_facts t l0 g HT) as [bb [t1 [E [HT1 [Ho [Hh _]]]]]]. rewrite E in H. destruct bb.
  2:{ unfold refuse in H. destruct (restore_guards t1 g done); discriminate. }
  destruct (lk_eq_dec l0 LCkpt) as [->|Hl0].
  - (* the gate was open: nobody holds WRITE, or g holds it exclusively *)
    cbn [lk_eqb andb] in Hgate. apply andb_false_iff in Hgate. destruct Hgate as [Hg|Hg]; apply negb_false_iff, gstate_eqb_eq in Hg.
    + pose proof (state_spec (t LWrite) (HT LWrite)) as Hs. rewrite Hg in Hs. cbn in Hs. apply Hs.
    + apply (excl_alone (t LWrite) g (HT LWrite) Hg). assumption.
  - destruct Hin as [E0|Hin]; [congruence|].
    rewrite <- (IH t1 g _ t' HT1 H Hin h Hne).
    destruct (lk_eq_dec LWrite l0) as [<-|Hw]; [symmetry; apply Hh; assumption|rewrite Ho by assumption; reflexivity].
Qed.
Theorem ckpt_gating : forall ls t g t', TInv t -> try_locks t g ls = Some (true, t') -> In LCkpt ls ->
  forall h, h <> g -> gst (t LWrite) h = Unlocked.
Proof. intros ls t g t' HT H. exact (ckpt_gating_from ls t g [] t' HT H). Qed.

(* WAL writes are refused unless some owner holds WRITE exclusively *)
Theorem wal_write_allowed_iff t : TInv t -> (wal_write_allowed t = true <-> exists g, gst (t LWrite) g = Exclusive).
Proof.
  intros HT. unfold wal_write_allowed. rewrite gstate_eqb_eq. pose proof (state_spec (t LWrite) (HT LWrite)) as Hs. split.
  - intros E. rewrite E in Hs. exact Hs.
  - intros [g Hg]. destruct (state (t LWrite)) eqn:Es; cbn in Hs; [rewrite Hs in Hg; discriminate| |reflexivity].
    destruct Hs as [_ Hn]. exfalso. apply (Hn g). assumption.
Qed.

(* ---- byte ranges ---- *)
Theorem parse_db_range_correct a b l :
  In l (parse_db_range a b) <-> (In l [LPending; LReserved; LShared] /\ (a <= lock_byte l /\ lock_byte l <= b)%N).
Proof. unfold parse_db_range. rewrite filter_In. unfold in_range. rewrite andb_true_iff, !N.leb_le. tauto. Qed.
Theorem parse_shm_range_correct a b l :
  In l (parse_shm_range a b) <-> (In l [LWrite; LCkpt; LRecover; LRead0; LRead1; LRead2; LRead3; LRead4; LDMS] /\ (a <= lock_byte l /\ lock_byte l <= b)%N).
Proof. unfold parse_shm_range. rewrite filter_In. unfold in_range. rewrite andb_true_iff, !N.leb_le. tauto. Qed.
Theorem halt_never_parsed : forall l, lock_byte l <> c_LockTypeHalt.
Proof. intros l. destruct l; vm_compute; discriminate. Qed.

Lemma internal_write_excludes_inv t g wal t' : TInv t -> try_acquire_write t g wal = Some (true, t') -> TInv t'.
Proof.
  intros HT H. unfold try_acquire_write in H.
  destruct (run_script t g (write_script wal)) as [[b t1]|] eqn:E; [|discriminate].
  destruct (run_script_facts _ _ _ _ _ HT E) as [HT1 _]. destruct b; [inversion H; subst; assumption|].
  destruct (unlock_all t1 g all_locks); discriminate.
Qed.

(* the invariant alone, for any list of locks (also one that names a lock twice) *)
Lemma restore_guards_inv : forall done t g t', TInv t -> restore_guards t g done = Some t' -> TInv t'.
Proof.
  induction done as [|[l p] r IH]; intros t g t' HT H; cbn [restore_guards] in H; [inversion H; subst; assumption|].
  destruct (restore_one t g l p) as [t1|] eqn:E; [|discriminate]. apply (IH t1 g t'); [|assumption].
  unfold restore_one in E. destruct (gstate_eqb (gst (t l) g) p); [inversion E; subst; assumption|]. destruct p.
  - destruct (unlock_facts t l g HT) as [t2 [E2 [HT2 _]]]. rewrite E2 in E. inversion E; subst. assumption.
  - destruct (tryrlock_facts t l g HT) as [b [t2 [E2 [HT2 _]]]]. rewrite E2 in E. inversion E; subst. assumption.
  - destruct (trylock_facts t l g HT) as [b [t2 [E2 [HT2 _]]]]. rewrite E2 in E. inversion E; subst. assumption.
Qed.
Lemma refuse_inv t g done b t' : TInv t -> refuse t g done = Some (b, t') -> TInv t'.
Proof. unfold refuse. intros HT H. destruct (restore_guards t g done) as [t1|] eqn:E; [|discriminate]. inversion H; subst. eapply restore_guards_inv; eassumption. Qed.
Lemma try_locks_from_inv : forall ls t g done b t', TInv t -> try_locks_from t g ls done = Some (b, t') -> TInv t'.
Proof.
  induction ls as [|l r IH]; intros t g done b t' HT H; cbn [try_locks_from] in H; [inversion H; subst; assumption|].
  destruct (lk_eqb l LCkpt && negb (gstate_eqb (state (t LWrite)) Unlocked) && negb (gstate_eqb (gst (t LWrite) g) Exclusive)).
  - eapply refuse_inv; eassumption.
  - destruct (trylock_facts t l g HT) as [bb [t1 [E [HT1 _]]]]. rewrite E in H. destruct bb; [eapply IH; eassumption|eapply refuse_inv; eassumption].
Qed.
Lemma try_rlocks_from_inv : forall ls t g done b t', TInv t -> try_rlocks_from t g ls done = Some (b, t') -> TInv t'.
Proof.
  induction ls as [|l r IH]; intros t g done b t' HT H; cbn [try_rlocks_from] in H; [inversion H; subst; assumption|].
  destruct (gstate_eqb (gst (t l) g) Exclusive); [eapply IH; eassumption|].
  destruct (tryrlock_facts t l g HT) as [bb [t1 [E [HT1 _]]]]. rewrite E in H. destruct bb; [eapply IH; eassumption|eapply refuse_inv; eassumption].
Qed.
Lemma downgrade_all_inv : forall ls t g t', TInv t -> downgrade_all t g ls = Some t' -> TInv t'.
Proof.
  induction ls as [|l r IH]; intros t g t' HT H; cbn [downgrade_all] in H; [inversion H; subst; assumption|].
  destruct (tryrlock_facts t l g HT) as [bb [t1 [E [HT1 _]]]]. rewrite E in H. eapply IH; eassumption.
Qed.
Lemma try_rlocks_inv : forall ls t g b t', TInv t -> try_rlocks t g ls = Some (b, t') -> TInv t'.
Proof.
  intros ls t g b t' HT H. unfold try_rlocks in H. destruct (try_rlocks_from t g ls []) as [[b1 t1]|] eqn:E1; [|discriminate].
  pose proof (try_rlocks_from_inv _ _ _ _ _ _ HT E1) as HT1. destruct b1; [|inversion H; subst; assumption].
  destruct (downgrade_all t1 g _) as [t2|] eqn:E2; [|discriminate]. inversion H; subst. eapply downgrade_all_inv; eassumption.
Qed.

(* every table reachable through the API keeps the per-lock invariant *)
Lemma lstep_inv t o c t' : TInv t -> lstep t o = Some (c, t') -> TInv t'.
Proof.
  intros HT H. destruct o; cbn [lstep] in H.
  - destruct (try_locks t g (map lk_of ls)) as [[b t1]|] eqn:E; [|discriminate]. inversion H; subst. apply (try_locks_from_inv _ _ _ _ _ _ HT E).
  - destruct (try_rlocks t g (map lk_of ls)) as [[b t1]|] eqn:E; [|discriminate]. inversion H; subst. apply (try_rlocks_inv _ _ _ _ _ HT E).
  - destruct (unlock_all_facts (map lk_of ls) t g HT) as [t2 [E2 [HT2 _]]]. rewrite E2 in H. inversion H; subst. assumption.
  - destruct (can_lock t g (map lk_of ls)) as [[b m]|]; inversion H; subst; assumption.
  - destruct (can_rlock t g (map lk_of ls)) as [b|]; inversion H; subst; assumption.
  - destruct (try_acquire_write t g wal) as [[b t1]|] eqn:E; [|discriminate]. inversion H; subst.
    destruct b; [apply (internal_write_excludes_inv t g wal t' HT E)|apply (internal_write_all_or_nothing t g wal t' HT E)].
  - destruct (unlock_all_facts all_locks t g HT) as [t2 [E2 [HT2 _]]]. rewrite E2 in H. inversion H; subst. assumption.
  - inversion H; subst. assumption.
  - destruct (unlock_all_facts db_locks t g HT) as [t2 [E2 [HT2 _]]]. rewrite E2 in H. inversion H; subst. assumption.
  - destruct (unlock_all_facts shm_locks t g HT) as [t2 [E2 [HT2 _]]]. rewrite E2 in H. inversion H; subst. assumption.
Qed.

(* flushing a database handle releases the owner's PENDING / RESERVED / SHARED and nothing else: its WAL locks
   (and everybody else's locks) stay as they are *)
Theorem unlock_database_keeps_shm t g t' : TInv t -> unlock_all t g db_locks = Some t' ->
  (forall l, In l shm_locks -> gst (t' l) g = gst (t l) g) /\ (forall l h, h <> g -> gst (t' l) h = gst (t l) h).
Proof.
  intros HT H. destruct (unlock_all_facts db_locks t g HT) as [t2 [E2 [HT2 [Hothers [_ Hnin]]]]]. rewrite E2 in H. inversion H; subst t2.
  split.
  - intros l Hl. apply Hnin. intros Hin. unfold shm_locks, db_locks in *. cbn in Hl, Hin.
    destruct Hl as [<-|[<-|[<-|[<-|[<-|[<-|[<-|[<-|[<-|[]]]]]]]]]]; destruct Hin as [E|[E|[E|[]]]]; discriminate E.
  - intros l h Hh. apply Hothers. exact Hh.
Qed.

(* Tie A: the script the theorems are about IS the order in which db.go TryAcquireWriteLock takes the locks
   (Gen/LockScriptsGen.v is regenerated from the source on every run) *)
Theorem write_script_is_generated : forall wal,
  write_script wal = acts_of (gen_write_common ++ (if wal then gen_write_wal else gen_write_rollback)).
Proof. intros [|]; reflexivity. Qed.

(* ---- requests over several locks while the other owners keep going ---- *)
Definition others_only (g : gid) (sched : list (list prim)) : Prop := forall ps p, In ps sched -> In p ps -> prim_owner p <> g.
Lemma others_only_tl g sched : others_only g sched -> others_only g (tl sched).
Proof. intros H ps p Hps Hp. destruct sched as [|x r]; [destruct Hps|]. apply (H ps p); [right; assumption|assumption]. Qed.
Lemma others_only_hd g sched p : others_only g sched -> In p (hd [] sched) -> prim_owner p <> g.
Proof. intros H Hp. destruct sched as [|x r]; [destruct Hp|]. apply (H x p); [left; reflexivity|assumption]. Qed.

(* what another owner does leaves one's own guards alone *)
Lemma prim_step_keeps t p g t' : TInv t -> prim_owner p <> g -> prim_step t p = Some t' ->
  TInv t' /\ forall l, gst (t' l) g = gst (t l) g.
Proof.
  intros HT Hne H. destruct p as [h l|h l|h l]; cbn [prim_owner prim_step] in *.
  - destruct (trylock_facts t l h HT) as [b [t1 [E [HT1 [Ho [Hh _]]]]]]. rewrite E in H. inversion H; subst t1.
    split; [assumption|]. intros l'. destruct (lk_eq_dec l' l) as [->|Hn]; [apply Hh; congruence|rewrite Ho by assumption; reflexivity].
  - destruct (tryrlock_facts t l h HT) as [b [t1 [E [HT1 [Ho [Hh _]]]]]]. rewrite E in H. inversion H; subst t1.
    split; [assumption|]. intros l'. destruct (lk_eq_dec l' l) as [->|Hn]; [apply Hh; congruence|rewrite Ho by assumption; reflexivity].
  - destruct (unlock_facts t l h HT) as [t1 [E [HT1 [Ho [Hh _]]]]]. rewrite E in H. inversion H; subst t1.
    split; [assumption|]. intros l'. destruct (lk_eq_dec l' l) as [->|Hn]; [apply Hh; congruence|rewrite Ho by assumption; reflexivity].
Qed.
Lemma run_prims_keeps : forall ps t g t', TInv t -> (forall p, In p ps -> prim_owner p <> g) -> run_prims t ps = Some t' ->
  TInv t' /\ forall l, gst (t' l) g = gst (t l) g.
Proof.
  induction ps as [|p r IH]; intros t g t' HT Ho H; cbn [run_prims] in H; [inversion H; subst; auto|].
  destruct (prim_step t p) as [t1|] eqn:E; [|discriminate].
  destruct (prim_step_keeps t p g t1 HT (Ho p (or_introl eq_refl)) E) as [HT1 K1].
  destruct (IH t1 g t' HT1 (fun q Hq => Ho q (or_intror Hq)) H) as [HT' K']. split; [assumption|]. intros l. rewrite K', K1. reflexivity.
Qed.

(* a rollback that only has to release (no lock of the list was held exclusively before) puts the requester's guards
   back whatever the others have done meanwhile and do in between *)
Lemma restore_il_facts : forall done t g sched t', TInv t -> NoDup (map fst done) -> others_only g sched ->
  (forall l p, In (l, p) done -> gst (t l) g = Shared /\ p <> Exclusive) ->
  restore_il t g done sched = Some t' ->
  TInv t' /\ (forall l p, In (l, p) done -> gst (t' l) g = p) /\ (forall l, ~ In l (map fst done) -> gst (t' l) g = gst (t l) g).
Proof.
  induction done as [|[l p] r IH]; intros t g sched t' HT Hnd Hs H1 H; cbn [restore_il] in H.
  - inversion H; subst. split; [assumption|]. split; [intros l p []|reflexivity].
  - cbn [map fst] in Hnd. inversion Hnd as [|? ? Hnotin Hnd']; subst.
    destruct (run_prims t (hd [] sched)) as [ta|] eqn:Ea; [|discriminate].
    destruct (run_prims_keeps _ t g ta HT (fun q Hq => others_only_hd g sched q Hs Hq) Ea) as [HTa Ka].
    destruct (restore_one ta g l p) as [t1|] eqn:E1; [|discriminate].
    destruct (H1 l p (or_introl eq_refl)) as [Hsh Hpx].
    assert (TInv t1 /\ gst (t1 l) g = p /\ forall l', l' <> l -> t1 l' = ta l') as [HT1 [Hp1 Ho1]].
    { unfold restore_one in E1. destruct (gstate_eqb (gst (ta l) g) p) eqn:Eq.
      - apply gstate_eqb_eq in Eq. inversion E1; subst t1. auto.
      - destruct p; [|exfalso; rewrite Ka, Hsh in Eq; discriminate|congruence].
        destruct (unlock_facts ta l g HTa) as [t2 [E2 [HT2 [Ho2 [_ Hu2]]]]]. rewrite E2 in E1. inversion E1; subst t2. auto. }
    destruct (IH t1 g (tl sched) t' HT1 Hnd' (others_only_tl g sched Hs)) as [HT' [Hin Hnin]]; [|assumption|].
    { intros l' p' Hin. assert (l' <> l) as Hne. { intros ->. apply Hnotin. apply in_map_iff. exists (l, p'). auto. }
      rewrite (Ho1 l' Hne), Ka. apply H1. right; assumption. }
    split; [assumption|]. split.
    + intros l' p' [Heq|Hin']; [injection Heq as <- <-; rewrite (Hnin l Hnotin); exact Hp1|apply Hin; assumption].
    + intros l' Hn. cbn [map fst In] in Hn. rewrite Hnin by tauto. rewrite Ho1 by (intros ->; tauto). apply Ka.
Qed.

Lemma try_rlocks_il_facts : forall ls t g sched done t0 t',
  TInv t -> NoDup (map fst done ++ ls) -> others_only g sched ->
  (forall l p, In (l, p) done -> gst (t l) g = Shared /\ p = gst (t0 l) g /\ p <> Exclusive) ->
  (forall l, ~ In l (map fst done) -> gst (t l) g = gst (t0 l) g) ->
  try_rlocks_il true t g ls sched done = Some (false, t') ->
  TInv t' /\ forall l, gst (t' l) g = gst (t0 l) g.
Proof.
  induction ls as [|l r IH]; intros t g sched done t0 t' HT Hnd Hs H1 H2 H; cbn [try_rlocks_il] in H; [discriminate|].
  destruct (run_prims t (hd [] sched)) as [ta|] eqn:Ea; [|discriminate].
  destruct (run_prims_keeps _ t g ta HT (fun q Hq => others_only_hd g sched q Hs Hq) Ea) as [HTa Ka].
  assert (H1a : forall l' p, In (l', p) done -> gst (ta l') g = Shared /\ p = gst (t0 l') g /\ p <> Exclusive) by (intros l' p Hin; rewrite Ka; apply H1; assumption).
  assert (H2a : forall l', ~ In l' (map fst done) -> gst (ta l') g = gst (t0 l') g) by (intros l' Hn; rewrite Ka; apply H2; assumption).
  assert (Hl : ~ In l (map fst done)) by (intros Hi; apply (nodup_app_disj _ _ l Hnd Hi); left; reflexivity).
  assert (Hd : forall l' p, In (l', p) done -> l' <> l).
  { intros l' p Hin ->. apply Hl. apply in_map_iff. exists (l, p). auto. }
  cbn [andb] in H. destruct (gstate_eqb (gst (ta l) g) Exclusive) eqn:Ex.
  - apply (IH ta g (tl sched) done t0 t' HTa (NoDup_remove_1 _ _ _ Hnd) (others_only_tl g sched Hs) H1a H2a H).
  - assert (Hnx : gst (ta l) g <> Exclusive) by (intros E; apply gstate_eqb_eq in E; congruence).
    destruct (tryrlock_facts ta l g HTa) as [bb [t1 [E [HT1 [Ho [Hh [Ht Hf]]]]]]]. rewrite E in H. destruct bb.
    + apply (IH t1 g (tl sched) (done ++ [(l, gst (ta l) g)]) t0 t' HT1); try assumption.
      * rewrite map_app. cbn [map fst]. rewrite <- app_assoc. exact Hnd.
      * apply others_only_tl. assumption.
      * intros l' p Hin. apply in_app_iff in Hin. destruct Hin as [Hin|[Heq|[]]].
        -- rewrite (Ho l' (Hd l' p Hin)). apply H1a. assumption.
        -- inversion Heq; subst. split; [apply Ht; reflexivity|]. split; [apply H2a; assumption|assumption].
      * intros l' Hn. rewrite map_app, in_app_iff in Hn. cbn [map fst In] in Hn.
        assert (l' <> l) as Hne by (intros ->; tauto). rewrite (Ho l' Hne). apply H2a. tauto.
    + destruct (restore_il t1 g done (tl sched)) as [t2|] eqn:E2; [|discriminate]. inversion H; subst t2.
      destruct (restore_il_facts done t1 g (tl sched) t' HT1 (nodup_app_l _ _ Hnd) (others_only_tl g sched Hs)) as [HT' [Hin Hnin]]; [|assumption|].
      { intros l' p Hi. rewrite (Ho l' (Hd l' p Hi)). destruct (H1a l' p Hi) as [A [_ C]]. auto. }
      split; [assumption|]. intros l'. destruct (in_dec lk_eq_dec l' (map fst done)) as [Hi|Hi].
      * apply in_map_iff in Hi. destruct Hi as [[l'' p] [El Hi]]. cbn in El. subst l''. rewrite (Hin l' p Hi). apply (H1a l' p Hi).
      * rewrite (Hnin l' Hi). destruct (lk_eq_dec l' l) as [->|Hne]; [rewrite (proj1 (Hf eq_refl)); apply H2a; assumption|rewrite (Ho l' Hne); apply H2a; assumption].
Qed.

(* C12, "a failed attempt changes nothing", for a shared request over a range under ANY interleaving with the other
   owners' operations: the requester holds afterwards exactly what it held before *)
Theorem shared_range_refused_keeps_own_locks : forall ls t g sched t',
  TInv t -> NoDup ls -> others_only g sched ->
  try_rlocks_il true t g ls sched [] = Some (false, t') ->
  TInv t' /\ forall l, gst (t' l) g = gst (t l) g.
Proof.
  intros ls t g sched t' HT Hnd Hs H. apply (try_rlocks_il_facts ls t g sched [] t t'); auto. intros l p [].
Qed.

