(* C01 without the no-collision premise, WAL mode: the follower's database file holds, page for page, the primary's logical
   database - the last committed version of a page in the primary's log, else what the primary's database file holds -
   through WAL commits and checkpoints of every kind. *)
From Coq Require Import NArith List Lia ZifyN ZifyNat ZifyBool Bool Arith Sorted.
Require Import LF.Gen.ConstsGen LF.Model.PageDB LF.Proofs.XorLib LF.Proofs.ChecksumProofs LF.Proofs.CaptureProofs
  LF.Proofs.ChainProofs LF.Proofs.ApplyProofs
  LF.Proofs.HistoryProofs LF.Proofs.WalHistoryProofs LF.Proofs.WalCheckpointProofs LF.Proofs.SqlCheckpointProofs
  LF.Proofs.ApplyHistoryProofs LF.Proofs.OpenProofs LF.Proofs.ComposeProofs LF.Proofs.FollowProofs.
Import ListNotations.
Local Open Scope N_scope.

(* the logical page of a node in WAL mode *)
Definition lpage (s : st) (p : N) : pg := match alookup p (wpages s) with Some q => q | None => fpg s p end.

Record SimW (sP sR : st) : Prop := {
  sw_lock : lockpg sR = lockpg sP; sw_pn : pageN sR = pageN sP; sw_tx : txid sR = txid sP; sw_chk : chk sR = chk sP;
  sw_pages : forall p, 1 <= p <= pageN sP -> p <> lockpg sP -> fpg sR p = lpage sP p
}.

Lemma tx_pages_lookup s frames commit p : alookup p (tx_pages s frames commit) =
  if negb (p =? lockpg s) && (p <=? commit) then last_frame p frames else None.
Proof.
  destruct (alookup p (tx_pages s frames commit)) as [q|] eqn:E.
  - apply alookup_in, tx_pages_in in E. destruct E as [A [B C]]. rewrite C.
    destruct (N.eqb_spec p (lockpg s)); [contradiction|]. destruct (N.leb_spec p commit); [reflexivity|lia].
  - destruct (negb (p =? lockpg s) && (p <=? commit)) eqn:Ec; [|reflexivity].
    apply andb_true_iff in Ec. destruct Ec as [A B]. apply negb_true_iff, N.eqb_neq in A. apply N.leb_le in B.
    destruct (last_frame p frames) as [q|] eqn:El; [|reflexivity].
    assert (In (p, q) (tx_pages s frames commit)) as Hin by (apply tx_pages_in; auto).
    apply (in_alookup_nodup p q _ (tx_pages_keys s frames commit)) in Hin. congruence.
Qed.

(* the primary's log after a commit *)
Lemma commit_wpages_lookup s v fr c s' : WL s v -> WK s v -> fr <> [] -> c <> 0 -> op_commit_wal s fr c = (Done, s') ->
  forall x, alookup x (wpages s') = match last_frame x fr with Some q => Some q | None => alookup x (wpages s) end.
Proof.
  intros HW HK Hne Hc0 H. destruct HW as [Ww Wm Wl Wc Wz Wv Wt Wk].
  destruct HK as [k_scan0 k_last0 k_hash0 k_keys0 k_truth0 k_empty0 k_pos0 k_nodup0 k_in0].
  destruct (commit_wal_gen s fr c s' Wc Wz Wt H) as [new [_ [_ [_ [_ [_ [_ [_ [_ [_ [_ [C10 _]]]]]]]]]]]].
  assert (Hscan : wscan s' = ([], merge_latest (last_versions fr []) (wpages s), c)).
  { unfold wscan at 1. rewrite C10. apply (wal_scan_tx fr c (wal_file s) (wpages s) (snd (wscan s))); [assumption|assumption|].
    unfold wpages, wscan in *. destruct (wal_scan (wal_file s) [] [] 0) as [[c0 a] l]. cbn [fst snd] in *. subst c0. reflexivity. }
  intros x. unfold wpages at 1. rewrite Hscan. cbn [fst snd].
  rewrite alookup_merge_latest by (apply last_versions_keys; constructor). rewrite alookup_last_versions_nil. reflexivity.
Qed.

(* a WAL commit on the primary, its file applied by the follower *)
Lemma followw_commit sP sR v fr c sP' sR' : WL sP v -> WK sP v -> SimW sP sR -> wf_wal2 sP fr c ->
  op_commit_wal sP fr c = (Done, sP') -> run_recv sR (new_files sP sP') = Some sR' -> SimW sP' sR'.
Proof.
  intros HW HK HS [[Hg Hp1] [Hne [Hc0 Hpos]]] H HR.
  pose proof (commit_wpages_lookup sP v fr c sP' HW HK Hne Hc0 H) as Hlook.
  destruct (w_step sP v fr c sP' HW (conj Hg Hp1) H) as [_ [El _]].
  destruct (commit_wal_file sP fr c sP' H) as [f [E1 [E2 [E3 [E4 [E5 [E6 [E7 [E8 [E9 E10]]]]]]]]]].
  unfold new_files in HR. rewrite E1, skipn_snoc in HR. cbn [run_recv] in HR.
  destruct (op_receive sR f) as [oc s1] eqn:Er.
  assert (s1 = sR' /\ (oc = Done \/ oc = Failed)) as [-> Hoc] by (destruct oc; try discriminate; inversion HR; auto).
  destruct HS as [A B C D E].
  assert (Hext : extends_pos sR f = true) by (unfold extends_pos; rewrite E2, E4, C, D, !N.eqb_refl; reflexivity).
  unfold op_receive in Er. rewrite Hext, andb_false_r in Er.
  assert (oc = Done) as ->.
  { destruct Hoc as [->| ->]; [reflexivity|]. exfalso. unfold op_apply in Er.
    repeat match type of Er with
    | context [let '(_, _) := ?x in _] => destruct x
    | context [match ?x with (_, _) => _ end] => destruct x
    | context [match ?x with Some _ => _ | None => _ end] => destruct x
    | context [if ?x then _ else _] => destruct x
    end; inversion Er. }
  destruct (apply_done _ f true sR' Er) as [At [Ac [Ap _]]].
  pose proof (apply_lockpg _ f true sR' Er) as Al. cbn [lockpg with_dir] in Al.
  assert (Hwfl : wf_ltx f).
  { split; rewrite E7.
    - intros p q Hin. apply tx_pages_in in Hin. destruct Hin as [_ [_ Hl]]. apply last_frame_in in Hl. apply (Hpos p q Hl).
    - apply tx_pages_keys. }
  constructor.
  - congruence.
  - congruence.
  - rewrite At, E3, E8. reflexivity.
  - rewrite Ac, E5. reflexivity.
  - intros x Hx Hnl. rewrite E9 in Hx. rewrite El in Hnl.
    rewrite (apply_fpg _ f true sR' Er Hwfl ltac:(rewrite E6; exact Hc0) x ltac:(rewrite E6; exact Hx)).
    rewrite E7, tx_pages_lookup. unfold lpage. rewrite Hlook.
    destruct (N.eqb_spec x (lockpg sP)); [contradiction|]. destruct (N.leb_spec x c); [|lia]. cbn [negb andb].
    destruct (last_frame x fr) as [q|] eqn:Elf; [reflexivity|].
    assert (x <= pageN sP) as Hle.
    { destruct (N.le_gt_cases x (pageN sP)); [assumption|]. destruct (Hg x ltac:(lia) Hnl) as [q Hq]. apply last_frame_some in Hq. congruence. }
    change (fpg (with_dir sR (if is_snapshot f then [f] else ltxdir sR ++ [f])) x) with (fpg sR x).
    rewrite (E x ltac:(lia) Hnl). unfold lpage. assert (fpg sP' x = fpg sP x) as -> by (unfold fpg; rewrite E10; reflexivity). reflexivity.
Qed.

(* a step of the primary that publishes nothing and leaves its logical database alone *)
Lemma followw_quiet sP sR sP' :
  SimW sP sR -> ltxdir sP' = ltxdir sP -> lockpg sP' = lockpg sP -> pageN sP' = pageN sP -> txid sP' = txid sP -> chk sP' = chk sP ->
  (forall x, 1 <= x <= pageN sP -> x <> lockpg sP -> lpage sP' x = lpage sP x) ->
  new_files sP sP' = [] /\ SimW sP' sR.
Proof.
  intros [A B C D E] Hd Hl Hp Ht Hc Hlp. split; [unfold new_files; rewrite Hd; apply skipn_same|].
  constructor; try congruence. intros p Hp' Hnl. rewrite Hp in Hp'. rewrite Hl in Hnl. rewrite (Hlp p Hp' Hnl). apply E; assumption.
Qed.

Lemma wpages_nil_of_file s : wal_file s = [] -> wpages s = [].
Proof. intros Hf. unfold wpages, wscan. rewrite Hf. reflexivity. Qed.

(* LiteFS's checkpoint *)
Lemma lpage_checkpoint s v s' : WL s v -> WK s v -> op_checkpoint s = (Done, s') ->
  forall x, 1 <= x <= pageN s -> lpage s' x = lpage s x.
Proof.
  intros HW HK H x Hx. destruct HW as [Ww Wm Wl Wc Wz Wv Wt Wk].
  unfold op_checkpoint in H. rewrite wal_committed_scan in H. fold (wscan s) in H. fold (wpages s) in H.
  destruct (wpages s) as [|x0 r0] eqn:Ep.
  - inversion H; subst s'. unfold lpage. rewrite Ep. rewrite wpages_nil_of_file by reflexivity. reflexivity.
  - assert (Hne : wpages s <> []) by (rewrite Ep; discriminate). rewrite <- Ep in H. clear Ep x0 r0.
    destruct HK as [k_scan0 k_last0 k_hash0 k_keys0 k_truth0 k_empty0 k_pos0 k_nodup0 k_in0].
    pose proof (k_last0 Hne) as Elast. inversion H; subst s'. clear H.
    unfold lpage at 1. rewrite wpages_nil_of_file by reflexivity. cbn [alookup].
    unfold fpg at 1. cbn [dbfile with_wal with_pos]. fold (fpg (truncate_db (fold_left (fun a kv => write_db_page a (fst kv) (snd kv)) (wpages s) s) (snd (wscan s))) x).
    rewrite fpg_truncate_db by lia. rewrite Elast. destruct (N.leb_spec x (pageN s)); [|lia].
    rewrite fpg_fold_write by (assumption || lia). reflexivity.
Qed.

(* a page of the log copied into the file by SQLite: the log still answers *)
Lemma lpage_backfill s p q x : alookup p (wpages s) <> None -> 1 <= p -> 1 <= x ->
  lpage (write_db_page s p q) x = lpage s x.
Proof.
  intros Hin Hp Hx. unfold lpage. change (wpages (write_db_page s p q)) with (wpages s).
  destruct (alookup x (wpages s)) as [qx|] eqn:E; [reflexivity|].
  rewrite fpg_write by assumption. destruct (N.eqb_spec x p) as [->|_]; [contradiction|reflexivity].
Qed.

(* SQLite's complete checkpoint with the restart of the log *)
Lemma lpage_sqlckpt s v s' : WL s v -> WK s v -> run_group s (sql_ckpt_ops s) = (0, s') ->
  ltxdir s' = ltxdir s /\ forall x, 1 <= x <= pageN s -> lpage s' x = lpage s x.
Proof.
  intros HW HK H. destruct HW as [Ww Wm Wl Wc Wz Wv Wt Wk].
  destruct HK as [k_scan0 k_last0 k_hash0 k_keys0 k_truth0 k_empty0 k_pos0 k_nodup0 k_in0].
  unfold sql_ckpt_ops in H. rewrite run_group_app, (run_wal_writes _ s Ww Wm) in H.
  set (sa := fold_left (fun a kv => write_db_page a (fst kv) (snd kv)) (backfill_list s) s) in *.
  assert (pageN sa = pageN s) as Epn.
  { unfold sa. clear. generalize (backfill_list s). intros l. revert s. induction l as [|kv r IH]; intros s; cbn [fold_left]; [reflexivity|].
    rewrite IH. reflexivity. }
  cbn [run_group step] in H. unfold op_truncate in H. rewrite Epn, N.eqb_refl in H. cbn [negb ocode] in H.
  unfold op_wal_header in H. inversion H; subst s'. clear H.
  split. { cbn [ltxdir with_wal]. rewrite ltxdir_truncate_db. unfold sa. apply ltxdir_fold_write. }
  intros x Hx.
  unfold lpage at 1. rewrite wpages_nil_of_file by reflexivity. cbn [alookup].
  unfold fpg at 1. cbn [dbfile with_wal]. fold (fpg (truncate_db sa (pageN s)) x).
  rewrite fpg_truncate_db by lia. destruct (N.leb_spec x (pageN s)); [|lia].
  unfold sa. rewrite fpg_fold_write; [| |apply keys_filter; exact k_nodup0|lia].
  - unfold backfill_list. rewrite (alookup_filter_key (fun k => (1 <=? k) && (k <=? pageN s))).
    destruct (N.leb_spec 1 x), (N.leb_spec x (pageN s)); try lia. reflexivity.
  - intros p q Hin. apply filter_In in Hin. apply (k_pos0 p q). tauto.
Qed.

(* ---- histories ---- *)
Lemma followw_step sP sR v o sP' sR' : WL sP v -> WK sP v -> SimW sP sR -> wf_wop2 sP o ->
  run_group sP (wop2_ops sP o) = (0, sP') -> run_recv sR (new_files sP sP') = Some sR' -> SimW sP' sR'.
Proof.
  intros HW HK HS Hwf H HR.
  assert (Hq : forall sQ, new_files sP sQ = [] /\ SimW sQ sR -> sQ = sP' -> SimW sP' sR').
  { intros sQ [Hn HS'] ->. rewrite Hn in HR. cbn [run_recv] in HR. inversion HR; subst. exact HS'. }
  destruct o as [fr c| |p|p q|]; cbn [wop2_ops wf_wop2] in *.
  - apply run_group_one in H. cbn [step] in H. apply (followw_commit sP sR v fr c sP' sR' HW HK HS Hwf H HR).
  - apply run_group_one in H. cbn [step] in H.
    destruct (ckpt_step sP v sP' HW HK H) as [_ [_ [El [Et [Ep _]]]]].
    destruct (pos_checkpoint sP Done sP' H) as [_ [Ec Ed]].
    apply (Hq sP'); [|reflexivity]. apply (followw_quiet sP sR sP' HS Ed El Ep Et Ec).
    intros x Hx _. apply (lpage_checkpoint sP v sP' HW HK H x Hx).
  - destruct (alookup p (wpages sP)) as [q|] eqn:Eq.
    + apply run_group_one in H. cbn [step] in H. unfold op_write_page in H.
      rewrite (w_w sP v HW), (w_mode sP v HW) in H. cbn [negb] in H. inversion H; subst sP'. clear H.
      apply (Hq (write_db_page sP p q)); [|reflexivity]. apply (followw_quiet sP sR _ HS); try reflexivity.
      intros x Hx _. apply lpage_backfill; [rewrite Eq; discriminate|lia|lia].
    + cbn [run_group] in H. inversion H; subst sP'. apply (Hq sP); [|reflexivity].
      apply (followw_quiet sP sR sP HS); reflexivity.
  - destruct Hwf as [Hp Hin]. apply run_group_one in H. cbn [step] in H. unfold op_write_page in H.
    rewrite (w_w sP v HW), (w_mode sP v HW) in H. cbn [negb] in H. inversion H; subst sP'. clear H.
    apply (Hq (write_db_page sP p q)); [|reflexivity]. apply (followw_quiet sP sR _ HS); try reflexivity.
    intros x Hx _. apply lpage_backfill; [exact Hin|lia|lia].
  - destruct (sqlckpt_step sP v sP' HW HK H) as [HW' [_ [El [Et [Ep _]]]]].
    destruct (lpage_sqlckpt sP v sP' HW HK H) as [Ed Hlp].
    assert (chk sP' = chk sP) as Ec by (rewrite (w_chk sP' v HW'), (w_chk sP v HW), El, Ep; reflexivity).
    apply (Hq sP'); [|reflexivity]. apply (followw_quiet sP sR sP' HS Ed El Ep Et Ec).
    intros x Hx _. apply (Hlp x Hx).
Qed.

Fixpoint followw (sP sR : st) (v : N -> N) (os : list wop2) : option (st * st) :=
  match os with
  | [] => Some (sP, sR)
  | o :: r => match run_group sP (wop2_ops sP o) with
              | (0, sP') => match run_recv sR (new_files sP sP') with
                            | Some sR' => followw sP' sR' (wop2_view (lockpg sP) o v) r
                            | None => None
                            end
              | _ => None
              end
  end.

Theorem followw_invariant : forall os sP sR v sP' sR',
  WL sP v -> WK sP v -> SimW sP sR -> wf_wops2 sP os -> followw sP sR v os = Some (sP', sR') ->
  SimW sP' sR' /\ lockpg sP' = lockpg sP.
Proof.
  induction os as [|o r IH]; intros sP sR v sP' sR' HW HK HS Hwf H; cbn [followw wf_wops2] in *.
  - inversion H; subst. auto.
  - destruct Hwf as [Hw Hrest]. destruct (run_group sP (wop2_ops sP o)) as [code s1] eqn:E. destruct code; [|discriminate].
    destruct (run_recv sR (new_files sP s1)) as [r1|] eqn:Er; [|discriminate].
    destruct (wal_full_history_invariant [o] sP v s1 (wop2_view (lockpg sP) o v) HW HK) as [HW1 [HK1 El1]].
    + cbn [wf_wops2]. split; [exact Hw|intros; exact I].
    + cbn [run_wops2]. rewrite E. reflexivity.
    + destruct (IH s1 r1 _ sP' sR' HW1 HK1 (followw_step sP sR v o s1 r1 HW HK HS Hw E Er) (Hrest s1 eq_refl) H) as [A B].
      split; [exact A|congruence].
Qed.

(* C01 without the no-collision premise, into WAL mode: primary and follower start empty; any rollback-journal history; the
   transaction that switches to WAL mode; then WAL commits and checkpoints of every kind in any order - the follower being
   sent after each step what the primary's log gained.  At the end the follower is at the primary's position and its
   database file holds, page for page, the primary's logical database. *)
Theorem follower_identical_wal lock hs zf acts c os s1 r1 s2 r2 sP sR :
  1 <= lock -> wf_hist (init lock) hs -> follow (init lock) (init lock) hs = Some (s1, r1) ->
  wf_tx_any s1 zf acts -> run_group s1 (hops s1 (HTx zf acts c)) = (0, s2) -> wal_mode s2 = true ->
  run_recv r1 (new_files s1 s2) = Some r2 ->
  wf_wops2 s2 os -> followw s2 r2 (file_h s2) os = Some (sP, sR) ->
  txid sR = txid sP /\ chk sR = chk sP /\ pageN sR = pageN sP /\
  (forall p, 1 <= p <= pageN sP -> p <> lock -> fpg sR p = lpage sP p).
Proof.
  intros Hl Hwf H1 [Hnd [Hzf Hacts]] H2 Hm HR Hww H3.
  assert (FInv (init lock) (init lock)) as HI0.
  { split; [apply j_init; exact Hl|]. split; [reflexivity|]. constructor; try reflexivity. }
  destruct (follow_invariant hs _ _ s1 r1 HI0 Hwf H1) as [HJ [Hd HS]].
  pose proof (follow_run_hsteps hs _ _ s1 r1 H1) as Hrun.
  destruct (journal_history_invariant hs (init lock) s1 (j_init lock Hl) Hwf Hrun) as [_ El1]. change (lockpg (init lock)) with lock in El1.
  pose proof (run_hsteps_wal_file hs (init lock) s1 Hrun) as Hf1. change (wal_file (init lock)) with (@nil (N * pg * N)) in Hf1.
  pose proof (run_group_wal_file _ s1 s2 (hops_jops s1 (HTx zf acts c)) H2) as Hf2. rewrite Hf1 in Hf2.
  destruct (tx_step_any s1 zf acts c s2 HJ (conj Hnd (conj Hzf Hacts)) H2 Hm) as [HB [Hk [Et [_ El2]]]].
  destruct (follow_tx_sim false s1 r1 zf acts c s2 r2 Hd (j_mode s1 HJ) HS Hzf Hacts H2 El2 HR) as [_ HS2].
  assert (WL s2 (file_h s2)) as HW by (apply wl_entry; [assumption|assumption|assumption|lia]).
  pose proof (wk_entry s2 HB Hf2 Hk) as HK.
  assert (SimW s2 r2) as HSW.
  { destruct HS2 as [A B C D E]. constructor; try assumption. intros p Hp Hnl. rewrite (E p Hp Hnl).
    unfold lpage. rewrite (wpages_nil_of_file s2 Hf2). reflexivity. }
  destruct (followw_invariant os s2 r2 (file_h s2) sP sR HW HK HSW Hww H3) as [[A B C D E] El].
  assert (lockpg sP = lock) as Elk by congruence. rewrite Elk in E. auto.
Qed.


(* a concrete history that meets the hypotheses (the non-vacuity example of Props/C01.v); at its end the primary's database
   file is behind its log, and the follower's file is the logical database *)
Lemma follower_identical_wal_example :
  let pg h := mkPg (fl h) 0 false in
  let pw h := mkPg (fl h) 0 true in
  let hs := [HTx [] [AWrite 1 (pg 11); AWrite 2 (pg 12)] 2] in
  let sw := [AWrite 1 (pw 13)] in
  let os := [W2Commit [(2, pw 22); (3, pw 33); (2, pw 23)] 3; W2BackfillOld 2 (pw 22); W2Commit [(1, pw 14)] 2; W2Checkpoint;
             W2Commit [(3, pw 35); (1, pw 15)] 3] in
  exists s1 r1 s2 r2,
    wf_hist (init 2097153) hs /\ follow (init 2097153) (init 2097153) hs = Some (s1, r1) /\
    wf_tx_any s1 [] sw /\ run_group s1 (hops s1 (HTx [] sw 2)) = (0, s2) /\ wal_mode s2 = true /\
    run_recv r1 (new_files s1 s2) = Some r2 /\ wf_wops2 s2 os /\
    match followw s2 r2 (file_h s2) os with
    | Some (sP, sR) => (txid sR, pageN sR, chk sR =? chk sP, map (fpg sR) [1; 2; 3], map (lpage sP) [1; 2; 3], map (fpg sP) [1; 2; 3])
                       = (5, 3, true, [pw 15; pw 23; pw 35], [pw 15; pw 23; pw 35], [pw 14; pw 23; zero_pg])
    | None => False
    end.
Proof.
  cbn zeta. eexists. eexists. eexists. eexists.
  split. { cbn [wf_hist wf_step]. split; [|intros; exact I]. split; [constructor|]. split; [intros ? ? []|].
           repeat constructor; cbn; lia. }
  split. { vm_compute. reflexivity. }
  split. { split; [constructor|]. split; [intros ? ? []|]. constructor; [|constructor]. split; [lia|discriminate]. }
  split. { vm_compute. reflexivity. }
  split. { reflexivity. }
  split. { vm_compute. reflexivity. }
  split; [|vm_compute; reflexivity].
  Ltac one_of4 H := cbn [In] in H; repeat (destruct H as [H|H]; [inversion H; subst; (reflexivity || lia)|]); destruct H.
  Ltac wal4 tac := split; [split; [cbn [pageN lockpg]; intros p Hp _; tac p Hp|intros q H; one_of4 H]|
                           split; [discriminate|split; [discriminate|intros p q H; one_of4 H]]].
  Ltac grown4 p Hp := assert (p = 3) as -> by lia; eexists; cbn [In]; auto.
  Ltac nogrowth4 p Hp := lia.
  Ltac next4 s E := intros s E; vm_compute in E; inversion E; subst s; clear E.
  cbn [wf_wops2 wf_wop2]. split. { wal4 grown4. }
  next4 sa Ea. split. { split; [cbn [pageN]; lia|vm_compute; discriminate]. }
  next4 sb Eb. split. { wal4 nogrowth4. }
  next4 sc Ec. split; [exact I|].
  next4 sd Ed. split. { wal4 grown4. }
  intros se _. exact I.
Qed.
