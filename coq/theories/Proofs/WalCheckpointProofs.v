(* C04 along histories, continued: LiteFS's own checkpoint between WAL commits.  The log LiteFS keeps a picture of, its
   per-page WAL checksums and the database file stay tied to the logical database, so that copying the log back into the
   file and forgetting the WAL bookkeeping changes no answer. *)
From Coq Require Import NArith List Lia ZifyN ZifyNat ZifyBool Bool Arith.
Require Import LF.Gen.ConstsGen LF.Model.PageDB LF.Proofs.XorLib LF.Proofs.ChecksumProofs LF.Proofs.CaptureProofs
  LF.Proofs.HistoryProofs LF.Proofs.WalHistoryProofs.
Import ListNotations.
Local Open Scope N_scope.

(* ---- reading the log: wal_committed with the uncommitted tail made visible ---- *)
Fixpoint wal_scan (wf : list (N * pg * N)) (cur acc : list (N * pg)) (lastc : N) : list (N * pg) * list (N * pg) * N :=
  match wf with
  | [] => (cur, acc, lastc)
  | (p, q, c) :: r =>
    let cur' := aput p q cur in
    if c =? 0 then wal_scan r cur' acc lastc else wal_scan r [] (merge_latest cur' acc) c
  end.
Lemma wal_committed_scan : forall wf cur acc lc,
  wal_committed wf cur acc lc = (snd (fst (wal_scan wf cur acc lc)), snd (wal_scan wf cur acc lc)).
Proof.
  induction wf as [|[[p q] c] r IH]; intros cur acc lc; cbn [wal_committed wal_scan]; [reflexivity|].
  destruct (c =? 0); apply IH.
Qed.
Lemma wal_scan_app : forall a b cur acc lc,
  wal_scan (a ++ b) cur acc lc = let '(c, a', l) := wal_scan a cur acc lc in wal_scan b c a' l.
Proof.
  induction a as [|[[p q] c] r IH]; intros b cur acc lc; cbn [app wal_scan]; [reflexivity|].
  destruct (c =? 0); apply IH.
Qed.
Lemma wal_scan_body : forall fr cur acc lc,
  wal_scan (map (fun kv : N * pg => (fst kv, snd kv, 0)) fr) cur acc lc = (last_versions fr cur, acc, lc).
Proof.
  induction fr as [|[p q] r IH]; intros cur acc lc; cbn [map wal_scan last_versions fst snd]; [reflexivity|].
  rewrite N.eqb_refl. apply IH.
Qed.
Lemma last_versions_app : forall a b acc, last_versions (a ++ b) acc = last_versions b (last_versions a acc).
Proof. induction a as [|[p q] r IH]; intros b acc; cbn [app last_versions]; [reflexivity|apply IH]. Qed.

(* a complete transaction appended to a log that ends at a commit *)
Lemma wal_scan_tx frames commit wf acc lc :
  frames <> [] -> commit <> 0 -> wal_scan wf [] [] 0 = ([], acc, lc) ->
  wal_scan (wf ++ tx_frames frames commit) [] [] 0 = ([], merge_latest (last_versions frames []) acc, commit).
Proof.
  intros Hne Hc Hwf. rewrite wal_scan_app, Hwf. unfold tx_frames.
  destruct (exists_last Hne) as [fr0 [[p q] E]]. subst frames.
  rewrite removelast_last, rev_unit, wal_scan_app, wal_scan_body. cbn [wal_scan].
  destruct (N.eqb_spec commit 0); [contradiction|]. rewrite last_versions_app. reflexivity.
Qed.

(* ---- association lists ---- *)
Lemma alookup_merge_latest : forall tx wl p, KeysNoDup tx ->
  alookup p (merge_latest tx wl) = match alookup p tx with Some q => Some q | None => alookup p wl end.
Proof.
  induction tx as [|[k v] r IH]; intros wl p Hnd; cbn [merge_latest alookup]; [reflexivity|].
  unfold KeysNoDup in Hnd. cbn [map fst] in Hnd. inversion Hnd as [|? ? Hn Hd]; subst.
  rewrite (IH _ _ Hd). destruct (N.eqb_spec p k) as [->|Hne].
  - rewrite alookup_none_notin.
    + rewrite alookup_aput, N.eqb_refl. reflexivity.
    + intros kv Hin E. apply Hn. apply in_map_iff. exists kv. split; assumption.
  - rewrite alookup_aput. destruct (N.eqb_spec p k); [contradiction|]. reflexivity.
Qed.
Lemma merge_latest_keys : forall tx wl, KeysNoDup wl -> KeysNoDup (merge_latest tx wl).
Proof. induction tx as [|[k v] r IH]; intros wl H; cbn [merge_latest]; [assumption|]. apply IH, aput_keys_nodup. assumption. Qed.
Lemma aput_in {A} k (v : A) x : forall m, In x (aput k v m) -> x = (k, v) \/ In x m.
Proof.
  induction m as [|[k' v'] m IH]; cbn [aput In]; [intuition|].
  destruct (k =? k'); cbn [In]; [intuition|]. intros [E|H]; [auto|]. destruct (IH H); auto.
Qed.
Lemma merge_latest_in x : forall tx wl, In x (merge_latest tx wl) -> In x tx \/ In x wl.
Proof.
  induction tx as [|[k v] r IH]; intros wl H; cbn [merge_latest In] in *; [auto|].
  destruct (IH _ H) as [H1|H1]; [auto|]. destruct (aput_in _ _ _ _ H1); auto.
Qed.
Lemma last_versions_in p q frames : In (p, q) (last_versions frames ([] : list (N * pg))) -> In (p, q) frames.
Proof.
  intros Hin. assert (KeysNoDup (last_versions frames ([] : list (N * pg)))) as Hk by (apply last_versions_keys; constructor).
  apply (in_alookup_nodup p q _ Hk) in Hin. pose proof (alookup_last_versions p frames []) as Hl.
  fold (last_frame p frames) in Hl. cbn [alookup] in Hl. rewrite Hl in Hin.
  apply last_frame_in. destruct (last_frame p frames); congruence.
Qed.
Lemma alookup_last_versions_nil p frames : alookup p (last_versions frames ([] : list (N * pg))) = last_frame p frames.
Proof.
  pose proof (alookup_last_versions p frames []) as Hl. fold (last_frame p frames) in Hl. cbn [alookup] in Hl.
  rewrite Hl. destruct (last_frame p frames); reflexivity.
Qed.

(* ---- copying pages into the database file; cutting it ---- *)
Lemma fold_write_facts : forall pages s,
  (forall p q, In (p, q) pages -> 1 <= p) -> KeysNoDup pages -> 1 <= lockpg s -> CacheOK s -> LockZero s ->
  let s' := fold_left (fun a kv => write_db_page a (fst kv) (snd kv)) pages s in
  CacheOK s' /\ LockZero s' /\ lockpg s' = lockpg s /\ pageN s' = pageN s /\ writeable s' = writeable s /\
  wal_mode s' = wal_mode s /\ txid s' = txid s /\ chk s' = chk s /\
  (forall x, 1 <= x -> dbc s' x = match alookup x pages with Some q => if x =? lockpg s then 0 else pg_h q | None => dbc s x end) /\
  (forall x, 1 <= x -> file_h s' x = match alookup x pages with Some q => pg_h q | None => file_h s x end).
Proof.
  induction pages as [|[p q] r IH]; intros s Hpos Hnd Hlk HC HL; cbn [fold_left fst snd].
  - cbn zeta. repeat (split; [assumption || reflexivity|]). split; intros x Hx; reflexivity.
  - unfold KeysNoDup in Hnd. cbn [map fst] in Hnd. inversion Hnd as [|? ? Hn Hd]; subst.
    assert (1 <= p) as Hp by (apply (Hpos p q); left; reflexivity).
    destruct (write_db_page_facts s p q Hp Hlk HC HL) as [A1 [A2 [A3 [A4 [A5 [A6 [A7 [A8 [A9 A10]]]]]]]]].
    set (s1 := write_db_page s p q) in *.
    assert (Hnone : alookup p r = None).
    { apply alookup_none_notin. intros kv Hin E. apply Hn. apply in_map_iff. exists kv. split; assumption. }
    destruct (IH s1) as [B1 [B2 [B3 [B4 [B5 [B6 [B7 [B8 [B9 B10]]]]]]]]].
    { intros p' q' Hin. apply (Hpos p' q'). right. assumption. }
    { exact Hd. } { rewrite A3. exact Hlk. } { exact A1. } { exact A2. }
    cbn zeta in *. split; [exact B1|]. split; [exact B2|].
    split; [congruence|]. split; [congruence|]. split; [congruence|]. split; [congruence|]. split; [congruence|]. split; [congruence|].
    split.
    + intros x Hx. rewrite (B9 x Hx). cbn [alookup]. rewrite A3. destruct (N.eqb_spec x p) as [->|Hne].
      * rewrite Hnone. rewrite (A9 p Hp), N.eqb_refl. reflexivity.
      * destruct (alookup x r); [reflexivity|]. rewrite (A9 x Hx). destruct (N.eqb_spec x p); [contradiction|reflexivity].
    + intros x Hx. rewrite (B10 x Hx). cbn [alookup]. destruct (N.eqb_spec x p) as [->|Hne].
      * rewrite Hnone. rewrite (A10 p Hp), N.eqb_refl. reflexivity.
      * destruct (alookup x r); [reflexivity|]. rewrite (A10 x Hx). destruct (N.eqb_spec x p); [contradiction|reflexivity].
Qed.

Lemma truncate_db_facts s n : CacheOK s -> LockZero s -> 1 <= lockpg s ->
  let s' := truncate_db s n in
  CacheOK s' /\ LockZero s' /\ lockpg s' = lockpg s /\ writeable s' = writeable s /\ wal_mode s' = wal_mode s /\
  txid s' = txid s /\ chk s' = chk s /\
  (forall q, 1 <= q -> dbc s' q = if n <? q then 0 else dbc s q) /\
  (forall p, 1 <= p -> file_h s' p = if p <=? n then file_h s p else 0) /\ pageN s' = pageN s.
Proof.
  intros HC HL Hlk. unfold truncate_db, reset_after.
  set (sf := with_file s (firstn (N.to_nat n) (dbfile s))).
  assert (CacheOK sf) as HCf by exact HC. assert (LockZero sf) as HLf by exact HL.
  destruct (clear_from_spec (length (chk_pages sf)) sf n ltac:(lia) HCf HLf Hlk) as [C2 [L2 [E2 [W2 [M2 [P2 [T2 [K2 [F2 D2]]]]]]]]].
  cbn zeta in *.
  split; [exact C2|]. split; [exact L2|]. split; [exact E2|]. split; [exact W2|]. split; [exact M2|].
  split; [exact T2|]. split; [exact K2|]. split; [exact D2|]. split; [|exact P2].
  intros p Hp. unfold file_h, file_pg. rewrite F2. change (dbfile sf) with (firstn (N.to_nat n) (dbfile s)).
  fold (h_at (firstn (N.to_nat n) (dbfile s)) (N.to_nat (p - 1))). rewrite firstn_h.
  fold (h_at (dbfile s) (N.to_nat (p - 1))).
  destruct (N.leb_spec p n), (Nat.ltb_spec (N.to_nat (p - 1)) (N.to_nat n)); try lia; reflexivity.
Qed.

(* ---- the log, the WAL checksums and the file, tied to the logical database ---- *)
Definition wscan (s : st) := wal_scan (wal_file s) [] [] 0.
Definition wpages (s : st) : list (N * pg) := snd (fst (wscan s)).       (* last committed version of every page in the log *)
(* a page whose database-file slot need not be current: the log holds it, or it lies beyond the database *)
Definition Cov (s : st) (x : N) : Prop := alookup x (wpages s) <> None \/ pageN s < x.

Record WK (s : st) (v : N -> N) : Prop := {
  k_scan : fst (fst (wscan s)) = [];                                    (* the log ends at a commit *)
  k_last : wpages s <> [] -> snd (wscan s) = pageN s;
  k_hash : forall p q, alookup p (wpages s) = Some q -> p <= pageN s -> p <> lockpg s -> pg_h q = v p;
  k_keys : forall x, x <> lockpg s -> alookup x (wal_chk s) <> None -> Cov s x;
  k_truth : forall x, 1 <= x -> x <> lockpg s -> dbc s x = file_h s x \/ (dbc s x = 0 /\ Cov s x);
  k_empty : wpages s = [] -> wal_chk s = [];
  k_pos : forall p q, In (p, q) (wpages s) -> 1 <= p;
  k_nodup : KeysNoDup (wpages s);
  (* a page of the database that is in the log answers from its WAL checksums *)
  k_in : forall p q, alookup p (wpages s) = Some q -> p <= pageN s -> p <> lockpg s ->
                     exists l c, alookup p (wal_chk s) = Some l /\ last_or0 l = Some c
}.

Definition wf_wal2 (s : st) (frames : list (N * pg)) (commit : N) : Prop :=
  wf_wal s frames commit /\ frames <> [] /\ commit <> 0 /\ (forall p q, In (p, q) frames -> 1 <= p).

Lemma k_step s v frames commit s' : WL s v -> WK s v -> wf_wal2 s frames commit ->
  op_commit_wal s frames commit = (Done, s') -> WK s' (overlay (lockpg s) frames commit v).
Proof.
  intros HW HK [[Hg Hp1] [Hne [Hc0 Hpos]]] H. destruct HW as [Ww Wm Wl Wc Wz Wv Wt Wk]. destruct HK.
  destruct (commit_wal_gen s frames commit s' Wc Wz Wt H) as [new [Etr [C1 [C2 [C3 [C4 [C5 [C6 [C7 [C8 [C9 [C10 C11]]]]]]]]]]]].
  destruct (truncated_pages_spec s _ _ _ _ Etr) as [T1 T2].
  pose proof (truncated_pages_keys s _ _ _ _ Etr (tx_new_keys s frames commit)) as Hkn.
  assert (Hscan : wscan s' = ([], merge_latest (last_versions frames []) (wpages s), commit)).
  { unfold wscan at 1. rewrite C10. apply (wal_scan_tx frames commit (wal_file s) (wpages s) (snd (wscan s))); [assumption|assumption|].
    unfold wpages, wscan in *. destruct (wal_scan (wal_file s) [] [] 0) as [[c a] l]. cbn [fst snd] in *. subst c. reflexivity. }
  assert (Hwp : wpages s' = merge_latest (last_versions frames []) (wpages s)) by (unfold wpages at 1; rewrite Hscan; reflexivity).
  assert (Hlook : forall x, alookup x (wpages s') = match last_frame x frames with Some q => Some q | None => alookup x (wpages s) end).
  { intros x. rewrite Hwp, alookup_merge_latest by (apply last_versions_keys; constructor).
    rewrite alookup_last_versions_nil. reflexivity. }
  assert (Hcov : forall x, x <> lockpg s -> Cov s x -> Cov s' x).
  { intros x Hnl [Hin|Hgt]; unfold Cov.
    - left. rewrite Hlook. destruct (last_frame x frames); [discriminate|exact Hin].
    - rewrite C3. destruct (N.le_gt_cases x commit) as [Hle|Hg2]; [left|right; assumption].
      destruct (Hg x ltac:(lia) Hnl) as [q Hq]. apply last_frame_some in Hq. rewrite Hlook.
      destruct (last_frame x frames); [discriminate|contradiction]. }
  constructor.
  - rewrite Hscan. reflexivity.
  - intros _. rewrite Hscan, C3. reflexivity.
  - intros p q Hl Hle Hnl. rewrite Hlook in Hl. rewrite C3 in Hle. rewrite C8 in Hnl. unfold overlay.
    destruct (N.eqb_spec p (lockpg s)); [contradiction|]. destruct (N.leb_spec p commit); [|lia]. cbn [negb andb].
    destruct (last_frame p frames) as [q'|] eqn:El; [congruence|].
    apply (k_hash0 p q Hl); [|assumption].
    destruct (N.le_gt_cases p (pageN s)); [assumption|]. destruct (Hg p ltac:(lia) Hnl) as [q2 Hq].
    apply last_frame_some in Hq. congruence.
  - intros x Hnl Hx. rewrite C8 in Hnl. rewrite C6, (alookup_append_chk _ _ _ Hkn) in Hx.
    destruct (alookup x new) as [c|] eqn:En.
    + destruct (N.le_gt_cases x commit) as [Hle|Hgt]; [|right; rewrite C3; assumption].
      left. rewrite T1 in En by lia. rewrite tx_new_lookup in En. rewrite Hlook.
      destruct (negb (x =? lockpg s) && (x <=? commit)); [|discriminate].
      destruct (last_frame x frames); [discriminate|cbn in En; discriminate].
    + apply Hcov; [assumption|]. apply (k_keys0 x Hnl). exact Hx.
  - intros x Hx Hnl. rewrite C8 in Hnl. rewrite C5.
    assert (file_h s' x = file_h s x) as -> by (unfold file_h, file_pg; rewrite C11; reflexivity).
    destruct (k_truth0 x Hx Hnl) as [E|[Z Cv]]; [left; exact E|right; split; [exact Z|apply Hcov; assumption]].
  - intros He. exfalso. destruct (exists_last Hne) as [fr0 [[p q] E]].
    assert (last_frame p frames <> None) as Hl by (apply (last_frame_some p q); subst; apply in_or_app; right; left; reflexivity).
    specialize (Hlook p). rewrite He in Hlook. cbn [alookup] in Hlook. destruct (last_frame p frames); [discriminate|contradiction].
  - intros p q Hin. rewrite Hwp in Hin. destruct (merge_latest_in _ _ _ Hin) as [H1|H1].
    + apply last_versions_in in H1. apply (Hpos p q H1).
    + apply (k_pos0 p q H1).
  - rewrite Hwp. apply merge_latest_keys. exact k_nodup0.
  - intros p q Hl Hle Hnl. rewrite Hlook in Hl. rewrite C3 in Hle. rewrite C8 in Hnl.
    rewrite C6, (alookup_append_chk _ _ _ Hkn). rewrite (T1 p) by lia. rewrite tx_new_lookup.
    destruct (N.eqb_spec p (lockpg s)); [contradiction|]. destruct (N.leb_spec p commit); [|lia]. cbn [negb andb].
    destruct (last_frame p frames) as [q'|] eqn:El; cbn [option_map].
    + eexists. eexists. split; [reflexivity|apply last_or0_snoc].
    + apply (k_in0 p q Hl); [|assumption].
      destruct (N.le_gt_cases p (pageN s)); [assumption|]. destruct (Hg p ltac:(lia) Hnl) as [q2 Hq].
      apply last_frame_some in Hq. congruence.
Qed.

(* ---- LiteFS's checkpoint (CheckpointNoLock): the log copied into the file, the file cut to the size of the last commit,
   the WAL bookkeeping forgotten - the logical database is the same, and it is now the file ---- *)
Lemma ckpt_step s v s' : WL s v -> WK s v -> op_checkpoint s = (Done, s') ->
  WL s' v /\ WK s' v /\ lockpg s' = lockpg s /\ txid s' = txid s /\ pageN s' = pageN s /\
  (forall p, 1 <= p <= pageN s' -> p <> lockpg s' -> file_h s' p = v p).
Proof.
  intros HW HK H. destruct HW as [Ww Wm Wl Wc Wz Wv Wt Wk].
  unfold op_checkpoint in H. rewrite wal_committed_scan in H. fold (wscan s) in H. fold (wpages s) in H.
  destruct (wpages s) as [|x0 r0] eqn:Ep.
  - (* nothing committed in the log *)
    destruct HK. inversion H; subst s'. clear H. pose proof (k_empty0 Ep) as Hk0.
    assert (Hcovx : forall x, Cov s x -> pageN s < x).
    { intros x [Hc|Hc]; [|exact Hc]. rewrite Ep in Hc. contradiction Hc. reflexivity. }
    assert (Hfile : forall p, 1 <= p <= pageN s -> p <> lockpg s -> file_h s p = v p).
    { intros p Hp Hnl. rewrite <- (Wv p Hp Hnl). unfold eff, page_chk. rewrite Hk0.
      destruct (N.eqb_spec p (lockpg s)); [contradiction|]. destruct (N.ltb_spec (pageN s) p); [lia|]. cbn [alookup fst].
      fold (dbc s p). destruct (k_truth0 p ltac:(lia) Hnl) as [E|[_ Cv]]; [congruence|]. apply Hcovx in Cv. lia. }
    split; [|split; [|split; [reflexivity|split; [reflexivity|split; [reflexivity|exact Hfile]]]]].
    + constructor; try assumption.
      * intros p Hp Hnl. rewrite <- (Wv p Hp Hnl). unfold eff, page_chk. cbn [wal_chk lockpg with_wal]. rewrite Hk0. reflexivity.
      * intros p Hp. destruct (Wt p Hp) as [Z|Hx]; [left; exact Z|]. rewrite Hk0 in Hx. contradiction Hx. reflexivity.
    + constructor.
      * reflexivity.
      * intros Hn. contradiction Hn. reflexivity.
      * intros p q Hl. discriminate.
      * intros x _ Hx. contradiction Hx. reflexivity.
      * intros x Hx Hnl. destruct (k_truth0 x Hx Hnl) as [E|[Z Cv]]; [left; exact E|right; split; [exact Z|right; apply Hcovx; exact Cv]].
      * reflexivity.
      * intros p q [].
      * constructor.
      * intros p q Hl. discriminate.
  - assert (Hne : wpages s <> []) by (rewrite Ep; discriminate).
    rewrite <- Ep in H. clear Ep x0 r0. destruct HK.
    set (lastc := snd (wscan s)) in *. pose proof (k_last0 Hne) as Elast.
    destruct (fold_write_facts (wpages s) s k_pos0 k_nodup0 Wl Wc Wz) as [B1 [B2 [B3 [B4 [B5 [B6 [B7 [B8 [B9 B10]]]]]]]]].
    set (sa := fold_left (fun a kv => write_db_page a (fst kv) (snd kv)) (wpages s) s) in *. cbn zeta in *.
    assert (1 <= lockpg sa) as Hlka by (rewrite B3; exact Wl).
    destruct (truncate_db_facts sa lastc B1 B2 Hlka) as [T1 [T2 [T3 [T4 [T5 [T6 [T7 [T8 [T9 _]]]]]]]]].
    set (sb := truncate_db sa lastc) in *. cbn zeta in *.
    inversion H; subst s'. clear H.
    set (sf := with_wal (with_pos sb lastc (wal_mode sb) (txid sb) (chk sb) (ltxdir sb)) [] [] []).
    assert (Hdb : forall p, dbc sf p = dbc sb p) by reflexivity.
    assert (Hfh : forall p, file_h sf p = file_h sb p) by reflexivity.
    assert (Hlk : lockpg sf = lockpg s) by (change (lockpg sf) with (lockpg sb); congruence).
    assert (Hd : forall p, 1 <= p <= pageN s -> p <> lockpg s -> dbc sf p = v p /\ file_h sf p = v p).
    { intros p Hp Hnl. rewrite Hdb, Hfh, T8, T9 by lia. rewrite Elast.
      destruct (N.ltb_spec (pageN s) p); [lia|]. destruct (N.leb_spec p (pageN s)); [|lia].
      rewrite B9, B10 by lia. destruct (alookup p (wpages s)) as [q|] eqn:El.
      - destruct (N.eqb_spec p (lockpg s)); [contradiction|]. pose proof (k_hash0 p q El ltac:(lia) Hnl). split; assumption.
      - assert (~ Cov s p) as Hnc by (intros [Hc|Hc]; [contradiction|lia]).
        assert (alookup p (wal_chk s) = None) as Hnk.
        { destruct (alookup p (wal_chk s)) eqn:Ek; [|reflexivity]. exfalso. apply Hnc. apply (k_keys0 p Hnl). rewrite Ek. discriminate. }
        assert (dbc s p = v p) as Hv.
        { rewrite <- (Wv p Hp Hnl). unfold eff, page_chk. rewrite Hnk.
          destruct (N.eqb_spec p (lockpg s)); [contradiction|]. destruct (N.ltb_spec (pageN s) p); [lia|]. reflexivity. }
        split; [exact Hv|]. destruct (k_truth0 p ltac:(lia) Hnl) as [E|[_ Cv]]; [congruence|contradiction]. }
    split; [|split; [|split; [exact Hlk|split; [change (txid sf) with (txid sb); congruence|split; [change (pageN sf) with lastc; exact Elast|]]]]].
    + constructor.
      * change (writeable sf) with (writeable sb). congruence.
      * change (wal_mode sf) with (wal_mode sb). congruence.
      * rewrite Hlk. exact Wl.
      * exact T1.
      * exact T2.
      * intros p Hp Hnl. change (pageN sf) with lastc in *. rewrite Elast in *. rewrite Hlk in Hnl.
        unfold eff, page_chk. change (wal_chk sf) with (@nil (N * list N)). rewrite Hlk.
        destruct (N.eqb_spec p (lockpg s)); [contradiction|]. destruct (N.ltb_spec (pageN s) p); [lia|]. cbn [alookup fst].
        change (db_page_chk sf p) with (dbc sf p). apply (Hd p Hp Hnl).
      * intros p Hp. change (pageN sf) with lastc in Hp. left. rewrite Hdb, T8 by lia.
        destruct (N.ltb_spec lastc p); [reflexivity|lia].
      * change (chk sf) with (chk sb). change (pageN sf) with lastc. rewrite Hlk, Elast. congruence.
    + constructor.
      * reflexivity.
      * intros Hn. contradiction Hn. reflexivity.
      * intros p q Hl. discriminate.
      * intros x _ Hx. contradiction Hx. reflexivity.
      * intros x Hx Hnl. rewrite Hlk in Hnl. left. destruct (N.le_gt_cases x (pageN s)) as [Hle|Hgt].
        -- destruct (Hd x ltac:(lia) Hnl) as [A Bq]. congruence.
        -- rewrite Hdb, Hfh, T8, T9 by lia. rewrite Elast.
           destruct (N.ltb_spec (pageN s) x); [|lia]. destruct (N.leb_spec x (pageN s)); [lia|reflexivity].
      * reflexivity.
      * intros p q [].
      * constructor.
      * intros p q Hl. discriminate.
    + intros p Hp Hnl. change (pageN sf) with lastc in Hp. rewrite Elast in Hp. rewrite Hlk in Hnl. apply (Hd p Hp Hnl).
Qed.

(* with nothing in the log, the database file is the logical database *)
Lemma wk_file s v : WL s v -> WK s v -> wpages s = [] ->
  forall p, 1 <= p <= pageN s -> p <> lockpg s -> file_h s p = v p.
Proof.
  intros HW HK Ep p Hp Hnl. destruct HW as [Ww Wm Wl Wc Wz Wv Wt Wk]. destruct HK.
  pose proof (k_empty0 Ep) as Hk0. rewrite <- (Wv p Hp Hnl). unfold eff, page_chk. rewrite Hk0.
  destruct (N.eqb_spec p (lockpg s)); [contradiction|]. destruct (N.ltb_spec (pageN s) p); [lia|]. cbn [alookup fst].
  fold (dbc s p). destruct (k_truth0 p ltac:(lia) Hnl) as [E|[_ [Hc|Hc]]]; [congruence| |lia].
  rewrite Ep in Hc. contradiction Hc. reflexivity.
Qed.

(* ---- the rollback-journal part of a history never touches LiteFS's picture of the log ---- *)
Lemma clear_from_wal_file : forall fuel s i, wal_file (clear_from s fuel i) = wal_file s.
Proof.
  induction fuel as [|fuel IH]; intros s i; cbn [clear_from]; [reflexivity|].
  destruct (i <? lenN (chk_pages s)); [rewrite IH|]; reflexivity.
Qed.
Definition jop (o : op) : Prop :=
  match o with OZeroFill _ _ | OWrite _ _ | OTruncate _ | OCommitJournal _ | OCommitJournalFail _ => True | _ => False end.
Lemma jop_wal_file s o s' : jop o -> step s o = (Done, s') -> wal_file s' = wal_file s.
Proof.
  destruct o; cbn [jop]; try contradiction; intros _ H; cbn [step] in H.
  - unfold op_write_page in H. destruct (negb (writeable s)); [discriminate|]. inversion H; subst. destruct (wal_mode s); reflexivity.
  - unfold op_truncate in H. destruct (negb (n =? pageN s)); [discriminate|]. inversion H; subst.
    unfold truncate_db, reset_after. rewrite clear_from_wal_file. reflexivity.
  - destruct (writeable s && (pageN s =? 0) && match dbfile s with [] => true | _ :: _ => false end).
    + unfold op_invalidate_journal in H. inversion H; subst. reflexivity.
    + destruct (commit_journal_fields s commit s' H) as [_ [_ [_ [_ E]]]]. exact E.
  - inversion H; subst. reflexivity.
  - unfold op_zero_fill in H. inversion H; subst. reflexivity.
Qed.
Lemma run_group_wal_file : forall ops s s', Forall jop ops -> run_group s ops = (0, s') -> wal_file s' = wal_file s.
Proof.
  induction ops as [|o r IH]; intros s s' Hj H; cbn [run_group] in H; [inversion H; reflexivity|].
  inversion Hj as [|? ? Ho Hr]; subst. destruct (step s o) as [oc s1] eqn:E.
  destruct oc; cbn [ocode] in H; try (inversion H; fail).
  rewrite (IH s1 s' Hr H). apply (jop_wal_file s o s1 Ho E).
Qed.
Lemma hops_jops s h : Forall jop (hops s h).
Proof.
  apply Forall_forall. intros o Hin. destruct h as [zf acts c|n]; cbn [hops] in Hin.
  - apply in_app_or in Hin. destruct Hin as [Hin|Hin].
    + unfold zf_ops in Hin. apply in_map_iff in Hin. destruct Hin as [kv [E _]]. subst o. exact I.
    + apply in_app_or in Hin. destruct Hin as [Hin|[E|[]]]; [|subst o; exact I].
      unfold act_ops in Hin. apply in_map_iff in Hin. destruct Hin as [a [E _]]. subst o. destruct a; exact I.
  - destruct Hin as [E|[]]. subst o. exact I.
Qed.
Lemma run_hsteps_wal_file : forall hs s s', run_hsteps s hs = Some s' -> wal_file s' = wal_file s.
Proof.
  induction hs as [|h r IH]; intros s s' H; cbn [run_hsteps] in H; [inversion H; reflexivity|].
  destruct (run_group s (hops s h)) as [code s1] eqn:E. destruct code; [|discriminate].
  rewrite (IH s1 s' H). apply (run_group_wal_file _ s s1 (hops_jops s h) E).
Qed.

Lemma wk_entry s : JB s -> wal_file s = [] -> wal_chk s = [] -> WK s (file_h s).
Proof.
  intros [A B C D E F G] Hf Hk.
  assert (Hs : wscan s = ([], [], 0)) by (unfold wscan; rewrite Hf; reflexivity).
  assert (Hp : wpages s = []) by (unfold wpages; rewrite Hs; reflexivity).
  constructor.
  - rewrite Hs. reflexivity.
  - intros Hn. contradiction.
  - intros p q Hl. rewrite Hp in Hl. discriminate.
  - intros x _ Hx. rewrite Hk in Hx. contradiction Hx. reflexivity.
  - intros x Hx Hnl. destruct (N.le_gt_cases x (pageN s)) as [Hle|Hgt]; [left; apply E; [lia|assumption]|].
    right. split; [apply F; assumption|right; assumption].
  - intros _. exact Hk.
  - intros p q Hin. rewrite Hp in Hin. destruct Hin.
  - rewrite Hp. constructor.
  - intros p q Hl. rewrite Hp in Hl. discriminate.
Qed.

(* ---- histories: WAL commits and checkpoints in any order ---- *)
Inductive wop :=
| WCommit (fr : list (N * pg)) (c : N)      (* a committed WAL transaction: its frames in write order, the size in the commit frame *)
| WCheckpoint.                              (* LiteFS copies its log into the database file and forgets it *)
Definition wop_run (s : st) (o : wop) : outcome * st :=
  match o with WCommit fr c => op_commit_wal s fr c | WCheckpoint => op_checkpoint s end.
Definition wop_view (lock : N) (o : wop) (v : N -> N) : N -> N :=
  match o with WCommit fr c => overlay lock fr c v | WCheckpoint => v end.
Definition wf_wop (s : st) (o : wop) : Prop :=
  match o with WCommit fr c => wf_wal2 s fr c | WCheckpoint => True end.
Fixpoint run_wops (s : st) (v : N -> N) (os : list wop) : option (st * (N -> N)) :=
  match os with
  | [] => Some (s, v)
  | o :: r => match wop_run s o with (Done, s') => run_wops s' (wop_view (lockpg s) o v) r | _ => None end
  end.
Fixpoint wf_wops (s : st) (os : list wop) : Prop :=
  match os with
  | [] => True
  | o :: r => wf_wop s o /\ forall s', wop_run s o = (Done, s') -> wf_wops s' r
  end.

Theorem wal_ckpt_history_invariant : forall os s v s' v',
  WL s v -> WK s v -> wf_wops s os -> run_wops s v os = Some (s', v') -> WL s' v' /\ WK s' v' /\ lockpg s' = lockpg s.
Proof.
  induction os as [|o r IH]; intros s v s' v' HW HK Hwf H; cbn [run_wops wf_wops] in *.
  - inversion H; subst. auto.
  - destruct Hwf as [Hw Hrest]. destruct (wop_run s o) as [oc s1] eqn:E. destruct oc; try discriminate.
    assert (WL s1 (wop_view (lockpg s) o v) /\ WK s1 (wop_view (lockpg s) o v) /\ lockpg s1 = lockpg s) as [HW1 [HK1 El1]].
    { destruct o as [fr c|]; cbn [wop_run wop_view wf_wop] in *.
      - destruct (w_step s v fr c s1 HW (proj1 Hw) E) as [A [Bq _]]. split; [exact A|]. split; [|exact Bq].
        apply (k_step s v fr c s1 HW HK Hw E).
      - destruct (ckpt_step s v s1 HW HK E) as [A [Bq [C _]]]. auto. }
    destruct (IH s1 _ s' v' HW1 HK1 (Hrest s1 eq_refl) H) as [HW' [HK' El']]. split; [exact HW'|]. split; [exact HK'|congruence].
Qed.

(* C04 for every history of this shape from an empty node: any rollback-journal history; the transaction that switches to WAL
   mode; then WAL commits and LiteFS checkpoints in any order and number *)
Theorem wal_ckpt_history_checksum lock hs zf acts c os s1 s2 s' v' :
  1 <= lock -> wf_hist (init lock) hs -> run_hsteps (init lock) hs = Some s1 ->
  wf_tx_any s1 zf acts -> run_group s1 (hops s1 (HTx zf acts c)) = (0, s2) -> wal_mode s2 = true ->
  wf_wops s2 os -> run_wops s2 (file_h s2) os = Some (s', v') ->
  chk s' = scratch (fun p => if p =? lock then 0 else v' p) (pageN s') /\
  (forall p, 1 <= p <= pageN s' -> p <> lock -> eff s' (pageN s') [] p = v' p) /\
  (wal_file s' = [] -> forall p, 1 <= p <= pageN s' -> p <> lock -> file_h s' p = v' p) /\ lockpg s' = lock.
Proof.
  intros Hl Hwf H1 Hsw H2 Hm Hww H3.
  destruct (journal_history_invariant hs (init lock) s1 (j_init lock Hl) Hwf H1) as [HJ El1].
  change (lockpg (init lock)) with lock in El1.
  pose proof (run_hsteps_wal_file hs (init lock) s1 H1) as Hf1. change (wal_file (init lock)) with (@nil (N * pg * N)) in Hf1.
  pose proof (run_group_wal_file _ s1 s2 (hops_jops s1 (HTx zf acts c)) H2) as Hf2. rewrite Hf1 in Hf2.
  destruct (tx_step_any s1 zf acts c s2 HJ Hsw H2 Hm) as [HB [Hk [Et [_ El2]]]].
  assert (WL s2 (file_h s2)) as HW by (apply wl_entry; [assumption|assumption|assumption|lia]).
  pose proof (wk_entry s2 HB Hf2 Hk) as HK.
  destruct (wal_ckpt_history_invariant os s2 (file_h s2) s' v' HW HK Hww H3) as [HW' [HK' El']].
  assert (lockpg s' = lock) as El by congruence.
  split; [|split; [|split; [|exact El]]].
  - destruct HW'. rewrite El in *. assumption.
  - destruct HW'. rewrite El in *. assumption.
  - intros Hf p Hp Hnl. apply (wk_file s' v' HW' HK'); [|assumption|rewrite El; assumption].
    unfold wpages, wscan. rewrite Hf. reflexivity.
Qed.

(* a concrete history that meets the hypotheses (the non-vacuity example of Props/C04.v): two pages in rollback-journal mode,
   the switch, a WAL transaction that grows the database, a checkpoint, one that shrinks it, one that grows it again, a
   checkpoint - after which the file is the logical database *)
Lemma wal_ckpt_history_example :
  let pg h := mkPg (fl h) 0 false in
  let pw h := mkPg (fl h) 0 true in
  let hs := [HTx [] [AWrite 1 (pg 11); AWrite 2 (pg 12)] 2] in
  let sw := [AWrite 1 (pw 13)] in
  let os := [WCommit [(2, pw 22); (3, pw 33); (2, pw 23)] 3; WCheckpoint; WCommit [(1, pw 14)] 2;
             WCommit [(3, pw 35); (1, pw 15)] 3; WCheckpoint] in
  exists s1 s2,
    wf_hist (init 2097153) hs /\ run_hsteps (init 2097153) hs = Some s1 /\
    wf_tx_any s1 [] sw /\ run_group s1 (hops s1 (HTx [] sw 2)) = (0, s2) /\ wal_mode s2 = true /\
    wf_wops s2 os /\
    match run_wops s2 (file_h s2) os with
    | Some (s', v') => (txid s', pageN s', chk s' =? fl (N.lxor (N.lxor (fl 15) (fl 23)) (fl 35)), length (wal_file s'),
                        map (file_h s') [1; 2; 3]) = (5, 3, true, 0%nat, [fl 15; fl 23; fl 35])
    | None => False
    end.
Proof.
  cbn zeta. eexists. eexists.
  split. { cbn [wf_hist wf_step]. split; [|intros; exact I]. split; [constructor|]. split; [intros ? ? []|].
           repeat constructor; cbn; lia. }
  split. { vm_compute. reflexivity. }
  split. { split; [constructor|]. split; [intros ? ? []|]. constructor; [|constructor]. split; [lia|discriminate]. }
  split. { vm_compute. reflexivity. }
  split. { reflexivity. }
  split; [|vm_compute; reflexivity].
  Ltac one_of2 H := cbn [In] in H; repeat (destruct H as [H|H]; [inversion H; subst; (reflexivity || lia)|]); destruct H.
  Ltac wal2 tac := split; [split; [cbn [pageN lockpg]; intros p Hp _; tac p Hp|intros q H; one_of2 H]|
                           split; [discriminate|split; [discriminate|intros p q H; one_of2 H]]].
  Ltac grown3 p Hp := assert (p = 3) as -> by lia; eexists; cbn [In]; auto.
  Ltac nogrowth p Hp := lia.
  cbn [wf_wops wf_wop wop_run]. split. { wal2 grown3. }
  intros sa Ea. vm_compute in Ea. inversion Ea; subst sa; clear Ea. split; [exact I|].
  intros sb Eb. vm_compute in Eb. inversion Eb; subst sb; clear Eb. split. { wal2 nogrowth. }
  intros sc Ec. vm_compute in Ec. inversion Ec; subst sc; clear Ec. split. { wal2 grown3. }
  intros sd Ed. vm_compute in Ed. inversion Ed; subst sd; clear Ed. split; [exact I|].
  intros se _. exact I.
Qed.
