(* Effect of ApplyLTXNoLock on the database file; import / export exactness (C16). *)
From Coq Require Import NArith List Lia ZifyN ZifyNat ZifyBool Bool Arith.
Require Import LF.Gen.ConstsGen LF.Model.PageDB LF.Proofs.XorLib LF.Proofs.ChecksumProofs LF.Proofs.CaptureProofs LF.Proofs.ChainProofs.
Import ListNotations.
Local Open Scope N_scope.

Lemma set_file_same' : forall i l v, nth_error (set_file l i v) i = Some v.
Proof. induction i as [|i IH]; intros l v; destruct l; cbn; auto. Qed.
Lemma set_file_other' : forall i l j v, i <> j -> (j < length l)%nat -> nth_error (set_file l i v) j = nth_error l j.
Proof.
  induction i as [|i IH]; intros l j v Hij Hj; destruct l as [|x l]; cbn in Hj; try lia.
  - destruct j; [congruence|reflexivity].
  - destruct j; cbn; [reflexivity|]. apply IH; lia.
Qed.
Lemma set_file_length : forall i l v, (length l <= length (set_file l i v))%nat.
Proof.
  induction i as [|i IH]; intros l v; destruct l as [|x l]; cbn [set_file length]; try lia.
  specialize (IH l v). lia.
Qed.

Lemma write_page_file' s p q x : 1 <= p -> 1 <= x ->
  (x = p -> file_pg (write_db_page s p q) x = Some q) /\
  (x <> p -> x <= lenN (dbfile s) -> file_pg (write_db_page s p q) x = file_pg s x) /\
  lenN (dbfile s) <= lenN (dbfile (write_db_page s p q)).
Proof.
  intros Hp Hx. unfold write_db_page. unfold file_pg. cbn [dbfile set_page_chk with_file]. unfold lenN. repeat split.
  - intros ->. apply set_file_same'.
  - intros Hne Hle. apply set_file_other'; lia.
  - pose proof (set_file_length (N.to_nat (p - 1)) (dbfile s) q). lia.
Qed.

(* writing a list of pages with distinct page numbers *)
Lemma fold_write_file : forall pages s,
  (forall kv, In kv pages -> 1 <= fst kv) -> NoDup (map fst pages) ->
  let s' := fold_left (fun a kv => write_db_page a (fst kv) (snd kv)) pages s in
  (forall p q, In (p, q) pages -> file_pg s' p = Some q) /\
  (forall x, 1 <= x -> ~ In x (map fst pages) -> x <= lenN (dbfile s) -> file_pg s' x = file_pg s x) /\
  lenN (dbfile s) <= lenN (dbfile s').
Proof.
  induction pages as [|[p0 q0] r IH]; intros s Hk Hnd; cbn [fold_left].
  - split; [intros p q []|]. split; [intros; reflexivity|lia].
  - cbn [map fst] in Hnd. inversion Hnd as [|? ? Hnotin Hnd']; subst.
    assert (1 <= p0) as Hp0 by (apply (Hk (p0, q0)); left; reflexivity).
    destruct (IH (write_db_page s p0 q0) (fun kv H => Hk kv (or_intror H)) Hnd') as [A [B C]].
    cbn [fst snd]. split; [|split].
    + intros p q [E|Hin]; [inversion E; subst|apply A; assumption].
      rewrite B.
      * apply (write_page_file' s p q p Hp0 Hp0); reflexivity.
      * assumption.
      * assumption.
      * destruct (write_page_file' s p q p Hp0 Hp0) as [W1 _]. specialize (W1 eq_refl).
        unfold file_pg, lenN in *. assert (nth_error (dbfile (write_db_page s p q)) (N.to_nat (p - 1)) <> None) as Hn by congruence. apply nth_error_Some in Hn. lia.
    + intros x Hx Hnin Hle. cbn [map fst In] in Hnin.
      destruct (write_page_file' s p0 q0 x Hp0 Hx) as [_ [W2 W3]].
      rewrite B; [apply W2; [intuition congruence|assumption]|assumption|intuition|lia].
    + destruct (write_page_file' s p0 q0 1 Hp0 ltac:(lia)) as [_ [_ W3]]. lia.
Qed.

Lemma nth_error_firstn_lt {A} : forall n (l : list A) i, (i < n)%nat -> nth_error (firstn n l) i = nth_error l i.
Proof.
  induction n as [|n IH]; intros l i Hi; [lia|]. destruct l as [|x l]; [destruct i; reflexivity|].
  destruct i; cbn; [reflexivity|]. apply IH. lia.
Qed.

Lemma dbfile_clear_from : forall m s i, dbfile (clear_from s m i) = dbfile s.
Proof.
  induction m as [|m IH]; intros s i; cbn [clear_from]; [reflexivity|].
  destruct (i <? lenN (chk_pages s)); [|reflexivity]. rewrite IH. reflexivity.
Qed.
Lemma file_truncate_db s n x : 1 <= x <= n -> file_pg (truncate_db s n) x = file_pg s x.
Proof.
  intros Hx. unfold truncate_db, reset_after, file_pg. rewrite dbfile_clear_from. cbn [dbfile with_file].
  apply nth_error_firstn_lt. lia.
Qed.

(* the database file after a successful apply: every page of the file is there, the rest of 1..commit is untouched *)
Theorem apply_file s f fatal s' :
  op_apply s f fatal = (Done, s') -> 0 < l_commit f ->
  (forall kv, In kv (l_pages f) -> 1 <= fst kv) -> NoDup (map fst (l_pages f)) ->
  (forall p q, In (p, q) (l_pages f) -> p <= l_commit f -> file_pg s' p = Some q) /\
  (forall x, 1 <= x <= l_commit f -> ~ In x (map fst (l_pages f)) -> x <= lenN (dbfile s) -> file_pg s' x = file_pg s x) /\
  wal_latest s' = wal_latest s.
Proof.
  intros H Hc Hk Hnd. unfold op_apply in H.
  set (s1 := fold_left (fun a kv => write_db_page a (fst kv) (snd kv)) (l_pages f) s) in *.
  destruct (fold_write_file (l_pages f) s Hk Hnd) as [A [B _]]. fold s1 in A, B.
  destruct (N.eqb_spec (l_commit f) 0) as [E|_]; [lia|].
  match type of H with context [checksum ?x ?c []] => pose proof (checksum_same x c []) as HS; destruct (checksum x c []) as [[c0|] s4] end;
    [|destruct fatal; discriminate].
  cbn [snd] in HS. destruct (c0 =? l_post f); [|destruct fatal; discriminate]. inversion H; subst s'. clear H.
  destruct HS as [_ [_ [Ef [_ [_ [_ [_ [Ewl _]]]]]]]]. cbn [dbfile with_pos wal_latest] in Ef, Ewl.
  assert (forall x, file_pg (with_pos s4 (l_commit f)
             (match alookup 1 (l_pages f) with Some q => pg_wal q | None => wal_mode s end)
             (l_max f) (l_post f) (ltxdir s4)) x = file_pg (truncate_db s1 (l_commit f)) x) as Hf.
  { intros x. unfold file_pg. cbn [dbfile with_pos]. rewrite Ef. reflexivity. }
  repeat split.
  - intros p q Hin Hle. rewrite Hf, file_truncate_db; [apply A; assumption|]. split; [apply (Hk (p, q) Hin)|assumption].
  - intros x Hx Hnin Hlen. rewrite Hf, file_truncate_db by assumption. apply B; [lia|assumption|assumption].
  - cbn [wal_latest with_pos]. rewrite Ewl. unfold truncate_db, reset_after.
    assert (forall m sx i, wal_latest (clear_from sx m i) = wal_latest sx) as G.
    { induction m as [|m IH]; intros sx i; cbn [clear_from]; [reflexivity|].
      destruct (i <? lenN (chk_pages sx)); [|reflexivity]. rewrite IH. reflexivity. }
    rewrite G. cbn [wal_latest with_file]. unfold s1.
    assert (forall pages sx, wal_latest (fold_left (fun a kv => write_db_page a (fst kv) (snd kv)) pages sx) = wal_latest sx) as G2.
    { induction pages as [|kv r IH]; intros sx; cbn [fold_left]; [reflexivity|]. rewrite IH. reflexivity. }
    apply G2.
Qed.

(* C16: a successful import is one new transaction whose file holds the image (lock page skipped),
   chained to the previous position; afterwards the database file holds exactly the imported pages
   and, the WAL bookkeeping being empty, an export reads exactly those *)
Theorem import_exact s pages commit s' :
  op_import s pages commit true = (Done, s') -> 0 < commit ->
  (forall kv, In kv pages -> 1 <= fst kv) -> NoDup (map fst pages) ->
  exists f, ltxdir s' = ltxdir s ++ [f] /\ l_min f = txid s + 1 /\ l_max f = txid s + 1 /\ l_pre f = chk s /\ l_commit f = commit /\
    txid s' = txid s + 1 /\ chk s' = l_post f /\ pageN s' = commit /\
    (forall p q, In (p, q) pages -> p <> lockpg s -> p <= commit -> read_page s' p = Some q).
Proof.
  intros H Hc Hk Hnd. unfold op_import in H. destruct (writeable s); cbn [negb] in H; [|discriminate].
  set (pages' := filter (fun kv => negb (fst kv =? lockpg s)) pages) in *.
  set (post := if commit =? 0 then 0 else import_post (lockpg s) pages) in *.
  set (f := mkLtx (txid s + 1) (txid s + 1) (chk s) post commit pages') in *.
  set (s1 := with_dirty (with_wal (with_dir s (ltxdir s ++ [f])) [] [] []) []) in *.
  destruct (apply_done s1 f true s' H) as [Et [Ec [Ep Ed]]].
  assert (forall kv, In kv (l_pages f) -> 1 <= fst kv) as Hk'.
  { intros kv Hin. cbn [l_pages f] in Hin. apply filter_In in Hin. apply Hk. tauto. }
  assert (NoDup (map fst (l_pages f))) as Hnd'.
  { cbn [l_pages f]. unfold pages'. clear -Hnd. induction pages as [|kv r IH]; cbn [filter map]; [constructor|].
    cbn [map] in Hnd. inversion Hnd as [|? ? Hn Hnd']; subst. destruct (negb (fst kv =? lockpg s)); cbn [map]; [|apply IH; assumption].
    constructor; [|apply IH; assumption]. intros Hin. apply Hn. apply in_map_iff in Hin. destruct Hin as [y [Ey Hy]].
    apply filter_In in Hy. apply in_map_iff. exists y. tauto. }
  destruct (apply_file s1 f true s' H Hc Hk' Hnd') as [A [_ Ewl]].
  exists f. cbn [ltxdir with_dirty with_wal with_dir s1] in Ed. repeat split; try assumption; try reflexivity.
  intros p q Hin Hnl Hle. unfold read_page. rewrite Ewl. cbn [wal_latest s1 with_dirty with_wal alookup].
  apply A; [|assumption]. cbn [l_pages f]. apply filter_In. split; [assumption|]. cbn [fst]. apply negb_true_iff, N.eqb_neq. assumption.
Qed.

(* an import that cannot be applied changes nothing at all *)
Theorem import_failure_atomic s pages commit : op_import s pages commit false = (Failed, s).
Proof. unfold op_import. destruct (writeable s); reflexivity. Qed.
Theorem import_on_replica_refused s pages commit ok : writeable s = false -> op_import s pages commit ok = (Failed, s).
Proof. intros H. unfold op_import. rewrite H. reflexivity. Qed.

(* export returns the committed image and the position it belongs to *)
Lemma export_pages_spec s : forall n p, export_pages s p n = map (read_page s) (seqN p n).
Proof. induction n as [|n IH]; intros p; cbn [export_pages seqN map]; [reflexivity|]. rewrite IH. reflexivity. Qed.
Theorem export_is_image s :
  op_export s = (map (read_page s) (seqN 1 (N.to_nat (pageN s))), (txid s, chk s)).
Proof. unfold op_export. rewrite export_pages_spec. reflexivity. Qed.
