(* C20: invalid API requests have no effect; effects need authority. *)
From Coq Require Import NArith List Bool Lia.
Require Import LF.Model.Api.
Import ListNotations.
Local Open Scope N_scope.

Ltac unfold_api :=
  unfold respond, handle_export, handle_post_halt, handle_delete_halt, handle_handoff, handle_import, handle_promote,
    handle_stream, handle_tx, method_not_allowed, invalid, malformed, role_disallowed, missing_entity, import_leftover, tx_poisoned,
    allowed_method, bad_name, bad_id, is_primary, is_candidate, id_unparsable, holds_lock, name_is_known, changes in *.
Ltac split_req q :=
  destruct q as [ro pa me nm id nd sf h2 bd ha po]; cbn [q_role q_path q_meth q_name q_id q_node q_self q_h2 q_body q_halted q_poison] in *.
Ltac crunch :=
  repeat (cbn [andb orb negb fst snd] in *;
          match goal with
          | |- context [match ?x with _ => _ end] => is_var x; destruct x
          | H : context [match ?x with _ => _ end] |- _ => is_var x; destruct x
          | |- context [if ?x then _ else _] => is_var x; destruct x
          | H : context [if ?x then _ else _] |- _ => is_var x; destruct x
          | b : bool |- context [if ?c then _ else _] => match c with context [b] => destruct b end
          | b : bool, H : context [if ?c then _ else _] |- _ => match c with context [b] => destruct b end
          end);
  cbn [andb orb negb fst snd] in *.

(* every request is answered with one of eight statuses *)
Lemma respond_status q : In (fst (respond q)) [200; 400; 404; 405; 409; 426; 500; 503].
Proof.
  split_req q. unfold_api. cbn [q_role q_path q_meth q_name q_id q_node q_self q_h2 q_body q_halted q_poison].
  destruct pa, me; crunch; cbn; repeat first [left; reflexivity | right].
Qed.

(* invalid requests change nothing - with the one exception that the code really has *)
Lemma invalid_no_effect q : invalid q = true -> import_leftover q = false -> tx_poisoned q = false -> snd (respond q) = ENone.
Proof.
  split_req q. unfold_api. cbn [q_role q_path q_meth q_name q_id q_node q_self q_h2 q_body q_halted q_poison].
  destruct pa, me; crunch; intros; try reflexivity; try discriminate.
Qed.

(* the exception, exactly: it is an invalid request (unusable body), it is answered 500, and it leaves a database behind *)
Lemma import_leftover_spec q : import_leftover q = true -> invalid q = true /\ respond q = (500, ECreateDB).
Proof.
  split_req q. unfold_api. cbn [q_role q_path q_meth q_name q_id q_node q_self q_h2 q_body q_halted q_poison].
  destruct pa, me, ro, nm, bd; cbn; intros H; try discriminate H; split; reflexivity.
Qed.

(* the second exception, exactly *)
Lemma tx_poisoned_spec q : tx_poisoned q = true -> invalid q = true /\ respond q = (500, EStop).
Proof.
  split_req q. unfold_api. cbn [q_role q_path q_meth q_name q_id q_node q_self q_h2 q_body q_halted q_poison].
  destruct pa, me; try (intros H; discriminate H); crunch; intros H; try discriminate H; split; reflexivity.
Qed.
Lemma stop_only_when_poisoned q : snd (respond q) = EStop -> tx_poisoned q = true.
Proof.
  split_req q. unfold_api. cbn [q_role q_path q_meth q_name q_id q_node q_self q_h2 q_body q_halted q_poison].
  destruct pa, me; crunch; intros; try discriminate; reflexivity.
Qed.

Lemma invalid_effect_refuted : exists q, invalid q = true /\ snd (respond q) <> ENone.
Proof.
  exists (mk_req RPrimary PImport MPost NmUnknown IdBad NdBad false false false false false). split; [reflexivity|discriminate].
Qed.

(* invalid requests are refused, except a release of a lock that is not held (a no-op answered 200) *)
Lemma invalid_refused q : invalid q = true ->
  400 <= fst (respond q) \/ (q_path q = PHalt /\ q_meth q = MDelete /\ respond q = (200, ENone)).
Proof.
  split_req q. unfold_api. cbn [q_role q_path q_meth q_name q_id q_node q_self q_h2 q_body q_halted q_poison].
  destruct pa, me; crunch; intros; try discriminate; try (left; cbn; lia); try (right; repeat split; reflexivity).
Qed.

(* effects need authority *)
Lemma apply_needs_holder q : snd (respond q) = EApplyTx ->
  q_path q = PTx /\ q_meth q = MPost /\ q_role q = RPrimary /\ q_name q = NmKnown /\ q_halted q = true /\ q_id q = IdHeld /\
  q_self q = false /\ q_body q = true.
Proof.
  split_req q. unfold_api. cbn [q_role q_path q_meth q_name q_id q_node q_self q_h2 q_body q_halted q_poison].
  destruct pa, me; crunch; intros; try discriminate; repeat split; reflexivity.
Qed.
Lemma grant_needs_primary_and_free_lock q : snd (respond q) = EHaltAcquire ->
  q_path q = PHalt /\ q_meth q = MPost /\ q_role q = RPrimary /\ q_self q = false /\ (q_id q = IdOther \/ q_id q = IdHeld) /\
  (q_name q = NmUnknown \/ (q_name q = NmKnown /\ q_halted q = false)).
Proof.
  split_req q. unfold_api. cbn [q_role q_path q_meth q_name q_id q_node q_self q_h2 q_body q_halted q_poison].
  destruct pa, me; crunch; intros; try discriminate; repeat split; try reflexivity; auto.
Qed.
Lemma release_needs_lock_id q : snd (respond q) = EHaltRelease ->
  q_path q = PHalt /\ q_meth q = MDelete /\ q_name q = NmKnown /\ q_halted q = true /\ q_id q = IdHeld.
Proof.
  split_req q. unfold_api. cbn [q_role q_path q_meth q_name q_id q_node q_self q_h2 q_body q_halted q_poison].
  destruct pa, me; crunch; intros; try discriminate; repeat split; reflexivity.
Qed.
(* a second grant with the same id returns the same lock and changes nothing *)
Lemma repeated_acquire_is_idempotent q :
  q_path q = PHalt -> q_meth q = MPost -> q_role q = RPrimary -> q_self q = false -> q_name q = NmKnown -> q_halted q = true ->
  q_id q = IdHeld -> respond q = (200, ENone).
Proof.
  split_req q. intros -> -> -> -> -> -> ->. reflexivity.
Qed.
Lemma write_effects_only_on_primary q :
  changes (snd (respond q)) = true -> snd (respond q) <> EHaltRelease -> snd (respond q) <> EPromote -> q_role q = RPrimary.
Proof.
  split_req q. unfold_api. cbn [q_role q_path q_meth q_name q_id q_node q_self q_h2 q_body q_halted q_poison].
  destruct pa, me; crunch; intros; try discriminate; try reflexivity; try congruence.
Qed.
