(* C01 without the no-collision premise, the late joiner: a node that starts empty and applies a snapshot of the primary - every
   page the primary would serve a reader, at the primary's position - holds the primary's logical database. *)
From Coq Require Import NArith List Lia ZifyN ZifyNat ZifyBool Bool Arith Sorted.
Require Import LF.Gen.ConstsGen LF.Model.PageDB LF.Proofs.XorLib LF.Proofs.ChecksumProofs LF.Proofs.CaptureProofs
  LF.Proofs.ChainProofs LF.Proofs.ApplyProofs
  LF.Proofs.HistoryProofs LF.Proofs.WalHistoryProofs LF.Proofs.WalCheckpointProofs LF.Proofs.SqlCheckpointProofs
  LF.Proofs.ApplyHistoryProofs LF.Proofs.OpenProofs LF.Proofs.ComposeProofs LF.Proofs.FollowProofs LF.Proofs.FollowWalProofs
  LF.Proofs.FollowGProofs LF.Proofs.ExportProofs.
Import ListNotations.
Local Open Scope N_scope.

(* the pages of a snapshot: what readPage returns for every page of the database but the lock page *)
Fixpoint snap_pages (s : st) (p : N) (n : nat) : list (N * pg) :=
  match n with
  | O => []
  | S n' => (match read_page s p with Some q => if p =? lockpg s then [] else [(p, q)] | None => [] end) ++ snap_pages s (p + 1) n'
  end.
Definition snapshot_file (s : st) : ltxrec :=
  mkLtx 1 (txid s) 0 (chk s) (pageN s) (snap_pages s 1 (N.to_nat (pageN s))).

Lemma alookup_app {A} x (l1 l2 : list (N * A)) :
  alookup x (l1 ++ l2) = match alookup x l1 with Some q => Some q | None => alookup x l2 end.
Proof. induction l1 as [|[k v] l1 IH]; cbn [app alookup]; [reflexivity|]. destruct (x =? k); [reflexivity|exact IH]. Qed.

Lemma snap_lookup s : forall n a x, alookup x (snap_pages s a n) =
  if (a <=? x) && (x <? a + N.of_nat n) && negb (x =? lockpg s) then read_page s x else None.
Proof.
  induction n as [|n IH]; intros a x; cbn [snap_pages alookup].
  - destruct (N.leb_spec a x), (N.ltb_spec x (a + N.of_nat 0)); cbn [andb]; try reflexivity. lia.
  - rewrite alookup_app, IH.
    destruct (N.eq_dec x a) as [->|Hne].
    + destruct (N.leb_spec a a); [|lia]. destruct (N.ltb_spec a (a + N.of_nat (S n))); [|lia]. cbn [andb].
      destruct (N.leb_spec (a + 1) a); [lia|]. cbn [andb].
      destruct (read_page s a) as [q|]; [|destruct (negb (a =? lockpg s)); reflexivity].
      destruct (a =? lockpg s); cbn [alookup negb]; [reflexivity|]. rewrite N.eqb_refl. reflexivity.
    + assert (alookup x (match read_page s a with Some q => if a =? lockpg s then [] else [(a, q)] | None => [] end) = None) as ->.
      { destruct (read_page s a); [|reflexivity]. destruct (a =? lockpg s); [reflexivity|]. cbn [alookup]. destruct (N.eqb_spec x a); [contradiction|reflexivity]. }
      destruct (N.leb_spec a x), (N.leb_spec (a + 1) x), (N.ltb_spec x (a + 1 + N.of_nat n)), (N.ltb_spec x (a + N.of_nat (S n))); try lia; reflexivity.
Qed.

Lemma snap_keys_range s : forall n a k, In k (map fst (snap_pages s a n)) -> a <= k < a + N.of_nat n.
Proof.
  induction n as [|n IH]; intros a k Hin; cbn [snap_pages map] in Hin; [destruct Hin|].
  rewrite map_app, in_app_iff in Hin. destruct Hin as [Hin|Hin].
  - destruct (read_page s a); [|destruct Hin]. destruct (a =? lockpg s); [destruct Hin|]. destruct Hin as [<-|[]]. cbn [fst]. lia.
  - apply IH in Hin. lia.
Qed.
Lemma snap_keys_nodup s : forall n a, KeysNoDup (snap_pages s a n).
Proof.
  unfold KeysNoDup. induction n as [|n IH]; intros a; cbn [snap_pages map]; [constructor|].
  rewrite map_app. destruct (read_page s a) as [q|]; [|apply IH]. destruct (a =? lockpg s); [apply IH|].
  cbn [map app fst]. constructor; [|apply IH]. intros Hin. apply snap_keys_range in Hin. lia.
Qed.

(* what readPage returns is the logical page *)
Lemma read_page_lpage s : LatestEq s -> forall x, match read_page s x with Some q => q | None => zero_pg end = lpage s x.
Proof.
  intros HL x. unfold read_page, lpage. rewrite HL. destruct (alookup x (wpages s)); [reflexivity|].
  unfold fpg, pg_at, file_pg. reflexivity.
Qed.

(* the late joiner *)
Theorem snapshot_joiner sP sR : LatestEq sP -> 1 <= lockpg sP ->
  op_receive (init (lockpg sP)) (snapshot_file sP) = (Done, sR) -> SimW sP sR.
Proof.
  intros HL Hlk H. set (f := snapshot_file sP) in *. unfold op_receive in H.
  assert (is_snapshot f = true) as Hs by reflexivity. rewrite Hs in H. cbn [negb andb] in H.
  destruct (apply_done _ f true sR H) as [At [Ac [Ap _]]]. pose proof (apply_lockpg _ f true sR H) as Al. cbn [lockpg with_dir init] in Al.
  cbn [l_max l_post l_commit f snapshot_file] in At, Ac, Ap.
  constructor; try assumption.
  intros x Hx Hnl.
  assert (Hwf : wf_ltx f).
  { split; cbn [l_pages f snapshot_file].
    - intros p q Hin. assert (In p (map fst (snap_pages sP 1 (N.to_nat (pageN sP))))) as Hk by (apply in_map_iff; exists (p, q); auto).
      apply snap_keys_range in Hk. lia.
    - apply snap_keys_nodup. }
  assert (l_commit f <> 0) as Hc0 by (cbn [l_commit f snapshot_file]; lia).
  rewrite (apply_fpg _ f true sR H Hwf Hc0 x ltac:(cbn [l_commit f snapshot_file]; exact Hx)).
  cbn [l_pages f snapshot_file]. rewrite snap_lookup.
  destruct (N.leb_spec 1 x); [|lia]. destruct (N.ltb_spec x (1 + N.of_nat (N.to_nat (pageN sP)))); [|lia].
  destruct (N.eqb_spec x (lockpg sP)); [contradiction|]. cbn [andb negb].
  rewrite <- (read_page_lpage sP HL x). destruct (read_page sP x); [reflexivity|].
  unfold fpg, pg_at. cbn [dbfile with_dir init]. destruct (N.to_nat (x - 1)); reflexivity.
Qed.

(* for every history of the primary into and through WAL mode: a node that starts empty and applies a snapshot of the
   primary ends at the primary's position with the primary's logical database in its file *)
Theorem late_joiner_history lock hs zf acts c os s1 s2 s' v' sR :
  1 <= lock -> wf_hist (init lock) hs -> run_hsteps (init lock) hs = Some s1 ->
  wf_tx_any s1 zf acts -> run_group s1 (hops s1 (HTx zf acts c)) = (0, s2) -> wal_mode s2 = true ->
  wf_wops2 s2 os -> run_wops2 s2 (file_h s2) os = Some (s', v') ->
  op_receive (init lock) (snapshot_file s') = (Done, sR) ->
  txid sR = txid s' /\ chk sR = chk s' /\ pageN sR = pageN s' /\
  (forall p, 1 <= p <= pageN s' -> p <> lock -> fpg sR p = lpage s' p).
Proof.
  intros Hl Hwf H1 Hsw H2 Hm Hww H3 HR.
  destruct (journal_history_invariant hs (init lock) s1 (j_init lock Hl) Hwf H1) as [HJ El1].
  change (lockpg (init lock)) with lock in El1.
  pose proof (run_hsteps_wal_file hs (init lock) s1 H1) as Hf1. change (wal_file (init lock)) with (@nil (N * pg * N)) in Hf1.
  pose proof (run_group_wal_file _ s1 s2 (hops_jops s1 (HTx zf acts c)) H2) as Hf2. rewrite Hf1 in Hf2.
  pose proof (run_hsteps_latest hs (init lock) s1 H1) as Hl1. change (wal_latest (init lock)) with (@nil (N * pg)) in Hl1.
  pose proof (run_group_latest _ s1 s2 (hops_jops s1 (HTx zf acts c)) H2) as Hl2. rewrite Hl1 in Hl2.
  destruct (tx_step_any s1 zf acts c s2 HJ Hsw H2 Hm) as [HB [Hk [Et [_ El2]]]].
  assert (WL s2 (file_h s2)) as HW by (apply wl_entry; [assumption|assumption|assumption|lia]).
  pose proof (wk_entry s2 HB Hf2 Hk) as HK.
  assert (LatestEq s2) as HL2 by (intros p; rewrite Hl2, (wpages_nil_of_file s2 Hf2); reflexivity).
  destruct (latest_history_invariant os s2 (file_h s2) s' v' HW HK HL2 Hww H3) as [_ [_ [HL' El']]].
  assert (lockpg s' = lock) as El by congruence.
  rewrite <- El in HR. destruct (snapshot_joiner s' sR HL' ltac:(rewrite El; exact Hl) HR) as [A B C D E].
  rewrite El in E. auto.
Qed.

(* a concrete history that meets the hypotheses (the non-vacuity example of Props/C01.v): the primary's file is behind its log
   when the snapshot is taken *)
Lemma late_joiner_example :
  let pg h := mkPg (fl h) 0 false in
  let pw h := mkPg (fl h) 0 true in
  let hs := [HTx [] [AWrite 1 (pg 11); AWrite 2 (pg 12)] 2] in
  let sw := [AWrite 1 (pw 13)] in
  let os := [W2Commit [(2, pw 22); (3, pw 33); (2, pw 23)] 3; W2BackfillOld 2 (pw 22); W2Commit [(1, pw 14)] 2; W2Checkpoint;
             W2Commit [(3, pw 35); (1, pw 15)] 3] in
  exists s1 s2,
    wf_hist (init 2097153) hs /\ run_hsteps (init 2097153) hs = Some s1 /\
    wf_tx_any s1 [] sw /\ run_group s1 (hops s1 (HTx [] sw 2)) = (0, s2) /\ wal_mode s2 = true /\
    wf_wops2 s2 os /\
    match run_wops2 s2 (file_h s2) os with
    | Some (s', v') =>
        match op_receive (init 2097153) (snapshot_file s') with
        | (Done, sR) => (txid sR, pageN sR, chk sR =? chk s', map (fpg sR) [1; 2; 3], map (fpg s') [1; 2; 3])
                        = (5, 3, true, [pw 15; pw 23; pw 35], [pw 14; pw 23; zero_pg])
        | _ => False
        end
    | None => False
    end.
Proof.
  cbn zeta. destruct export_example as [s1 [s2 [A [B [C [D [E [F _]]]]]]]].
  exists s1, s2. repeat (split; [assumption|]).
  (* the states are the ones export_example computed; recompute them here *)
  revert B D. cbn zeta. intros B D.
  vm_compute in B. inversion B; subst s1. clear B. vm_compute in D. inversion D; subst s2. clear D.
  vm_compute. reflexivity.
Qed.

(* ... and a node in ANY state - behind, ahead, diverged - that is sent a snapshot (it replaces its log and is applied over
   whatever it holds): provided the primary can read every page of its database, the node ends with the primary's logical
   database whatever it held before *)
Theorem snapshot_over_anything sP sR0 sR : LatestEq sP -> lockpg sR0 = lockpg sP ->
  (forall x, 1 <= x <= pageN sP -> x <> lockpg sP -> read_page sP x <> None) ->
  op_receive sR0 (snapshot_file sP) = (Done, sR) -> SimW sP sR.
Proof.
  intros HL Hlk Hall H. set (f := snapshot_file sP) in *. unfold op_receive in H.
  assert (is_snapshot f = true) as Hs by reflexivity. rewrite Hs in H. cbn [negb andb] in H.
  destruct (apply_done _ f true sR H) as [At [Ac [Ap _]]]. pose proof (apply_lockpg _ f true sR H) as Al. cbn [lockpg with_dir] in Al.
  cbn [l_max l_post l_commit f snapshot_file] in At, Ac, Ap.
  constructor; try congruence.
  intros x Hx Hnl.
  assert (Hwf : wf_ltx f).
  { split; cbn [l_pages f snapshot_file].
    - intros p q Hin. assert (In p (map fst (snap_pages sP 1 (N.to_nat (pageN sP))))) as Hk by (apply in_map_iff; exists (p, q); auto).
      apply snap_keys_range in Hk. lia.
    - apply snap_keys_nodup. }
  assert (l_commit f <> 0) as Hc0 by (cbn [l_commit f snapshot_file]; lia).
  rewrite (apply_fpg _ f true sR H Hwf Hc0 x ltac:(cbn [l_commit f snapshot_file]; exact Hx)).
  cbn [l_pages f snapshot_file]. rewrite snap_lookup.
  destruct (N.leb_spec 1 x); [|lia]. destruct (N.ltb_spec x (1 + N.of_nat (N.to_nat (pageN sP)))); [|lia].
  destruct (N.eqb_spec x (lockpg sP)); [contradiction|]. cbn [andb negb].
  rewrite <- (read_page_lpage sP HL x). specialize (Hall x Hx Hnl). destruct (read_page sP x); [reflexivity|contradiction].
Qed.

Theorem resnapshot_history lock hs zf acts c os s1 s2 s' v' sR0 sR :
  1 <= lock -> wf_hist (init lock) hs -> run_hsteps (init lock) hs = Some s1 ->
  wf_tx_any s1 zf acts -> run_group s1 (hops s1 (HTx zf acts c)) = (0, s2) -> wal_mode s2 = true ->
  wf_wops2 s2 os -> run_wops2 s2 (file_h s2) os = Some (s', v') ->
  lockpg sR0 = lock -> (forall x, 1 <= x <= pageN s' -> x <> lock -> read_page s' x <> None) ->
  op_receive sR0 (snapshot_file s') = (Done, sR) ->
  txid sR = txid s' /\ chk sR = chk s' /\ pageN sR = pageN s' /\
  (forall p, 1 <= p <= pageN s' -> p <> lock -> fpg sR p = lpage s' p).
Proof.
  intros Hl Hwf H1 Hsw H2 Hm Hww H3 Hlk Hall HR.
  destruct (journal_history_invariant hs (init lock) s1 (j_init lock Hl) Hwf H1) as [HJ El1].
  change (lockpg (init lock)) with lock in El1.
  pose proof (run_hsteps_wal_file hs (init lock) s1 H1) as Hf1. change (wal_file (init lock)) with (@nil (N * pg * N)) in Hf1.
  pose proof (run_group_wal_file _ s1 s2 (hops_jops s1 (HTx zf acts c)) H2) as Hf2. rewrite Hf1 in Hf2.
  pose proof (run_hsteps_latest hs (init lock) s1 H1) as Hl1. change (wal_latest (init lock)) with (@nil (N * pg)) in Hl1.
  pose proof (run_group_latest _ s1 s2 (hops_jops s1 (HTx zf acts c)) H2) as Hl2. rewrite Hl1 in Hl2.
  destruct (tx_step_any s1 zf acts c s2 HJ Hsw H2 Hm) as [HB [Hk [Et [_ El2]]]].
  assert (WL s2 (file_h s2)) as HW by (apply wl_entry; [assumption|assumption|assumption|lia]).
  pose proof (wk_entry s2 HB Hf2 Hk) as HK.
  assert (LatestEq s2) as HL2 by (intros p; rewrite Hl2, (wpages_nil_of_file s2 Hf2); reflexivity).
  destruct (latest_history_invariant os s2 (file_h s2) s' v' HW HK HL2 Hww H3) as [_ [_ [HL' El']]].
  assert (lockpg s' = lock) as El by congruence.
  destruct (snapshot_over_anything s' sR0 sR HL' ltac:(congruence) ltac:(rewrite El; exact Hall) HR) as [A B C D E].
  rewrite El in E. auto.
Qed.

(* a concrete case (the non-vacuity example of Props/C01.v): the node that is sent the snapshot holds an older database - the
   primary's state before it switched to WAL mode *)
Lemma resnapshot_example :
  let pg h := mkPg (fl h) 0 false in
  let pw h := mkPg (fl h) 0 true in
  let hs := [HTx [] [AWrite 1 (pg 11); AWrite 2 (pg 12)] 2] in
  let sw := [AWrite 1 (pw 13)] in
  let os := [W2Commit [(2, pw 22); (3, pw 33); (2, pw 23)] 3; W2BackfillOld 2 (pw 22); W2Commit [(1, pw 14)] 2; W2Checkpoint;
             W2Commit [(3, pw 35); (1, pw 15)] 3] in
  exists s1 s2,
    wf_hist (init 2097153) hs /\ run_hsteps (init 2097153) hs = Some s1 /\
    wf_tx_any s1 [] sw /\ run_group s1 (hops s1 (HTx [] sw 2)) = (0, s2) /\ wal_mode s2 = true /\
    wf_wops2 s2 os /\
    match run_wops2 s2 (file_h s2) os with
    | Some (s', v') =>
        (forall x, 1 <= x <= pageN s' -> x <> 2097153 -> read_page s' x <> None) /\
        match op_receive s1 (snapshot_file s') with
        | (Done, sR) => (txid s1, txid sR, pageN sR, chk sR =? chk s', map (fpg sR) [1; 2; 3], length (ltxdir sR))
                        = (1, 5, 3, true, [pw 15; pw 23; pw 35], 1%nat)
        | _ => False
        end
    | None => False
    end.
Proof.
  cbn zeta. destruct export_example as [s1 [s2 [A [B [C [D [E [F _]]]]]]]].
  exists s1, s2. repeat (split; [assumption|]).
  revert B D. cbn zeta. intros B D.
  vm_compute in B. inversion B; subst s1. clear B. vm_compute in D. inversion D; subst s2. clear D.
  match goal with |- match ?r with _ => _ end => let r' := eval vm_compute in r in change r with r' end.
  cbv beta iota. split; [|vm_compute; reflexivity].
  cbn [pageN]. intros x Hx _. assert (x = 1 \/ x = 2 \/ x = 3) as [->|[->| ->]] by lia; vm_compute; discriminate.
Qed.
