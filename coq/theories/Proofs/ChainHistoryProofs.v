(* C09 over histories: the chain invariant along every history of C04_history's steps (transactions in both journal
   modes, the mode switches, checkpoints of every kind, restarts, files from the stream and forwarded files - applied or
   refused -, drops, imports) with retention sweeps between any two of them.  No well-formedness premise on the steps: the
   chain is a property of the log alone. *)
From Coq Require Import NArith List Lia ZifyN ZifyNat ZifyBool Bool Arith.
Require Import LF.Gen.ConstsGen LF.Model.PageDB LF.Proofs.XorLib LF.Proofs.ChecksumProofs LF.Proofs.CaptureProofs
  LF.Proofs.ChainProofs LF.Proofs.HistoryProofs LF.Proofs.WalHistoryProofs LF.Proofs.WalCheckpointProofs
  LF.Proofs.SqlCheckpointProofs LF.Proofs.ApplyHistoryProofs LF.Proofs.OpenProofs LF.Proofs.ComposeProofs.
Import ListNotations.
Local Open Scope N_scope.

(* an operation other than a retention sweep has no side condition *)
Definition nret (o : op) : Prop := match o with ORetention _ _ _ => False | _ => True end.
Lemma nret_ok s o : nret o -> ok_op s o.
Proof. destruct o; cbn [nret ok_op]; try exact (fun _ => I). contradiction. Qed.
Lemma jop_nret o : jop o -> nret o.
Proof. destruct o; cbn [jop nret]; auto. Qed.

Lemma run_group_chain : forall ops s s', Chain s -> Forall nret ops -> run_group s ops = (0, s') -> Chain s'.
Proof.
  induction ops as [|o r IH]; intros s s' HC Hn H; cbn [run_group] in H; [inversion H; subst; exact HC|].
  inversion Hn as [|? ? Ho Hr]; subst. destruct (step s o) as [oc s1] eqn:E.
  destruct oc; cbn [ocode] in H; try (inversion H; fail).
  apply (IH s1 s'); [|exact Hr|exact H]. apply (chain_step s o s1 HC (nret_ok s o Ho) E).
Qed.

Lemma wr_ops_nret l : Forall nret (wr_ops l).
Proof. unfold wr_ops. apply Forall_forall. intros o Hin. apply in_map_iff in Hin. destruct Hin as [kv [E _]]. subst o. exact I. Qed.
Lemma hops_nret s h : Forall nret (hops s h).
Proof. eapply Forall_impl; [|apply hops_jops]. exact jop_nret. Qed.
Lemma wop2_ops_nret s o : Forall nret (wop2_ops s o).
Proof.
  destruct o; cbn [wop2_ops].
  - repeat constructor.
  - repeat constructor.
  - destruct (alookup p (wpages s)); repeat constructor.
  - repeat constructor.
  - unfold sql_ckpt_ops. apply Forall_app. split; [apply wr_ops_nret|repeat constructor].
Qed.
Lemma leave_ops_nret q c : Forall nret (leave_ops q c).
Proof. unfold leave_ops. repeat constructor. Qed.

(* a file that is not applied leaves the node as it was: applying is fatal (the process exits), a refusal is not *)
Lemma apply_fatal_not_failed s f s' : op_apply s f true <> (Failed, s').
Proof.
  unfold op_apply. destruct (l_commit f =? 0);
  match goal with |- context [checksum ?a ?b ?c] => destruct (checksum a b c) as [[c0|] s4] end;
  try (destruct (c0 =? l_post f)); discriminate.
Qed.
Lemma receive_failed_same s f s' : op_receive s f = (Failed, s') -> s' = s.
Proof.
  unfold op_receive. destruct (negb (is_snapshot f) && negb (extends_pos s f)); intros H; [inversion H; reflexivity|].
  exfalso. exact (apply_fatal_not_failed _ _ _ H).
Qed.
Lemma forward_failed_same s f ok s' : op_forward s f ok = (Failed, s') -> s' = s.
Proof.
  unfold op_forward. destruct (negb (extends_pos s f)); intros H; [inversion H; reflexivity|].
  destruct (negb ok); [inversion H; reflexivity|]. exfalso. exact (apply_fatal_not_failed _ _ _ H).
Qed.
Lemma forward_done_receive s f ok s' : op_forward s f ok = (Done, s') -> op_receive s f = (Done, s').
Proof.
  unfold op_forward, op_receive. destruct (extends_pos s f); cbn [negb]; [|discriminate].
  destruct ok; cbn [negb]; [|discriminate]. rewrite andb_false_r. exact (fun H => H).
Qed.

Lemma g_chain_step s g s' : Chain s -> grun s g = Some s' -> Chain s'.
Proof.
  intros HC H. destruct g as [h|zf acts c|o|q c| |f|f ok| |pages commit]; cbn [grun] in H.
  - destruct (run_group s (hops s h)) as [code s1] eqn:E. destruct code; [|discriminate]. inversion H; subst s1.
    exact (run_group_chain _ s s' HC (hops_nret s h) E).
  - destruct (run_group s (hops s (HTx zf acts c))) as [code s1] eqn:E. destruct code; [|discriminate]. inversion H; subst s1.
    exact (run_group_chain _ s s' HC (hops_nret s _) E).
  - destruct (run_group s (wop2_ops s o)) as [code s1] eqn:E. destruct code; [|discriminate]. inversion H; subst s1.
    exact (run_group_chain _ s s' HC (wop2_ops_nret s o) E).
  - destruct (run_group s (leave_ops q c)) as [code s1] eqn:E. destruct code; [|discriminate]. inversion H; subst s1.
    exact (run_group_chain _ s s' HC (leave_ops_nret q c) E).
  - destruct (op_open s) as [oc s1] eqn:E. destruct oc; try discriminate. inversion H; subst s1.
    apply (chain_step s OOpen s' HC I). exact E.
  - destruct (op_receive s f) as [oc s1] eqn:E. destruct oc; try discriminate; inversion H; subst s1.
    + apply (chain_step s (OReceive f) s' HC I). exact E.
    + rewrite (receive_failed_same s f s' E). exact HC.
  - destruct (op_forward s f ok) as [oc s1] eqn:E. destruct oc; try discriminate; inversion H; subst s1.
    + apply (chain_step s (OReceive f) s' HC I). cbn [step]. exact (forward_done_receive s f ok s' E).
    + rewrite (forward_failed_same s f ok s' E). exact HC.
  - destruct (op_drop s) as [oc s1] eqn:E. destruct oc; try discriminate. inversion H; subst s1.
    apply (chain_step s ODrop s' HC I). exact E.
  - destruct (op_import s pages commit true) as [oc s1] eqn:E. destruct oc; try discriminate. inversion H; subst s1.
    apply (chain_step s (OImport pages commit true) s' HC I). exact E.
Qed.

(* histories: the steps of C04_history with retention sweeps (any ages, with or without a backup service, any high-water
   mark) at any point between them *)
Inductive cstep :=
| CG (g : gstep)
| CSweep (ages : list bool) (backup : bool) (hwm : N).
Definition crun (s : st) (c : cstep) : option st :=
  match c with
  | CG g => grun s g
  | CSweep ages backup hwm => match step s (ORetention ages backup hwm) with (Done, s') => Some s' | _ => None end
  end.
(* a sweep's ages do not decrease with the transaction id (files are written in order) *)
Definition cok (s : st) (c : cstep) : Prop :=
  match c with CG _ => True | CSweep ages backup hwm => ok_op s (ORetention ages backup hwm) end.
Fixpoint run_csteps (s : st) (cs : list cstep) : option st :=
  match cs with
  | [] => Some s
  | c :: r => match crun s c with Some s' => run_csteps s' r | None => None end
  end.
Fixpoint ok_csteps (s : st) (cs : list cstep) : Prop :=
  match cs with
  | [] => True
  | c :: r => cok s c /\ forall s', crun s c = Some s' -> ok_csteps s' r
  end.

Lemma c_chain_step s c s' : Chain s -> cok s c -> crun s c = Some s' -> Chain s'.
Proof.
  intros HC Hok H. destruct c as [g|ages backup hwm]; cbn [crun cok] in *.
  - exact (g_chain_step s g s' HC H).
  - destruct (step s (ORetention ages backup hwm)) as [oc s1] eqn:E. destruct oc; try discriminate. inversion H; subst s1.
    exact (chain_step s _ s' HC Hok E).
Qed.

Theorem c_history_chain lock cs s' :
  ok_csteps (init lock) cs -> run_csteps (init lock) cs = Some s' -> Chain s'.
Proof.
  generalize (chain_init lock). generalize (init lock). intros s0 HC. revert s0 HC.
  induction cs as [|c r IH]; intros s0 HC Hok H; cbn [run_csteps ok_csteps] in *.
  - inversion H; subst. exact HC.
  - destruct Hok as [Hc Hr]. destruct (crun s0 c) as [s1|] eqn:E; [|discriminate].
    apply (IH s1); [exact (c_chain_step s0 c s1 HC Hc E)|exact (Hr s1 eq_refl)|exact H].
Qed.

(* without sweeps no premise is left *)
Theorem g_history_chain lock gs s' v' : run_gsteps (init lock) (fun _ => 0) gs = Some (s', v') -> Chain s'.
Proof.
  generalize (chain_init lock). generalize (init lock). generalize (fun _ : N => 0). intros v0 s0 HC. revert v0 s0 HC.
  induction gs as [|g r IH]; intros v0 s0 HC H; cbn [run_gsteps] in *.
  - inversion H; subst. exact HC.
  - destruct (grun s0 g) as [s1|] eqn:E; [|discriminate].
    apply (IH (gview s0 s1 g v0) s1); [exact (g_chain_step s0 g s1 HC E)|exact H].
Qed.

(* a decidable form of the sweeps' side condition, for concrete histories *)
Fixpoint pcb (rem : ltxrec -> bool) (d : list ltxrec) : bool :=
  match d with
  | [] => true
  | f :: r => if rem f then pcb rem r else forallb (fun g => negb (rem g)) r
  end.
Lemma pcb_sound rem : forall d, pcb rem d = true -> prefix_closed rem d.
Proof.
  induction d as [|x r IH]; intros H d1 f d2 E Hf g Hg.
  - destruct d1; discriminate.
  - cbn [pcb] in H. destruct d1 as [|y d1']; cbn [app] in E; inversion E; subst.
    + rewrite Hf in H. rewrite forallb_forall in H. apply negb_true_iff. exact (H g Hg).
    + destruct (rem y) eqn:Ey.
      * exact (IH H d1' f d2 eq_refl Hf g Hg).
      * rewrite forallb_forall in H. apply negb_true_iff. apply H. apply in_or_app. right. right. exact Hg.
Qed.

Definition chain_example : list cstep :=
  let pg h n := mkPg (fl h) n false in
  let pw h n := mkPg (fl h) n true in
  [CG (GJ (HTx [] [AWrite 1 (pg 11 2); AWrite 2 (pg 12 0)] 2));
   CG (GJ (HTx [] [AWrite 2 (pg 13 0)] 2));
   CSweep [true; false] false 0;
   CG (GSwitch [] [AWrite 1 (pw 13 2)] 2);
   CG (GW (W2Commit [(2, pw 24 0)] 2));
   CSweep [true; true; true] true 4;
   CG GRestart;
   CG (GRecv (mkLtx 9 9 0 0 1 []));
   CG GDrop;
   CSweep [true; true] true 5;
   CG (GImport [(1, pg 41 2); (2, pg 42 0)] 2)].
Lemma chain_history_example :
  ok_csteps (init 2097153) chain_example /\
  match run_csteps (init 2097153) chain_example with
  | Some s => (txid s, map l_min (ltxdir s), map l_max (ltxdir s)) = (6, [5; 6], [5; 6])
  | None => False
  end.
Proof.
  split; [|vm_compute; reflexivity].
  unfold chain_example. cbn [ok_csteps cok].
  Ltac cnext := let s := fresh "s" in let E := fresh "E" in intros s E; vm_compute in E; inversion E; subst s; clear E.
  Ltac csweep := cbn [ok_op]; apply pcb_sound; vm_compute; reflexivity.
  split; [exact I|cnext]. split; [exact I|cnext]. split; [csweep|cnext].
  split; [exact I|cnext]. split; [exact I|cnext]. split; [csweep|cnext].
  split; [exact I|cnext]. split; [exact I|cnext]. split; [exact I|cnext].
  split; [csweep|cnext]. split; [exact I|cnext]. exact I.
Qed.

(* C15 over histories: after ANY history of the steps above, a drop that completes advances the position by exactly one with
   the empty checksum, leaves no database or log content, keeps the chain; a restart right after it reproduces that state;
   a database recreated under the name continues the numbering from the tombstone, chained to the empty checksum *)
Require Import LF.Proofs.DropProofs.
Theorem g_history_drop_lifecycle lock gs s v s1 :
  run_gsteps (init lock) (fun _ => 0) gs = Some (s, v) -> grun s GDrop = Some s1 ->
  txid s1 = txid s + 1 /\ chk s1 = flag /\ pageN s1 = 0 /\ dbfile s1 = [] /\ wal_file s1 = [] /\ wal_mode s1 = false /\ Chain s1 /\
  (exists s2, grun s1 GRestart = Some s2 /\ txid s2 = txid s1 /\ chk s2 = flag /\ pageN s2 = 0 /\ dbfile s2 = [] /\ ltxdir s2 = ltxdir s1) /\
  (forall commit s3, op_commit_journal s1 commit = (Done, s3) ->
     txid s3 = txid s + 2 /\ exists f, ltxdir s3 = ltxdir s1 ++ [f] /\ l_pre f = flag /\ l_min f = txid s + 2 /\ l_max f = txid s + 2).
Proof.
  intros Hrun Hd. pose proof (g_history_chain lock gs s v Hrun) as HC.
  pose proof (g_chain_step s GDrop s1 HC Hd) as HC1.
  cbn [grun] in Hd. destruct (op_drop s) as [oc sx] eqn:E. destruct oc; try discriminate. inversion Hd; subst sx. clear Hd.
  destruct (drop_exact s s1 E) as [f [_ [_ [_ [_ [_ [Ht [Hc [Hp [Hdb [Hwf Hwm]]]]]]]]]]].
  repeat (split; [assumption|]). split.
  - destruct (drop_survives_restart s s1 E) as [s2 [Ho [A [B [C [D F]]]]]]. exists s2. cbn [grun]. rewrite Ho. auto 10.
  - intros commit s3 H3. destruct (recreate_continues s1 commit s3 Hc H3) as [g [A [B [C [D F]]]]].
    split; [lia|]. exists g. repeat split; try assumption; lia.
Qed.

(* the log verifies the database: after every (well-formed) history the newest file ends at the node's position and its
   post-apply checksum is the from-scratch checksum of the logical database - what a replica checks a file against is the
   database itself, not a number carried along *)
Theorem g_history_newest_file lock gs s' v' f rest :
  1 <= lock -> wf_gsteps (init lock) gs -> run_gsteps (init lock) (fun _ => 0) gs = Some (s', v') ->
  rev (ltxdir s') = f :: rest ->
  l_max f = txid s' /\
  (wal_mode s' = false -> txid s' <> 0 -> l_post f = scratch (fun p => if p =? lock then 0 else file_h s' p) (pageN s')) /\
  (wal_mode s' = true -> l_post f = scratch (fun p => if p =? lock then 0 else v' p) (pageN s')).
Proof.
  intros Hl Hwf Hrun Hr.
  destruct (g_history_checksum lock gs s' v' Hl Hwf Hrun) as [_ [HJ HW]].
  destruct (g_history_chain lock gs s' v' Hrun) as [_ He]. unfold ends_at in He. rewrite Hr in He. destruct He as [A B].
  split; [exact A|]. split.
  - intros Hm Ht. rewrite B. exact (proj1 (HJ Hm) Ht).
  - intros Hm. rewrite B. exact (proj1 (HW Hm)).
Qed.
