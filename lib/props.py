# Per-property configuration of ./check.  One entry per claimed property.
TRUSTED_BASE_COMMON = [
    "Coq 8.16.1 kernel (coqc, full .vo builds; vm_compute used for decidable obligations and cases_*.v; native_compute not used)",
    "no axioms declared by the development (forbidden-token scan on every run); Print Assumptions of every property theorem is recorded in coverage.assumptions",
    "tools/go2coq (translator for the generated files under coq/theories/Gen) and the Go harness (generators, independent oracles, canonicalisation)",
    "cases_*.v correspondence: harness-printed Coq terms evaluated by the model's executable definitions inside Coq (no extraction)",
    "dependencies of litefs used but not modelled: github.com/superfly/ltx, bazil.org/fuse, net/http, Go runtime, Linux file system",
]

HOOK_COMMITS = []
NOT_APPLICABLE = {}

PROPS = {
    "C12": {
        "level_text": "Proof: the Gallina model generated from rwmutex.go on every run refines the POSIX reader/writer spec for every history and any number of owners "
                      "(Props/C12.v, 10 theorems, closed under the global context); the generated model is additionally re-executed on every edge of the exhaustive "
                      "4-owner state space explored on the real RWMutex. Full statement of the property; wall-clock latency of the polling variants exercised only.",
        "level_note": "Trusted: Coq kernel, translator go2coq (state-machine subset; wrappers checked structurally), sync.Mutex, harness. Modelled not verified: goroutine scheduling/latency of Lock(ctx).",
        "technique": "Coq proof (refinement by invariant over generated model) + translator + vm_compute correspondence",
        "gen": ["RWMutexGen.v"],
        "props_file": "Props/C12.v",
        "coq_targets": ["Props/C12.v"],
        "race": True,
        "rule": "exhaustive BFS over all op sequences of 4 owners on one real RWMutex until the state set closes (every (state,owner,op) edge distinct), "
                "plus random sequences of 1-16 owners (distinct by owners/length/last result), blocking Lock(ctx)/RLock(ctx) scenarios (distinct by mode/holder/cancel), "
                "plus 8 concurrent goroutines; non-trivial = executes at least one API call whose result is compared with the POSIX spec and with the generated Gallina model",
        "explanation": "Theorems (Props/C12.v) are about the Gallina model generated from rwmutex.go on this run, for unboundedly many owners and all histories; "
                       "the tie is the translator plus the re-execution of every explored edge by the model.",
        "assumes": ["sync.Mutex provides mutual exclusion for the bracketed workers (wrappers are checked structurally by the translator)",
                    "real-time latency of the polling variants is exercised, not proved"],
        "trusted_base": ["Gen/RWMutexGen.v is regenerated from /repo/rwmutex.go on every run; the exported wrappers are only checked structurally (C12_wrappers_as_expected)"],
    },
}
