# Per-property configuration of ./check.  One entry per claimed property.
TRUSTED_BASE_COMMON = [
    "Coq 8.16.1 kernel (coqc, full .vo builds; vm_compute used for decidable obligations and cases_*.v; native_compute not used)",
    "no axioms declared by the development (forbidden-token scan on every run); Print Assumptions of every property theorem is recorded in coverage.assumptions",
    "tools/go2coq (translator for the generated files under coq/theories/Gen) and the Go harness (generators, independent oracles, canonicalisation)",
    "cases_*.v correspondence: harness-printed Coq terms evaluated by the model's executable definitions inside Coq (no extraction)",
    "dependencies of litefs used but not modelled: github.com/superfly/ltx, bazil.org/fuse, net/http, Go runtime, Linux file system",
]

HOOK_COMMITS = ["061d000"]
NOT_APPLICABLE = {}

PROPS = {
    "C12": {
        "level_text": "Proof: the Gallina model generated from rwmutex.go on every run refines the POSIX reader/writer spec for every history and any number of owners "
                      "(Props/C12.v, 10 theorems, closed under the global context); the generated model is additionally re-executed on every edge of the exhaustive "
                      "4-owner state space explored on the real RWMutex. Full statement of the property; wall-clock latency of the polling variants exercised only.",
        "level_note": "Trusted: Coq kernel, translator go2coq (state-machine subset; wrappers checked structurally), sync.Mutex, harness. Modelled not verified: goroutine scheduling/latency of Lock(ctx).",
        "technique": "Coq proof (refinement by invariant over generated model) + translator + vm_compute correspondence",
        "gen": ["RWMutexGen.v"],
        "props_file": "Props/C12.v",
        "coq_targets": ["Props/C12.v"],
        "race": True,
        "rule": "exhaustive BFS over all op sequences of 4 owners on one real RWMutex until the state set closes (every (state,owner,op) edge distinct), "
                "plus random sequences of 1-16 owners (distinct by owners/length/last result), blocking Lock(ctx)/RLock(ctx) scenarios (distinct by mode/holder/cancel), "
                "plus 8 concurrent goroutines; non-trivial = executes at least one API call whose result is compared with the POSIX spec and with the generated Gallina model",
        "explanation": "Theorems (Props/C12.v) are about the Gallina model generated from rwmutex.go on this run, for unboundedly many owners and all histories; "
                       "the tie is the translator plus the re-execution of every explored edge by the model.",
        "assumes": ["sync.Mutex provides mutual exclusion for the bracketed workers (wrappers are checked structurally by the translator)",
                    "real-time latency of the polling variants is exercised, not proved"],
        "trusted_base": ["Gen/RWMutexGen.v is regenerated from /repo/rwmutex.go on every run; the exported wrappers are only checked structurally (C12_wrappers_as_expected)"],
    },
    "C18": {
        "gen": ["ConstsGen.v"],
        "props_file": "Props/C18.v",
        "coq_targets": ["Props/C18.v"],
        "level_text": "Proof: byte-level Gallina model of ReadStreamFrame/WriteStreamFrame (seven frame types), ReadPosMapFrom/WritePosMapTo, chunk.Reader/Writer and ReadFullAt; "
                      "round-trip for every value and every segmentation of the reader, exact error class for every proper prefix, soundness on arbitrary bytes (accepted input re-encodes to the consumed bytes), "
                      "allocation bound proportional to bytes received (Props/C18.v). The model is hand-written and tied to /repo by byte-exact differential execution of encoders and decoders on generated, prefix, mutated and random inputs.",
        "level_note": "Trusted: Coq kernel; harness generators/oracle; frame type codes and chunk constants are regenerated from the source (Gen/ConstsGen.v). Modelled not verified: the Go text of client.go/http.go/chunk.go (correspondence only); "
                      "allocation is measured on the real code in a subprocess (TotalAlloc), the model's meter is an abstraction of bytes.Buffer growth; hangs are excluded by structural recursion in the model and by time-outs on the code.",
        "technique": "Coq proof (round-trip/prefix/soundness by induction over field layouts and chunk lists) + vm_compute correspondence + subprocess allocation oracle",
        "rule": "frame values of all seven types with names of length 0,1,2,7,255,256,257,1000 (65535/65536/70001 in a stratum) and boundary integers; every proper prefix of every encoding (sampled beyond 64 bytes); bit-flip mutants; random byte strings; "
                "position maps of 0-200 entries with every prefix (sampled) and mutants; chunked bodies with write sizes around 0/1/65534/65535/65536/65537/131071 and every prefix near chunk boundaries; ReadFullAt over short-reading ReaderAt; "
                "8 hostile length-prefix inputs decoded in a subprocess. distinct = (kind, type, encoded length) classes; non-trivial = at least one decode or encode compared with the expected value/error class",
        "explanation": "Theorems quantify over all values, all segmentations and all prefixes; correspondence re-executes a sample of the very cases the harness ran on the real code.",
        "assumes": ["the reader passed to the decoders follows the io.Reader contract (segments modelled as a list, empty reads allowed)",
                    "memory: Go allocations other than the length-prefixed buffers are bounded by a constant per field"],
        "trusted_base": ["Model/Codec.v is hand-written; tie = cases_c18_*.v correspondence on every run"],
    },
    "C04": {
        "gen": ["ConstsGen.v"],
        "props_file": "Props/C04.v",
        "coq_targets": ["Props/C04.v"],
        "level_text": "Proof (core) + correspondence (composition): Gallina model of checksum(), the per-page/per-block checksum cache and its maintenance, CommitJournal, CommitWAL, checkpoint, apply, drop and Open (Model/PageDB.v). "
                      "Proved for every state and size: checksum() equals the from-scratch flag|XOR of the per-page checksums in effect; the checksums CommitJournal and CommitWAL report are that from-scratch value; drop reports the empty checksum. "
                      "The agreement of the cache with the bytes on disk along whole histories (Open, checkpoints, applies) is NOT proved: it is re-checked on every run by re-executing every generated history in the model (which must reproduce every reported position) and by recomputing the checksum from the raw database+WAL files with stdlib CRC64.",
        "level_note": "Trusted: Coq kernel; harness (pager simulator, independent raw-file reader, stdlib hash/crc64). Modelled not verified: db.go text (tie = correspondence of positions after every step); LTX encoding (ltx library). "
                      "Partial: history-level invariant (cache truthful w.r.t. disk) by correspondence only; lock-page databases (>= 1 GiB at 512-byte pages) not exercised in the quick tier.",
        "technique": "Coq proof of the block-cached XOR checksum (induction over blocks, invariant Pre) + vm_compute correspondence of whole histories + raw-file CRC64 oracle",
        "rule": "random histories (rollback commits in DELETE/TRUNCATE/PERSIST with commit/rollback-before-write/rollback-after-write/lock-only outcomes, switch to WAL, WAL transactions with repeated pages, split writes and aborted-then-overwritten frames, application checkpoints PASSIVE/FULL/RESTART/TRUNCATE, LiteFS checkpoints, close/reopen, drop and recreate) at page sizes 512/1024/4096 (2048/8192 thorough) with sizes around 1-12, 254-259 and 510-514 pages; "
                "distinct = (operation, size class of the image, journal mode) reached; non-trivial = a position whose checksum is compared with the value recomputed from the raw files",
        "explanation": "The theorem covers all sizes and block layouts at once; correspondence ties the model to db.go on the same histories.",
        "assumes": ["page contents collide only if their CRC64 values do (pages are represented by their checksum in the model)", "histories are pager-protocol conformant (every page up to the new size is written)"],
        "trusted_base": ["Model/PageDB.v is hand-written; tie = cases_c04_*.v (whole histories) on every run"],
    },
}
