# Per-property configuration of ./check.  One entry per claimed property.
TRUSTED_BASE_COMMON = [
    "Coq 8.16.1 kernel (coqc, full .vo builds; vm_compute used for decidable obligations and cases_*.v; native_compute not used)",
    "no axioms declared by the development (forbidden-token scan on every run); Print Assumptions of every property theorem is recorded in coverage.assumptions",
    "tools/go2coq (translator for the generated files under coq/theories/Gen) and the Go harness (generators, independent oracles, canonicalisation)",
    "cases_*.v correspondence: harness-printed Coq terms evaluated by the model's executable definitions inside Coq (no extraction)",
    "dependencies of litefs used but not modelled: github.com/superfly/ltx, bazil.org/fuse, net/http, Go runtime, Linux file system",
]

HOOK_COMMITS = ["061d000"]
NOT_APPLICABLE = {}

PROPS = {
    "C12": {
        "level_text": "Proof: the Gallina model generated from rwmutex.go on every run refines the POSIX reader/writer spec for every history and any number of owners "
                      "(Props/C12.v, 10 theorems, closed under the global context); the generated model is additionally re-executed on every edge of the exhaustive "
                      "4-owner state space explored on the real RWMutex. Full statement of the property; wall-clock latency of the polling variants exercised only.",
        "level_note": "Trusted: Coq kernel, translator go2coq (state-machine subset; wrappers checked structurally), sync.Mutex, harness. Modelled not verified: goroutine scheduling/latency of Lock(ctx).",
        "technique": "Coq proof (refinement by invariant over generated model) + translator + vm_compute correspondence",
        "gen": ["RWMutexGen.v"],
        "props_file": "Props/C12.v",
        "coq_targets": ["Props/C12.v"],
        "race": True,
        "rule": "exhaustive BFS over all op sequences of 4 owners on one real RWMutex until the state set closes (every (state,owner,op) edge distinct), "
                "plus random sequences of 1-16 owners (distinct by owners/length/last result), blocking Lock(ctx)/RLock(ctx) scenarios (distinct by mode/holder/cancel), "
                "plus 8 concurrent goroutines; non-trivial = executes at least one API call whose result is compared with the POSIX spec and with the generated Gallina model",
        "explanation": "Theorems (Props/C12.v) are about the Gallina model generated from rwmutex.go on this run, for unboundedly many owners and all histories; "
                       "the tie is the translator plus the re-execution of every explored edge by the model.",
        "assumes": ["sync.Mutex provides mutual exclusion for the bracketed workers (wrappers are checked structurally by the translator)",
                    "real-time latency of the polling variants is exercised, not proved"],
        "trusted_base": ["Gen/RWMutexGen.v is regenerated from /repo/rwmutex.go on every run; the exported wrappers are only checked structurally (C12_wrappers_as_expected)"],
    },
    "C18": {
        "gen": ["ConstsGen.v"],
        "props_file": "Props/C18.v",
        "coq_targets": ["Props/C18.v"],
        "level_text": "Proof: byte-level Gallina model of ReadStreamFrame/WriteStreamFrame (seven frame types), ReadPosMapFrom/WritePosMapTo, chunk.Reader/Writer and ReadFullAt; "
                      "round-trip for every value and every segmentation of the reader, exact error class for every proper prefix, soundness on arbitrary bytes (accepted input re-encodes to the consumed bytes), "
                      "allocation bound proportional to bytes received (Props/C18.v). The model is hand-written and tied to /repo by byte-exact differential execution of encoders and decoders on generated, prefix, mutated and random inputs.",
        "level_note": "Trusted: Coq kernel; harness generators/oracle; frame type codes and chunk constants are regenerated from the source (Gen/ConstsGen.v). Modelled not verified: the Go text of client.go/http.go/chunk.go (correspondence only); "
                      "allocation is measured on the real code in a subprocess (TotalAlloc), the model's meter is an abstraction of bytes.Buffer growth; hangs are excluded by structural recursion in the model and by time-outs on the code.",
        "technique": "Coq proof (round-trip/prefix/soundness by induction over field layouts and chunk lists) + vm_compute correspondence + subprocess allocation oracle",
        "rule": "frame values of all seven types with names of length 0,1,2,7,255,256,257,1000 (65535/65536/70001 in a stratum) and boundary integers; every proper prefix of every encoding (sampled beyond 64 bytes); bit-flip mutants; random byte strings; "
                "position maps of 0-200 entries with every prefix (sampled) and mutants; chunked bodies with write sizes around 0/1/65534/65535/65536/65537/131071 and every prefix near chunk boundaries; ReadFullAt over short-reading ReaderAt; "
                "8 hostile length-prefix inputs decoded in a subprocess. distinct = (kind, type, encoded length) classes; non-trivial = at least one decode or encode compared with the expected value/error class",
        "explanation": "Theorems quantify over all values, all segmentations and all prefixes; correspondence re-executes a sample of the very cases the harness ran on the real code.",
        "assumes": ["the reader passed to the decoders follows the io.Reader contract (segments modelled as a list, empty reads allowed)",
                    "memory: Go allocations other than the length-prefixed buffers are bounded by a constant per field"],
        "trusted_base": ["Model/Codec.v is hand-written; tie = cases_c18_*.v correspondence on every run"],
    },
}
