# Per-property configuration of ./check.  One entry per claimed property.
TRUSTED_BASE_COMMON = [
    "Coq 8.16.1 kernel (coqc, full .vo builds; vm_compute used for decidable obligations and cases_*.v; native_compute not used)",
    "no axioms declared by the development (forbidden-token scan on every run); Print Assumptions of every property theorem is recorded in coverage.assumptions",
    "tools/go2coq (translator for the generated files under coq/theories/Gen) and the Go harness (generators, independent oracles, canonicalisation)",
    "cases_*.v correspondence: harness-printed Coq terms evaluated by the model's executable definitions inside Coq (no extraction)",
    "dependencies of litefs used but not modelled: github.com/superfly/ltx, bazil.org/fuse, net/http, Go runtime, Linux file system",
]

HOOK_COMMITS = ["061d000", "665010a", "bf0afb2", "cbb69bc", "4e51f8d"]
NOT_APPLICABLE = {}

PROPS = {
    "C12": {
        "level_text": "Proof: the Gallina model generated from rwmutex.go on every run refines the POSIX reader/writer spec for every history and any number of owners "
                      "(Props/C12.v, 10 theorems, closed under the global context); the generated model is additionally re-executed on every edge of the exhaustive "
                      "4-owner state space explored on the real RWMutex. Full statement of the property; wall-clock latency of the polling variants exercised only.",
        "level_note": "Trusted: Coq kernel, translator go2coq (state-machine subset; wrappers checked structurally), sync.Mutex, harness. Modelled not verified: goroutine scheduling/latency of Lock(ctx).",
        "technique": "Coq proof (refinement by invariant over generated model) + translator + vm_compute correspondence",
        "gen": ["RWMutexGen.v"],
        "props_file": "Props/C12.v",
        "coq_targets": ["Props/C12.v"],
        "race": True,
        "rule": "exhaustive BFS over all op sequences of 4 owners on one real RWMutex until the state set closes (every (state,owner,op) edge distinct), "
                "plus random sequences of 1-16 owners (distinct by owners/length/last result), blocking Lock(ctx)/RLock(ctx) scenarios (distinct by mode/holder/cancel), "
                "plus 8 concurrent goroutines; non-trivial = executes at least one API call whose result is compared with the POSIX spec and with the generated Gallina model",
        "explanation": "Theorems (Props/C12.v) are about the Gallina model generated from rwmutex.go on this run, for unboundedly many owners and all histories; "
                       "the tie is the translator plus the re-execution of every explored edge by the model.",
        "assumes": ["sync.Mutex provides mutual exclusion for the bracketed workers (wrappers are checked structurally by the translator)",
                    "real-time latency of the polling variants is exercised, not proved"],
        "trusted_base": ["Gen/RWMutexGen.v is regenerated from /repo/rwmutex.go on every run; the exported wrappers are only checked structurally (C12_wrappers_as_expected)"],
    },
    "C18": {
        "gen": ["ConstsGen.v"],
        "props_file": "Props/C18.v",
        "coq_targets": ["Props/C18.v"],
        "level_text": "Proof: byte-level Gallina model of ReadStreamFrame/WriteStreamFrame (seven frame types), ReadPosMapFrom/WritePosMapTo, chunk.Reader/Writer and ReadFullAt; "
                      "round-trip for every value and every segmentation of the reader, exact error class for every proper prefix, soundness on arbitrary bytes (accepted input re-encodes to the consumed bytes), "
                      "allocation bound proportional to bytes received (Props/C18.v). The model is hand-written and tied to /repo by byte-exact differential execution of encoders and decoders on generated, prefix, mutated and random inputs.",
        "level_note": "Trusted: Coq kernel; harness generators/oracle; frame type codes and chunk constants are regenerated from the source (Gen/ConstsGen.v). Modelled not verified: the Go text of client.go/http.go/chunk.go (correspondence only); "
                      "allocation is measured on the real code in a subprocess (TotalAlloc), the model's meter is an abstraction of bytes.Buffer growth; hangs are excluded by structural recursion in the model and by time-outs on the code.",
        "technique": "Coq proof (round-trip/prefix/soundness by induction over field layouts and chunk lists) + vm_compute correspondence + subprocess allocation oracle",
        "rule": "frame values of all seven types with names of length 0,1,2,7,255,256,257,1000 (65535/65536/70001 in a stratum) and boundary integers; every proper prefix of every encoding (sampled beyond 64 bytes); bit-flip mutants; random byte strings; "
                "position maps of 0-200 entries with every prefix (sampled) and mutants; chunked bodies with write sizes around 0/1/65534/65535/65536/65537/131071 and every prefix near chunk boundaries; ReadFullAt over short-reading ReaderAt; "
                "8 hostile length-prefix inputs decoded in a subprocess. distinct = (kind, type, encoded length) classes; non-trivial = at least one decode or encode compared with the expected value/error class",
        "explanation": "Theorems quantify over all values, all segmentations and all prefixes; correspondence re-executes a sample of the very cases the harness ran on the real code.",
        "assumes": ["the reader passed to the decoders follows the io.Reader contract (segments modelled as a list, empty reads allowed)",
                    "memory: Go allocations other than the length-prefixed buffers are bounded by a constant per field"],
        "trusted_base": ["Model/Codec.v is hand-written; tie = cases_c18_*.v correspondence on every run"],
    },
    "C04": {
        "gen": ["ConstsGen.v"],
        "props_file": "Props/C04.v",
        "coq_targets": ["Props/C04.v"],
        "level_text": "Proof (core) + correspondence (composition): Gallina model of checksum(), the per-page/per-block checksum cache and its maintenance, CommitJournal, CommitWAL, checkpoint, apply, drop and Open (Model/PageDB.v). "
                      "Proved for every state and size: checksum() equals the from-scratch flag|XOR of the per-page checksums in effect; the checksums CommitJournal and CommitWAL report are that from-scratch value; drop reports the empty checksum. "
                      "The agreement of the cache with the bytes on disk along whole histories (Open, checkpoints, applies) is NOT proved: it is re-checked on every run by re-executing every generated history in the model (which must reproduce every reported position) and by recomputing the checksum from the raw database+WAL files with stdlib CRC64.",
        "level_note": "Trusted: Coq kernel; harness (pager simulator, independent raw-file reader, stdlib hash/crc64). Modelled not verified: db.go text (tie = correspondence of positions after every step); LTX encoding (ltx library). "
                      "Partial: history-level invariant (cache truthful w.r.t. disk) by correspondence only; lock-page databases (>= 1 GiB at 512-byte pages) not exercised in the quick tier.",
        "technique": "Coq proof of the block-cached XOR checksum (induction over blocks, invariant Pre) + vm_compute correspondence of whole histories + raw-file CRC64 oracle",
        "rule": "random histories (rollback commits in DELETE/TRUNCATE/PERSIST with commit/rollback-before-write/rollback-after-write/lock-only outcomes, switch to WAL, WAL transactions with repeated pages, split writes and aborted-then-overwritten frames, application checkpoints PASSIVE/FULL/RESTART/TRUNCATE, LiteFS checkpoints, close/reopen, drop and recreate) at page sizes 512/1024/4096 (2048/8192 thorough) with sizes around 1-12, 254-259 and 510-514 pages; "
                "distinct = (operation, size class of the image, journal mode) reached; non-trivial = a position whose checksum is compared with the value recomputed from the raw files",
        "explanation": "The theorem covers all sizes and block layouts at once; correspondence ties the model to db.go on the same histories.",
        "assumes": ["page contents collide only if their CRC64 values do (pages are represented by their checksum in the model)", "histories are pager-protocol conformant (every page up to the new size is written)"],
        "trusted_base": ["Model/PageDB.v is hand-written; tie = cases_c04_*.v (whole histories) on every run"],
    },
    "C02": {
        "gen": ["ConstsGen.v"], "props_file": "Props/C02.v", "coq_targets": ["Props/C02.v"],
        "level_text": "Proof: for every rollback-mode pager program (any sequence of page writes, then finalisation) the file CommitJournal produces has TXID+1, pre-checksum = previous checksum, strictly sorted pages none beyond the new size or on the lock page, and applied to the image at the previous position yields exactly the database file SQLite now sees (Props/C02.v over Model/PageDB.v); the post-commit truncate is accepted only for the committed size. "
                      "Tie: every generated history (three finalisation modes, commit / rollback before and after spill / lock-only, grow, shrink, create from nothing) is re-executed by the model, which must reproduce every position and every new file's header, page list and page checksums.",
        "level_note": "Trusted: Coq kernel, harness pager simulator (not real SQLite; real SQLite through the mount needs kernel FUSE), ltx decoder used to read files. Modelled not verified: db.go/fuse text (DB-API level driver; FUSE dispatch is exercised in C07). Multi-segment journals are covered in C17 (reader), not here.",
        "technique": "Coq proof (dirty-set invariant + commit exactness) + vm_compute correspondence of whole histories + independent LTX/image oracle",
        "rule": "random histories of pager programs on one database of a real primary Store (no FUSE; the DB API calls the FUSE handlers make), observed after every step: position, image read raw from database+WAL, decoded LTX directory; rollback transactions in DELETE/TRUNCATE/PERSIST with outcomes commit / rollback-before-write / rollback-after-write / lock-only, sector sizes 512/1024/4096, page sizes 512..65536, sizes around 1-12, 254-259, 510-514 pages; distinct = (op, journal mode, outcome, size class before -> after); non-trivial = a finalisation whose new LTX file is decoded and applied to the previous reference image",
        "explanation": "Theorems quantify over all pager programs; correspondence ties model and code on the generated ones.",
        "assumes": ["pager programs follow SQLite's protocol (journal created before database writes; every page up to the new size written)"],
        "trusted_base": ["Model/PageDB.v hand-written; tie = cases_c02_*.v"],
    },
    "C03": {
        "gen": ["ConstsGen.v"], "props_file": "Props/C03.v", "coq_targets": ["Props/C03.v"],
        "level_text": "Proof: CommitWAL's file has TXID+1, pre-checksum = previous checksum, commit size from the commit frame, and contains exactly the LAST frame of every page the transaction wrote with the lock page skipped and nothing else; its checksum is the from-scratch value (Props/C03.v). "
                      "Whether a complete committed transaction lies at the WAL offset is decided at byte level (C17). Tie: histories with repeated pages, split header/body writes, rolled-back frames overwritten at the same offsets, WAL restarts after application (PASSIVE/FULL/RESTART/TRUNCATE) and LiteFS checkpoints, both checksum byte orders, grow/shrink across 256-page blocks are re-executed by the model.",
        "level_note": "Trusted: Coq kernel, harness WAL pager simulator (not real SQLite), ltx decoder. Modelled not verified: db.go text; frames with page numbers beyond the commit size (never produced by SQLite) are outside the model.",
        "technique": "Coq proof (last-frame-per-page exactness, checksum) + vm_compute correspondence of whole histories + independent LTX/image oracle",
        "rule": "random histories of pager programs on one database of a real primary Store (no FUSE; the DB API calls the FUSE handlers make), observed after every step: position, image read raw from database+WAL, decoded LTX directory; WAL transactions of 1-8 frames with repeated pages, split writes, aborted-then-overwritten frames, restarts with new salts, both byte orders; distinct = (op, size class before -> after); non-trivial = a WRITE-lock release whose effect (one new file or none) is compared with the reference",
        "explanation": "Theorems quantify over all frame lists; correspondence ties model and code.",
        "assumes": ["WAL writers follow SQLite's protocol (WRITE lock held while writing, page 1 rewritten when the size changes)"],
        "trusted_base": ["Model/PageDB.v hand-written; tie = cases_c03_*.v"],
    },
    "C09": {
        "gen": ["ConstsGen.v"], "props_file": "Props/C09.v", "coq_targets": ["Props/C09.v"],
        "level_text": "Proof: the chain predicate (consecutive files link by TXID and checksum, last file = current position) is an invariant of every operation of the model (local commits in both modes, drop, replicated apply, snapshot, checkpoint, restart, retention) and hence of every history; a received snapshot replaces the whole directory; retention never removes the newest file nor, with a backup client, a file at or above the high-water mark, for every age assignment; with ages non-decreasing in TXID order the remainder is a suffix (Props/C09.v). "
                      "File integrity and the temporary-file name filter are byte-level facts checked by decoding every file after every step and by planting stray *.tmp files before restarts.",
        "level_note": "Trusted: Coq kernel, harness, ltx decoder (integrity check). Modelled not verified: db.go/store.go text; wall-clock timing of the retention monitor (sweeps are invoked directly with chosen mtimes).",
        "technique": "Coq proof (chain invariant by induction over operations, retention lemmas) + vm_compute correspondence + directory decoding oracle",
        "rule": "random histories of pager programs on one database of a real primary Store (no FUSE; the DB API calls the FUSE handlers make), observed after every step: position, image read raw from database+WAL, decoded LTX directory; plus retention sweeps with chosen mtimes (monotone and non-monotone), with/without backup client and high-water marks, stray temporary files, drops and restarts; distinct = (op, number of files) and (files, backup, removed); non-trivial = a step after which the whole directory is decoded and the chain predicate evaluated",
        "explanation": "Invariant proved for all histories; the directory on disk is compared with the model's after every step.",
        "assumes": ["modification times of transaction files do not decrease with the TXID (needed only for the 'remainder is still a chain' part)"],
        "trusted_base": ["Model/PageDB.v hand-written; tie = cases_c09_*.v"],
    },
    "C06": {
        "gen": [], "props_file": "Props/C06.v", "coq_targets": ["Props/C06.v"],
        "level_text": "Proof: the primary's stream decision function (model of streamDB/streamLTX) sends an incremental file only when it starts at the client's TXID+1 with pre-checksum equal to the client's checksum; a client that is ahead, has the same TXID with another checksum, faces a pre-checksum mismatch, a missing file or is empty always gets a snapshot; files that do not extend a node's exact position, or whose body does not verify, are refused with the whole node state unchanged, on the stream and on /tx (Props/C06.v, all inputs). "
                      "Tie: a 42-cell matrix (on-chain / fork of length m at index k / ahead / behind a retention cut / empty / snapshot-only x primary progress) on a real loopback cluster; the sequence of files each replica was offered (from its OS-layer renames) is compared with the model's action list; forged files are posted to /tx and offered by a fake primary on the stream.",
        "level_note": "Trusted: Coq kernel, harness cluster (simulated lease service, real HTTP/2 h2c server+client), ltx library. Modelled not verified: http/server.go, store.go text. The equality of a position's image across nodes (NoCollision) is an assumption of the statement 'ends byte-identical', checked on the cluster by raw image comparison.",
        "technique": "Coq proof of the decision table and rejection lemmas + vm_compute correspondence of offered-file sequences + cluster oracle",
        "rule": "enumerated matrix: relation of replica to primary log (6 kinds) x common prefix k in {1,3} x own transactions m in {1,2} x primary progress n in {0,1,3} (x page size / WAL in thorough) = 42+ cells; 7 forged /tx bodies; 4 bad stream files; distinct = cell parameters; non-trivial = replica joined and its offered files and final image were compared",
        "explanation": "Decision theorems hold for all positions and logs; the matrix ties the model to the code.",
        "assumes": ["NoCollision: a (TXID, checksum) pair determines the image"],
        "trusted_base": ["Model/Repl.v hand-written; tie = cases_c06_*.v"],
    },
    "C01": {
        "gen": [], "props_file": "Props/C01.v", "coq_targets": ["Props/C01.v"],
        "level_text": "Proof (safety, under NoCollision): a replica holding the primary's image at its position still does after applying an incrementally streamed file, because such a file is only sent on top of the position it was built from (C06) and every file in a primary's log is an exact delta (C02/C03); the stream loop terminates within (primary TXID - client TXID)+1 iterations. "
                      "Partial: wall-clock convergence, the real kernel page cache and HTTP/2 flow control are runtime behaviour, exercised only. Tie: loopback clusters (1 primary, 2 replicas, LZ4 on/off) running pager histories with late joins, stops/restarts and zero-length retention sweeps; every replica is read the way an application would (under SQLite read locks, through a simulated page cache dropped only by LiteFS's Invalidator calls) and compared with the primary's image recorded at the position the replica reports; each replica's sequence of restarts and received files is re-executed by the PageDB model, which must reproduce every tx event.",
        "level_note": "Trusted: Coq kernel, harness cluster and simulated page cache, ltx library. Modelled not verified: store.go/http text; NoCollision assumed (XOR-of-CRC64 is not collision-free against an adversary). Not exercised in this round: primary changes mid-history, several databases, database filters.",
        "technique": "Coq proof (delta algebra over a ghost world map, loop bound) + vm_compute correspondence of replica timelines + cluster oracle with simulated page cache",
        "rule": "cluster scenarios x pager histories (both journal modes, sizes around 1-12 and 254-259 pages, page sizes 512/1024/4096); replica checks after every primary step; distinct = (image size, position class) at which a replica image was compared; non-trivial = replica image at a reported position compared with the primary's recorded image",
        "explanation": "Safety composition proved on the model; liveness as a step bound; runtime residue exercised.",
        "assumes": ["NoCollision", "an application reads under SQLite's read locks"],
        "trusted_base": ["Model/PageDB.v op_receive/op_open re-executed on replica timelines (cases_c01_*.v)"],
    },
    "C15": {
        "gen": ["ConstsGen.v"], "props_file": "Props/C15.v", "coq_targets": ["Props/C15.v"],
        "level_text": "Proof: on the model a drop advances the position by exactly one with the empty checksum, leaves a tombstone file chained to the previous position and no database/WAL content; a replica applying the tombstone, and any node restarting on it, reaches the same position with no files; a database recreated afterwards continues the TXID sequence with the empty pre-checksum; the chain is kept (Props/C15.v). "
                      "Tie: create/write/drop/recreate cycles (1-3 lives, same and different page sizes, both journal modes) on a loopback cluster with a connected replica, a replica stopped during the drop, a replica restarted after it and a late joiner; file presence, positions, images and the primary's multi-life history (re-executed by the PageDB model) are compared. Crash points inside the drop are covered by C05.",
        "level_note": "Trusted: Coq kernel, cluster harness. Modelled not verified: db.go/store.go text; the directory listing of the mount (ReadDirAll) is observed through its page-count criterion, not through FUSE.",
        "technique": "Coq proof (drop/tombstone/restart lemmas) + vm_compute correspondence + cluster oracle",
        "rule": "6 scenarios quick (36 thorough): lives x page sizes (512/1024/4096, changing across lives) x journal mode x replica lagging during the drop x late joiner; distinct = (life index, page size, mode); non-trivial = a life or a drop whose effect was observed on every node",
        "explanation": "Model-level theorems for all states; scenarios tie them to the code on all cluster nodes.",
        "assumes": ["a database that never learnt a page size cannot be dropped (Header.Validate rejects page size 0): documented precondition"],
        "trusted_base": ["Model/PageDB.v op_drop/op_apply/op_open; tie = cases_c15_*.v"],
    },
    "C16": {
        "gen": ["ConstsGen.v"], "props_file": "Props/C16.v", "coq_targets": ["Props/C16.v"],
        "level_text": "Proof: on the model a successful import is exactly one new transaction chained to the previous position whose application makes the database (hence an export, WAL bookkeeping being empty) return every imported page, the lock page excepted; an import that cannot be applied, or on a replica, returns the node state unchanged; export returns the committed image (last committed WAL version, else database page) with the position; the chain is kept (Props/C16.v). "
                      "Tie: 38+ cases (target absent / dropped / populated rollback / WAL with un-checkpointed commits; image of same or different page size, 1-260 pages, rollback or WAL header; truncated, one byte short, garbage, short header, empty) through the real /import and /export endpoints on a loopback primary with a replica: export bytes vs imported bytes (counters reset), replica image, chain, a follow-up transaction, and for every failed import: position, log, export bytes unchanged, no Exit, a copy of the data directory reopens.",
        "level_note": "Trusted: Coq kernel, cluster harness, ltx library. Modelled not verified: db.go text. The model is of the REPAIRED Import (see KNOWN_FINDINGS.txt F5/F6/F16); the change-counter reset is checked on the bytes by the harness only.",
        "technique": "Coq proof (apply_file, import exactness, failure atomicity) + vm_compute correspondence + endpoint oracle with reopen",
        "rule": "enumerated matrix target x image x defect class (38 quick, 62 thorough); distinct = case parameters; non-trivial = an import whose outcome was compared (bytes for successes, unchanged state + reopen for failures)",
        "explanation": "Theorems for all states and images; the matrix ties them to the endpoints.",
        "assumes": ["LiteFS does not validate the integrity of the imported database beyond its header and length (documented upstream)"],
        "trusted_base": ["Model/PageDB.v op_import/op_export; tie = cases_c16_*.v"],
    },
    "C17": {
        "gen": [], "props_file": "Props/C17.v", "coq_targets": ["Props/C17.v"],
        "level_text": "Proof: for every byte sequence the frames the model of WALReader accepts are exactly the (unique) longest prefix whose salts and cumulative checksums match the header, stated against an inductive file-format predicate; buildTxFrameOffsets returns the frames up to the first commit frame of that prefix, or nothing iff it has no commit frame; the journal segment loop terminates on arbitrary bytes; playback writes only pages 1..original-size except the lock page and restores the pre-image for journals made of pre-images (Props/C17.v). "
                      "Partial: the restoration theorem assumes SQLite's write-ahead rule (every overwritten page has its record) instead of deriving it from a pager model; multi-segment cut points are enumerated by the harness, not proved. "
                      "Tie: byte-exact differential runs of the real WALReader / JournalReader against the model on generated, truncated, bit-flipped, stale-salt, zeroed, bad-magic and random files; independent reference reader; Open() on simulator journals cut at every byte-length class (incl. the first transaction of a new database, no-sync and unsynced counts, damaged page numbers) and on arbitrary WAL bytes with and without a log.",
        "level_note": "Trusted: Coq kernel, harness generators and reference reader. Modelled not verified: litefs.go/db.go text. Real SQLite journals are not used (pager simulator only). The model is of the repaired readers (KNOWN_FINDINGS F2, F3, F18).",
        "technique": "Coq proof (induction over frames against an inductive format predicate; termination by offset measure) + byte-exact vm_compute correspondence + Open()-level oracle",
        "rule": "WAL files: header + 0-5 frames at page sizes 512/1024, both byte orders, x {valid, truncated anywhere, bit flip in frames/header, stale-generation salts, zeroed region, bad magic/version, zero file, random}; journals: 1-3 segments, sector 512/1024/4096, counts exact/0/-1, torn final record x {valid, truncated, bit flip, zero header, hostile sector/page size/count, reader page size 0, random}; hot-journal Opens at 14 cut classes; distinct = (kind, sizes, outcome class); non-trivial = reader output compared with model and reference, or Open() result compared with the pre-image",
        "explanation": "Theorems quantify over all byte strings; correspondence ties the byte-level model to the Go readers.",
        "assumes": ["SQLite's write-ahead rule for journals", "journal record checksums are the weak SQLite nonce sums (collisions not excluded)"],
        "trusted_base": ["Model/WalJournal.v hand-written; tie = cases_c17_*.v"],
    },
    "C11": {
        "gen": ["RWMutexGen.v", "ConstsGen.v"], "props_file": "Props/C11.v", "coq_targets": ["Props/C11.v"],
        "level_text": "Proof: over the lock table built from twelve instances of the RWMutex model generated from rwmutex.go, for any number of owners and every reachable table: a granted internal write lock holds every conflicting lock exclusively with all other owners unlocked on them (both modes), every attempt of another owner on such a lock is refused without change until release, a refused attempt releases everything and touches nobody, the attempt never gets stuck; CKPT is granted only when no other owner holds WRITE; WAL writes are allowed iff some owner holds WRITE exclusively; byte ranges map to exactly the contained lock bytes, never HALT (Props/C11.v). "
                      "Tie: the lock-byte constants and the RWMutex workers are regenerated from the source; TryLocks/TryRLocks/Unlock/CanLock/CanRLock/TryAcquireWriteLock and the WAL-write guard of the real DB are driven with random sequences of 3 application owners plus internal writers in both modes and compared call by call with the model and with an independent POSIX lock table.",
        "level_note": "Trusted: Coq kernel, translator (RWMutex, constants), harness. Modelled not verified: db.go TryLocks..TryAcquireWriteLock text (hand-written model; the script is not generated yet). Observation: WriteWALAt checks that SOME owner holds WRITE exclusively, not that the writing owner does.",
        "technique": "Coq proof (per-lock invariant lifted to the table, script lemma by last action per lock) + generated RWMutex model + vm_compute correspondence",
        "rule": "random sequences (10-50 calls quick, 10-130 thorough) of try-exclusive / try-shared / unlock / can-lock on protocol-typical lock sets by 3 owners, internal write-lock attempts and releases, WAL-write probes, in rollback and WAL mode; 400 byte-range pairs around the lock bytes; distinct = (mode, length) classes; non-trivial = each call compared with the lock rules and the model",
        "explanation": "Theorems quantify over all tables, owners and interleavings (others' steps are arbitrary primitive operations); the harness ties the table model to db.go.",
        "assumes": ["application connections follow SQLite's locking protocol (which locks a reader/writer holds)"],
        "trusted_base": ["Model/Locks.v hand-written over Gen/RWMutexGen.v; tie = cases_c11_*.v"],
    },
    "C19": {
        "gen": [], "props_file": "Props/C19.v", "coq_targets": ["Props/C19.v"],
        "level_text": "Proof (full on the decision function): for every request, role and every sequence of positions the poll loop can observe, a read with a non-zero cookie and the tracked database present is forwarded only at an observation that has reached the cookie, else it ends in a gateway time-out; a write or always-forward request on a node that is not primary is answered with a replay or 503 and never forwarded unless the path is a passthrough; the cookie after a write on the primary is the position read after the application answered; reads without a usable cookie are forwarded at once (Props/C19.v). "
                      "Tie: the real ProxyServer in front of a stub application on a loopback cluster (primary, connected replica, node with no primary): cross product method x path class x cookie class x role x database present, plus requests whose awaited transaction replicates while the proxy polls; the stub records the database position at arrival.",
        "level_note": "Trusted: Coq kernel, harness. Modelled not verified: http/proxy_server.go text; wall-clock poll spacing and time-outs are runtime behaviour (a slow replication within the poll window is recorded, not failed).",
        "technique": "Coq proof over the decision function with an arbitrary observation sequence + vm_compute correspondence + arrival-position oracle",
        "rule": "3 roles x 6 methods x 4 path classes x 6 cookie classes x database present/absent (one third sampled in quick, all in thorough) + timing cases; distinct = request class; non-trivial = the response, the arrival at the stub and its recorded position were compared",
        "explanation": "Decision theorems for all inputs; the cross product ties them to the server.",
        "assumes": ["positions on a primary never decrease", "a local commit completes before the triggering file operation returns (C02/C03)"],
        "trusted_base": ["Model/Proxy.v hand-written; tie = cases_c19_*.v"],
    },
    "C20": {
        "gen": [], "props_file": "Props/C20.v", "coq_targets": ["Props/C20.v"],
        "level_text": "Proof (partial; one refuted class = known finding): over the abstract request (endpoint, method, name / id / nodeID class, Litefs-Id = self, protocol, body usable, halt lock held) x role, [respond] is total with one of eight statuses; every invalid request (malformed, not allowed for the role, or referring to a missing database / lock / node - defined from the property, not from the handlers) has effect ENone, EXCEPT POST /import of an unusable body for a new name on the primary (C20_refuted, exactly characterised by C20_refuted_class); invalid requests are answered >= 400 except the no-op release of a lock that is not held; an effect needs authority (apply: primary + holder's lock id; grant: primary + free lock; release: the lock's id) (Props/C20.v). "
                      "Tie: the real h2c server of a primary, a connected replica and a node with no primary is sent the cross product over HTTP/1.1 and h2c with empty / garbage / truncated / well-formed / oversized bodies; per request the harness requires an HTTP response, a live GET /info afterwards, and compares status, changed-or-not (databases, positions, LTX listings, lock states, halt locks, database file hash, files inside and outside the data directory) and the invalid-classification with the model; at the end the primary must commit, the replica follow, and every node restart on its directory.",
        "level_note": "Trusted: Coq kernel, harness (its request-to-class mapping). Modelled not verified: http/server.go text; that the Go runtime delivers the response and no handler panics or blocks is observed per request, not proved. Not exercised: a valid handoff / promote (moves the lease: C08), /import and /export while a halt lock is held (they wait for it: C10/C13), pprof/metrics/debug endpoints.",
        "technique": "Coq proof by exhaustive case analysis over the abstract request + vm_compute correspondence + live-server oracle (response, liveness, before/after state diff)",
        "rule": "3 roles x (14 paths x 6 methods x 2 protocols + per-endpoint cross product of the parameters it reads, 22 percent sampled in quick, all in thorough); distinct = (path, method, class, role); non-trivial = a response was required and the node state was diffed before/after",
        "explanation": "The theorem covers every request class at once; the harness shows the server realises the class table and survives the concrete bytes.",
        "assumes": ["the rig's replica is not a candidate; the other nodes are"],
        "trusted_base": ["Model/Api.v hand-written; tie = cases_c20_*.v"],
    },
    "C13": {
        "gen": ["RWMutexGen.v", "ConstsGen.v"], "props_file": "Props/C13.v", "coq_targets": ["Props/C13.v"],
        "level_text": "Proof (full on the protocol model; real-time races partial): over all event sequences (grant with delivered or lost response, local write, checkpoint, replica commit with delivered or lost acknowledgement, release sent or lost, expiry, foreign POST /tx) the invariant [Inv] (the primary's log is a linked chain, both replicas hold a suffix) is preserved; while a lock is granted local writes and checkpoints are refused and the log moves only through a forward carrying the lock's id (and the grant's guard set keeps every other owner out of RESERVED / WRITE / CKPT on the GENERATED RWMutex lock table of C11); a successful grant puts the replica at exactly the granted = the primary's position; a commit that returns on the replica has been applied by the primary under the same id and checksum on the same history (rlog = plog before and after); after every event and the stream that follows both replicas hold the primary's whole history (also after a lost acknowledgement); forwards need the current lock id and must extend the history; acquire is idempotent, another id is refused; after release or expiry the primary writes again and the former holder is refused (Props/C13.v). "
                      "Tie: a real primary, a real replica whose HTTP client can lose the responses of POST /halt and POST /tx and drop DELETE /halt, and a real observer replica (real h2c servers / stream); fixed scripts for the schedules the property names plus random event histories; after each event the harness compares result code, the three positions, the primary's granted lock id and the replica's believed lock id with the model, and checks the property's own predicates (no local commit or checkpoint while the lock is held, position at grant, primary == replica when the commit returns, holder only, convergence and byte-identical images at the end, no Exit).",
        "level_note": "Trusted: Coq kernel, go2coq (lock table), harness. Rollback-journal mode only on the committing replica: in WAL mode a refused forward ends in Exit(99) by design (db.go CommitWAL) and is not exercised. Not modelled: the TTL clock (expiry is an explicit event made by a verif hook + the real EnforceHaltLockExpiration), a release or expiry racing the apply inside one /tx request (the second TODO(fwd) in handlePostTx), primary change while a halt is held.",
        "technique": "Coq proof by invariant over event histories + lock-table theorem reuse + vm_compute correspondence of real three-node histories with an unreliable client",
        "rule": "7 fixed scripts + 8 (quick) / 80 (thorough) random histories of 10-19 events on a fresh 3-node cluster each; evaluations = events; distinct = histories; non-trivial = every event's code, positions and lock ids were compared and the property predicates evaluated",
        "explanation": "The theorems quantify over all event sequences including lost messages; the histories tie the step function to the code.",
        "assumes": ["lock ids identify their holder (ids are random int64 chosen by the replica)", "NoCollision: a position determines a history"],
        "trusted_base": ["Model/Halt.v hand-written; tie = cases_c13_*.v; Model/Locks.v over Gen/RWMutexGen.v"],
    },
    "C07": {
        "gen": ["ConstsGen.v"], "props_file": "Props/C07.v", "coq_targets": ["Props/C07.v"],
        "level_text": "Proof (full on the model for quiet nodes; one runtime window partial): for every sequence of application-level operations (page write, database truncate, journal commit by delete / truncate / header overwrite, WAL header write, WAL truncate / remove, WAL commit at unlock, checkpoint, drop, import) on a node without write authority and without WAL content of its own, the view (logical pages 1..pageN, position, transaction log, size, journal mode) is unchanged and every operation that would change it is refused; a commit step (journal, WAL, drop, import) that begins after write authority is lost is refused and publishes nothing in ANY state; page, journal and WAL writes are answered EACCES and no handler that changes the database answers success (Props/C07.v). "
                      "Tie: the real FUSE node and handle methods of a replica are called in-process (VerifNewUnmounted, no kernel mount) for every handler x pager-protocol lock state (none / SHARED / RESERVED / EXCLUSIVE) x journal mode in shuffled order, plus POST /import; before/after the harness compares database bytes, position and LTX listing, the errno with the handler table, and replays the replica's life (received files, then the operations) on the PageDB model; a primary is demoted or loses its lease between the last page write and the commit step of a local transaction (rollback journal and WAL) and must publish nothing.",
        "level_note": "Trusted: Coq kernel, go2coq (constants), harness. The FUSE kernel protocol itself is not exercised (handlers are called directly). Not covered: a demoted primary that still has un-checkpointed WAL frames, in the window before role-change recovery runs - TruncateWAL / RemoveWAL are not gated by the code there and the model's [quiet] excludes it. A WAL commit step after loss of authority ends in Exit(99) by design (refused, not published).",
        "technique": "Coq proof over the PageDB operation model + handler errno table + vm_compute correspondence + in-process FUSE handler harness with before/after diff",
        "rule": "2 (quick) / 10 (thorough) clusters x 2 databases (journal, WAL) x 12 handlers x 4 lock states (two thirds sampled in quick) + imports + 4 / 24 mid-transaction demotions; distinct = (handler, mode, lock state) and demotion kind; non-trivial = errno, bytes, position and log compared",
        "explanation": "The theorem covers all operation sequences; the harness shows the handlers realise the gates.",
        "assumes": ["a replica's own WAL is empty between stream applies (role change checkpoints it)"],
        "trusted_base": ["Model/PageDB.v, Model/ReadOnly.v hand-written; tie = cases_c07_*.v, cases_c07h_*.v"],
    },
    "C05": {
        "gen": ["ConstsGen.v"], "props_file": "Props/C05.v", "coq_targets": ["Props/C05.v"],
        "level_text": "Proof (rollback-journal commit, replica apply, snapshot: full on the durable-state model; WAL commit / checkpoint / drop: oracle only): for every consistent disk, every transaction program in which a page of the original file is journaled with its original content before it is overwritten (any interleaving, any number of spills, growth and shrink), a transaction file that applied to the previous image gives the new image and carries every appended page (C02), and EVERY prefix of the durable step list, Open's recovery (roll the hot journal back, re-apply the newest file) yields exactly the image before or the image after and the position of the newest transaction file - decided by the rename alone; the same for a replica applying a streamed file and a snapshot; recovery leaves no hot journal and is idempotent (Props/C05.v). "
                      "Tie: the data directory is copied at every call through the injectable OS layer and at every internal page write / file truncate (verif hook) during local commits in the three journal modes (first transaction, grow, shrink, spill beyond the final size, rollback before / after spill, lock-only), WAL commits, application and LiteFS checkpoints, mode switches, drops, and on a replica during a snapshot apply and incremental applies; a fresh store is opened on EVERY copy: Open succeeds, position = newest valid LTX file = position before or after the operation, image and from-scratch checksum = the reference image of that position, no hot journal, no WAL content, a result that was returned is not lost, a follow-up commit works; each journal-mode crash directory is also encoded as the model's [disk] and [recover] is compared with what the real Open produced.",
        "level_note": "Trusted: Coq kernel, harness (its journal parser reads the journals its own pager wrote). Process death only: completed writes are assumed in the page cache and ordered; power loss / torn pages / fsync ordering are not modelled. Crash points inside journal record writes and LTX encoding (file-handle writes that do not pass the OS layer) are not enumerated, as the property's quantifier defines. WAL-mode recovery (WAL trimmed to the newest LTX, checkpoint) has no theorem.",
        "technique": "Coq proof over all prefixes of the durable step lists (crash refinement) + vm_compute correspondence of recover with the real Open on every crash directory + crash-point enumeration oracle",
        "rule": "4 (quick) / 30 (thorough) local histories of 9-13 operations + 2 / 12 replica scenarios; every step boundary of every operation is one crash point (about 650 quick, 5000 thorough); distinct = operation shape; non-trivial = a store was opened on the copy and position, image, checksum, journal and WAL were checked",
        "explanation": "The theorem covers all transaction shapes and all crash points; the enumeration ties recover to Open and covers the WAL paths.",
        "assumes": ["SQLite journals a page with its original content before overwriting it", "process death (no power loss)"],
        "trusted_base": ["Model/Crash.v hand-written; tie = cases_c05_*.v"],
    },
    "C08": {
        "gen": [], "props_file": "Props/C08.v", "coq_targets": ["Props/C08.v"],
        "level_text": "Proof (full on the two decision functions; wall-clock and the Consul mapping partial): for every combination of answers of the lease service, one iteration of the election loop never calls Acquire on a non-candidate (which becomes primary only through a handed-over lease), refuses a lease that carries another cluster's id without asking anything else, never lets a node without a cluster id lead an initialised cluster, makes the node primary only with a granted or handed-over lease and a follower only of a primary the service names; for every sequence of renewal answers, demotions, handoff requests and shutdown the primary's loop destroys the lease on every exit except a completed handoff, completes a handoff only for a connected target, ends the role at once when a renewal reports the lease gone, and when renewals fail ends it later than TTL and no later than TTL + 1 s after the last successful renewal (Props/C08.v). "
                      "Tie: a real Store runs monitorLease against a scripted Leaser / Lease / Client: the cross product of the service's answers (one quarter sampled in quick) with the calls it makes and the role it takes compared with [iterate]; ten wall-clock scripts of the primary loop (TTL 3 s: expired, errors, error-then-ok, demote, handoff to a connected / unconnected subscriber / refused by the lease, shutdown) compared with [primary_run], checking IsPrimary, PrimaryCtx cancellation, Lease.Close and the time the role ends; a real three-node cluster on the simulated TTL lease service (demotion, deletion of the lease at the service, a node carrying another cluster's id).",
        "level_note": "Trusted: Coq kernel, harness. NOT covered: the Consul leaser against a fake Consul HTTP endpoint (consul/consul.go session / KV mapping is not exercised or modelled); scheduling jitter beyond the loop's own arithmetic (tolerance 0.7 s). Observation, not counted as a violation of the property as worded: with failing renewals the node keeps the role until TTL + 1 s after its last successful renewal (off by the 1 s retry period and a final 1 s sleep), i.e. about 1 s longer than an exact-TTL lease service keeps the lease.",
        "technique": "Coq proof by case analysis over the service's answers and by induction over renewal histories + vm_compute correspondence against a real Store on a scripted lease service",
        "rule": "cross product of 2 x 2 x 4 x 3 x 3 x 3 x 2 answers (about 130 sampled in quick, all 700+ in thorough) + 10 primary-loop scripts + 1 / 4 cluster scenarios; distinct = answer combination / script; non-trivial = calls, role, context, lease destruction and timing were compared",
        "explanation": "Decision theorems for all answers; the scripted service ties them to monitorLease.",
        "assumes": ["the lease service's answers are the only inputs of the election loop"],
        "trusted_base": ["Model/Lease.v hand-written; tie = cases_c08_*.v, cases_c08p_*.v"],
    },
}
