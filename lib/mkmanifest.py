#!/usr/bin/env python3
"""Regenerates /verif/MANIFEST.json from lib/props.py (keeps it schema-valid at all times)."""
import json, os, sys
ROOT = os.path.dirname(os.path.dirname(os.path.abspath(__file__)))
sys.path.insert(0, os.path.join(ROOT, "lib"))
from props import PROPS, NOT_APPLICABLE, HOOK_COMMITS

ids = [json.loads(l)["id"] for l in open(os.path.join(ROOT, "properties.jsonl"))]
checks = []
for pid in ids:
    if pid not in PROPS:
        continue
    P = PROPS[pid]
    checks.append({
        "property_id": pid,
        "quick_cmd": "./check %s --tier quick" % pid,
        "thorough_cmd": "./check %s --tier thorough" % pid,
        "evidence_file": "/verif/evidence/%s.json" % pid,
        "replay_cmd_template": "./check %s --replay {path}" % pid,
        "engine": "coq+lfsverif",
        "level_claimed": {"category": P.get("level", "proof"), "text": P["level_text"], "design_ref": P.get("design_ref", "DESIGN.md §7 " + pid)},
        "level_note": P["level_note"],
        "technique": P.get("technique", "machine-checked proof in Coq 8.16.1 over an executable Gallina model, tied to /repo by translator and/or vm_compute correspondence"),
    })
na = [{"property_id": pid, "reason": NOT_APPLICABLE.get(pid, "check not built yet; planned in DESIGN.md §7")} for pid in ids if pid not in PROPS]
m = {
    "version": 1,
    "setup_cmd": "./setup.sh",
    "hooks": {
        "guard": "verif",
        "enable": "go build -tags verif (harness module /verif/harness with replace github.com/superfly/litefs => /repo)",
        "baseline_off_cmd": "cd /repo && GOFLAGS=-mod=mod GOPROXY=off GOSUMDB=off go test -vet=off -count=1 -timeout 25m ./...",
        "source_commits": HOOK_COMMITS,
        "add_only": True,
    },
    "engines": [
        {"name": "coq", "path": "/verif/coq", "serves_properties": [c["property_id"] for c in checks],
         "kind_free_text": "Coq 8.16.1 development: generated (tools/go2coq) and hand-written Gallina models, proofs, Props/Cnn.v theorem files"},
        {"name": "lfsverif", "path": "/verif/harness", "serves_properties": [c["property_id"] for c in checks],
         "kind_free_text": "Go harness built against /repo with -tags verif: drives the real code, independent oracles, emits cases_*.v for the vm_compute correspondence"},
    ],
    "checks": checks,
    "not_applicable": na,
    "notes": "Every check = translator + Coq re-check + correspondence + oracle; see DESIGN.md. KNOWN_FINDINGS.txt lists recorded defects.",
}
json.dump(m, open(os.path.join(ROOT, "MANIFEST.json"), "w"), indent=1)
print("MANIFEST.json: %d checks, %d not_applicable" % (len(checks), len(na)))
